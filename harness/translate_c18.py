"""
Source-to-Lean translation of the loop of `HomotopyMixin.optimize` (second tie for C18, besides the
correspondence check).  On every run of the C18 check the method is parsed from
`$RTC_REPO/src/rtctools/optimization/homotopy_mixin.py`, its `while` body is executed symbolically
over the model's state `C18.St`, and `lean/RtcVerif/Gen/HomotopyStep.lean` is (re)generated with

  initGen      the state before the first pass          + theorem  initGen_eq_model
  stepGen      one pass through the loop body            + theorem  stepGen_eq_model   (= C18.step)
  optimizeGen  first `while` test + run of stepGen       + theorem  optimizeGen_eq_model (= C18.optimize)

so a change of the source breaks a proof obligation (or the translator rejects the code); the check
then goes on to its failing-input search as usual.

Which Python statement becomes which model update (anything else is REJECTED):

  before the loop
    if preprocessing: self.pre()                       no model state
    options = self.homotopy_options()                  `options[...]` read as the fields of `o : Opts`
    <d> = options["delta_theta_0"]                     the local <d> (any name) IS the field `delta`; init o.delta0
    self.__theta = options["theta_start"]              field `theta`; init o.thetaStart
    (never assigned before the loop)                   acc := none, linear := true, cleared := 0, solves := []
    while <test>:                                      first test: `optimizeGen`; later tests: end of `stepGen`
  in the loop body
    logger.<level>(...)                                nothing
    <msg> = "...".format(...)                          nothing (a message local, used by logging only)
    if log_solver_failure_as_error: <logging only>     nothing
    success = super().optimize(...)                    `C18.push o s ok` (log entry with the seed source),
                                                       `success` := the oracle value `ok` (exactly once per pass)
    if success: / else:                                split on `ok`; `success` is true / false inside
    self.__results = [self.extract_results(m) for m in range(self.ensemble_size)]
                                                       acc := some theta
    self.check_collocation_linearity = False           } linear := false   (both flags, or neither,
    self.linear_collocation = False                    }                    in one block)
    self.clear_transcription_cache()                   cleared := cleared + 1
    self.__theta <op>= e / <d> <op>= e / = e           theta / delta := arithmetic over theta, delta, literals, options[...]
    if <cmp>: ... break ...                            split; `break` = `(state, .finished success)`
    if <cmp>: <no break inside>                        state-valued `if` (this is how `mark` and the clamp read)
    end of body                                        the `while` test: running / `.finished success`
  after the loop
    if postprocessing: self.post()                     no model state
    return success                                     the flag carried by `.finished`
  comparisons: == != < <= > >= between such arithmetic expressions; floats are read as exact rationals
"""
import ast
import os
from fractions import Fraction

from .common import LEAN_DIR, REPO
from .translate import TranslationError, _find_method

FIELDS = ("theta", "delta", "acc", "linear", "cleared", "solves")
OPTS = {"theta_start": "o.thetaStart", "delta_theta_0": "o.delta0", "delta_theta_min": "o.deltaMin"}
CMP = {ast.Eq: "=", ast.NotEq: "≠", ast.Lt: "<", ast.LtE: "≤", ast.Gt: ">", ast.GtE: "≥"}
BIN = {ast.Add: "+", ast.Sub: "-", ast.Mult: "*", ast.Div: "/"}
FLAGS = ("check_collocation_linearity", "linear_collocation")


def _dump(node, n=100):
    try:
        return ast.unparse(node)[:n]
    except Exception:
        return ast.dump(node)[:n]


def _has_break(stmts):
    for st in stmts:
        for node in ast.walk(st):
            if isinstance(node, ast.Break):
                return True
    return False


def _is_self_attr(node, name=None):
    return isinstance(node, ast.Attribute) and isinstance(node.value, ast.Name) and node.value.id == "self" \
        and (name is None or node.attr == name)


def _is_logging(st):
    return isinstance(st, ast.Expr) and isinstance(st.value, ast.Call) and isinstance(st.value.func, ast.Attribute) \
        and isinstance(st.value.func.value, ast.Name) and st.value.func.value.id == "logger"


class _State:
    """symbolic `St`: a Lean variable plus field overrides (Lean terms over that variable)"""

    def __init__(self, base, over=None, flags=None):
        self.base = base
        self.over = dict(over or {})
        self.flags = set(flags or ())  # linear flags switched off since the last check point

    def copy(self):
        return _State(self.base, self.over, self.flags)

    def get(self, f):
        return self.over.get(f, "%s.%s" % (self.base, f))

    def term(self):
        if not self.over:
            return self.base
        return "{ %s with %s }" % (self.base, ", ".join("%s := %s" % (f, self.over[f]) for f in FIELDS if f in self.over))


class _Tr:
    def __init__(self, delta_name, options_name):
        self.delta_name = delta_name
        self.options_name = options_name
        self.msg_locals = set()
        self.nvar = 0
        self.solves = 0

    def fresh(self):
        self.nvar += 1
        return "s%d" % self.nvar

    # -- expressions ---------------------------------------------------------------------------
    def num(self, node, S):
        if isinstance(node, ast.Constant) and isinstance(node.value, (int, float)) and not isinstance(node.value, bool):
            q = Fraction(node.value)
            return "%d" % q.numerator if q.denominator == 1 else "(%d / %d : Rat)" % (q.numerator, q.denominator)
        if _is_self_attr(node, "__theta"):
            return S.get("theta")
        if isinstance(node, ast.Name) and node.id == self.delta_name:
            return S.get("delta")
        if isinstance(node, ast.Subscript) and isinstance(node.value, ast.Name) and node.value.id == self.options_name \
                and isinstance(node.slice, ast.Constant) and node.slice.value in OPTS:
            return OPTS[node.slice.value]
        if isinstance(node, ast.BinOp) and type(node.op) in BIN:
            return "(%s %s %s)" % (self.num(node.left, S), BIN[type(node.op)], self.num(node.right, S))
        if isinstance(node, ast.UnaryOp) and isinstance(node.op, ast.USub):
            return "(-%s)" % self.num(node.operand, S)
        raise TranslationError("unsupported arithmetic expression `%s`" % _dump(node))

    def cond(self, node, S):
        if isinstance(node, ast.Compare) and len(node.ops) == 1 and type(node.ops[0]) in CMP:
            return "%s %s %s" % (self.num(node.left, S), CMP[type(node.ops[0])], self.num(node.comparators[0], S))
        raise TranslationError("unsupported condition `%s`" % _dump(node))

    # -- simple statements: update S in place; True when handled --------------------------------
    def simple(self, st, S, succ):
        if _is_logging(st) or isinstance(st, ast.Pass):
            return True
        if isinstance(st, ast.Expr) and isinstance(st.value, ast.Constant) and isinstance(st.value.value, str):
            return True
        if isinstance(st, ast.Expr) and isinstance(st.value, ast.Call):
            f = st.value.func
            if _is_self_attr(f, "clear_transcription_cache") and not st.value.args and not st.value.keywords:
                S.over["cleared"] = "%s + 1" % S.get("cleared")
                return True
            raise TranslationError("call not in the table: `%s`" % _dump(st))
        if isinstance(st, ast.Assign) and len(st.targets) == 1:
            t, v = st.targets[0], st.value
            if isinstance(t, ast.Name) and t.id == "success":
                return False  # the solve: handled by `block` (not allowed anywhere else)
            if isinstance(t, ast.Name) and isinstance(v, ast.Call) and isinstance(v.func, ast.Attribute) \
                    and v.func.attr == "format" and isinstance(v.func.value, ast.Constant) \
                    and isinstance(v.func.value.value, str) and t.id not in (self.delta_name, "success", self.options_name):
                self.msg_locals.add(t.id)
                return True
            if _is_self_attr(t, "__results"):
                ok = isinstance(v, ast.ListComp) and isinstance(v.elt, ast.Call) and _is_self_attr(v.elt.func, "extract_results") \
                    and len(v.generators) == 1 and isinstance(v.generators[0].iter, ast.Call) \
                    and isinstance(v.generators[0].iter.func, ast.Name) and v.generators[0].iter.func.id == "range" \
                    and len(v.generators[0].iter.args) == 1 and _is_self_attr(v.generators[0].iter.args[0], "ensemble_size") \
                    and not v.generators[0].ifs
                if not ok:
                    raise TranslationError("self.__results is not [extract_results(m) for every member]: `%s`" % _dump(v))
                if succ != "true":
                    raise TranslationError("self.__results stored where `success` is not known to be True")
                S.over["acc"] = "some %s" % S.get("theta")
                return True
            if _is_self_attr(t) and t.attr in FLAGS:
                if not (isinstance(v, ast.Constant) and v.value is False):
                    raise TranslationError("linear flag set to something else than False: `%s`" % _dump(st))
                S.over["linear"] = "false"
                S.flags.add(t.attr)
                return True
            if _is_self_attr(t, "__theta"):
                S.over["theta"] = self.num(v, S)
                return True
            if isinstance(t, ast.Name) and t.id == self.delta_name:
                S.over["delta"] = self.num(v, S)
                return True
            raise TranslationError("assignment not in the table: `%s`" % _dump(st))
        if isinstance(st, ast.AugAssign) and type(st.op) in BIN:
            if _is_self_attr(st.target, "__theta"):
                f = "theta"
            elif isinstance(st.target, ast.Name) and st.target.id == self.delta_name:
                f = "delta"
            else:
                raise TranslationError("assignment not in the table: `%s`" % _dump(st))
            S.over[f] = "(%s %s %s)" % (S.get(f), BIN[type(st.op)], self.num(st.value, S))
            return True
        return False

    def check_flags(self, S):
        if S.flags and S.flags != set(FLAGS):
            raise TranslationError("only %s switched off (the model's `linear` stands for both flags)" % sorted(S.flags))
        S.flags = set()

    def bind(self, S, lines):
        """give the current state a name of its own"""
        if S.over:
            v = self.fresh()
            lines.append("let %s : St := %s" % (v, S.term()))
            return _State(v, None, S.flags)
        return S

    # -- blocks ----------------------------------------------------------------------------------
    def pure_block(self, stmts, S, succ):
        """a block without `break` (and without the solve): returns the state after it"""
        for st in stmts:
            if self.simple(st, S, succ):
                continue
            if isinstance(st, ast.If) and self.only_logging(st):
                continue
            raise TranslationError("statement not allowed inside a state-valued `if`: `%s`" % _dump(st))
        self.check_flags(S)
        return S

    def only_logging(self, st):
        return isinstance(st, ast.If) and isinstance(st.test, ast.Name) and st.test.id == "log_solver_failure_as_error" \
            and all(_is_logging(x) for x in st.body + st.orelse)

    def block(self, stmts, S, succ, guard, ind):
        """stmts, then the `while` test; returns Lean text (a term of type St × Status)"""
        pad = "  " * ind
        lines = []
        S = S.copy()
        for i, st in enumerate(stmts):
            if self.simple(st, S, succ):
                continue
            # success = super().optimize(...)
            if isinstance(st, ast.Assign) and len(st.targets) == 1 and isinstance(st.targets[0], ast.Name) \
                    and st.targets[0].id == "success":
                v = st.value
                if not (isinstance(v, ast.Call) and isinstance(v.func, ast.Attribute) and v.func.attr == "optimize"
                        and isinstance(v.func.value, ast.Call) and isinstance(v.func.value.func, ast.Name)
                        and v.func.value.func.id == "super" and not v.func.value.args):
                    raise TranslationError("`success` assigned from something else than super().optimize(...)")
                kw = {k.arg: k.value for k in v.keywords}
                for name in ("preprocessing", "postprocessing"):
                    if not (name in kw and isinstance(kw[name], ast.Constant) and kw[name].value is False):
                        raise TranslationError("inner optimize() not called with %s=False" % name)
                if self.solves:
                    raise TranslationError("more than one solve per pass")
                self.solves += 1
                self.check_flags(S)
                S = self.bind(S, lines)
                nv = self.fresh()
                lines.append("let %s : St := C18.push o %s ok" % (nv, S.term()))
                S = _State(nv)
                succ = "ok"
                continue
            if isinstance(st, ast.Break):
                self.check_flags(S)
                if succ is None:
                    raise TranslationError("break before `success` is assigned")
                lines.append("(%s, .finished %s)" % (S.term(), succ))
                return "\n".join(pad + l for l in lines)
            if isinstance(st, ast.If):
                if self.only_logging(st):
                    continue
                rest = stmts[i + 1:]
                self.check_flags(S)
                if _has_break([st]):
                    S = self.bind(S, lines)
                    if isinstance(st.test, ast.Name) and st.test.id == "success":
                        if succ != "ok":
                            raise TranslationError("`if success` where success is not the outcome of this pass's solve")
                        c, sa, sb = "ok = true", "true", "false"
                    else:
                        c, sa, sb = self.cond(st.test, S), succ, succ
                    a = self.block(st.body + rest, S, sa, guard, ind + 1)
                    b = self.block(st.orelse + rest, S, sb, guard, ind + 1)
                    lines.append("if %s then" % c)
                    out = "\n".join(pad + l for l in lines) + "\n" + a + "\n" + pad + "else\n" + b
                    return out
                if isinstance(st.test, ast.Name) and st.test.id == "success":
                    # no break inside, but the branches may store results etc.: split all the same
                    if succ != "ok":
                        raise TranslationError("`if success` where success is not the outcome of this pass's solve")
                    S = self.bind(S, lines)
                    a = self.block(st.body + rest, S, "true", guard, ind + 1)
                    b = self.block(st.orelse + rest, S, "false", guard, ind + 1)
                    lines.append("if ok = true then")
                    return "\n".join(pad + l for l in lines) + "\n" + a + "\n" + pad + "else\n" + b
                # state-valued if
                S = self.bind(S, lines)
                c = self.cond(st.test, S)
                A = self.pure_block(st.body, S.copy(), succ)
                B = self.pure_block(st.orelse, S.copy(), succ)
                nv = self.fresh()
                lines.append("let %s : St := if %s then %s else %s" % (nv, c, A.term(), B.term()))
                S = _State(nv)
                continue
            raise TranslationError("statement not in the table: `%s`" % _dump(st))
        # end of the body: the `while` test
        self.check_flags(S)
        if succ is None:
            raise TranslationError("a pass without a solve")
        S = self.bind(S, lines)
        lines.append("if %s then (%s, .running) else (%s, .finished %s)" % (self.cond(guard, S), S.term(), S.term(), succ))
        return "\n".join(pad + l for l in lines)


def translate_homotopy():
    path = os.path.join(REPO, "src", "rtctools", "optimization", "homotopy_mixin.py")
    fn = _find_method(ast.parse(open(path).read()), "HomotopyMixin", "optimize")
    args = [a.arg for a in fn.args.args]
    if args[:1] != ["self"] or set(args[1:]) != {"preprocessing", "postprocessing", "log_solver_failure_as_error"}:
        raise TranslationError("unexpected signature %r" % args)
    options_name = delta_name = None
    theta0 = delta0 = None
    loop = None
    after = []
    for st in fn.body:
        if loop is not None:
            after.append(st)
            continue
        if isinstance(st, ast.Expr) and isinstance(st.value, ast.Constant):
            continue
        if _is_logging(st):
            continue
        if isinstance(st, ast.If) and isinstance(st.test, ast.Name) and st.test.id == "preprocessing" and not st.orelse \
                and len(st.body) == 1 and isinstance(st.body[0], ast.Expr) and isinstance(st.body[0].value, ast.Call) \
                and _is_self_attr(st.body[0].value.func, "pre"):
            continue
        if isinstance(st, ast.Assign) and len(st.targets) == 1:
            t, v = st.targets[0], st.value
            if isinstance(t, ast.Name) and isinstance(v, ast.Call) and _is_self_attr(v.func, "homotopy_options"):
                options_name = t.id
                continue
            if options_name and isinstance(v, ast.Subscript) and isinstance(v.value, ast.Name) and v.value.id == options_name \
                    and isinstance(v.slice, ast.Constant) and v.slice.value in OPTS:
                if isinstance(t, ast.Name):
                    if delta_name not in (None, t.id):
                        raise TranslationError("two locals initialised from the options")
                    delta_name, delta0 = t.id, OPTS[v.slice.value]
                    continue
                if _is_self_attr(t, "__theta"):
                    theta0 = OPTS[v.slice.value]
                    continue
        if isinstance(st, ast.While):
            if st.orelse:
                raise TranslationError("while ... else")
            loop = st
            continue
        raise TranslationError("statement before the loop not in the table: `%s`" % _dump(st))
    if loop is None or options_name is None or delta_name is None or theta0 is None:
        raise TranslationError("loop / options / increment / theta initialisation not found")
    # after the loop: optional post-processing, then `return success`
    rest = [st for st in after if not _is_logging(st)]
    if rest and isinstance(rest[0], ast.If) and isinstance(rest[0].test, ast.Name) and rest[0].test.id == "postprocessing" \
            and not rest[0].orelse and len(rest[0].body) == 1 and isinstance(rest[0].body[0], ast.Expr) \
            and isinstance(rest[0].body[0].value, ast.Call) and _is_self_attr(rest[0].body[0].value.func, "post"):
        rest = rest[1:]
    if not (len(rest) == 1 and isinstance(rest[0], ast.Return) and isinstance(rest[0].value, ast.Name)
            and rest[0].value.id == "success"):
        raise TranslationError("the method does not end with [post-processing;] `return success`")
    tr = _Tr(delta_name, options_name)
    body = tr.block(loop.body, _State("s"), None, loop.test, 1)
    if tr.solves != 1:
        raise TranslationError("no solve in the loop body")
    first = tr.cond(loop.test, _State("(initGen o)"))
    return theta0, delta0, body, first


GEN_TEMPLATE = """import RtcVerif.Model.C18Homotopy
import Mathlib.Tactic.Ring
import Mathlib.Algebra.Order.Field.Rat
/-!
GENERATED on every run of the C18 check by harness/translate_c18.py from `HomotopyMixin.optimize`
in /repo/src/rtctools/optimization/homotopy_mixin.py (symbolic execution of the `while` body over
the model's state; the statement table is in the header of the translator).  Do not edit.
The theorems tie the source, read this way, to the model the property theorems of C18 are about.
Proof of `stepGen_eq_model`: definitional unfolding (`rfl`) when the source has the model's shape;
otherwise unfolding + `ring_nf` (the same branches with re-associated arithmetic).
-/
set_option linter.unreachableTactic false
set_option linter.unusedTactic false
namespace RtcVerif.Gen
open RtcVerif.C18

/-- the state when the loop is entered -/
def initGen (o : Opts) : St :=
  { theta := %(theta0)s, delta := %(delta0)s, acc := none, linear := true, cleared := 0, solves := [] }

/-- one pass through the loop body; `ok` = outcome of this pass's `super().optimize(...)` -/
def stepGen (o : Opts) (s : St) (ok : Bool) : St × Status :=
%(body)s

/-- the method: first `while` test, then the passes (`none`: the body never runs, `success` unbound) -/
def optimizeGen (o : Opts) (l : List Bool) : Option (St × Option Bool) :=
  if %(first)s then some (run stepGen o (initGen o) l) else none

theorem initGen_eq_model (o : Opts) : initGen o = C18.init o := rfl

theorem stepGen_eq_model (o : Opts) (s : St) (ok : Bool) : stepGen o s ok = C18.step o s ok := by
  cases ok
  all_goals first
    | rfl
    | (simp only [stepGen, C18.step, C18.push, C18.accept, C18.mark, C18.stepBack, C18.advance, C18.guard]
       ring_nf)
    | (simp only [stepGen, C18.step, C18.push, C18.accept, C18.mark, C18.stepBack, C18.advance, C18.guard]
       repeat' split
       all_goals simp_all)

theorem optimizeGen_eq_model (o : Opts) (l : List Bool) : optimizeGen o l = C18.optimize o l := by
  have h : stepGen = C18.step := by
    funext o s ok; exact stepGen_eq_model o s ok
  have hi : initGen o = C18.init o := rfl
  unfold optimizeGen C18.optimize C18.optimizeWith
  rw [h, hi]
  rfl

end RtcVerif.Gen
"""


def gen_homotopy_step(c):
    """(re)generate lean/RtcVerif/Gen/HomotopyStep.lean; returns the extra obligation spec for c.prove"""
    gdir = os.path.join(LEAN_DIR, "RtcVerif", "Gen")
    os.makedirs(gdir, exist_ok=True)
    path = os.path.join(gdir, "HomotopyStep.lean")
    try:
        theta0, delta0, body, first = translate_homotopy()
    except TranslationError as e:
        c.broken.append(("translator: HomotopyMixin.optimize", str(e)))
        return []
    except (OSError, SyntaxError) as e:
        c.broken.append(("translator: HomotopyMixin.optimize", "cannot read/parse the source: %s" % e))
        return []
    text = GEN_TEMPLATE % dict(theta0=theta0, delta0=delta0, body=body, first=first)
    old = open(path).read() if os.path.exists(path) else None
    if old != text:
        tmp = path + ".tmp%d" % os.getpid()
        with open(tmp, "w") as f:
            f.write(text)
        os.replace(tmp, path)
    return [("RtcVerif.Gen.HomotopyStep", "RtcVerif.Gen",
             ["initGen_eq_model", "stepGen_eq_model", "optimizeGen_eq_model"])]
