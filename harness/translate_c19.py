"""
Source-to-Lean translation of the interpolation code (second tie of C19 besides the correspondence).

On every run of C19 the functions

  OptimizationProblem.interpolate        (scalar-query and array-query paths, 1-D values)
  OptimizationProblem.__interpolate      (read for one query point; scalar and array-element reading)
  casadi_helpers.interpolate             (mode -> mode string of ca.interp1d)

are parsed from $RTC_REPO/src with `ast`, executed symbolically and emitted as
lean/RtcVerif/Gen/InterpCode.lean together with theorems stating that the generated functions equal the
model (`Interp.interpScalar`, `Interp.interpArray`, `Interp.interpCore`, `Interp.interpSym`).  The proofs go
through the hand-proved bridging theorems `code_*_is_model` of Props/C19.lean.

Not translated (correspondence only): the 2-D branch of `interpolate` (list comprehension over columns +
np.stack), `merge_bounds`.

Closed table: Python construct -> Lean term.  Everything else is rejected (TranslationError -> broken
obligation `translator: ...`, then the usual failing-input search).

  parameters are taken by POSITION: (self, t, ts, fs, f_left, f_right, mode); their names are free
  class constants `NAME = <int>` of OptimizationProblem            the integer
  path flags (evaluated, not emitted):
    isinstance(fs, np.ndarray) and fs.ndim == 2                     False (1-D values only)
    hasattr(t, "__iter__")                                          False (scalar path) / True (array path)
  conditions
    a == b, a < b, a > b, a <= b, a >= b on numbers                 `a = b` (t on the right, mode on the left), `a < b`, `b < a`, `a ≤ b`, `b ≤ a`
    f_left is None / f_right is None                                `fl = none` / `fr = none`
    c1 and c2                                                       `c1 ∧ c2`
    len(t) == len(ts)             (array path)                      `qs.length = ks.length`
    np.all(t == ts)               (array path)                      `qs = ks.map (·.1)`
  numbers
    t ; ts[0] ; ts[-1] ; mode ; self.CONST ; int literal            `t` ; `firstTime ks` ; `lastTime ks` ; `mode` ; n
    (min(t) if hasattr(t,"__iter__") else t), same with max         `t`  (array path: the guard `min(t) < ts[0]`
                                                                    raises for the whole call iff it does for some
                                                                    element; the array result is `sequenceC` of the
                                                                    element results, which raises iff one does)
  indices (Int)
    np.searchsorted(ts, t, side="right" / "left")                   `(ssRight ks t : Int)` / `(ssLeft ks t : Int)`
    len(ts) ; int literal ; a - b ; a + b                           `(ks.length : Int)` ; n ; `a - b` ; `a + b`
    np.maximum(a, b) ; np.minimum(a, b)                             `max a b` ; `min a b`
  values (OutC)
    fs[0] ; fs[<index>]                                             `.val (XVal.fin (firstVal ks))` ; `.val (XVal.fin (atIdx ks i))`
    f_left ; f_right                                                `fillC fl` ; `fillC fr`   (None -> OutC.pyNone)
    np.interp(t, ts, fs, f_left, f_right)                           `npInterp ks fl fr t`
    a local assigned before                                         its term
  statements
    v = <value>                                                     environment update
    v[t < ts[0]] = f_left   (array path, mask assignment)           v := if <cond> then <value> else v
    if / elif / else ; return <value> ; raise ...                   `if … then … else …` ; the value ; `.raise`
    return self.__interpolate(t, ts, fs, f_left, f_right, mode)     scalar path: `coreScalarGen mode ks fl fr t`
                                                                    array path:  `sequenceC (qs.map (coreElemGen mode ks fl fr))`
    return fs.copy()              (array path)                      `some (ks.map (fun k => XVal.fin k.2))`
  casadi_helpers.interpolate(ts, xs, t, equidistant, mode):
    mode_str = "<literal>" in an if / elif / else on `mode == <int>`; return ca.interp1d(ts, xs, t, mode_str, equidistant)
                                                                    `interp1d <string term> ks t`
"""
import ast
import os

from .common import LEAN_DIR, REPO
from .translate import TranslationError

ROLES = ["self", "t", "ts", "fs", "fl", "fr", "mode"]


def _find_func(tree, cls, name):
    for node in ast.walk(tree):
        if isinstance(node, ast.ClassDef) and node.name == cls:
            for item in node.body:
                if isinstance(item, ast.FunctionDef) and item.name == name:
                    return node, item
    raise TranslationError("%s.%s not found" % (cls, name))


def _class_consts(cls):
    out = {}
    for item in cls.body:
        if isinstance(item, ast.Assign) and len(item.targets) == 1 and isinstance(item.targets[0], ast.Name) \
                and isinstance(item.value, ast.Constant) and isinstance(item.value.value, int):
            out[item.targets[0].id] = item.value.value
    return out


class _Exec:
    """symbolic execution of one function on one path (`is_array`), `level` = "elem" for __interpolate
    (results are OutC terms for one query point) or "wrap" for interpolate (scalar: OutC; array: Option (List XVal))"""

    def __init__(self, fn, consts, is_array, level):
        names = [a.arg for a in fn.args.args]
        if len(names) != 7 or fn.args.vararg or fn.args.kwarg or fn.args.kwonlyargs:
            raise TranslationError("%s: unexpected signature %r" % (fn.name, names))
        self.role = dict(zip(names, ROLES))
        self.consts = consts
        self.is_array = is_array
        self.level = level
        self.fn = fn

    # ---- classification helpers ------------------------------------------------------------
    def r(self, node):
        """role of a bare name, or None"""
        if isinstance(node, ast.Name):
            return self.role.get(node.id)
        return None

    def is_hasattr_iter(self, node):
        return isinstance(node, ast.Call) and isinstance(node.func, ast.Name) and node.func.id == "hasattr" \
            and len(node.args) == 2 and self.r(node.args[0]) == "t" \
            and isinstance(node.args[1], ast.Constant) and node.args[1].value == "__iter__"

    def static(self, node):
        """True / False when the test is a path flag, None otherwise"""
        if self.is_hasattr_iter(node):
            return self.is_array
        if isinstance(node, ast.BoolOp) and isinstance(node.op, ast.And) and len(node.values) == 2:
            a, b = node.values
            if isinstance(a, ast.Call) and isinstance(a.func, ast.Name) and a.func.id == "isinstance" \
                    and self.r(a.args[0]) == "fs" and ast.unparse(a.args[1]) == "np.ndarray" \
                    and isinstance(b, ast.Compare) and ast.unparse(b.left) == ast.unparse(a.args[0]) + ".ndim" \
                    and len(b.ops) == 1 and isinstance(b.ops[0], ast.Eq) \
                    and isinstance(b.comparators[0], ast.Constant) and b.comparators[0].value == 2:
                return False  # 1-D values
        return None

    # ---- numbers ---------------------------------------------------------------------------
    def num(self, node):
        role = self.r(node)
        if role == "t":
            if self.is_array and self.level == "wrap":
                raise TranslationError("array query used as a number in interpolate()")
            return "t"
        if role == "mode":
            return "mode"
        if isinstance(node, ast.Subscript) and self.r(node.value) == "ts":
            ix = node.slice
            if isinstance(ix, ast.Constant) and ix.value == 0:
                return "firstTime ks"
            if isinstance(ix, ast.UnaryOp) and isinstance(ix.op, ast.USub) and isinstance(ix.operand, ast.Constant) \
                    and ix.operand.value == 1:
                return "lastTime ks"
        if isinstance(node, ast.Attribute) and isinstance(node.value, ast.Name) and node.value.id == "self" \
                and node.attr in self.consts:
            return str(self.consts[node.attr])
        if isinstance(node, ast.Constant) and isinstance(node.value, int) and not isinstance(node.value, bool) \
                and node.value >= 0:
            return str(node.value)
        if isinstance(node, ast.IfExp) and self.is_hasattr_iter(node.test):
            a, b = node.body, node.orelse
            if isinstance(a, ast.Call) and isinstance(a.func, ast.Name) and a.func.id in ("min", "max") \
                    and len(a.args) == 1 and self.r(a.args[0]) == "t" and self.r(b) == "t":
                return "t"
        raise TranslationError("unsupported number " + ast.unparse(node))

    def index(self, node):
        if isinstance(node, ast.Constant) and isinstance(node.value, int) and not isinstance(node.value, bool):
            return "%d" % node.value if node.value >= 0 else "(%d)" % node.value
        if isinstance(node, ast.BinOp) and isinstance(node.op, (ast.Sub, ast.Add)):
            return "(%s %s %s)" % (self.index(node.left), "-" if isinstance(node.op, ast.Sub) else "+",
                                   self.index(node.right))
        if isinstance(node, ast.Call):
            f = node.func
            if isinstance(f, ast.Name) and f.id == "len" and len(node.args) == 1 and self.r(node.args[0]) == "ts":
                return "(ks.length : Int)"
            if isinstance(f, ast.Attribute) and isinstance(f.value, ast.Name) and f.value.id == "np":
                if f.attr in ("maximum", "minimum") and len(node.args) == 2 and not node.keywords:
                    return "(%s %s %s)" % ("max" if f.attr == "maximum" else "min",
                                           self.index(node.args[0]), self.index(node.args[1]))
                if f.attr == "searchsorted" and len(node.args) == 2 and self.r(node.args[0]) == "ts" \
                        and self.r(node.args[1]) == "t" and len(node.keywords) == 1 \
                        and node.keywords[0].arg == "side" and isinstance(node.keywords[0].value, ast.Constant) \
                        and node.keywords[0].value.value in ("left", "right"):
                    return "(%s ks t : Int)" % ("ssRight" if node.keywords[0].value.value == "right" else "ssLeft")
        raise TranslationError("unsupported index expression " + ast.unparse(node))

    # ---- conditions ------------------------------------------------------------------------
    def cond(self, node):
        if isinstance(node, ast.BoolOp) and isinstance(node.op, ast.And):
            return "(" + " ∧ ".join(self.cond(v) for v in node.values) + ")"
        if isinstance(node, ast.Compare) and len(node.ops) == 1:
            op, a, b = node.ops[0], node.left, node.comparators[0]
            if isinstance(op, ast.Is) and isinstance(b, ast.Constant) and b.value is None and self.r(a) in ("fl", "fr"):
                return "(%s = none)" % self.r(a)
            if self.is_array and self.level == "wrap":
                # array-level tests of the wrapper
                if isinstance(op, ast.Eq) and all(
                        isinstance(x, ast.Call) and isinstance(x.func, ast.Name) and x.func.id == "len"
                        and len(x.args) == 1 for x in (a, b)) \
                        and {self.r(a.args[0]), self.r(b.args[0])} == {"t", "ts"}:
                    return "(qs.length = ks.length)"
                raise TranslationError("unsupported array-level comparison " + ast.unparse(node))
            x, y = self.num(a), self.num(b)
            if isinstance(op, ast.Eq):
                if x == "t" or y == "mode":  # equality is symmetric: canonical operand order
                    x, y = y, x
                return "(%s = %s)" % (x, y)
            if isinstance(op, ast.Lt):
                return "(%s < %s)" % (x, y)
            if isinstance(op, ast.Gt):
                return "(%s < %s)" % (y, x)
            if isinstance(op, ast.LtE):
                return "(%s ≤ %s)" % (x, y)
            if isinstance(op, ast.GtE):
                return "(%s ≤ %s)" % (y, x)
        if self.is_array and self.level == "wrap" and isinstance(node, ast.Call) \
                and ast.unparse(node.func) == "np.all" and len(node.args) == 1 \
                and isinstance(node.args[0], ast.Compare) and len(node.args[0].ops) == 1 \
                and isinstance(node.args[0].ops[0], ast.Eq) \
                and {self.r(node.args[0].left), self.r(node.args[0].comparators[0])} == {"t", "ts"}:
            return "(qs = ks.map (·.1))"
        raise TranslationError("unsupported condition " + ast.unparse(node))

    # ---- values ----------------------------------------------------------------------------
    def value(self, node, env):
        role = self.r(node)
        if role in ("fl", "fr"):
            return "(fillC %s)" % role
        if isinstance(node, ast.Name) and node.id in env:
            if env[node.id] is None:
                raise TranslationError("local %s read before assignment" % node.id)
            return env[node.id]
        if isinstance(node, ast.Subscript) and self.r(node.value) == "fs":
            if isinstance(node.slice, ast.Constant) and node.slice.value == 0:
                return "(OutC.val (XVal.fin (firstVal ks)))"
            return "(OutC.val (XVal.fin (atIdx ks %s)))" % self.index(node.slice)
        if isinstance(node, ast.Call) and ast.unparse(node.func) == "np.interp" and not node.keywords \
                and [self.r(a) for a in node.args] == ["t", "ts", "fs", "fl", "fr"]:
            return "(npInterp ks fl fr t)"
        raise TranslationError("unsupported value " + ast.unparse(node))

    def ret(self, node, env):
        """term returned by `return <node>`"""
        if node is None:
            raise TranslationError("bare return")
        if isinstance(node, ast.Call) and isinstance(node.func, ast.Attribute) \
                and isinstance(node.func.value, ast.Name) and node.func.value.id == "self" \
                and node.func.attr.endswith("__interpolate") and self.level == "wrap":
            if node.keywords or [self.r(a) for a in node.args] != ["t", "ts", "fs", "fl", "fr", "mode"]:
                raise TranslationError("__interpolate called with other arguments: " + ast.unparse(node))
            return "(sequenceC (qs.map (coreElemGen mode ks fl fr)))" if self.is_array \
                else "(coreScalarGen mode ks fl fr t)"
        if self.is_array and self.level == "wrap":
            if isinstance(node, ast.Call) and isinstance(node.func, ast.Attribute) and node.func.attr == "copy" \
                    and self.r(node.func.value) == "fs" and not node.args:
                return "(some (ks.map (fun k => XVal.fin k.2)))"
            raise TranslationError("unsupported array-level return " + ast.unparse(node))
        return self.value(node, env)

    # ---- statements ------------------------------------------------------------------------
    def run(self, stmts, env, cont):
        if not stmts:
            return cont(env)
        st, rest = stmts[0], stmts[1:]

        def nxt(e):
            return self.run(rest, e, cont)

        if isinstance(st, ast.Expr) and isinstance(st.value, ast.Constant) and isinstance(st.value.value, str):
            return nxt(env)
        if isinstance(st, ast.Return):
            return self.ret(st.value, env)
        if isinstance(st, ast.Raise):
            return "none" if (self.is_array and self.level == "wrap") else "OutC.raise"
        if isinstance(st, ast.Assign) and len(st.targets) == 1:
            tg = st.targets[0]
            if isinstance(tg, ast.Name) and tg.id not in self.role:
                e2 = dict(env)
                e2[tg.id] = self.value(st.value, env)
                return nxt(e2)
            if isinstance(tg, ast.Subscript) and isinstance(tg.value, ast.Name) and tg.value.id in env \
                    and self.is_array and self.level == "elem":
                if env[tg.value.id] is None:
                    raise TranslationError("mask assignment to an unassigned local")
                e2 = dict(env)
                e2[tg.value.id] = "(if %s then %s else %s)" % (self.cond(tg.slice), self.value(st.value, env),
                                                               env[tg.value.id])
                return nxt(e2)
            raise TranslationError("unsupported assignment " + ast.unparse(st))
        if isinstance(st, ast.If):
            s = self.static(st.test)
            if s is True:
                return self.run(st.body, env, nxt)
            if s is False:
                return self.run(st.orelse, env, nxt)
            c = self.cond(st.test)
            return "(if %s then %s else %s)" % (c, self.run(st.body, env, nxt), self.run(st.orelse, env, nxt))
        raise TranslationError("unsupported statement " + ast.unparse(st).split("\n")[0])

    def function(self):
        def fell_off(env):
            raise TranslationError("%s: a path ends without return" % self.fn.name)
        return self.run(self.fn.body, {}, fell_off)


def _translate_sym(tree):
    fn = None
    for node in tree.body:
        if isinstance(node, ast.FunctionDef) and node.name == "interpolate":
            fn = node
    if fn is None:
        raise TranslationError("casadi_helpers.interpolate not found")
    names = [a.arg for a in fn.args.args]
    if len(names) != 5:
        raise TranslationError("casadi_helpers.interpolate: unexpected signature %r" % names)
    ts, xs, t, eq, mode = names

    def run(stmts, env):
        if not stmts:
            raise TranslationError("casadi_helpers.interpolate: a path ends without return")
        st, rest = stmts[0], stmts[1:]
        if isinstance(st, ast.Expr) and isinstance(st.value, ast.Constant):
            return run(rest, env)
        if isinstance(st, ast.Assign) and len(st.targets) == 1 and isinstance(st.targets[0], ast.Name) \
                and isinstance(st.value, ast.Constant) and isinstance(st.value.value, str):
            e2 = dict(env)
            e2[st.targets[0].id] = '"%s"' % st.value.value
            return run(rest, e2)
        if isinstance(st, ast.If):
            tst = st.test
            if not (isinstance(tst, ast.Compare) and len(tst.ops) == 1 and isinstance(tst.ops[0], ast.Eq)):
                raise TranslationError("unsupported condition " + ast.unparse(tst))
            a, b = tst.left, tst.comparators[0]
            if isinstance(a, ast.Constant):
                a, b = b, a
            if not (isinstance(a, ast.Name) and a.id == mode and isinstance(b, ast.Constant)
                    and isinstance(b.value, int) and not isinstance(b.value, bool)):
                raise TranslationError("unsupported condition " + ast.unparse(tst))
            return "(if mode = %d then %s else %s)" % (b.value, run(st.body + rest, env),
                                                       run(st.orelse + rest, env))
        if isinstance(st, ast.Return):
            v = st.value
            if isinstance(v, ast.Call) and ast.unparse(v.func) == "ca.interp1d" and not v.keywords \
                    and len(v.args) == 5 and [ast.unparse(a) for a in v.args[:3]] == [ts, xs, t] \
                    and ast.unparse(v.args[4]) == eq and isinstance(v.args[3], ast.Name) and v.args[3].id in env:
                return "(interp1d %s ks t)" % env[v.args[3].id]
            raise TranslationError("unsupported return " + ast.unparse(st))
        raise TranslationError("unsupported statement " + ast.unparse(st).split("\n")[0])

    return run(fn.body, {})


def translate_interp():
    path = os.path.join(REPO, "src", "rtctools", "optimization", "optimization_problem.py")
    tree = ast.parse(open(path).read())
    cls, wrap = _find_func(tree, "OptimizationProblem", "interpolate")
    _, core = _find_func(tree, "OptimizationProblem", "__interpolate")
    consts = _class_consts(cls)
    out = {
        "coreScalar": _Exec(core, consts, False, "elem").function(),
        "coreElem": _Exec(core, consts, True, "elem").function(),
        "scalar": _Exec(wrap, consts, False, "wrap").function(),
        "array": _Exec(wrap, consts, True, "wrap").function(),
    }
    hpath = os.path.join(REPO, "src", "rtctools", "_internal", "casadi_helpers.py")
    out["sym"] = _translate_sym(ast.parse(open(hpath).read()))
    return out


GEN_TEMPLATE = """import RtcVerif.Props.C19
/-!
GENERATED on every run of the C19 check by harness/translate_c19.py from
`OptimizationProblem.interpolate`, `OptimizationProblem.__interpolate`
(/repo/src/rtctools/optimization/optimization_problem.py) and `interpolate`
(/repo/src/rtctools/_internal/casadi_helpers.py).  Do not edit.
-/
namespace RtcVerif.Gen.InterpCode
open RtcVerif RtcVerif.Interp RtcVerif.InterpCode

/-- `__interpolate`, scalar query -/
def coreScalarGen (mode : Nat) (ks : Knots) (fl fr : Fill) (t : Rat) : OutC :=
  %(coreScalar)s

/-- `__interpolate`, one element of an array query -/
def coreElemGen (mode : Nat) (ks : Knots) (fl fr : Fill) (t : Rat) : OutC :=
  %(coreElem)s

/-- `interpolate`, scalar query, 1-D values -/
def interpScalarGen (mode : Nat) (ks : Knots) (fl fr : Fill) (t : Rat) : OutC :=
  %(scalar)s

/-- `interpolate`, array query, 1-D values -/
def interpArrayGen (mode : Nat) (ks : Knots) (fl fr : Fill) (qs : List Rat) : Option (List XVal) :=
  %(array)s

/-- `casadi_helpers.interpolate` -/
def interpSymGen (mode : Nat) (ks : Knots) (t : Rat) : Out :=
  %(sym)s

theorem coreScalarGen_eq_ref (mode : Nat) (ks : Knots) (fl fr : Fill) (t : Rat) :
    coreScalarGen mode ks fl fr t = coreRef false mode ks fl fr t := by
  unfold coreScalarGen coreRef fillsRef
  by_cases h1 : t < firstTime ks <;> by_cases h2 : lastTime ks < t <;> cases fl <;> cases fr <;>
    obtain _ | _ | _ | n := mode <;> simp [h1, h2]

theorem coreElemGen_eq_ref (mode : Nat) (ks : Knots) (fl fr : Fill) (t : Rat) :
    coreElemGen mode ks fl fr t = coreRef true mode ks fl fr t := by
  unfold coreElemGen coreRef fillsRef
  by_cases h1 : t < firstTime ks <;> by_cases h2 : lastTime ks < t <;> cases fl <;> cases fr <;>
    obtain _ | _ | _ | n := mode <;> simp [h1, h2]

/-- the code of `__interpolate`, as it is in the source now, computes the model's `interpCore` -/
theorem coreGen_eq_model (mode : Nat) (ks : Knots) (fl fr : Fill) (t : Rat)
    (hne : ks ≠ []) (hfl : firstTime ks ≤ lastTime ks) :
    coreScalarGen mode ks fl fr t = embed (interpCore mode ks fl fr t) ∧
    coreElemGen mode ks fl fr t = embed (interpCore mode ks fl fr t) := by
  rw [coreScalarGen_eq_ref, coreElemGen_eq_ref]
  exact ⟨C19.code_core_is_model false mode ks fl fr t hne hfl, C19.code_core_is_model true mode ks fl fr t hne hfl⟩

/-- the code of `interpolate` (scalar query), as it is in the source now, computes the model's `interpScalar` -/
theorem interpScalarGen_eq_model (mode : Nat) (ks : Knots) (fl fr : Fill) (t : Rat)
    (hne : ks ≠ []) (hfl : firstTime ks ≤ lastTime ks) :
    interpScalarGen mode ks fl fr t = embed (interpScalar mode ks fl fr t) := by
  rw [← C19.code_scalar_is_model mode ks fl fr t hne hfl]
  unfold interpScalarGen scalarRef
  by_cases h : firstTime ks = t <;> simp [h, coreScalarGen_eq_ref]

/-- the code of `interpolate` (array query), as it is in the source now, computes the model's `interpArray` -/
theorem interpArrayGen_eq_model (mode : Nat) (ks : Knots) (fl fr : Fill) (qs : List Rat)
    (hne : ks ≠ []) (hfl : firstTime ks ≤ lastTime ks) :
    interpArrayGen mode ks fl fr qs = interpArray mode ks fl fr qs := by
  rw [← C19.code_array_is_model mode ks fl fr qs hne hfl]
  unfold interpArrayGen arrayRef
  have hc : coreElemGen mode ks fl fr = coreRef true mode ks fl fr := funext (coreElemGen_eq_ref mode ks fl fr)
  by_cases h : qs = ks.map (·.1) <;> simp [h, hc]

/-- the symbolic wrapper, as it is in the source now, is the model's symbolic interpolant -/
theorem interpSymGen_eq_model (mode : Nat) (hm : mode ≤ 2) (ks : Knots) (t : Rat) :
    interpSymGen mode ks t = interpSym mode ks t := by
  rw [← C19.code_sym_is_model mode hm ks t]
  match mode, hm with
  | 0, _ => rfl
  | 1, _ => rfl
  | 2, _ => rfl

end RtcVerif.Gen.InterpCode
"""

THEOREMS = ["coreScalarGen_eq_ref", "coreElemGen_eq_ref", "coreGen_eq_model", "interpScalarGen_eq_model",
            "interpArrayGen_eq_model", "interpSymGen_eq_model"]


def gen_interp_code(c):
    """(re)generate lean/RtcVerif/Gen/InterpCode.lean; returns the extra obligation spec for c.prove"""
    gdir = os.path.join(LEAN_DIR, "RtcVerif", "Gen")
    os.makedirs(gdir, exist_ok=True)
    path = os.path.join(gdir, "InterpCode.lean")
    try:
        parts = translate_interp()
    except TranslationError as e:
        c.broken.append(("translator: OptimizationProblem.interpolate", str(e)))
        return []
    text = GEN_TEMPLATE % parts
    old = open(path).read() if os.path.exists(path) else None
    if old != text:
        tmp = path + ".tmp%d" % os.getpid()
        with open(tmp, "w") as f:
            f.write(text)
        os.replace(tmp, path)
    return [("RtcVerif.Gen.InterpCode", "RtcVerif.Gen.InterpCode", THEOREMS)]
