"""
Source-to-Lean translation of the interpolation code (second tie of C19 besides the correspondence).

On every run of C19 the functions

  OptimizationProblem.interpolate        (scalar-query and array-query paths, 1-D values)
  OptimizationProblem.__interpolate      (read for one query point; scalar and array-element reading)
  casadi_helpers.interpolate             (mode -> mode string of ca.interp1d)

are parsed from $RTC_REPO/src with `ast`, executed symbolically and emitted as
lean/RtcVerif/Gen/InterpCode.lean together with theorems stating that the generated functions equal the
model (`Interp.interpScalar`, `Interp.interpArray`, `Interp.interpCore`, `Interp.interpSym`).  The proofs go
through the hand-proved bridging theorems `code_*_is_model` of Props/C19.lean.

Further translators in this file (each with its own closed table, see the section headers below):

  gen_interp_cols   the 2-D values branch of `interpolate` (early exit, per-column recursion, np.stack; scalar
                    and array query)                                       -> Gen/InterpCols.lean (4 theorems)
  gen_merge_code    `OptimizationProblem.merge_bounds` (whole function: debug assertions, normalisation loop,
                    upcasting loop, type assertions, both merges) and `Timeseries.__init__` (one-element /
                    one-row handling)                                      -> Gen/MergeCode.lean (11 theorems)

Not translated (correspondence only): `ca.DM` values of `Timeseries.__init__`, NaN-valued bounds, the NumPy
primitives themselves (`np.full_like`, `np.broadcast_to`, `np.maximum`, `np.interp`, ... are table entries).

Closed table: Python construct -> Lean term.  Everything else is rejected (TranslationError -> broken
obligation `translator: ...`, then the usual failing-input search).

  parameters are taken by POSITION: (self, t, ts, fs, f_left, f_right, mode); their names are free
  class constants `NAME = <int>` of OptimizationProblem            the integer
  path flags (evaluated, not emitted):
    isinstance(fs, np.ndarray) and fs.ndim == 2                     False (1-D values only)
    hasattr(t, "__iter__")                                          False (scalar path) / True (array path)
  conditions
    a == b, a < b, a > b, a <= b, a >= b on numbers                 `a = b` (t on the right, mode on the left), `a < b`, `b < a`, `a ≤ b`, `b ≤ a`
    f_left is None / f_right is None                                `fl = none` / `fr = none`
    c1 and c2                                                       `c1 ∧ c2`
    len(t) == len(ts)             (array path)                      `qs.length = ks.length`
    np.all(t == ts)               (array path)                      `qs = ks.map (·.1)`
  numbers
    t ; ts[0] ; ts[-1] ; mode ; self.CONST ; int literal            `t` ; `firstTime ks` ; `lastTime ks` ; `mode` ; n
    (min(t) if hasattr(t,"__iter__") else t), same with max         `t`  (array path: the guard `min(t) < ts[0]`
                                                                    raises for the whole call iff it does for some
                                                                    element; the array result is `sequenceC` of the
                                                                    element results, which raises iff one does)
  indices (Int)
    np.searchsorted(ts, t, side="right" / "left")                   `(ssRight ks t : Int)` / `(ssLeft ks t : Int)`
    len(ts) ; int literal ; a - b ; a + b                           `(ks.length : Int)` ; n ; `a - b` ; `a + b`
    np.maximum(a, b) ; np.minimum(a, b)                             `max a b` ; `min a b`
  values (OutC)
    fs[0] ; fs[<index>]                                             `.val (XVal.fin (firstVal ks))` ; `.val (XVal.fin (atIdx ks i))`
    f_left ; f_right                                                `fillC fl` ; `fillC fr`   (None -> OutC.pyNone)
    np.interp(t, ts, fs, f_left, f_right)                           `npInterp ks fl fr t`
    a local assigned before                                         its term
  statements
    v = <value>                                                     environment update
    v[t < ts[0]] = f_left   (array path, mask assignment)           v := if <cond> then <value> else v
    if / elif / else ; return <value> ; raise ...                   `if … then … else …` ; the value ; `.raise`
    return self.__interpolate(t, ts, fs, f_left, f_right, mode)     scalar path: `coreScalarGen mode ks fl fr t`
                                                                    array path:  `sequenceC (qs.map (coreElemGen mode ks fl fr))`
    return fs.copy()              (array path)                      `some (ks.map (fun k => XVal.fin k.2))`
  casadi_helpers.interpolate(ts, xs, t, equidistant, mode):
    mode_str = "<literal>" in an if / elif / else on `mode == <int>`; return ca.interp1d(ts, xs, t, mode_str, equidistant)
                                                                    `interp1d <string term> ks t`
"""
import ast
import os

from .common import LEAN_DIR, REPO
from .translate import TranslationError

ROLES = ["self", "t", "ts", "fs", "fl", "fr", "mode"]


def _find_func(tree, cls, name):
    for node in ast.walk(tree):
        if isinstance(node, ast.ClassDef) and node.name == cls:
            for item in node.body:
                if isinstance(item, ast.FunctionDef) and item.name == name:
                    return node, item
    raise TranslationError("%s.%s not found" % (cls, name))


def _class_consts(cls):
    out = {}
    for item in cls.body:
        if isinstance(item, ast.Assign) and len(item.targets) == 1 and isinstance(item.targets[0], ast.Name) \
                and isinstance(item.value, ast.Constant) and isinstance(item.value.value, int):
            out[item.targets[0].id] = item.value.value
    return out


class _Exec:
    """symbolic execution of one function on one path (`is_array`), `level` = "elem" for __interpolate
    (results are OutC terms for one query point) or "wrap" for interpolate (scalar: OutC; array: Option (List XVal))"""

    def __init__(self, fn, consts, is_array, level):
        names = [a.arg for a in fn.args.args]
        if len(names) != 7 or fn.args.vararg or fn.args.kwarg or fn.args.kwonlyargs:
            raise TranslationError("%s: unexpected signature %r" % (fn.name, names))
        self.role = dict(zip(names, ROLES))
        self.consts = consts
        self.is_array = is_array
        self.level = level
        self.fn = fn

    # ---- classification helpers ------------------------------------------------------------
    def r(self, node):
        """role of a bare name, or None"""
        if isinstance(node, ast.Name):
            return self.role.get(node.id)
        return None

    def is_hasattr_iter(self, node):
        return isinstance(node, ast.Call) and isinstance(node.func, ast.Name) and node.func.id == "hasattr" \
            and len(node.args) == 2 and self.r(node.args[0]) == "t" \
            and isinstance(node.args[1], ast.Constant) and node.args[1].value == "__iter__"

    def static(self, node):
        """True / False when the test is a path flag, None otherwise"""
        if self.is_hasattr_iter(node):
            return self.is_array
        if isinstance(node, ast.BoolOp) and isinstance(node.op, ast.And) and len(node.values) == 2:
            a, b = node.values
            if isinstance(a, ast.Call) and isinstance(a.func, ast.Name) and a.func.id == "isinstance" \
                    and self.r(a.args[0]) == "fs" and ast.unparse(a.args[1]) == "np.ndarray" \
                    and isinstance(b, ast.Compare) and ast.unparse(b.left) == ast.unparse(a.args[0]) + ".ndim" \
                    and len(b.ops) == 1 and isinstance(b.ops[0], ast.Eq) \
                    and isinstance(b.comparators[0], ast.Constant) and b.comparators[0].value == 2:
                return False  # 1-D values
        return None

    # ---- numbers ---------------------------------------------------------------------------
    def num(self, node):
        role = self.r(node)
        if role == "t":
            if self.is_array and self.level == "wrap":
                raise TranslationError("array query used as a number in interpolate()")
            return "t"
        if role == "mode":
            return "mode"
        if isinstance(node, ast.Subscript) and self.r(node.value) == "ts":
            ix = node.slice
            if isinstance(ix, ast.Constant) and ix.value == 0:
                return "firstTime ks"
            if isinstance(ix, ast.UnaryOp) and isinstance(ix.op, ast.USub) and isinstance(ix.operand, ast.Constant) \
                    and ix.operand.value == 1:
                return "lastTime ks"
        if isinstance(node, ast.Attribute) and isinstance(node.value, ast.Name) and node.value.id == "self" \
                and node.attr in self.consts:
            return str(self.consts[node.attr])
        if isinstance(node, ast.Constant) and isinstance(node.value, int) and not isinstance(node.value, bool) \
                and node.value >= 0:
            return str(node.value)
        if isinstance(node, ast.IfExp) and self.is_hasattr_iter(node.test):
            a, b = node.body, node.orelse
            if isinstance(a, ast.Call) and isinstance(a.func, ast.Name) and a.func.id in ("min", "max") \
                    and len(a.args) == 1 and self.r(a.args[0]) == "t" and self.r(b) == "t":
                return "t"
        raise TranslationError("unsupported number " + ast.unparse(node))

    def index(self, node):
        if isinstance(node, ast.Constant) and isinstance(node.value, int) and not isinstance(node.value, bool):
            return "%d" % node.value if node.value >= 0 else "(%d)" % node.value
        if isinstance(node, ast.BinOp) and isinstance(node.op, (ast.Sub, ast.Add)):
            return "(%s %s %s)" % (self.index(node.left), "-" if isinstance(node.op, ast.Sub) else "+",
                                   self.index(node.right))
        if isinstance(node, ast.Call):
            f = node.func
            if isinstance(f, ast.Name) and f.id == "len" and len(node.args) == 1 and self.r(node.args[0]) == "ts":
                return "(ks.length : Int)"
            if isinstance(f, ast.Attribute) and isinstance(f.value, ast.Name) and f.value.id == "np":
                if f.attr in ("maximum", "minimum") and len(node.args) == 2 and not node.keywords:
                    return "(%s %s %s)" % ("max" if f.attr == "maximum" else "min",
                                           self.index(node.args[0]), self.index(node.args[1]))
                if f.attr == "searchsorted" and len(node.args) == 2 and self.r(node.args[0]) == "ts" \
                        and self.r(node.args[1]) == "t" and len(node.keywords) == 1 \
                        and node.keywords[0].arg == "side" and isinstance(node.keywords[0].value, ast.Constant) \
                        and node.keywords[0].value.value in ("left", "right"):
                    return "(%s ks t : Int)" % ("ssRight" if node.keywords[0].value.value == "right" else "ssLeft")
        raise TranslationError("unsupported index expression " + ast.unparse(node))

    # ---- conditions ------------------------------------------------------------------------
    def cond(self, node):
        if isinstance(node, ast.BoolOp) and isinstance(node.op, ast.And):
            return "(" + " ∧ ".join(self.cond(v) for v in node.values) + ")"
        if isinstance(node, ast.Compare) and len(node.ops) == 1:
            op, a, b = node.ops[0], node.left, node.comparators[0]
            if isinstance(op, ast.Is) and isinstance(b, ast.Constant) and b.value is None and self.r(a) in ("fl", "fr"):
                return "(%s = none)" % self.r(a)
            if self.is_array and self.level == "wrap":
                # array-level tests of the wrapper
                if isinstance(op, ast.Eq) and all(
                        isinstance(x, ast.Call) and isinstance(x.func, ast.Name) and x.func.id == "len"
                        and len(x.args) == 1 for x in (a, b)) \
                        and {self.r(a.args[0]), self.r(b.args[0])} == {"t", "ts"}:
                    return "(qs.length = ks.length)"
                raise TranslationError("unsupported array-level comparison " + ast.unparse(node))
            x, y = self.num(a), self.num(b)
            if isinstance(op, ast.Eq):
                if x == "t" or y == "mode":  # equality is symmetric: canonical operand order
                    x, y = y, x
                return "(%s = %s)" % (x, y)
            if isinstance(op, ast.Lt):
                return "(%s < %s)" % (x, y)
            if isinstance(op, ast.Gt):
                return "(%s < %s)" % (y, x)
            if isinstance(op, ast.LtE):
                return "(%s ≤ %s)" % (x, y)
            if isinstance(op, ast.GtE):
                return "(%s ≤ %s)" % (y, x)
        if self.is_array and self.level == "wrap" and isinstance(node, ast.Call) \
                and ast.unparse(node.func) == "np.all" and len(node.args) == 1 \
                and isinstance(node.args[0], ast.Compare) and len(node.args[0].ops) == 1 \
                and isinstance(node.args[0].ops[0], ast.Eq) \
                and {self.r(node.args[0].left), self.r(node.args[0].comparators[0])} == {"t", "ts"}:
            return "(qs = ks.map (·.1))"
        raise TranslationError("unsupported condition " + ast.unparse(node))

    # ---- values ----------------------------------------------------------------------------
    def value(self, node, env):
        role = self.r(node)
        if role in ("fl", "fr"):
            return "(fillC %s)" % role
        if isinstance(node, ast.Name) and node.id in env:
            if env[node.id] is None:
                raise TranslationError("local %s read before assignment" % node.id)
            return env[node.id]
        if isinstance(node, ast.Subscript) and self.r(node.value) == "fs":
            if isinstance(node.slice, ast.Constant) and node.slice.value == 0:
                return "(OutC.val (XVal.fin (firstVal ks)))"
            return "(OutC.val (XVal.fin (atIdx ks %s)))" % self.index(node.slice)
        if isinstance(node, ast.Call) and ast.unparse(node.func) == "np.interp" and not node.keywords \
                and [self.r(a) for a in node.args] == ["t", "ts", "fs", "fl", "fr"]:
            return "(npInterp ks fl fr t)"
        raise TranslationError("unsupported value " + ast.unparse(node))

    def ret(self, node, env):
        """term returned by `return <node>`"""
        if node is None:
            raise TranslationError("bare return")
        if isinstance(node, ast.Call) and isinstance(node.func, ast.Attribute) \
                and isinstance(node.func.value, ast.Name) and node.func.value.id == "self" \
                and node.func.attr.endswith("__interpolate") and self.level == "wrap":
            if node.keywords or [self.r(a) for a in node.args] != ["t", "ts", "fs", "fl", "fr", "mode"]:
                raise TranslationError("__interpolate called with other arguments: " + ast.unparse(node))
            return "(sequenceC (qs.map (coreElemGen mode ks fl fr)))" if self.is_array \
                else "(coreScalarGen mode ks fl fr t)"
        if self.is_array and self.level == "wrap":
            if isinstance(node, ast.Call) and isinstance(node.func, ast.Attribute) and node.func.attr == "copy" \
                    and self.r(node.func.value) == "fs" and not node.args:
                return "(some (ks.map (fun k => XVal.fin k.2)))"
            raise TranslationError("unsupported array-level return " + ast.unparse(node))
        return self.value(node, env)

    # ---- statements ------------------------------------------------------------------------
    def run(self, stmts, env, cont):
        if not stmts:
            return cont(env)
        st, rest = stmts[0], stmts[1:]

        def nxt(e):
            return self.run(rest, e, cont)

        if isinstance(st, ast.Expr) and isinstance(st.value, ast.Constant) and isinstance(st.value.value, str):
            return nxt(env)
        if isinstance(st, ast.Return):
            return self.ret(st.value, env)
        if isinstance(st, ast.Raise):
            return "none" if (self.is_array and self.level == "wrap") else "OutC.raise"
        if isinstance(st, ast.Assign) and len(st.targets) == 1:
            tg = st.targets[0]
            if isinstance(tg, ast.Name) and tg.id not in self.role:
                e2 = dict(env)
                e2[tg.id] = self.value(st.value, env)
                return nxt(e2)
            if isinstance(tg, ast.Subscript) and isinstance(tg.value, ast.Name) and tg.value.id in env \
                    and self.is_array and self.level == "elem":
                if env[tg.value.id] is None:
                    raise TranslationError("mask assignment to an unassigned local")
                e2 = dict(env)
                e2[tg.value.id] = "(if %s then %s else %s)" % (self.cond(tg.slice), self.value(st.value, env),
                                                               env[tg.value.id])
                return nxt(e2)
            raise TranslationError("unsupported assignment " + ast.unparse(st))
        if isinstance(st, ast.If):
            s = self.static(st.test)
            if s is True:
                return self.run(st.body, env, nxt)
            if s is False:
                return self.run(st.orelse, env, nxt)
            c = self.cond(st.test)
            return "(if %s then %s else %s)" % (c, self.run(st.body, env, nxt), self.run(st.orelse, env, nxt))
        raise TranslationError("unsupported statement " + ast.unparse(st).split("\n")[0])

    def function(self):
        def fell_off(env):
            raise TranslationError("%s: a path ends without return" % self.fn.name)
        return self.run(self.fn.body, {}, fell_off)


def _translate_sym(tree):
    fn = None
    for node in tree.body:
        if isinstance(node, ast.FunctionDef) and node.name == "interpolate":
            fn = node
    if fn is None:
        raise TranslationError("casadi_helpers.interpolate not found")
    names = [a.arg for a in fn.args.args]
    if len(names) != 5:
        raise TranslationError("casadi_helpers.interpolate: unexpected signature %r" % names)
    ts, xs, t, eq, mode = names

    def run(stmts, env):
        if not stmts:
            raise TranslationError("casadi_helpers.interpolate: a path ends without return")
        st, rest = stmts[0], stmts[1:]
        if isinstance(st, ast.Expr) and isinstance(st.value, ast.Constant):
            return run(rest, env)
        if isinstance(st, ast.Assign) and len(st.targets) == 1 and isinstance(st.targets[0], ast.Name) \
                and isinstance(st.value, ast.Constant) and isinstance(st.value.value, str):
            e2 = dict(env)
            e2[st.targets[0].id] = '"%s"' % st.value.value
            return run(rest, e2)
        if isinstance(st, ast.If):
            tst = st.test
            if not (isinstance(tst, ast.Compare) and len(tst.ops) == 1 and isinstance(tst.ops[0], ast.Eq)):
                raise TranslationError("unsupported condition " + ast.unparse(tst))
            a, b = tst.left, tst.comparators[0]
            if isinstance(a, ast.Constant):
                a, b = b, a
            if not (isinstance(a, ast.Name) and a.id == mode and isinstance(b, ast.Constant)
                    and isinstance(b.value, int) and not isinstance(b.value, bool)):
                raise TranslationError("unsupported condition " + ast.unparse(tst))
            return "(if mode = %d then %s else %s)" % (b.value, run(st.body + rest, env),
                                                       run(st.orelse + rest, env))
        if isinstance(st, ast.Return):
            v = st.value
            if isinstance(v, ast.Call) and ast.unparse(v.func) == "ca.interp1d" and not v.keywords \
                    and len(v.args) == 5 and [ast.unparse(a) for a in v.args[:3]] == [ts, xs, t] \
                    and ast.unparse(v.args[4]) == eq and isinstance(v.args[3], ast.Name) and v.args[3].id in env:
                return "(interp1d %s ks t)" % env[v.args[3].id]
            raise TranslationError("unsupported return " + ast.unparse(st))
        raise TranslationError("unsupported statement " + ast.unparse(st).split("\n")[0])

    return run(fn.body, {})


def translate_interp():
    path = os.path.join(REPO, "src", "rtctools", "optimization", "optimization_problem.py")
    tree = ast.parse(open(path).read())
    cls, wrap = _find_func(tree, "OptimizationProblem", "interpolate")
    _, core = _find_func(tree, "OptimizationProblem", "__interpolate")
    consts = _class_consts(cls)
    out = {
        "coreScalar": _Exec(core, consts, False, "elem").function(),
        "coreElem": _Exec(core, consts, True, "elem").function(),
        "scalar": _Exec(wrap, consts, False, "wrap").function(),
        "array": _Exec(wrap, consts, True, "wrap").function(),
    }
    hpath = os.path.join(REPO, "src", "rtctools", "_internal", "casadi_helpers.py")
    out["sym"] = _translate_sym(ast.parse(open(hpath).read()))
    return out


GEN_TEMPLATE = """import RtcVerif.Props.C19
/-!
GENERATED on every run of the C19 check by harness/translate_c19.py from
`OptimizationProblem.interpolate`, `OptimizationProblem.__interpolate`
(/repo/src/rtctools/optimization/optimization_problem.py) and `interpolate`
(/repo/src/rtctools/_internal/casadi_helpers.py).  Do not edit.
-/
namespace RtcVerif.Gen.InterpCode
open RtcVerif RtcVerif.Interp RtcVerif.InterpCode

/-- `__interpolate`, scalar query -/
def coreScalarGen (mode : Nat) (ks : Knots) (fl fr : Fill) (t : Rat) : OutC :=
  %(coreScalar)s

/-- `__interpolate`, one element of an array query -/
def coreElemGen (mode : Nat) (ks : Knots) (fl fr : Fill) (t : Rat) : OutC :=
  %(coreElem)s

/-- `interpolate`, scalar query, 1-D values -/
def interpScalarGen (mode : Nat) (ks : Knots) (fl fr : Fill) (t : Rat) : OutC :=
  %(scalar)s

/-- `interpolate`, array query, 1-D values -/
def interpArrayGen (mode : Nat) (ks : Knots) (fl fr : Fill) (qs : List Rat) : Option (List XVal) :=
  %(array)s

/-- `casadi_helpers.interpolate` -/
def interpSymGen (mode : Nat) (ks : Knots) (t : Rat) : Out :=
  %(sym)s

theorem coreScalarGen_eq_ref (mode : Nat) (ks : Knots) (fl fr : Fill) (t : Rat) :
    coreScalarGen mode ks fl fr t = coreRef false mode ks fl fr t := by
  unfold coreScalarGen coreRef fillsRef
  by_cases h1 : t < firstTime ks <;> by_cases h2 : lastTime ks < t <;> cases fl <;> cases fr <;>
    obtain _ | _ | _ | n := mode <;> simp [h1, h2]

theorem coreElemGen_eq_ref (mode : Nat) (ks : Knots) (fl fr : Fill) (t : Rat) :
    coreElemGen mode ks fl fr t = coreRef true mode ks fl fr t := by
  unfold coreElemGen coreRef fillsRef
  by_cases h1 : t < firstTime ks <;> by_cases h2 : lastTime ks < t <;> cases fl <;> cases fr <;>
    obtain _ | _ | _ | n := mode <;> simp [h1, h2]

/-- the code of `__interpolate`, as it is in the source now, computes the model's `interpCore` -/
theorem coreGen_eq_model (mode : Nat) (ks : Knots) (fl fr : Fill) (t : Rat)
    (hne : ks ≠ []) (hfl : firstTime ks ≤ lastTime ks) :
    coreScalarGen mode ks fl fr t = embed (interpCore mode ks fl fr t) ∧
    coreElemGen mode ks fl fr t = embed (interpCore mode ks fl fr t) := by
  rw [coreScalarGen_eq_ref, coreElemGen_eq_ref]
  exact ⟨C19.code_core_is_model false mode ks fl fr t hne hfl, C19.code_core_is_model true mode ks fl fr t hne hfl⟩

/-- the code of `interpolate` (scalar query), as it is in the source now, computes the model's `interpScalar` -/
theorem interpScalarGen_eq_model (mode : Nat) (ks : Knots) (fl fr : Fill) (t : Rat)
    (hne : ks ≠ []) (hfl : firstTime ks ≤ lastTime ks) :
    interpScalarGen mode ks fl fr t = embed (interpScalar mode ks fl fr t) := by
  rw [← C19.code_scalar_is_model mode ks fl fr t hne hfl]
  unfold interpScalarGen scalarRef
  by_cases h : firstTime ks = t <;> simp [h, coreScalarGen_eq_ref]

/-- the code of `interpolate` (array query), as it is in the source now, computes the model's `interpArray` -/
theorem interpArrayGen_eq_model (mode : Nat) (ks : Knots) (fl fr : Fill) (qs : List Rat)
    (hne : ks ≠ []) (hfl : firstTime ks ≤ lastTime ks) :
    interpArrayGen mode ks fl fr qs = interpArray mode ks fl fr qs := by
  rw [← C19.code_array_is_model mode ks fl fr qs hne hfl]
  unfold interpArrayGen arrayRef
  have hc : coreElemGen mode ks fl fr = coreRef true mode ks fl fr := funext (coreElemGen_eq_ref mode ks fl fr)
  by_cases h : qs = ks.map (·.1) <;> simp [h, hc]

/-- the symbolic wrapper, as it is in the source now, is the model's symbolic interpolant -/
theorem interpSymGen_eq_model (mode : Nat) (hm : mode ≤ 2) (ks : Knots) (t : Rat) :
    interpSymGen mode ks t = interpSym mode ks t := by
  rw [← C19.code_sym_is_model mode hm ks t]
  match mode, hm with
  | 0, _ => rfl
  | 1, _ => rfl
  | 2, _ => rfl

end RtcVerif.Gen.InterpCode
"""

THEOREMS = ["coreScalarGen_eq_ref", "coreElemGen_eq_ref", "coreGen_eq_model", "interpScalarGen_eq_model",
            "interpArrayGen_eq_model", "interpSymGen_eq_model"]


def gen_interp_code(c):
    """(re)generate lean/RtcVerif/Gen/InterpCode.lean; returns the extra obligation spec for c.prove"""
    gdir = os.path.join(LEAN_DIR, "RtcVerif", "Gen")
    os.makedirs(gdir, exist_ok=True)
    path = os.path.join(gdir, "InterpCode.lean")
    try:
        parts = translate_interp()
    except TranslationError as e:
        c.broken.append(("translator: OptimizationProblem.interpolate", str(e)))
        return []
    text = GEN_TEMPLATE % parts
    old = open(path).read() if os.path.exists(path) else None
    if old != text:
        tmp = path + ".tmp%d" % os.getpid()
        with open(tmp, "w") as f:
            f.write(text)
        os.replace(tmp, path)
    return [("RtcVerif.Gen.InterpCode", "RtcVerif.Gen.InterpCode", THEOREMS)]


# =================================================================================================
# merge_bounds / Timeseries.__init__  ->  lean/RtcVerif/Gen/MergeCode.lean        (gen_merge_code)
#
# Closed table (values live in the dynamically typed universe `MergeCode.PyV` of
# lean/RtcVerif/Model/C19MergeCode.lean: Python int / float, integer- or float-dtype 1-D ndarray, 2-D float
# ndarray, Timeseries with 1-D / 2-D values, non-numeric ndarray, anything else):
#
#   statement frame of merge_bounds (matched statement by statement, local names are free):
#     a, A = <param 0> ; b, B = <param 1>                              the four slots 0..3
#     if __debug__: for v in (<the four slots>): <assert body>         `checkGen v : Bool`
#     L = [<the four slots in slot order>]
#     for i, v in enumerate(L): <body>                                 `normGen v : PyV` (final `L[i]`)
#     for i, j in [<literal pairs>]: v1 = L[i]; v2 = L[j]; <if chain>  `orderGen`, `upcastGen v1 v2 : Option PyV`
#                                                                      (new `L[i]`; `continue` / falling off the
#                                                                      end = unchanged; `raise` = none)
#     a, A, b, B = L                                                   rebinds the four slots
#     assert <cond> ...                                                `assertsGen a A b B : Bool`
#     m, M = None, None                                                no effect
#     if ...: (assigning the first / second returned name)             `loGen a b` (slots 0, 2) / `hiGen A B`
#                                                                      (slots 1, 3) : Option PyV
#     return m, M
#   the frame itself (which slot is read / written when) is `MergeCode.frame`.
#   conditions
#     isinstance(x, np.ndarray | Timeseries | int | float | list)      isArr / isTs / isInt / isFloat / isList x = true
#     isinstance(x, (T1, T2, ..))                                      disjunction
#     isinstance(x, type(y))                                           sameType x y = true
#     isinstance(values, ca.DM)                       (__init__)       False (ca.DM values are outside PyV)
#     hasattr(x, "__iter__")                                           iterable x = true
#     np.issubdtype(x.dtype, np.number)                                numericDtype x = true
#     n1 == n2, n1 != n2  (numbers)                                    n1 = n2, n1 ≠ n2
#     x.shape == y.shape                                               shapeOf x = shapeOf y
#     np.all(x.times == y.times)                                       timesOf x = timesOf y
#     not c ; c1 and c2 ; c1 or c2                                     ¬ c ; ∧ ; ∨
#   numbers
#     x.ndim ; len(x) ; len(x.times) ; x.shape[1] ; np.prod(x.shape) ; int literal
#                                                                      ndim x ; len x ; (timesOf x).length ; shape1 x ; size x ; n
#   values
#     a local / slot name ; x.item() ; float(x) ; x.values ; x[0]      its term ; item x ; toFloat x ; valuesOf x ; getItem0 x
#     Timeseries(x.times, v)                                           tsInit (timesOf x) v   (`tsInit` = __init__ as
#                                                                      written: `tsInitGen_eq_ref`)
#     np.full_like(x, s) ; np.full_like(x, s, dtype=np.float64)        fullLike x s (shape AND dtype of x) ; fullLikeF x s
#     np.broadcast_to(x, y.shape)                                      broadcastLike x y
#     np.maximum(x, y) ; np.minimum(x, y) ; max(a, b) ; min(a, b)      npMaximum ; npMinimum ; pyMax ; pyMin
#   Timeseries.__init__(self, times, values):
#     self.__times = times ; self.__values = <array>                   the object `mkTs times <array>`
#     np.array(values, dtype=np.float64, copy=True)                    asFloatArray values
#     np.full_like(times, values, dtype=np.float64)                    fullTimes times values
#     the properties `times` / `values` must return these attributes
#   anything else: TranslationError (broken obligation `translator: ...`).


class _MExec:
    """symbolic execution of merge_bounds / __init__ fragments over PyV terms"""

    def __init__(self, env, times_env=None):
        self.env = dict(env)            # python local name -> Lean term (PyV)
        self.times_env = dict(times_env or {})   # python name -> Lean term (List Rat)

    # ---- values -------------------------------------------------------------------------------
    def val(self, n, env):
        if isinstance(n, ast.Name):
            if n.id in env:
                return env[n.id]
            raise TranslationError("unknown name %s" % n.id)
        if isinstance(n, ast.Attribute) and n.attr == "values":
            return "(valuesOf %s)" % self.val(n.value, env)
        if isinstance(n, ast.Subscript) and isinstance(n.slice, ast.Constant) and n.slice.value == 0 \
                and not isinstance(n.value, ast.Attribute):
            return "(getItem0 %s)" % self.val(n.value, env)
        if isinstance(n, ast.Call):
            f = n.func
            fn = ast.unparse(f)
            kw = {k.arg: ast.unparse(k.value) for k in n.keywords}
            if isinstance(f, ast.Attribute) and f.attr == "item" and not n.args and not kw:
                return "(item %s)" % self.val(f.value, env)
            if fn == "float" and len(n.args) == 1 and not kw:
                return "(toFloat %s)" % self.val(n.args[0], env)
            if fn == "Timeseries" and len(n.args) == 2 and not kw:
                return "(tsInit %s %s)" % (self.times(n.args[0], env), self.val(n.args[1], env))
            if fn == "np.full_like" and len(n.args) == 2:
                if isinstance(n.args[0], ast.Name) and n.args[0].id in self.times_env:
                    if kw == {"dtype": "np.float64"}:
                        return "(fullTimes %s %s)" % (self.times_env[n.args[0].id], self.val(n.args[1], env))
                    raise TranslationError("unsupported " + ast.unparse(n))
                if not kw:
                    return "(fullLike %s %s)" % (self.val(n.args[0], env), self.val(n.args[1], env))
                if kw == {"dtype": "np.float64"}:
                    return "(fullLikeF %s %s)" % (self.val(n.args[0], env), self.val(n.args[1], env))
            if fn == "np.array" and len(n.args) == 1 and kw == {"dtype": "np.float64", "copy": "True"}:
                return "(asFloatArray %s)" % self.val(n.args[0], env)
            if fn == "np.broadcast_to" and len(n.args) == 2 and not kw and isinstance(n.args[1], ast.Attribute) \
                    and n.args[1].attr == "shape":
                return "(broadcastLike %s %s)" % (self.val(n.args[0], env), self.val(n.args[1].value, env))
            if fn in ("np.maximum", "np.minimum", "max", "min") and len(n.args) == 2 and not kw:
                lean = {"np.maximum": "npMaximum", "np.minimum": "npMinimum", "max": "pyMax", "min": "pyMin"}[fn]
                return "(%s %s %s)" % (lean, self.val(n.args[0], env), self.val(n.args[1], env))
        raise TranslationError("unsupported value " + ast.unparse(n))

    def times(self, n, env):
        if isinstance(n, ast.Attribute) and n.attr == "times":
            return "(timesOf %s)" % self.val(n.value, env)
        if isinstance(n, ast.Name) and n.id in self.times_env:
            return self.times_env[n.id]
        raise TranslationError("unsupported time stamps " + ast.unparse(n))

    def is_times(self, n):
        return (isinstance(n, ast.Attribute) and n.attr == "times") or \
            (isinstance(n, ast.Name) and n.id in self.times_env)

    # ---- numbers ------------------------------------------------------------------------------
    def nat(self, n, env):
        if isinstance(n, ast.Constant) and isinstance(n.value, int) and not isinstance(n.value, bool) and n.value >= 0:
            return str(n.value)
        if isinstance(n, ast.Attribute) and n.attr == "ndim":
            return "(ndim %s)" % self.val(n.value, env)
        if isinstance(n, ast.Subscript) and isinstance(n.value, ast.Attribute) and n.value.attr == "shape" \
                and isinstance(n.slice, ast.Constant) and n.slice.value == 1:
            return "(shape1 %s)" % self.val(n.value.value, env)
        if isinstance(n, ast.Call) and not n.keywords and len(n.args) == 1:
            fn = ast.unparse(n.func)
            if fn == "len":
                if self.is_times(n.args[0]):
                    return "(%s).length" % self.times(n.args[0], env)
                return "(len %s)" % self.val(n.args[0], env)
            if fn == "np.prod" and isinstance(n.args[0], ast.Attribute) and n.args[0].attr == "shape":
                return "(size %s)" % self.val(n.args[0].value, env)
        raise TranslationError("unsupported number " + ast.unparse(n))

    # ---- conditions ---------------------------------------------------------------------------
    TYPES = {"np.ndarray": "isArr", "Timeseries": "isTs", "int": "isInt", "float": "isFloat", "list": "isList"}

    def isinst(self, x, t, env):
        if isinstance(t, ast.Tuple):
            return "(" + " ∨ ".join(self.isinst(x, e, env) for e in t.elts) + ")"
        ts = ast.unparse(t)
        if ts in self.TYPES:
            return "(%s %s = true)" % (self.TYPES[ts], self.val(x, env))
        if ts == "ca.DM":
            return "False"
        if isinstance(t, ast.Call) and ast.unparse(t.func) == "type" and len(t.args) == 1:
            return "(sameType %s %s = true)" % (self.val(x, env), self.val(t.args[0], env))
        raise TranslationError("unsupported isinstance type " + ts)

    def cond(self, n, env):
        if isinstance(n, ast.BoolOp):
            op = " ∧ " if isinstance(n.op, ast.And) else " ∨ "
            return "(" + op.join(self.cond(v, env) for v in n.values) + ")"
        if isinstance(n, ast.UnaryOp) and isinstance(n.op, ast.Not):
            return "(¬ %s)" % self.cond(n.operand, env)
        if isinstance(n, ast.Call):
            fn = ast.unparse(n.func)
            if fn == "isinstance" and len(n.args) == 2 and not n.keywords:
                return self.isinst(n.args[0], n.args[1], env)
            if fn == "hasattr" and len(n.args) == 2 and isinstance(n.args[1], ast.Constant) \
                    and n.args[1].value == "__iter__":
                return "(iterable %s = true)" % self.val(n.args[0], env)
            if fn == "np.issubdtype" and len(n.args) == 2 and ast.unparse(n.args[1]) == "np.number" \
                    and isinstance(n.args[0], ast.Attribute) and n.args[0].attr == "dtype":
                return "(numericDtype %s = true)" % self.val(n.args[0].value, env)
            if fn == "np.all" and len(n.args) == 1 and isinstance(n.args[0], ast.Compare) \
                    and len(n.args[0].ops) == 1 and isinstance(n.args[0].ops[0], ast.Eq) \
                    and self.is_times(n.args[0].left) and self.is_times(n.args[0].comparators[0]):
                return "(%s = %s)" % (self.times(n.args[0].left, env), self.times(n.args[0].comparators[0], env))
        if isinstance(n, ast.Compare) and len(n.ops) == 1 and isinstance(n.ops[0], (ast.Eq, ast.NotEq)):
            a, b = n.left, n.comparators[0]
            sym = "=" if isinstance(n.ops[0], ast.Eq) else "≠"
            if all(isinstance(x, ast.Attribute) and x.attr == "shape" for x in (a, b)):
                return "(shapeOf %s %s shapeOf %s)" % (self.val(a.value, env), sym, self.val(b.value, env))
            return "(%s %s %s)" % (self.nat(a, env), sym, self.nat(b, env))
        raise TranslationError("unsupported condition " + ast.unparse(n))


def _is_doc(st):
    return isinstance(st, ast.Expr) and isinstance(st.value, ast.Constant) and isinstance(st.value.value, str)


def _names(tup):
    if isinstance(tup, (ast.Tuple, ast.List)) and all(isinstance(e, ast.Name) for e in tup.elts):
        return [e.id for e in tup.elts]
    return None


def _translate_merge(tree):
    _, fn = _find_func(tree, "OptimizationProblem", "merge_bounds")
    params = [a.arg for a in fn.args.args]
    if len(params) != 2 or fn.args.vararg or fn.args.kwarg or fn.args.kwonlyargs:
        raise TranslationError("merge_bounds: unexpected signature %r" % params)
    body = [st for st in fn.body if not _is_doc(st)]
    pos = 0

    def nxt(what):
        nonlocal pos
        if pos >= len(body):
            raise TranslationError("merge_bounds: statement expected: " + what)
        st = body[pos]
        pos += 1
        return st

    # 1. the two unpackings
    slots = []
    for k in (0, 1):
        st = nxt("unpacking of parameter %d" % k)
        ok = isinstance(st, ast.Assign) and len(st.targets) == 1 and _names(st.targets[0]) \
            and len(st.targets[0].elts) == 2 and isinstance(st.value, ast.Name) and st.value.id == params[k]
        if not ok:
            raise TranslationError("merge_bounds: expected `x, X = %s`, found %s" % (params[k], ast.unparse(st)))
        slots += _names(st.targets[0])
    if len(set(slots)) != 4:
        raise TranslationError("merge_bounds: the four bounds need four names")
    out = {}
    # 2. debug assertions
    st = nxt("if __debug__")
    if not (isinstance(st, ast.If) and isinstance(st.test, ast.Name) and st.test.id == "__debug__" and not st.orelse
            and len(st.body) == 1 and isinstance(st.body[0], ast.For) and isinstance(st.body[0].target, ast.Name)
            and _names(st.body[0].iter) and sorted(_names(st.body[0].iter)) == sorted(slots)
            and not st.body[0].orelse):
        raise TranslationError("merge_bounds: unexpected debug block " + ast.unparse(st).split("\n")[0])
    loop = st.body[0]
    ex = _MExec({})

    def run_check(stmts, env):
        if not stmts:
            return "true"
        s0, rest = stmts[0], stmts[1:]
        if isinstance(s0, ast.Assert):
            return "(if %s then %s else false)" % (ex.cond(s0.test, env), run_check(rest, env))
        if isinstance(s0, ast.If):
            return "(if %s then %s else %s)" % (ex.cond(s0.test, env), run_check(s0.body + rest, env),
                                                run_check(s0.orelse + rest, env))
        raise TranslationError("unsupported statement in the assertion block: " + ast.unparse(s0).split("\n")[0])

    out["check"] = run_check(loop.body, {loop.target.id: "v"})
    # 3. the list
    st = nxt("all_bounds = [...]")
    if not (isinstance(st, ast.Assign) and len(st.targets) == 1 and isinstance(st.targets[0], ast.Name)
            and isinstance(st.value, ast.List) and _names(st.value) == slots):
        raise TranslationError("merge_bounds: expected the list of the four bounds in order, found " + ast.unparse(st))
    L = st.targets[0].id

    def is_slot(node, idx):
        return isinstance(node, ast.Subscript) and isinstance(node.value, ast.Name) and node.value.id == L \
            and isinstance(node.slice, ast.Name) and node.slice.id == idx

    # generic straight-line executor: env (locals), slot (current value of L[i]); returns an Option/PyV term
    def run_body(stmts, env, slot, idx, jdx, wrap):
        """wrap(slot) = the term for normal termination; raise -> `none` (only when wrap produces Options)"""
        if not stmts:
            return wrap(slot)
        s0, rest = stmts[0], stmts[1:]
        if _is_doc(s0):
            return run_body(rest, env, slot, idx, jdx, wrap)
        if isinstance(s0, ast.Continue):
            return wrap(slot)
        if isinstance(s0, ast.Raise):
            if wrap("x").startswith("(some"):
                return "none"
            raise TranslationError("raise in a loop body that cannot fail")
        if isinstance(s0, ast.Assign):
            # value read
            if len(s0.targets) == 1 and isinstance(s0.targets[0], ast.Name) and is_slot(s0.value, idx):
                e2 = dict(env)
                e2[s0.targets[0].id] = slot
                return run_body(rest, e2, slot, idx, jdx, wrap)
            if len(s0.targets) == 1 and isinstance(s0.targets[0], ast.Name) and jdx and is_slot(s0.value, jdx):
                e2 = dict(env)
                e2[s0.targets[0].id] = "v2"
                return run_body(rest, e2, slot, idx, jdx, wrap)
            v = ex.val(s0.value, env)
            e2, sl = dict(env), slot
            for tg in s0.targets:
                if isinstance(tg, ast.Name):
                    e2[tg.id] = v
                elif is_slot(tg, idx):
                    sl = v
                else:
                    raise TranslationError("unsupported assignment target " + ast.unparse(tg))
            return run_body(rest, e2, sl, idx, jdx, wrap)
        if isinstance(s0, ast.If):
            return "(if %s then %s else %s)" % (ex.cond(s0.test, env),
                                                run_body(s0.body + rest, env, slot, idx, jdx, wrap),
                                                run_body(s0.orelse + rest, env, slot, idx, jdx, wrap))
        raise TranslationError("unsupported statement " + ast.unparse(s0).split("\n")[0])

    # 4. normalisation loop
    st = nxt("for i, v in enumerate(all_bounds)")
    if not (isinstance(st, ast.For) and _names(st.target) and len(st.target.elts) == 2 and not st.orelse
            and ast.unparse(st.iter) == "enumerate(%s)" % L):
        raise TranslationError("merge_bounds: expected `for i, v in enumerate(%s)`, found %s"
                               % (L, ast.unparse(st).split("\n")[0]))
    i_n, v_n = _names(st.target)
    out["norm"] = run_body(st.body, {v_n: "v"}, "v", i_n, None, lambda s: s)
    # 5. upcasting loop
    st = nxt("for i, j in [...]")
    if not (isinstance(st, ast.For) and _names(st.target) and len(st.target.elts) == 2 and not st.orelse
            and isinstance(st.iter, (ast.List, ast.Tuple))):
        raise TranslationError("merge_bounds: expected the upcasting loop, found " + ast.unparse(st).split("\n")[0])
    pairs = []
    for e in st.iter.elts:
        if not (isinstance(e, ast.Tuple) and len(e.elts) == 2 and all(
                isinstance(x, ast.Constant) and isinstance(x.value, int) and 0 <= x.value <= 3 for x in e.elts)):
            raise TranslationError("merge_bounds: unsupported index pair " + ast.unparse(e))
        pairs.append((e.elts[0].value, e.elts[1].value))
    out["order"] = "[" + ", ".join("(%d, %d)" % p for p in pairs) + "]"
    i_n, j_n = _names(st.target)
    out["upcast"] = run_body(st.body, {}, "v1", i_n, j_n, lambda s: "(some %s)" % s)
    # 6. unpacking
    st = nxt("a, A, b, B = all_bounds")
    if not (isinstance(st, ast.Assign) and len(st.targets) == 1 and _names(st.targets[0])
            and len(st.targets[0].elts) == 4 and isinstance(st.value, ast.Name) and st.value.id == L):
        raise TranslationError("merge_bounds: expected the unpacking of %s, found %s" % (L, ast.unparse(st)))
    slots2 = _names(st.targets[0])
    if len(set(slots2)) != 4:
        raise TranslationError("merge_bounds: the four bounds need four names")
    env4 = dict(zip(slots2, ["a", "A", "b", "B"]))
    # 7. assertions, 8. `m, M = None, None`, 9./10. the two merges, 11. return
    asserts, blocks = [], []
    ret = None
    while pos < len(body):
        st = nxt("")
        if isinstance(st, ast.Assert):
            if blocks:
                raise TranslationError("merge_bounds: assertion after a merge block")
            asserts.append(ex.cond(st.test, env4))
        elif isinstance(st, ast.Assign) and len(st.targets) == 1 and _names(st.targets[0]) \
                and isinstance(st.value, ast.Tuple) and all(
                    isinstance(e, ast.Constant) and e.value is None for e in st.value.elts):
            continue
        elif isinstance(st, ast.Assign) and len(st.targets) == 1 and isinstance(st.targets[0], ast.Name) \
                and isinstance(st.value, ast.Constant) and st.value.value is None:
            continue
        elif isinstance(st, ast.If):
            blocks.append(st)
        elif isinstance(st, ast.Return):
            ret = st
            if pos != len(body):
                raise TranslationError("merge_bounds: statements after return")
        else:
            raise TranslationError("merge_bounds: unsupported statement " + ast.unparse(st).split("\n")[0])
    if ret is None or not _names(ret.value) or len(ret.value.elts) != 2:
        raise TranslationError("merge_bounds: expected `return m, M`")
    rm, rM = _names(ret.value)
    if len(blocks) != 2:
        raise TranslationError("merge_bounds: expected two merge blocks, found %d" % len(blocks))
    out["asserts"] = "(" + " ∧ ".join(asserts) + ")" if asserts else "True"

    def run_block(stmts, env, res):
        if not stmts:
            if res not in env:
                raise TranslationError("merge_bounds: a path leaves %s unassigned" % res)
            return "(some %s)" % env[res]
        s0, rest = stmts[0], stmts[1:]
        if isinstance(s0, ast.Raise):
            return "none"
        if isinstance(s0, ast.Assign) and len(s0.targets) == 1 and isinstance(s0.targets[0], ast.Name):
            e2 = dict(env)
            e2[s0.targets[0].id] = ex.val(s0.value, env)
            return run_block(rest, e2, res)
        if isinstance(s0, ast.If):
            return "(if %s then %s else %s)" % (ex.cond(s0.test, env), run_block(s0.body + rest, env, res),
                                                run_block(s0.orelse + rest, env, res))
        raise TranslationError("unsupported statement " + ast.unparse(s0).split("\n")[0])

    def assigned(st):
        return {t.id for n in ast.walk(st) if isinstance(n, ast.Assign) for t in n.targets if isinstance(t, ast.Name)}

    for key, res, (x, y) in (("lo", rm, (slots2[0], slots2[2])), ("hi", rM, (slots2[1], slots2[3]))):
        mine = [b for b in blocks if res in assigned(b)]
        if len(mine) != 1:
            raise TranslationError("merge_bounds: no single block assigns " + res)
        out[key] = run_block([mine[0]], {x: "a", y: "b"}, res)
    return out


def _translate_tsinit(tree):
    cls, fn = _find_func(tree, "Timeseries", "__init__")
    params = [a.arg for a in fn.args.args]
    if len(params) != 3 or fn.args.vararg or fn.args.kwarg or fn.args.kwonlyargs:
        raise TranslationError("Timeseries.__init__: unexpected signature %r" % params)
    self_n, times_n, values_n = params
    ex = _MExec({}, {times_n: "times"})

    def self_attr(node, suffix):
        return isinstance(node, ast.Attribute) and isinstance(node.value, ast.Name) and node.value.id == self_n \
            and node.attr.endswith(suffix)

    attr_names = {}

    def run(stmts, env, obj):
        if not stmts:
            if "times" not in obj or "values" not in obj:
                raise TranslationError("Timeseries.__init__: a path leaves an attribute unset")
            return "(mkTs %s %s)" % (obj["times"], obj["values"])
        s0, rest = stmts[0], stmts[1:]
        if _is_doc(s0):
            return run(rest, env, obj)
        if isinstance(s0, ast.Assign) and len(s0.targets) == 1:
            tg = s0.targets[0]
            if self_attr(tg, "__times"):
                attr_names["times"] = tg.attr
                o2 = dict(obj)
                o2["times"] = ex.times(s0.value, env)
                return run(rest, env, o2)
            if self_attr(tg, "__values"):
                attr_names["values"] = tg.attr
                o2 = dict(obj)
                o2["values"] = ex.val(s0.value, env)
                return run(rest, env, o2)
            if isinstance(tg, ast.Name) and tg.id != times_n:
                e2 = dict(env)
                e2[tg.id] = ex.val(s0.value, env)
                return run(rest, e2, obj)
        if isinstance(s0, ast.If):
            c = ex.cond(s0.test, env)
            if c == "False":   # ca.DM values: outside PyV
                return run(s0.orelse + rest, env, obj)
            return "(if %s then %s else %s)" % (c, run(s0.body + rest, env, obj), run(s0.orelse + rest, env, obj))
        raise TranslationError("Timeseries.__init__: unsupported statement " + ast.unparse(s0).split("\n")[0])

    term = run(fn.body, {values_n: "values"}, {})
    # the properties return the attributes written above
    for prop in ("times", "values"):
        ok = False
        for item in cls.body:
            if isinstance(item, ast.FunctionDef) and item.name == prop:
                b = [s for s in item.body if not _is_doc(s)]
                ok = len(b) == 1 and isinstance(b[0], ast.Return) and isinstance(b[0].value, ast.Attribute) \
                    and isinstance(b[0].value.value, ast.Name) and b[0].value.attr == attr_names.get(prop)
        if not ok:
            raise TranslationError("Timeseries.%s does not return the attribute __init__ writes" % prop)
    return term


MERGE_TEMPLATE = """import RtcVerif.Props.C19
/-!
GENERATED on every run of the C19 check by harness/translate_c19.py (`gen_merge_code`) from
`OptimizationProblem.merge_bounds` (/repo/src/rtctools/optimization/optimization_problem.py) and
`Timeseries.__init__` (/repo/src/rtctools/optimization/timeseries.py).  Do not edit.
-/
namespace RtcVerif.Gen.MergeCode
open RtcVerif RtcVerif.Merge RtcVerif.MergeCode

/-- `Timeseries.__init__` -/
def tsInitGen (times : List Rat) (values : PyV) : PyV :=
  %(tsinit)s

/-- the debug assertions on one input -/
def checkGen (v : PyV) : Bool :=
  %(check)s

/-- body of the normalisation loop: the final `all_bounds[i]` -/
def normGen (v : PyV) : PyV :=
  %(norm)s

/-- the index pairs of the upcasting loop -/
def orderGen : List (Nat × Nat) := %(order)s

/-- body of the upcasting loop: the new `all_bounds[i]` -/
def upcastGen (v1 v2 : PyV) : Option PyV :=
  %(upcast)s

/-- the type assertions after the loops -/
def assertsGen (a A b B : PyV) : Bool :=
  decide %(asserts)s

/-- merge of the lower bounds -/
def loGen (a b : PyV) : Option PyV :=
  %(lo)s

/-- merge of the upper bounds -/
def hiGen (a b : PyV) : Option PyV :=
  %(hi)s

/-- `merge_bounds` -/
def mergeBoundsGen : PyV → PyV → PyV → PyV → Option (PyV × PyV) :=
  frame checkGen normGen orderGen upcastGen assertsGen loGen hiGen

theorem tsInitGen_eq_ref (times : List Rat) (values : PyV) : tsInitGen times values = tsInit times values := by
  unfold tsInitGen tsInit
  cases values with
  | arr i vs =>
    match vs with
    | [] => simp [isArr, isList, len, iterable, getItem0]
    | [x] => simp [isArr, isList, len, iterable, getItem0]
    | x :: y :: rest => simp [isArr, isList, len, iterable, getItem0]
  | arr2 rows =>
    match rows with
    | [] => simp [isArr, isList, len, iterable, getItem0]
    | [r] => simp [isArr, isList, len, iterable, getItem0]
    | r :: s :: rest => simp [isArr, isList, len, iterable, getItem0]
  | _ => simp [isArr, isList, len, iterable, getItem0]

theorem checkGen_eq_ref (v : PyV) : checkGen v = checkRef v := by
  unfold checkGen checkRef
  cases v with
  | num i x => cases i <;> simp [isArr, ndim, numericDtype, isFloat, isInt, isTs]
  | _ => simp [isArr, ndim, numericDtype, isFloat, isInt, isTs]

theorem normGen_eq_ref (v : PyV) : normGen v = normRef v := by
  unfold normGen normRef
  by_cases h : (isArr v = true ∧ size v = 1)
  · obtain ⟨h1, h2⟩ := h
    simp [h1, h2]
  · have h' : (isArr v && size v == 1) = false := by
      cases ha : isArr v <;> simp [ha] at h ⊢
      exact h
    simp [h, h']

theorem orderGen_eq_ref : orderGen = orderRef := by decide

theorem upcastGen_eq_ref (v1 v2 : PyV) : upcastGen v1 v2 = upcastRef v1 v2 := by
  unfold upcastGen upcastRef
  cases hs : sameType v1 v2 <;> cases hi : isInt v1 <;> cases hf : isFloat v1 <;> cases ha : isArr v1 <;>
    cases ht : isTs v2 <;> cases hb : isArr v2 <;> simp

theorem assertsGen_eq_ref (a A b B : PyV) : assertsGen a A b B = assertsRef a A b B := by
  unfold assertsGen assertsRef
  cases sameType a b <;> cases sameType A B <;> simp

theorem loGen_eq_ref (a b : PyV) : loGen a b = combineRef true a b := by
  unfold loGen combineRef npMaximum pyMax
  cases ha : isArr a <;> cases ht : isTs a <;> simp

theorem hiGen_eq_ref (a b : PyV) : hiGen a b = combineRef false a b := by
  unfold hiGen combineRef npMinimum pyMin
  cases ha : isArr a <;> cases ht : isTs a <;> simp

/-- `merge_bounds`, as it is in the source now, is the code-level reference -/
theorem mergeBoundsGen_eq_ref : mergeBoundsGen = mergeBoundsRef := by
  unfold mergeBoundsGen mergeBoundsRef
  rw [show checkGen = checkRef from funext checkGen_eq_ref, show normGen = normRef from funext normGen_eq_ref,
    orderGen_eq_ref, show upcastGen = upcastRef from funext fun a => funext (upcastGen_eq_ref a),
    show assertsGen = assertsRef from
      funext fun a => funext fun A => funext fun b => funext (assertsGen_eq_ref a A b),
    show loGen = combineRef true from funext fun a => funext (loGen_eq_ref a),
    show hiGen = combineRef false from funext fun a => funext (hiGen_eq_ref a)]

/-- `merge_bounds`, as it is in the source now, computes the model's `mergeBounds` on everything its
    assertions accept (every mixture of int / float scalars, integer- / float-dtype vectors, 1-D / 2-D
    Timeseries), including which inputs raise -/
theorem mergeBoundsGen_eq_model (a A b B : PyV) (ha : Valid a) (hA : Valid A) (hb : Valid b) (hB : Valid B)
    (wa : WF a) (wA : WF A) (wb : WF b) (wB : WF B) :
    (mergeBoundsGen a A b B).map (fun p => (den p.1, den p.2)) = mergeBounds (den a) (den A) (den b) (den B) := by
  rw [mergeBoundsGen_eq_ref]
  exact C19.code_merge_is_model a A b B ha hA hb hB wa wA wb wB

/-- ... and raises on everything else -/
theorem mergeBoundsGen_rejects_invalid (a A b B : PyV) (h : ¬ (Valid a ∧ Valid A ∧ Valid b ∧ Valid B)) :
    mergeBoundsGen a A b B = none := by
  rw [mergeBoundsGen_eq_ref]
  exact C19.code_merge_rejects_invalid a A b B h

end RtcVerif.Gen.MergeCode
"""

MERGE_THEOREMS = ["tsInitGen_eq_ref", "checkGen_eq_ref", "normGen_eq_ref", "orderGen_eq_ref", "upcastGen_eq_ref",
                  "assertsGen_eq_ref", "loGen_eq_ref", "hiGen_eq_ref", "mergeBoundsGen_eq_ref",
                  "mergeBoundsGen_eq_model", "mergeBoundsGen_rejects_invalid"]


def translate_merge():
    path = os.path.join(REPO, "src", "rtctools", "optimization", "optimization_problem.py")
    out = _translate_merge(ast.parse(open(path).read()))
    tpath = os.path.join(REPO, "src", "rtctools", "optimization", "timeseries.py")
    out["tsinit"] = _translate_tsinit(ast.parse(open(tpath).read()))
    return out


def _write_if_changed(path, text):
    old = open(path).read() if os.path.exists(path) else None
    if old != text:
        tmp = path + ".tmp%d" % os.getpid()
        with open(tmp, "w") as f:
            f.write(text)
        os.replace(tmp, path)


def gen_merge_code(c):
    """(re)generate lean/RtcVerif/Gen/MergeCode.lean; returns the extra obligation spec for c.prove"""
    gdir = os.path.join(LEAN_DIR, "RtcVerif", "Gen")
    os.makedirs(gdir, exist_ok=True)
    try:
        parts = translate_merge()
    except TranslationError as e:
        c.broken.append(("translator: OptimizationProblem.merge_bounds / Timeseries.__init__", str(e)))
        return []
    _write_if_changed(os.path.join(gdir, "MergeCode.lean"), MERGE_TEMPLATE % parts)
    return [("RtcVerif.Gen.MergeCode", "RtcVerif.Gen.MergeCode", MERGE_THEOREMS)]


# =================================================================================================
# the 2-D values branch of OptimizationProblem.interpolate  ->  lean/RtcVerif/Gen/InterpCols.lean
#                                                                                   (gen_interp_cols)
# Closed table (vocabulary: lean/RtcVerif/Model/C19InterpCols.lean; a 2-D `fs` is read column-major, the pair
# (ts, fs[:, i]) is the i-th knot list `ks` of `cols`):
#
#   if isinstance(fs, np.ndarray) and fs.ndim == 2: <body>             the body that is translated (path flag True)
#   hasattr(t, "__iter__")                                             False (scalar query) / True (array query)
#   len(t) == len(ts) ; np.all(t == ts)      (array query)             `qs.length = ts.length` ; `qs = ts`
#   c1 and c2 (static parts evaluated)                                 `c1 ∧ c2`
#   return fs.copy()                         (array query)             `some (cols.map fun ks => ks.map fun k => XVal.fin k.2)`
#   [self.interpolate(t, ts, fs[:, i], f_left, f_right, mode) for i in range(fs.shape[1])]
#                                                                      `cols.map (fun ks => interpScalarGen mode ks fl fr t)`
#                                                                      / `… interpArrayGen mode ks fl fr qs` (the 1-D paths
#                                                                      of the same function: Gen/InterpCode.lean);
#                                                                      every argument must be forwarded in this order
#   np.stack(<that list>, axis=-1)                                     `stackC …` (scalar) / `stackA …` (array)
#   v = <list comprehension> ; return <expr>                           environment update ; the term


def _translate_cols(fn, is_array):
    names = [a.arg for a in fn.args.args]
    if len(names) != 7:
        raise TranslationError("interpolate: unexpected signature %r" % names)
    role = dict(zip(names, ROLES))
    ex0 = _Exec(fn, {}, is_array, "wrap")
    body = [st for st in fn.body if not _is_doc(st)]
    if not body or not isinstance(body[0], ast.If) or ex0.static(body[0].test) is not False:
        raise TranslationError("interpolate: the 2-D test `isinstance(fs, np.ndarray) and fs.ndim == 2` is not "
                               "the first statement")
    stmts = body[0].body

    def r(node):
        return role.get(node.id) if isinstance(node, ast.Name) else None

    def cond(node):
        """'True' / 'False' / a Lean proposition"""
        if ex0.is_hasattr_iter(node):
            return "True" if is_array else "False"
        if isinstance(node, ast.BoolOp) and isinstance(node.op, ast.And):
            parts = []
            for v in node.values:   # short-circuit, left to right
                x = cond(v)
                if x == "False":
                    return "False"
                if x != "True":
                    parts.append(x)
            return "(" + " ∧ ".join(parts) + ")" if parts else "True"
        if not is_array:
            raise TranslationError("array-level test on the scalar path: " + ast.unparse(node))
        if isinstance(node, ast.Compare) and len(node.ops) == 1 and isinstance(node.ops[0], ast.Eq):
            a, b = node.left, node.comparators[0]
            if all(isinstance(x, ast.Call) and isinstance(x.func, ast.Name) and x.func.id == "len"
                   and len(x.args) == 1 for x in (a, b)) and {r(a.args[0]), r(b.args[0])} == {"t", "ts"}:
                return "(qs.length = ts.length)"
        if isinstance(node, ast.Call) and ast.unparse(node.func) == "np.all" and len(node.args) == 1 \
                and isinstance(node.args[0], ast.Compare) and len(node.args[0].ops) == 1 \
                and isinstance(node.args[0].ops[0], ast.Eq) \
                and {r(node.args[0].left), r(node.args[0].comparators[0])} == {"t", "ts"}:
            return "(qs = ts)"
        raise TranslationError("unsupported condition " + ast.unparse(node))

    def comp(node):
        if not (isinstance(node, ast.ListComp) and len(node.generators) == 1):
            return None
        g = node.generators[0]
        if g.ifs or g.is_async or not isinstance(g.target, ast.Name):
            raise TranslationError("unsupported comprehension " + ast.unparse(node))
        i = g.target.id
        it = g.iter
        ok = isinstance(it, ast.Call) and isinstance(it.func, ast.Name) and it.func.id == "range" \
            and len(it.args) == 1 and isinstance(it.args[0], ast.Subscript) \
            and isinstance(it.args[0].value, ast.Attribute) and it.args[0].value.attr == "shape" \
            and r(it.args[0].value.value) == "fs" and isinstance(it.args[0].slice, ast.Constant) \
            and it.args[0].slice.value == 1
        if not ok:
            raise TranslationError("the comprehension does not run over the columns: " + ast.unparse(it))
        e = node.elt
        if not (isinstance(e, ast.Call) and isinstance(e.func, ast.Attribute) and isinstance(e.func.value, ast.Name)
                and e.func.value.id == names[0] and e.func.attr == fn.name and not e.keywords and len(e.args) == 6):
            raise TranslationError("per-column call is not self.interpolate(...) with six arguments: " + ast.unparse(e))
        col = e.args[2]
        col_ok = isinstance(col, ast.Subscript) and r(col.value) == "fs" and isinstance(col.slice, ast.Tuple) \
            and len(col.slice.elts) == 2 and isinstance(col.slice.elts[0], ast.Slice) \
            and col.slice.elts[0].lower is None and col.slice.elts[0].upper is None \
            and col.slice.elts[0].step is None and isinstance(col.slice.elts[1], ast.Name) \
            and col.slice.elts[1].id == i
        got = [r(a) for k, a in enumerate(e.args) if k != 2]
        if not col_ok or got != ["t", "ts", "fl", "fr", "mode"]:
            raise TranslationError("per-column call does not forward (t, ts, fs[:, i], f_left, f_right, mode): "
                                   + ast.unparse(e))
        if is_array:
            return "(cols.map (fun ks => interpArrayGen mode ks fl fr qs))"
        return "(cols.map (fun ks => interpScalarGen mode ks fl fr t))"

    def value(node, env):
        c = comp(node)
        if c is not None:
            return c
        if isinstance(node, ast.Name) and node.id in env:
            return env[node.id]
        raise TranslationError("unsupported value " + ast.unparse(node))

    def ret(node, env):
        if isinstance(node, ast.Call) and isinstance(node.func, ast.Attribute) and node.func.attr == "copy" \
                and r(node.func.value) == "fs" and not node.args and not node.keywords:
            if not is_array:
                raise TranslationError("fs.copy() returned for a scalar query")
            return "(some (cols.map fun ks => ks.map fun k => XVal.fin k.2))"
        if isinstance(node, ast.Call) and ast.unparse(node.func) == "np.stack" and len(node.args) == 1 \
                and len(node.keywords) == 1 and node.keywords[0].arg == "axis" \
                and ast.unparse(node.keywords[0].value) == "-1":
            return "(%s %s)" % ("stackA" if is_array else "stackC", value(node.args[0], env))
        raise TranslationError("unsupported return " + ast.unparse(node))

    def run(stmts, env):
        if not stmts:
            raise TranslationError("interpolate (2-D branch): a path ends without return")
        s0, rest = stmts[0], stmts[1:]
        if _is_doc(s0):
            return run(rest, env)
        if isinstance(s0, ast.Return) and s0.value is not None:
            return ret(s0.value, env)
        if isinstance(s0, ast.Assign) and len(s0.targets) == 1 and isinstance(s0.targets[0], ast.Name) \
                and s0.targets[0].id not in role:
            e2 = dict(env)
            e2[s0.targets[0].id] = value(s0.value, env)
            return run(rest, e2)
        if isinstance(s0, ast.If):
            c = cond(s0.test)
            if c == "True":
                return run(s0.body + rest, env)
            if c == "False":
                return run(s0.orelse + rest, env)
            return "(if %s then %s else %s)" % (c, run(s0.body + rest, env), run(s0.orelse + rest, env))
        raise TranslationError("unsupported statement " + ast.unparse(s0).split("\n")[0])

    return run(stmts, {})


COLS_TEMPLATE = """import RtcVerif.Gen.InterpCode
/-!
GENERATED on every run of the C19 check by harness/translate_c19.py (`gen_interp_cols`) from the 2-D values
branch of `OptimizationProblem.interpolate` (/repo/src/rtctools/optimization/optimization_problem.py).
Do not edit.
-/
namespace RtcVerif.Gen.InterpCols
open RtcVerif RtcVerif.Interp RtcVerif.InterpCode RtcVerif.Gen.InterpCode

/-- `interpolate`, 2-D values, scalar query -/
def colsScalarGen (mode : Nat) (ts : List Rat) (cols : List Knots) (fl fr : Fill) (t : Rat) : Option (List XVal) :=
  %(scalar)s

/-- `interpolate`, 2-D values, array query -/
def colsArrayGen (mode : Nat) (ts : List Rat) (cols : List Knots) (fl fr : Fill) (qs : List Rat) :
    Option (List (List XVal)) :=
  %(array)s

theorem colsScalarGen_eq_ref (mode : Nat) (ts : List Rat) (cols : List Knots) (fl fr : Fill) (t : Rat) :
    colsScalarGen mode ts cols fl fr t = colsScalarRef mode cols fl fr t := by
  have h1 : ∀ ks, interpScalarGen mode ks fl fr t = scalarRef mode ks fl fr t := by
    intro ks
    unfold interpScalarGen scalarRef
    by_cases h : firstTime ks = t <;> simp [h, coreScalarGen_eq_ref]
  unfold colsScalarGen colsScalarRef
  simp only [h1]

theorem colsArrayGen_eq_ref (mode : Nat) (ts : List Rat) (cols : List Knots) (fl fr : Fill) (qs : List Rat) :
    colsArrayGen mode ts cols fl fr qs = colsArrayRef mode ts cols fl fr qs := by
  have hc : coreElemGen mode = coreRef true mode := by
    funext ks fl fr t; exact coreElemGen_eq_ref mode ks fl fr t
  have h1 : ∀ ks, interpArrayGen mode ks fl fr qs = arrayRef mode ks fl fr qs := by
    intro ks
    unfold interpArrayGen arrayRef
    by_cases h : qs = ks.map (·.1) <;> simp [h, hc]
  unfold colsArrayGen colsArrayRef
  by_cases h : qs = ts <;> simp [h, h1]

/-- the 2-D branch as it is in the source now (scalar query, the F20 repair) is the column-wise model -/
theorem colsScalarGen_eq_model (mode : Nat) (ts : List Rat) (cols : List Knots) (fl fr : Fill) (t : Rat)
    (h : ColsOK ts cols) :
    colsScalarGen mode ts cols fl fr t = interpColumnsScalar mode cols fl fr t := by
  rw [colsScalarGen_eq_ref]
  exact C19.code_cols_scalar_is_model mode ts cols fl fr t h

/-- the 2-D branch as it is in the source now (array query) is the column-wise model `interpColumns`
    (`interp_columnwise`) -/
theorem colsArrayGen_eq_model (mode : Nat) (ts : List Rat) (cols : List Knots) (fl fr : Fill) (qs : List Rat)
    (h : ColsOK ts cols) :
    colsArrayGen mode ts cols fl fr qs = interpColumns mode cols fl fr qs := by
  rw [colsArrayGen_eq_ref]
  exact C19.code_cols_array_is_model mode ts cols fl fr qs h

end RtcVerif.Gen.InterpCols
"""

COLS_THEOREMS = ["colsScalarGen_eq_ref", "colsArrayGen_eq_ref", "colsScalarGen_eq_model", "colsArrayGen_eq_model"]


def translate_cols():
    path = os.path.join(REPO, "src", "rtctools", "optimization", "optimization_problem.py")
    tree = ast.parse(open(path).read())
    _, wrap = _find_func(tree, "OptimizationProblem", "interpolate")
    return {"scalar": _translate_cols(wrap, False), "array": _translate_cols(wrap, True)}


def gen_interp_cols(c):
    """(re)generate lean/RtcVerif/Gen/InterpCols.lean (imports Gen/InterpCode.lean: call gen_interp_code first);
    returns the extra obligation spec for c.prove"""
    gdir = os.path.join(LEAN_DIR, "RtcVerif", "Gen")
    os.makedirs(gdir, exist_ok=True)
    try:
        parts = translate_cols()
    except TranslationError as e:
        c.broken.append(("translator: OptimizationProblem.interpolate (2-D branch)", str(e)))
        return []
    _write_if_changed(os.path.join(gdir, "InterpCols.lean"), COLS_TEMPLATE % parts)
    return [("RtcVerif.Gen.InterpCols", "RtcVerif.Gen.InterpCols", COLS_THEOREMS)]
