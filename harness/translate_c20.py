"""
Source-to-Lean translation for C20 (second tie between model and code, besides the correspondence).

On every run of the C20 check `BSpline.basis` (src/rtctools/data/interpolation/bspline.py) and the
evaluation sum `BSpline1D.__call__` (bspline1d.py) are parsed with `ast` and translated into the
Lean definitions `basisGen` (structural recursion on `k`) and `spline1dGen`; the generated module
`lean/RtcVerif/Gen/BSplineBasis.lean` states and proves that they equal the hand-written model
(`C20.basis`, `C20.spline1d`) the property theorems are about.  A change of the source breaks a
proof obligation (or the translator refuses the construct); the check then runs its usual
failing-input search.

Python construct                                  ->  Lean term
------------------------------------------------------------------------------------------------
def basis(self, t, x, k, i)                           basisGen (t : Nat -> Rat) (tl x : Rat) : Nat -> Nat -> Rat
if k == 0: A else: B                                  | 0, i => A[k := 0]   | k' + 1, i => B[k := k' + 1]
t[e]  /  self.__t[e]   (e an index expression)        t (e)
t[-1]                                                 tl                (spline1dGen: t (n - 1))
index expressions: i, k, int literals, +              Nat terms  i, k' + 1, literals, +
self.basis(t, x, k - 1, e)                            basisGen t tl x k' (e)      (only this use of `k - 1`)
x, float literals 0.0 / 1.0, + - * /                  Rat terms
a <= b, a < b, a == b, a >= b, a > b                  decide (a ≤ b) … (Bool); >=, > are flipped
logic_and(p, q) / logic_or(p, q) / `p and q`          p && q / p || q / p && q
if_else(c, a, b)                                      if c then a else b
v = e ; `if c: v = e1 [else: v = e2]` ; return e      symbolic execution; a Python-level `if` on numeric
                                                      knots becomes `if c then e1 else e2` per assigned name
y = 0.0; for i in range(len(self.__t) - self.__k - 1): y += e; return y
                                                      C20.sumN (n - k - 1) (fun i => e)     (n = len(t))
self.__w[e], self.__k                                 w (e), k
reverse_call: `l_d, u_d = domain`                     ld, ud : Option Rat     (None = none)
`if l_d is None: l_d = self.domain[0]` (resp. [1])    Option.getD ld dl  (resp. ud du); nothing else may
                                                      assign the two names; they must be brentq's bracket
docstrings, comments                                  ignored
anything else                                         TranslationError -> obligation broken

Two further translators in this file carry their own tables next to their code:
`BSpline2D.__call__` (nested accumulation loops -> `Gen/BSpline2D.lean`, `spline2dGen_eq_model` against
`C20.spline2d`) and the fit-cache decision of `CSVLookupTableMixin.pre` (`valid_cache`, the guards of every
recomputation and of the final save -> `Gen/FitCache.lean`, `validCacheGen_eq_model` /
`recomputeGen_eq_model` against `C20.validCache`, the function `cache_reuse_iff_newer`, `pre_serves_current`
and `served_is_current` are about).
"""
import ast
import re
import os

from .common import LEAN_DIR, REPO


class TranslationError(Exception):
    pass


def _find_method(tree, cls, name):
    for node in ast.walk(tree):
        if isinstance(node, ast.ClassDef) and node.name == cls:
            for item in node.body:
                if isinstance(item, ast.FunctionDef) and item.name == name:
                    return item
    raise TranslationError("%s.%s not found" % (cls, name))


def _is_doc(st):
    return isinstance(st, ast.Expr) and isinstance(st.value, ast.Constant) and isinstance(st.value.value, str)


class _Tr:
    """symbolic execution of a small numeric kernel; values are strings of Lean terms"""

    def __init__(self, knots, last, kterm, names, rec=None, attrs=None, xname="x", lens=None):
        self.xname = xname      # python name of the evaluation point handed to self.basis
        self.lens = lens or {}  # knot attribute -> Lean term of its length (for `len(self.__t) - self.__k - 1`)
        self.knots = knots      # python names of the knot vector -> Lean function name
        self.last = last        # Lean term for t[-1]
        self.kterm = kterm      # Lean term for `k` (None: k must not occur)
        self.names = names      # python name -> (Lean term, kind) ; kind in {"rat", "nat"}
        self.rec = rec          # (lean name, lean term for k - 1) or None
        self.attrs = attrs or {}  # self.<attr> -> ("vec", lean) | ("nat", lean)
        self.env = {}           # assigned locals -> (term, kind) ; kind in {"rat", "bool"}

    # ---- index (Nat) expressions
    def nat(self, n):
        if isinstance(n, ast.Constant) and isinstance(n.value, int) and not isinstance(n.value, bool) and n.value >= 0:
            return str(n.value)
        if isinstance(n, ast.Name):
            if n.id == "k" and "k" not in self.names:
                if self.kterm is None:
                    raise TranslationError("`k` used where it is not available")
                return self.kterm
            if n.id in self.names and self.names[n.id][1] == "nat":
                return self.names[n.id][0]
            raise TranslationError("unknown index name " + n.id)
        if isinstance(n, ast.Attribute) and isinstance(n.value, ast.Name) and n.value.id == "self" \
                and self.attrs.get(n.attr, ("", ""))[0] == "nat":
            return self.attrs[n.attr][1]
        if isinstance(n, ast.BinOp) and isinstance(n.op, ast.Add):
            return "(%s + %s)" % (self.nat(n.left), self.nat(n.right))
        if isinstance(n, ast.BinOp) and isinstance(n.op, ast.Mult) and self.lens:
            return "(%s * %s)" % (self.nat(n.left), self.nat(n.right))
        cnt = _count_term(n, self.attrs, self.lens) if self.lens else None
        if cnt is not None:
            return cnt
        raise TranslationError("unsupported index expression " + ast.dump(n)[:100])

    def vec(self, n):
        """a subscripted vector: returns ("knots"|"vec", lean name)"""
        if isinstance(n, ast.Name) and n.id in self.knots:
            return "knots", self.knots[n.id]
        if isinstance(n, ast.Attribute) and isinstance(n.value, ast.Name) and n.value.id == "self" \
                and self.attrs.get(n.attr, ("", ""))[0] in ("knots", "vec"):
            return self.attrs[n.attr]
        raise TranslationError("unsupported subscripted object " + ast.dump(n)[:100])

    # ---- Rat expressions
    def rat(self, n):
        if isinstance(n, ast.Constant) and isinstance(n.value, float) and n.value == int(n.value) and n.value >= 0:
            return str(int(n.value))
        if isinstance(n, ast.Name):
            if n.id in self.env and self.env[n.id][1] == "rat":
                return self.env[n.id][0]
            if n.id in self.names and self.names[n.id][1] == "rat":
                return self.names[n.id][0]
            raise TranslationError("unknown numeric name " + n.id)
        if isinstance(n, ast.Subscript):
            kind, name = self.vec(n.value)
            idx = n.slice
            if isinstance(idx, ast.UnaryOp) and isinstance(idx.op, ast.USub) and isinstance(idx.operand, ast.Constant) \
                    and idx.operand.value == 1:
                if kind != "knots":
                    raise TranslationError("[-1] on something that is not the knot vector")
                return self.last
            return "%s (%s)" % (name, self.nat(idx))
        if isinstance(n, ast.BinOp) and type(n.op) in (ast.Add, ast.Sub, ast.Mult, ast.Div):
            op = {ast.Add: "+", ast.Sub: "-", ast.Mult: "*", ast.Div: "/"}[type(n.op)]
            return "(%s %s %s)" % (self.rat(n.left), op, self.rat(n.right))
        if isinstance(n, ast.Call):
            f = n.func
            if isinstance(f, ast.Name) and f.id == "if_else" and len(n.args) == 3 and not n.keywords:
                return "(if %s then %s else %s)" % (self.boolean(n.args[0]), self.rat(n.args[1]), self.rat(n.args[2]))
            if isinstance(f, ast.Attribute) and isinstance(f.value, ast.Name) and f.value.id == "self" and f.attr == "basis" \
                    and len(n.args) == 4 and not n.keywords:
                return self.basis_call(n.args)
        raise TranslationError("unsupported numeric expression " + ast.dump(n)[:120])

    def basis_call(self, args):
        if self.rec is None:
            raise TranslationError("call of self.basis where none is expected")
        name, kprev = self.rec
        a0, a1, a2, a3 = args
        if self.vec(a0)[0] != "knots":
            raise TranslationError("first argument of self.basis is not the knot vector")
        if not (isinstance(a1, ast.Name) and a1.id == self.xname):
            raise TranslationError("second argument of self.basis is not " + self.xname)
        if kprev is not None:
            # inside `basis`: the order argument must be exactly `k - 1` (structural recursion)
            if not (isinstance(a2, ast.BinOp) and isinstance(a2.op, ast.Sub) and isinstance(a2.left, ast.Name)
                    and a2.left.id == "k" and isinstance(a2.right, ast.Constant) and a2.right.value == 1):
                raise TranslationError("recursive call with an order other than k - 1")
            karg = kprev
        else:
            karg = self.nat(a2)
        return "(%s %s (%s))" % (name, karg, self.nat(a3))

    # ---- Bool expressions
    def boolean(self, n):
        if isinstance(n, ast.Name) and n.id in self.env and self.env[n.id][1] == "bool":
            return self.env[n.id][0]
        if isinstance(n, ast.Compare) and len(n.ops) == 1:
            a, b = self.rat(n.left), self.rat(n.comparators[0])
            op = type(n.ops[0])
            if op is ast.LtE:
                return "decide (%s ≤ %s)" % (a, b)
            if op is ast.Lt:
                return "decide (%s < %s)" % (a, b)
            if op is ast.GtE:
                return "decide (%s ≤ %s)" % (b, a)
            if op is ast.Gt:
                return "decide (%s < %s)" % (b, a)
            if op is ast.Eq:
                return "decide (%s = %s)" % (a, b)
            raise TranslationError("unsupported comparison " + op.__name__)
        if isinstance(n, ast.BoolOp) and isinstance(n.op, ast.And):
            return "(" + " && ".join(self.boolean(v) for v in n.values) + ")"
        if isinstance(n, ast.Call) and isinstance(n.func, ast.Name) and n.func.id in ("logic_and", "logic_or") \
                and len(n.args) == 2 and not n.keywords:
            return "(%s %s %s)" % (self.boolean(n.args[0]), "&&" if n.func.id == "logic_and" else "||", self.boolean(n.args[1]))
        raise TranslationError("unsupported condition " + ast.dump(n)[:120])

    def value(self, n):
        try:
            return self.boolean(n), "bool"
        except TranslationError:
            return self.rat(n), "rat"

    # ---- statements: returns the returned term or None
    def block(self, stmts):
        for j, st in enumerate(stmts):
            if _is_doc(st):
                continue
            if isinstance(st, ast.Return):
                if j != len(stmts) - 1 or st.value is None:
                    raise TranslationError("return in the middle of a block")
                return self.rat(st.value)
            if isinstance(st, ast.Assign) and len(st.targets) == 1 and isinstance(st.targets[0], ast.Name):
                self.env[st.targets[0].id] = self.value(st.value)
                continue
            if isinstance(st, ast.If):
                cond = self.boolean(st.test)
                a, b = self.fork(), self.fork()
                ra, rb = a.block(st.body), b.block(st.orelse)
                if ra is not None or rb is not None:
                    raise TranslationError("return inside a numeric guard")
                for v in sorted(set(a.env) | set(b.env)):
                    va, vb = a.env.get(v), b.env.get(v)
                    if va is None or vb is None:
                        raise TranslationError("variable %s assigned in one branch only" % v)
                    if va[1] != vb[1]:
                        raise TranslationError("variable %s has two kinds" % v)
                    self.env[v] = va if va == vb else ("(if %s then %s else %s)" % (cond, va[0], vb[0]), va[1])
                continue
            raise TranslationError("unsupported statement " + ast.dump(st)[:120])
        return None

    def fork(self):
        f = _Tr(self.knots, self.last, self.kterm, self.names, self.rec, self.attrs, self.xname, self.lens)
        f.env = dict(self.env)
        return f


def _count_term(e, attrs, lens):
    """`len(self.<knots>) - self.<order> - 1`  ->  `(n - k - 1)`; None when `e` is not of that shape"""
    ok = (isinstance(e, ast.BinOp) and isinstance(e.op, ast.Sub) and isinstance(e.right, ast.Constant) and e.right.value == 1
          and not isinstance(e.right.value, bool) and isinstance(e.left, ast.BinOp) and isinstance(e.left.op, ast.Sub))
    if not ok:
        return None
    ln, kk = e.left.left, e.left.right
    ok = (isinstance(ln, ast.Call) and isinstance(ln.func, ast.Name) and ln.func.id == "len" and len(ln.args) == 1
          and isinstance(ln.args[0], ast.Attribute) and isinstance(ln.args[0].value, ast.Name) and ln.args[0].value.id == "self"
          and attrs.get(ln.args[0].attr, ("",))[0] == "knots" and attrs[ln.args[0].attr][1] in lens
          and isinstance(kk, ast.Attribute) and isinstance(kk.value, ast.Name) and kk.value.id == "self"
          and attrs.get(kk.attr, ("",))[0] == "nat")
    if not ok:
        return None
    return "(%s - %s - 1)" % (lens[attrs[ln.args[0].attr][1]], attrs[kk.attr][1])


def translate_basis():
    path = os.path.join(REPO, "src", "rtctools", "data", "interpolation", "bspline.py")
    fn = _find_method(ast.parse(open(path).read()), "BSpline", "basis")
    if [a.arg for a in fn.args.args] != ["self", "t", "x", "k", "i"] or fn.args.defaults or fn.args.vararg or fn.args.kwarg:
        raise TranslationError("unexpected signature of BSpline.basis")
    body = [st for st in fn.body if not _is_doc(st)]
    if len(body) != 1 or not isinstance(body[0], ast.If):
        raise TranslationError("body of BSpline.basis is not a single `if k == 0`")
    top = body[0]
    tst = top.test
    if not (isinstance(tst, ast.Compare) and isinstance(tst.left, ast.Name) and tst.left.id == "k" and len(tst.ops) == 1
            and isinstance(tst.ops[0], ast.Eq) and isinstance(tst.comparators[0], ast.Constant) and tst.comparators[0].value == 0
            and not isinstance(tst.comparators[0].value, bool)):
        raise TranslationError("top-level test is not `k == 0`")
    names = {"x": ("x", "rat"), "i": ("i", "nat")}
    zero = _Tr({"t": "t"}, "tl", "0", names, rec=None).block(top.body)
    succ = _Tr({"t": "t"}, "tl", "(k' + 1)", names, rec=("basisGen t tl x", "k'")).block(top.orelse)
    if zero is None or succ is None:
        raise TranslationError("a branch of `if k == 0` does not return")
    return zero, succ


def translate_call():
    path = os.path.join(REPO, "src", "rtctools", "data", "interpolation", "bspline1d.py")
    tree = ast.parse(open(path).read())
    init = _find_method(tree, "BSpline1D", "__init__")
    stores = {}
    for st in init.body:
        if _is_doc(st):
            continue
        if isinstance(st, ast.Assign) and len(st.targets) == 1 and isinstance(st.targets[0], ast.Attribute) \
                and isinstance(st.targets[0].value, ast.Name) and st.targets[0].value.id == "self" and isinstance(st.value, ast.Name):
            stores[st.targets[0].attr] = st.value.id
        else:
            raise TranslationError("unsupported statement in BSpline1D.__init__")
    if [a.arg for a in init.args.args] != ["self", "t", "w", "k"]:
        raise TranslationError("unexpected signature of BSpline1D.__init__")
    attrs = {}
    for attr, arg in stores.items():
        attrs[attr] = {"t": ("knots", "t"), "w": ("vec", "w"), "k": ("nat", "k")}[arg]
    fn = _find_method(tree, "BSpline1D", "__call__")
    if [a.arg for a in fn.args.args] != ["self", "x"]:
        raise TranslationError("unexpected signature of BSpline1D.__call__")
    body = [st for st in fn.body if not _is_doc(st)]
    if len(body) != 3:
        raise TranslationError("BSpline1D.__call__ is not `y = 0.0; for …: y += …; return y`")
    s0, loop, ret = body
    if not (isinstance(s0, ast.Assign) and len(s0.targets) == 1 and isinstance(s0.targets[0], ast.Name)
            and isinstance(s0.value, ast.Constant) and s0.value.value == 0.0):
        raise TranslationError("accumulator is not initialised with 0.0")
    acc = s0.targets[0].id
    if not (isinstance(ret, ast.Return) and isinstance(ret.value, ast.Name) and ret.value.id == acc):
        raise TranslationError("the accumulator is not what is returned")
    if not (isinstance(loop, ast.For) and isinstance(loop.target, ast.Name) and not loop.orelse and len(loop.body) == 1):
        raise TranslationError("unsupported loop")
    ivar = loop.target.id
    it = loop.iter
    # range(len(self.__t) - self.__k - 1)
    ok = isinstance(it, ast.Call) and isinstance(it.func, ast.Name) and it.func.id == "range" and len(it.args) == 1
    if ok:
        e = it.args[0]
        ok = (isinstance(e, ast.BinOp) and isinstance(e.op, ast.Sub) and isinstance(e.right, ast.Constant) and e.right.value == 1
              and isinstance(e.left, ast.BinOp) and isinstance(e.left.op, ast.Sub))
        if ok:
            ln, kk = e.left.left, e.left.right
            ok = (isinstance(ln, ast.Call) and isinstance(ln.func, ast.Name) and ln.func.id == "len" and len(ln.args) == 1
                  and isinstance(ln.args[0], ast.Attribute) and attrs.get(ln.args[0].attr, ("",))[0] == "knots"
                  and isinstance(kk, ast.Attribute) and attrs.get(kk.attr, ("",))[0] == "nat")
    if not ok:
        raise TranslationError("loop range is not range(len(t) - k - 1)")
    st = loop.body[0]
    if not (isinstance(st, ast.AugAssign) and isinstance(st.op, ast.Add) and isinstance(st.target, ast.Name) and st.target.id == acc):
        raise TranslationError("loop body is not `y += …`")
    tr = _Tr({}, "t (n - 1)", None, {"x": ("x", "rat"), ivar: (ivar, "nat")},
             rec=("basisGen t (t (n - 1)) x", None), attrs=attrs)
    if ivar in ("t", "w", "k", "n", "x"):
        raise TranslationError("loop variable shadows a parameter")
    return ivar, tr.rat(st.value)


GEN_TEMPLATE = """import RtcVerif.Model.C20BSpline
import RtcVerif.Proofs.C20Lemmas
import Mathlib.Algebra.Order.Field.Rat
import Mathlib.Tactic.Ring
import Mathlib.Tactic.Tauto
/-!
GENERATED on every run of the C20 check by harness/translate_c20.py from `BSpline.basis`
(src/rtctools/data/interpolation/bspline.py) and `BSpline1D.__call__` (bspline1d.py) in the tree
under check.  Do not edit.  `basisGen` / `spline1dGen` are the source read as Lean terms
(construct table: harness/translate_c20.py); the theorems tie them to the models the property
theorems of C20 are about.
-/
namespace RtcVerif.Gen
open RtcVerif

def basisGen (t : Nat → Rat) (tl x : Rat) : Nat → Nat → Rat
  | 0, i => %(zero)s
  | k' + 1, i => %(succ)s

theorem basisGen_eq_model (t : Nat → Rat) (tl x : Rat) :
    ∀ k i, basisGen t tl x k i = C20.basis t tl x k i := by
  intro k
  induction k with
  | zero =>
    intro i
    rw [C20.basis_zero]
    simp only [basisGen]
    by_cases hm : C20.inside0 t tl x i
    · rw [if_pos hm]; unfold C20.inside0 at hm
      split_ifs <;> first
        | rfl
        | (exfalso; simp only [Bool.and_eq_true, Bool.or_eq_true, decide_eq_true_eq] at *; tauto)
    · rw [if_neg hm]; unfold C20.inside0 at hm
      split_ifs <;> first
        | rfl
        | (exfalso; simp only [Bool.and_eq_true, Bool.or_eq_true, decide_eq_true_eq] at *; tauto)
  | succ k ih =>
    intro i
    simp only [basisGen, C20.basis, ih, decide_eq_true_eq]
    all_goals ring_nf
%(call)s
end RtcVerif.Gen
"""

CALL_TEMPLATE = """
def spline1dGen (t : Nat → Rat) (n : Nat) (w : Nat → Rat) (k : Nat) (x : Rat) : Rat :=
  C20.sumN (n - k - 1) (fun %(ivar)s => %(term)s)

theorem spline1dGen_eq_model (t : Nat → Rat) (n : Nat) (w : Nat → Rat) (k : Nat) (x : Rat) :
    spline1dGen t n w k x = C20.spline1d t n w k x := by
  unfold spline1dGen C20.spline1d
  apply C20.sumN_congr
  intro %(ivar)s _
  simp only [basisGen_eq_model, C20.term1d, Bool.and_eq_true, decide_eq_true_eq]
  all_goals ring_nf
"""


def gen_bspline(c):
    """(re)generate lean/RtcVerif/Gen/BSplineBasis.lean; returns the extra obligation spec for c.prove"""
    gdir = os.path.join(LEAN_DIR, "RtcVerif", "Gen")
    os.makedirs(gdir, exist_ok=True)
    path = os.path.join(gdir, "BSplineBasis.lean")
    try:
        zero, succ = translate_basis()
    except TranslationError as e:
        c.broken.append(("translator: BSpline.basis", str(e)))
        return []
    thms = ["basisGen_eq_model"]
    try:
        ivar, term = translate_call()
        call = CALL_TEMPLATE % dict(ivar=ivar, term=term)
        thms.append("spline1dGen_eq_model")
    except TranslationError as e:
        c.broken.append(("translator: BSpline1D.__call__", str(e)))
        call = ""
    text = GEN_TEMPLATE % dict(zero=zero, succ=succ, call=call)
    old = open(path).read() if os.path.exists(path) else None
    if old != text:
        tmp = path + ".tmp%d" % os.getpid()
        with open(tmp, "w") as f:
            f.write(text)
        os.replace(tmp, path)
    return [("RtcVerif.Gen.BSplineBasis", "RtcVerif.Gen", thms)]


# ---------------------------------------------------------------------------------------------
# LookupTable.reverse_call: the search-domain fallback (`None` -> the table's own bound)


def translate_reverse_domain():
    path = os.path.join(REPO, "src", "rtctools", "optimization", "csv_lookup_table_mixin.py")
    fn = _find_method(ast.parse(open(path).read()), "LookupTable", "reverse_call")
    args = [a.arg for a in fn.args.args]
    if args[:3] != ["self", "y", "domain"]:
        raise TranslationError("unexpected signature of reverse_call")
    dflt = fn.args.defaults[0] if len(fn.args.defaults) == len(args) - 2 else None
    if not (isinstance(dflt, ast.Tuple) and len(dflt.elts) == 2
            and all(isinstance(e, ast.Constant) and e.value is None for e in dflt.elts)):
        raise TranslationError("default of `domain` is not (None, None)")
    # the bracket handed to brentq
    calls = [n for n in ast.walk(fn) if isinstance(n, ast.Call) and isinstance(n.func, ast.Name) and n.func.id == "brentq"]
    if len(calls) != 1 or len(calls[0].args) != 3 or not all(isinstance(a, ast.Name) for a in calls[0].args[1:]):
        raise TranslationError("brentq is not called once with two plain names as bracket")
    lo_name, hi_name = calls[0].args[1].id, calls[0].args[2].id
    env = {}
    nassign = {lo_name: 0, hi_name: 0}
    for n in ast.walk(fn):
        targets = []
        if isinstance(n, ast.Assign):
            targets = n.targets
        elif isinstance(n, (ast.AugAssign, ast.AnnAssign)):
            targets = [n.target]
        elif isinstance(n, (ast.For, ast.comprehension)):
            targets = [n.target]
        for t in targets:
            for m in ast.walk(t):
                if isinstance(m, ast.Name) and m.id in nassign:
                    nassign[m.id] += 1
    for st in fn.body:
        if _is_doc(st):
            continue
        if isinstance(st, ast.Assign) and len(st.targets) == 1 and isinstance(st.targets[0], ast.Tuple):
            tg = st.targets[0].elts
            if len(tg) == 2 and all(isinstance(e, ast.Name) for e in tg) and {tg[0].id, tg[1].id} == {lo_name, hi_name}:
                if not (isinstance(st.value, ast.Name) and st.value.id == "domain"):
                    raise TranslationError("the bracket names are not unpacked from `domain`")
                env[tg[0].id] = ("ld", "dl", 0, False)
                env[tg[1].id] = ("ud", "du", 1, False)
                continue
        if isinstance(st, ast.If) and isinstance(st.test, ast.Compare) and isinstance(st.test.left, ast.Name) \
                and st.test.left.id in env and len(st.test.ops) == 1:
            name = st.test.left.id
            opt, bound, idx, done = env[name]
            cmp_ok = isinstance(st.test.ops[0], ast.Is) and isinstance(st.test.comparators[0], ast.Constant) \
                and st.test.comparators[0].value is None
            body_ok = (len(st.body) == 1 and not st.orelse and isinstance(st.body[0], ast.Assign)
                       and len(st.body[0].targets) == 1 and isinstance(st.body[0].targets[0], ast.Name)
                       and st.body[0].targets[0].id == name)
            if body_ok:
                v = st.body[0].value
                body_ok = (isinstance(v, ast.Subscript) and isinstance(v.value, ast.Attribute) and v.value.attr == "domain"
                           and isinstance(v.value.value, ast.Name) and v.value.value.id == "self"
                           and isinstance(v.slice, ast.Constant) and v.slice.value == idx)
            if not (cmp_ok and body_ok) or done:
                raise TranslationError("unsupported fallback for " + name)
            env[name] = (opt, bound, idx, True)
            continue
    if set(env) != {lo_name, hi_name} or nassign[lo_name] != 2 or nassign[hi_name] != 2:
        raise TranslationError("the bracket names are assigned other than by `l, u = domain` and the `is None` fallback")
    if env[lo_name][0] != "ld" or env[hi_name][0] != "ud":
        raise TranslationError("lower / upper bound swapped")
    if not (env[lo_name][3] and env[hi_name][3]):
        raise TranslationError("a bound has no `is None` fallback to the table's domain")
    return "Option.getD ld dl", "Option.getD ud du"


REV_TEMPLATE = """import RtcVerif.Model.C20BSpline
/-!
GENERATED on every run of the C20 check by harness/translate_c20.py from the search-domain
fallback of `LookupTable.reverse_call` (src/rtctools/optimization/csv_lookup_table_mixin.py).
Do not edit.
-/
namespace RtcVerif.Gen
open RtcVerif

def revDomainGen (ld ud : Option Rat) (dl du : Rat) : Rat × Rat := (%s, %s)

theorem revDomainGen_eq_model (c : C20.RevCfg) : revDomainGen c.ld c.ud c.dl c.du = (c.lo, c.hi) := rfl

end RtcVerif.Gen
"""


def gen_reverse_domain(c):
    gdir = os.path.join(LEAN_DIR, "RtcVerif", "Gen")
    os.makedirs(gdir, exist_ok=True)
    path = os.path.join(gdir, "ReverseDomain.lean")
    try:
        lo, hi = translate_reverse_domain()
    except TranslationError as e:
        c.broken.append(("translator: LookupTable.reverse_call domain fallback", str(e)))
        return []
    text = REV_TEMPLATE % (lo, hi)
    old = open(path).read() if os.path.exists(path) else None
    if old != text:
        tmp = path + ".tmp%d" % os.getpid()
        with open(tmp, "w") as f:
            f.write(text)
        os.replace(tmp, path)
    return [("RtcVerif.Gen.ReverseDomain", "RtcVerif.Gen", ["revDomainGen_eq_model"])]


# ---------------------------------------------------------------------------------------------
# BSpline2D.__call__: the tensor-product evaluation (nested accumulation loops)
#
#   z = 0.0
#   for i in range(len(self.__tx) - self.__kx - 1):          C20.sumN (nx - kx - 1) (fun i =>
#       bx = <rat expr>                                        (local of the outer body)
#       for j in range(len(self.__ty) - self.__ky - 1):        C20.sumN (ny - ky - 1) (fun j =>
#           by = <rat expr>
#           z += <rat expr over w, bx, by>                        term))
#   return z
#
# extra table entries (only here): index products `a * b`, `len(self.__ty) - self.__ky - 1` as an index
# term `(ny - ky - 1)`, `self.basis(self.__tx, x, self.__kx, i)` -> `basisGen tx (tx (nx - 1)) x kx i`
# (and the same with ty / y / ky).  A doubly nested `z += e` over two `range` loops is read as the double
# sum (trusted table entry: the accumulator is touched by nothing else).


def _range_count(it, attrs, lens):
    if not (isinstance(it, ast.Call) and isinstance(it.func, ast.Name) and it.func.id == "range" and len(it.args) == 1
            and not it.keywords):
        raise TranslationError("loop iterator is not range(<count>)")
    cnt = _count_term(it.args[0], attrs, lens)
    if cnt is None:
        raise TranslationError("loop range is not range(len(t) - k - 1)")
    return cnt


def translate_call2d():
    path = os.path.join(REPO, "src", "rtctools", "data", "interpolation", "bspline2d.py")
    tree = ast.parse(open(path).read())
    init = _find_method(tree, "BSpline2D", "__init__")
    if [a.arg for a in init.args.args] != ["self", "tx", "ty", "w", "kx", "ky"]:
        raise TranslationError("unexpected signature of BSpline2D.__init__")
    stores = {}
    for st in init.body:
        if _is_doc(st):
            continue
        if isinstance(st, ast.Assign) and len(st.targets) == 1 and isinstance(st.targets[0], ast.Attribute) \
                and isinstance(st.targets[0].value, ast.Name) and st.targets[0].value.id == "self" and isinstance(st.value, ast.Name):
            stores[st.targets[0].attr] = st.value.id
        else:
            raise TranslationError("unsupported statement in BSpline2D.__init__")
    kinds = {"tx": ("knots", "tx"), "ty": ("knots", "ty"), "w": ("vec", "w"), "kx": ("nat", "kx"), "ky": ("nat", "ky")}
    attrs = {attr: kinds[arg] for attr, arg in stores.items()}
    if sorted(v[1] for v in attrs.values()) != sorted(v[1] for v in kinds.values()):
        raise TranslationError("BSpline2D.__init__ does not store each argument once")
    lens = {"tx": "nx", "ty": "ny"}
    fn = _find_method(tree, "BSpline2D", "__call__")
    if [a.arg for a in fn.args.args] != ["self", "x", "y"]:
        raise TranslationError("unexpected signature of BSpline2D.__call__")
    body = [st for st in fn.body if not _is_doc(st)]
    if len(body) != 3:
        raise TranslationError("BSpline2D.__call__ is not `z = 0.0; for …; return z`")
    s0, outer, ret = body
    if not (isinstance(s0, ast.Assign) and len(s0.targets) == 1 and isinstance(s0.targets[0], ast.Name)
            and isinstance(s0.value, ast.Constant) and s0.value.value == 0.0 and not isinstance(s0.value.value, bool)):
        raise TranslationError("accumulator is not initialised with 0.0")
    acc = s0.targets[0].id
    if not (isinstance(ret, ast.Return) and isinstance(ret.value, ast.Name) and ret.value.id == acc):
        raise TranslationError("the accumulator is not what is returned")
    if not (isinstance(outer, ast.For) and isinstance(outer.target, ast.Name) and not outer.orelse):
        raise TranslationError("unsupported outer loop")
    ivar = outer.target.id
    n_outer = _range_count(outer.iter, attrs, lens)
    obody = [st for st in outer.body if not _is_doc(st)]
    if not obody or not isinstance(obody[-1], ast.For):
        raise TranslationError("the outer loop does not end with the inner loop")
    inner = obody[-1]
    if not (isinstance(inner.target, ast.Name) and not inner.orelse):
        raise TranslationError("unsupported inner loop")
    jvar = inner.target.id
    if len({ivar, jvar, acc}) != 3 or {ivar, jvar, acc} & {"x", "y", "tx", "ty", "w", "kx", "ky", "nx", "ny"}:
        raise TranslationError("loop variable / accumulator shadows another name")
    n_inner = _range_count(inner.iter, attrs, lens)
    names = {"x": ("x", "rat"), "y": ("y", "rat"), ivar: (ivar, "nat"), jvar: (jvar, "nat")}

    def tr_for(kn, pt):
        # a translator whose `self.basis` calls must be on knot vector `kn` at point `pt`
        a = {k: v for k, v in attrs.items() if v[0] != "knots" or v[1] == kn}
        return _Tr({}, "%s (%s - 1)" % (kn, lens[kn]), None, names,
                   rec=("basisGen %s (%s (%s - 1)) %s" % (kn, kn, lens[kn], pt), None), attrs=a, xname=pt, lens=lens)

    def basis_vector(e):
        # which knot vector the (single) self.basis call inside `e` uses
        found = set()
        for m in ast.walk(e):
            if isinstance(m, ast.Call) and isinstance(m.func, ast.Attribute) and m.func.attr == "basis" and m.args:
                a0 = m.args[0]
                if isinstance(a0, ast.Attribute) and attrs.get(a0.attr, ("",))[0] == "knots":
                    found.add(attrs[a0.attr][1])
                else:
                    raise TranslationError("self.basis on something that is not a stored knot vector")
        if len(found) != 1:
            raise TranslationError("a local mixes the two knot vectors")
        return found.pop()

    env = {}

    def locals_of(stmts, lvl):
        for st in stmts:
            if not (isinstance(st, ast.Assign) and len(st.targets) == 1 and isinstance(st.targets[0], ast.Name)):
                raise TranslationError("unsupported statement in the %s loop body" % lvl)
            nm = st.targets[0].id
            if nm in env or nm in names or nm == acc:
                raise TranslationError("local %s assigned twice / shadows a name" % nm)
            kn = basis_vector(st.value)
            pt = {"tx": "x", "ty": "y"}[kn]
            if lvl == "outer" and any(isinstance(m, ast.Name) and m.id == jvar for m in ast.walk(st.value)):
                raise TranslationError("outer local uses the inner loop variable")
            t = tr_for(kn, pt)
            t.env = dict(env)
            env[nm] = (t.rat(st.value), "rat")

    locals_of(obody[:-1], "outer")
    ibody = [st for st in inner.body if not _is_doc(st)]
    if not ibody:
        raise TranslationError("empty inner loop")
    locals_of(ibody[:-1], "inner")
    last = ibody[-1]
    if not (isinstance(last, ast.AugAssign) and isinstance(last.op, ast.Add) and isinstance(last.target, ast.Name)
            and last.target.id == acc):
        raise TranslationError("the inner loop does not end with `z += …`")
    if any(isinstance(m, ast.Call) for m in ast.walk(last.value) if isinstance(m, ast.Call)
           and isinstance(m.func, ast.Attribute) and m.func.attr == "basis"):
        raise TranslationError("self.basis inside the accumulated term")
    t = _Tr({}, "0", None, names, rec=None, attrs={k: v for k, v in attrs.items() if v[0] != "knots"} | {
        k: v for k, v in attrs.items() if v[0] == "knots"}, lens=lens)
    t.env = dict(env)
    term = t.rat(last.value)
    return ivar, jvar, n_outer, n_inner, term


CALL2D_TEMPLATE = """import RtcVerif.Gen.BSplineBasis
/-!
GENERATED on every run of the C20 check by harness/translate_c20.py from `BSpline2D.__call__`
(src/rtctools/data/interpolation/bspline2d.py) in the tree under check.  Do not edit.
-/
namespace RtcVerif.Gen
open RtcVerif

def spline2dGen (tx : Nat → Rat) (nx : Nat) (ty : Nat → Rat) (ny : Nat) (w : Nat → Rat)
    (kx ky : Nat) (x y : Rat) : Rat :=
  C20.sumN %(n_outer)s (fun %(ivar)s => C20.sumN %(n_inner)s (fun %(jvar)s => %(term)s))

theorem spline2dGen_eq_model (tx : Nat → Rat) (nx : Nat) (ty : Nat → Rat) (ny : Nat) (w : Nat → Rat)
    (kx ky : Nat) (x y : Rat) :
    spline2dGen tx nx ty ny w kx ky x y = C20.spline2d tx nx ty ny w kx ky x y := by
  unfold spline2dGen C20.spline2d
  apply C20.sumN_congr
  intro %(ivar)s _
  apply C20.sumN_congr
  intro %(jvar)s _
  simp only [basisGen_eq_model, C20.wbasis, Bool.and_eq_true, decide_eq_true_eq]
  all_goals ring_nf

end RtcVerif.Gen
"""


def _write_if_changed(path, text):
    old = open(path).read() if os.path.exists(path) else None
    if old != text:
        tmp = path + ".tmp%d" % os.getpid()
        with open(tmp, "w") as f:
            f.write(text)
        os.replace(tmp, path)


def gen_bspline2d(c):
    """(re)generate lean/RtcVerif/Gen/BSpline2D.lean (imports the generated BSplineBasis module)"""
    path = os.path.join(LEAN_DIR, "RtcVerif", "Gen", "BSpline2D.lean")
    try:
        translate_basis()   # the module imports basisGen: without it there is nothing to state
        ivar, jvar, n_outer, n_inner, term = translate_call2d()
    except TranslationError as e:
        c.broken.append(("translator: BSpline2D.__call__", str(e)))
        return []
    _write_if_changed(path, CALL2D_TEMPLATE % dict(ivar=ivar, jvar=jvar, n_outer=n_outer, n_inner=n_inner, term=term))
    return [("RtcVerif.Gen.BSpline2D", "RtcVerif.Gen", ["spline2dGen_eq_model"])]


# ---------------------------------------------------------------------------------------------
# CSVLookupTableMixin.pre: the fit-cache decision
#
# Read from the source (anything else in the decision block is rejected):
#
#   if ini_config.read(ini_path): no_curvefit_options = False  else: … = True
#                                                  no_curvefit_options  <->  F.ini = none   (frame check)
#   tck_filename = filename.replace(".csv", ".npz")                 the cache file of the table
#   valid_cache = False                                             false
#   if os.path.exists(tck_filename): BODY                           match F.npz with | none => (state) | some m => BODY
#   if no_curvefit_options: A else: B                               match F.ini with | none => A | some i => B
#   os.path.getmtime(filename | tck_filename | ini_path)            F.csvM | m | i   (i only where F.ini = some i)
#   a < b ; p and q ; (p)                                           decide (a < b) ; p && q
#   if valid_cache: try: <np.load of the .npz, ca.Function.load of the .ca> except Exception: valid_cache = False
#                                                                   if v then (if F.loadable then v else false) else v
#   logger.*(…)                                                     ignored
#   after the block: every `function = …` under `if not valid_cache:`, every `tck = …` under
#   `if not valid_cache:` or `if tck is None:`, no other store to valid_cache, the loop body ends with
#   `if not valid_cache: np.savez(<npz>, *tck); function.save(<ca>)`      recomputeGen / saveGen = !valid


def _is_call_path(n, dotted):
    """n is a call of the dotted name, e.g. os.path.exists"""
    if not isinstance(n, ast.Call):
        return False
    f, parts = n.func, dotted.split(".")
    for p in reversed(parts[1:]):
        if not (isinstance(f, ast.Attribute) and f.attr == p):
            return False
        f = f.value
    return isinstance(f, ast.Name) and f.id == parts[0]


def _cache_file(n, ext, npz_name):
    """n names the cache file with extension `ext`: filename.replace(".csv", ext) (or the npz local)"""
    if ext == ".npz" and isinstance(n, ast.Name) and n.id == npz_name:
        return True
    return (isinstance(n, ast.Call) and isinstance(n.func, ast.Attribute) and n.func.attr == "replace"
            and isinstance(n.func.value, ast.Name) and n.func.value.id == "filename" and len(n.args) == 2
            and all(isinstance(a, ast.Constant) for a in n.args) and n.args[0].value == ".csv" and n.args[1].value == ext)


def _is_logger(st):
    return (isinstance(st, ast.Expr) and isinstance(st.value, ast.Call) and isinstance(st.value.func, ast.Attribute)
            and isinstance(st.value.func.value, ast.Name) and st.value.func.value.id == "logger")


class _CacheTr:
    def __init__(self, npz_name):
        self.npz = npz_name

    def mtime(self, n, have_m, have_i):
        if not (_is_call_path(n, "os.path.getmtime") and len(n.args) == 1 and not n.keywords):
            raise TranslationError("unsupported operand in the cache test " + ast.dump(n)[:80])
        a = n.args[0]
        if isinstance(a, ast.Name) and a.id == "filename":
            return "F.csvM"
        if _cache_file(a, ".npz", self.npz):
            if not have_m:
                raise TranslationError("mtime of the cache read where it may not exist")
            return "m"
        if isinstance(a, ast.Name) and a.id == "ini_path":
            if not have_i:
                raise TranslationError("mtime of curvefit_options.ini read where the file may not exist")
            return "i"
        raise TranslationError("mtime of an unknown file")

    def cond(self, n, have_m, have_i):
        if isinstance(n, ast.Compare) and len(n.ops) == 1 and isinstance(n.ops[0], ast.Lt):
            return "decide (%s < %s)" % (self.mtime(n.left, have_m, have_i), self.mtime(n.comparators[0], have_m, have_i))
        if isinstance(n, ast.BoolOp) and isinstance(n.op, ast.And):
            return "(" + " && ".join(self.cond(v, have_m, have_i) for v in n.values) + ")"
        raise TranslationError("unsupported cache test " + ast.dump(n)[:80])

    def block(self, stmts, v, have_m, have_i):
        """returns the Lean term of valid_cache after the statements (v: term before)"""
        for st in stmts:
            if _is_logger(st) or _is_doc(st):
                continue
            if isinstance(st, ast.Assign) and len(st.targets) == 1 and isinstance(st.targets[0], ast.Name) \
                    and st.targets[0].id == "valid_cache":
                if isinstance(st.value, ast.Constant) and st.value.value is False:
                    v = "false"
                else:
                    v = self.cond(st.value, have_m, have_i)
                continue
            if isinstance(st, ast.If):
                t = st.test
                if _is_call_path(t, "os.path.exists") and len(t.args) == 1 and _cache_file(t.args[0], ".npz", self.npz):
                    if st.orelse or have_m:
                        raise TranslationError("unsupported shape of the cache-exists test")
                    v = "(match F.npz with | none => %s | some m => %s)" % (v, self.block(st.body, v, True, have_i))
                    continue
                if isinstance(t, ast.Name) and t.id == "no_curvefit_options":
                    if have_i:
                        raise TranslationError("nested no_curvefit_options test")
                    v = "(match F.ini with | none => %s | some i => %s)" % (
                        self.block(st.body, v, have_m, False), self.block(st.orelse, v, have_m, True))
                    continue
                if isinstance(t, ast.Name) and t.id == "valid_cache" and not st.orelse:
                    v = "(if %s then %s else %s)" % (v, self.loads(st.body, v), v)
                    continue
            raise TranslationError("unsupported statement in the cache decision " + ast.dump(st)[:100])
        return v

    def loads(self, stmts, v):
        body = [s for s in stmts if not _is_logger(s)]
        if len(body) != 1 or not isinstance(body[0], ast.Try):
            raise TranslationError("the loads of the cache are not a single try block")
        tr = body[0]
        if tr.orelse or tr.finalbody or len(tr.handlers) != 1:
            raise TranslationError("unsupported try shape")
        h = tr.handlers[0]
        if not (isinstance(h.type, ast.Name) and h.type.id == "Exception" and len(h.body) == 1
                and isinstance(h.body[0], ast.Assign) and len(h.body[0].targets) == 1
                and isinstance(h.body[0].targets[0], ast.Name) and h.body[0].targets[0].id == "valid_cache"
                and isinstance(h.body[0].value, ast.Constant) and h.body[0].value.value is False):
            raise TranslationError("the handler is not `except Exception: valid_cache = False`")
        seen = set()
        for st in tr.body:
            if isinstance(st, ast.With) and len(st.items) == 1 and _is_call_path(st.items[0].context_expr, "np.load") \
                    and _cache_file(st.items[0].context_expr.args[0], ".npz", self.npz):
                for s2 in st.body:
                    if not (isinstance(s2, ast.Assign) and len(s2.targets) == 1 and isinstance(s2.targets[0], ast.Name)
                            and s2.targets[0].id == "tck"):
                        raise TranslationError("unsupported statement under np.load")
                seen.add("npz")
                continue
            if isinstance(st, ast.Assign) and len(st.targets) == 1 and isinstance(st.targets[0], ast.Name) \
                    and st.targets[0].id == "function" and _is_call_path(st.value, "ca.Function.load") \
                    and _cache_file(st.value.args[0], ".ca", self.npz):
                seen.add("ca")
                continue
            raise TranslationError("unsupported statement in the try block " + ast.dump(st)[:80])
        if seen != {"npz", "ca"}:
            raise TranslationError("the try block does not load both cache files")
        return "(if F.loadable then %s else false)" % v


def _guard_of(node, parents):
    """chain of enclosing `if` tests (with polarity) of a node inside the loop body"""
    out = []
    cur = node
    while id(cur) in parents:
        par, field = parents[id(cur)]
        if isinstance(par, ast.If):
            out.append((par.test, field == "body"))
        cur = par
    return out


def _is_not_valid(t):
    return isinstance(t, ast.UnaryOp) and isinstance(t.op, ast.Not) and isinstance(t.operand, ast.Name) \
        and t.operand.id == "valid_cache"


def _is_tck_none(t):
    return (isinstance(t, ast.Compare) and isinstance(t.left, ast.Name) and t.left.id == "tck" and len(t.ops) == 1
            and isinstance(t.ops[0], ast.Is) and isinstance(t.comparators[0], ast.Constant) and t.comparators[0].value is None)


def translate_fit_cache():
    path = os.path.join(REPO, "src", "rtctools", "optimization", "csv_lookup_table_mixin.py")
    pre = _find_method(ast.parse(open(path).read()), "CSVLookupTableMixin", "pre")
    # frame: no_curvefit_options <-> the ini file could not be read
    frame = None
    for st in pre.body:
        if isinstance(st, ast.If) and isinstance(st.test, ast.Call) and isinstance(st.test.func, ast.Attribute) \
                and st.test.func.attr == "read" and len(st.test.args) == 1 and isinstance(st.test.args[0], ast.Name) \
                and st.test.args[0].id == "ini_path":
            def val(block):
                vals = [s.value.value for s in block if isinstance(s, ast.Assign) and len(s.targets) == 1
                        and isinstance(s.targets[0], ast.Name) and s.targets[0].id == "no_curvefit_options"
                        and isinstance(s.value, ast.Constant)]
                return vals[0] if len(vals) == 1 else None
            frame = (val(st.body), val(st.orelse))
    if frame != (False, True):
        raise TranslationError("no_curvefit_options is not `not ini_config.read(ini_path)`")
    n_assign = sum(1 for n in ast.walk(pre) if isinstance(n, ast.Assign) and any(
        isinstance(t, ast.Name) and t.id == "no_curvefit_options" for t in n.targets))
    if n_assign != 2:
        raise TranslationError("no_curvefit_options assigned elsewhere")
    loops = [st for st in pre.body if isinstance(st, ast.For) and isinstance(st.target, ast.Name) and st.target.id == "filename"]
    if len(loops) != 1:
        raise TranslationError("the loop over the table files was not found")
    body = loops[0].body
    # the decision block: from `tck_filename = filename.replace(".csv", ".npz")` to the first `if not valid_cache`
    start = None
    for j, st in enumerate(body):
        if isinstance(st, ast.Assign) and len(st.targets) == 1 and isinstance(st.targets[0], ast.Name) \
                and _cache_file(st.value, ".npz", None):
            start, npz_name = j, st.targets[0].id
    if start is None:
        raise TranslationError("the cache file name assignment was not found")
    end = None
    for j in range(start + 1, len(body)):
        if isinstance(body[j], ast.If) and _is_not_valid(body[j].test):
            end = j
            break
    if end is None:
        raise TranslationError("no `if not valid_cache` after the decision block")
    valid = _CacheTr(npz_name).block(body[start + 1:end], "false", False, False)
    # after the block: stores to valid_cache / function / tck and the final save
    parents = {}
    for st in body[end:]:
        for par in ast.walk(st):
            for field, value in ast.iter_fields(par):
                if isinstance(value, list):
                    for ch in value:
                        if isinstance(ch, ast.AST):
                            parents[id(ch)] = (par, field)
                elif isinstance(value, ast.AST):
                    parents[id(value)] = (par, field)
    rec_guards = []
    for st in body[end:]:
        for n in ast.walk(st):
            if isinstance(n, (ast.Assign, ast.AugAssign)):
                tg = n.targets if isinstance(n, ast.Assign) else [n.target]
                for t in tg:
                    for m in ast.walk(t):
                        if isinstance(m, ast.Name) and m.id == "valid_cache":
                            raise TranslationError("valid_cache is assigned after the decision block")
                        if isinstance(m, ast.Name) and m.id in ("function", "tck"):
                            g = _guard_of(n, parents)
                            ok = any(pos and (_is_not_valid(tst) or (m.id == "tck" and _is_tck_none(tst))) for tst, pos in g)
                            if not ok:
                                raise TranslationError("`%s` is recomputed outside `if not valid_cache`" % m.id)
                            if m.id == "function":
                                rec_guards.append(n)
    if not rec_guards:
        raise TranslationError("no recomputation of the table function found")
    last = body[-1]
    ok = isinstance(last, ast.If) and _is_not_valid(last.test) and not last.orelse and len(last.body) == 2
    if ok:
        s1, s2 = last.body
        ok = (isinstance(s1, ast.Expr) and _is_call_path(s1.value, "np.savez") and _cache_file(s1.value.args[0], ".npz", npz_name)
              and isinstance(s2, ast.Expr) and isinstance(s2.value, ast.Call) and isinstance(s2.value.func, ast.Attribute)
              and s2.value.func.attr == "save" and isinstance(s2.value.func.value, ast.Name)
              and s2.value.func.value.id == "function" and _cache_file(s2.value.args[0], ".ca", npz_name))
    if not ok:
        raise TranslationError("the loop body does not end with `if not valid_cache: np.savez(…); function.save(…)`")
    return valid


CACHE_TEMPLATE = """import RtcVerif.Model.C20BSpline
/-!
GENERATED on every run of the C20 check by harness/translate_c20.py from the fit-cache decision of
`CSVLookupTableMixin.pre` (src/rtctools/optimization/csv_lookup_table_mixin.py).  Do not edit.
-/
namespace RtcVerif.Gen
open RtcVerif

/-- `valid_cache` as the source computes it -/
def validCacheGen (F : C20.Files) : Bool :=
  %(valid)s

/-- the guard of every recomputation of the table function and of the final `np.savez` / `function.save` -/
def recomputeGen (F : C20.Files) : Bool := !validCacheGen F

theorem validCacheGen_eq_model (F : C20.Files) : validCacheGen F = C20.validCache F := by
  rcases F with ⟨c, ini, npz, l⟩
  cases npz <;> cases ini <;> cases l <;> simp [validCacheGen, C20.validCache] <;> first | omega | grind

/-- the served fit is recomputed (and the cache rewritten) exactly when the model's `step … .pre` does so -/
theorem recomputeGen_eq_model (F : C20.Files) : recomputeGen F = !C20.validCache F := by
  rw [recomputeGen, validCacheGen_eq_model]

end RtcVerif.Gen
"""


def gen_fit_cache(c):
    path = os.path.join(LEAN_DIR, "RtcVerif", "Gen", "FitCache.lean")
    try:
        valid = translate_fit_cache()
    except TranslationError as e:
        c.broken.append(("translator: CSVLookupTableMixin.pre fit-cache decision", str(e)))
        return []
    _write_if_changed(path, CACHE_TEMPLATE % dict(valid=valid))
    return [("RtcVerif.Gen.FitCache", "RtcVerif.Gen", ["validCacheGen_eq_model", "recomputeGen_eq_model"])]


# ---------------------------------------------------------------------------------------------
# BSpline1D.fit: what the least-squares solve is given (knot vector, bounds of the constraint rows)
#
#   if interior_pts is None: if k % 2 == 1: interior_pts = S else: interior_pts = (S + S') / 2
#                                                  C20.interiorKnots-shaped term: `if k % 2 = 1 then S else zipWith mid S S'`
#   x[A : B]   A in {k // 2, k // 2 + 1};  B in {-k // 2, -k // 2 - 1}
#                                                  C20.pySlice x A B'   with  -k // 2 -> (k + 1) / 2  (Python floors), `- 1` -> `+ 1`
#   t = np.concatenate((np.full(k + 1, x[0] - delta), interior_pts, np.full(k + 1, x[-1] + delta)))
#                                                  replicate (k + 1) (x.headD 0 - δ) ++ I ++ replicate (k + 1) (x.getLastD 0 + δ)
#   B = np.full(<n>, inf | -inf | epsilon | -epsilon)        EVal.pinf | .ninf | .fin ε | .fin (-ε)   (row-wise: one value per block)
#   if monotonicity != 0 / < 0 / > 0 (same for curvature): B = ...      per name: if cond then a else b
#   monotonicity_constraints = vertcat(*[c[i + 1] - c[i] for i in range(num_knots - 1)])      frame: the dc rows
#   g = vertcat(M, C); lbg = np.concatenate((dcMin, ssMin)); ubg = np.concatenate((dcMax, ssMax))
#                                                  frame: same block order in g, lbg, ubg; which names are the four bounds


def _fit_index(n, end):
    """index expression in k: start (end=False) or the offset b of a `-b` end (end=True)"""
    s = ast.unparse(n).replace(" ", "")
    if not end:
        if s == "k//2":
            return "(k / 2)"
        if s == "k//2+1":
            return "(k / 2 + 1)"
    else:
        if s == "-k//2":
            return "((k + 1) / 2)"
        if s == "-k//2-1":
            return "((k + 1) / 2 + 1)"
    raise TranslationError("slice bound outside the table: " + s)


def _fit_slice(n):
    if not (isinstance(n, ast.Subscript) and isinstance(n.value, ast.Name) and n.value.id == "x"
            and isinstance(n.slice, ast.Slice) and n.slice.step is None and n.slice.lower is not None
            and n.slice.upper is not None):
        raise TranslationError("not a slice x[a:-b]: " + ast.unparse(n))
    return "(C20.pySlice x %s %s)" % (_fit_index(n.slice.lower, False), _fit_index(n.slice.upper, True))


def _fit_interior(n):
    if isinstance(n, ast.Subscript):
        return _fit_slice(n)
    if isinstance(n, ast.BinOp) and isinstance(n.op, ast.Div) and isinstance(n.right, ast.Constant) and n.right.value == 2 \
            and isinstance(n.left, ast.BinOp) and isinstance(n.left.op, ast.Add):
        return "(List.zipWith (fun p q => (p + q) / 2) %s %s)" % (_fit_slice(n.left.left), _fit_slice(n.left.right))
    raise TranslationError("interior knots outside the table: " + ast.unparse(n))


def _fit_eval(n):
    """np.full(<count>, v) -> EVal term"""
    if not (_is_call_path(n, "np.full") and len(n.args) == 2 and not n.keywords):
        raise TranslationError("bound block is not np.full(n, v): " + ast.unparse(n))
    s = ast.unparse(n.args[1]).replace(" ", "")
    tab = {"inf": "EVal.pinf", "-inf": "EVal.ninf", "epsilon": "EVal.fin ε", "-epsilon": "EVal.fin (-ε)",
           "np.inf": "EVal.pinf", "-np.inf": "EVal.ninf"}
    if s not in tab:
        raise TranslationError("bound value outside the table: " + s)
    return tab[s]


def _fit_cond(n):
    if isinstance(n, ast.Compare) and len(n.ops) == 1 and isinstance(n.left, ast.Name) \
            and n.left.id in ("monotonicity", "curvature") and isinstance(n.comparators[0], ast.Constant) \
            and n.comparators[0].value == 0 and not isinstance(n.comparators[0].value, bool):
        v = {"monotonicity": "mono", "curvature": "curv"}[n.left.id]
        op = type(n.ops[0])
        if op is ast.NotEq:
            return "(%s ≠ 0)" % v
        if op is ast.Lt:
            return "(%s < 0)" % v
        if op is ast.Gt:
            return "(0 < %s)" % v
        if op is ast.Eq:
            return "(%s = 0)" % v
    raise TranslationError("condition outside the table: " + ast.unparse(n))


def _fit_bounds_block(stmts, env):
    for st in stmts:
        if isinstance(st, ast.Assign) and len(st.targets) == 1 and isinstance(st.targets[0], ast.Name):
            env[st.targets[0].id] = _fit_eval(st.value)
            continue
        if isinstance(st, ast.If):
            c = _fit_cond(st.test)
            a, b = dict(env), dict(env)
            _fit_bounds_block(st.body, a)
            _fit_bounds_block(st.orelse, b)
            for nm in set(a) | set(b):
                if nm not in a or nm not in b:
                    raise TranslationError("bound %s assigned in one branch only" % nm)
                env[nm] = a[nm] if a[nm] == b[nm] else "(if %s then %s else %s)" % (c, a[nm], b[nm])
            continue
        raise TranslationError("statement outside the table in the bounds block: " + ast.unparse(st)[:80])


def translate_fit_setup():
    path = os.path.join(REPO, "src", "rtctools", "data", "interpolation", "bspline1d.py")
    fn = _find_method(ast.parse(open(path).read()), "BSpline1D", "fit")
    body = [st for st in fn.body if not _is_doc(st)]
    # defaults the model's δ / ε stand for
    interior = knots = None
    bounds_stmts, names = [], {}
    frame = {}
    for st in body:
        if isinstance(st, ast.If) and ast.unparse(st.test) == "interior_pts is None":
            inner = [s for s in st.body if not _is_doc(s)]
            if st.orelse or len(inner) != 1 or not isinstance(inner[0], ast.If):
                raise TranslationError("unexpected shape of the automatic-knots block")
            br = inner[0]
            if ast.unparse(br.test).replace(" ", "") != "k%2==1":
                raise TranslationError("automatic knots do not branch on k % 2 == 1")

            def single(block):
                if len(block) != 1 or not (isinstance(block[0], ast.Assign) and len(block[0].targets) == 1
                                           and isinstance(block[0].targets[0], ast.Name)
                                           and block[0].targets[0].id == "interior_pts"):
                    raise TranslationError("a branch of the automatic-knots block does not assign interior_pts once")
                return _fit_interior(block[0].value)

            interior = "(if k %% 2 = 1 then %s else %s)" % (single(br.body), single(br.orelse))
            continue
        if isinstance(st, ast.Assign) and len(st.targets) == 1 and isinstance(st.targets[0], ast.Name):
            nm, v = st.targets[0].id, st.value
            if nm == "t":
                s = ast.unparse(v).replace(" ", "")
                if s != "np.concatenate((np.full(k+1,x[0]-delta),interior_pts,np.full(k+1,x[-1]+delta)))":
                    raise TranslationError("knot vector outside the table: " + s[:90])
                knots = "List.replicate (k + 1) (x.headD 0 - δ) ++ interior.getD %s ++ List.replicate (k + 1) (x.getLastD 0 + δ)"
                continue
            if _is_call_path(v, "np.full") and nm not in ("t",):
                bounds_stmts.append(st)
                continue
            if nm in ("g", "lbg", "ubg", "monotonicity_constraints"):
                frame[nm] = ast.unparse(v).replace(" ", "")
                continue
        if isinstance(st, ast.If) and isinstance(st.test, ast.Compare) and isinstance(st.test.left, ast.Name) \
                and st.test.left.id in ("monotonicity", "curvature"):
            bounds_stmts.append(st)
            continue
    if interior is None or knots is None:
        raise TranslationError("the automatic-knots block / the knot vector were not found")
    # `interior_pts` and `t` must not be assigned anywhere else
    for nm, cnt in (("interior_pts", 2), ("t", 1)):
        k_ = sum(1 for n in ast.walk(fn) if isinstance(n, (ast.Assign, ast.AugAssign)) and any(
            isinstance(m, ast.Name) and m.id == nm
            for tg in (n.targets if isinstance(n, ast.Assign) else [n.target]) for m in ast.walk(tg)))
        if k_ != cnt:
            raise TranslationError("`%s` is assigned %d times" % (nm, k_))
    env = {}
    _fit_bounds_block(bounds_stmts, env)
    # frame: which names bound which block, and the block order
    lbg = re.fullmatch(r"np\.concatenate\(\((\w+),(\w+)\)\)", frame.get("lbg", ""))
    ubg = re.fullmatch(r"np\.concatenate\(\((\w+),(\w+)\)\)", frame.get("ubg", ""))
    g = re.fullmatch(r"vertcat\((\w+),(\w+)\)", frame.get("g", ""))
    if not (lbg and ubg and g):
        raise TranslationError("g / lbg / ubg are not two-block concatenations")
    if g.group(1) != "monotonicity_constraints" or \
            frame.get("monotonicity_constraints") != "vertcat(*[c[i+1]-c[i]foriinrange(num_knots-1)])":
        raise TranslationError("the first block of g is not the coefficient differences c[i+1] - c[i]")
    need = [lbg.group(1), ubg.group(1), lbg.group(2), ubg.group(2)]
    if any(nm not in env for nm in need) or len(set(need)) != 4:
        raise TranslationError("a bound block of lbg / ubg is not one of the np.full blocks")
    return interior, knots % interior, [env[nm] for nm in need]


FIT_TEMPLATE = """import RtcVerif.Model.C20Fit
/-!
GENERATED on every run of the C20 check by harness/translate_c20.py from the set-up of `BSpline1D.fit`
(src/rtctools/data/interpolation/bspline1d.py): automatic knots, knot vector, bounds of the
monotonicity (coefficient differences) and curvature rows.  Do not edit.
-/
namespace RtcVerif.Gen
open RtcVerif

def interiorGen (x : List Rat) (k : Nat) : List Rat :=
  %(interior)s

def fitKnotsGen (x : List Rat) (k : Nat) (δ : Rat) (interior : Option (List Rat)) : List Rat :=
  %(knots)s

def fitBoundsGen (mono curv : Int) (ε : Rat) : C20.FitBounds :=
  {{ dcMin := %(b0)s
    dcMax := %(b1)s
    ssMin := %(b2)s
    ssMax := %(b3)s }}

theorem interiorGen_eq_model (x : List Rat) (k : Nat) : interiorGen x k = C20.interiorKnots x k := rfl

theorem fitKnotsGen_eq_model (x : List Rat) (k : Nat) (δ : Rat) (interior : Option (List Rat)) :
    fitKnotsGen x k δ interior = C20.fitKnots x k δ interior := rfl

theorem fitBoundsGen_eq_model (mono curv : Int) (ε : Rat) : fitBoundsGen mono curv ε = C20.fitBounds mono curv ε := by
  unfold fitBoundsGen C20.fitBounds
  congr 1 <;> (repeat' split) <;> first | rfl | (exfalso; omega)

end RtcVerif.Gen
"""


def gen_fit_setup(c):
    path = os.path.join(LEAN_DIR, "RtcVerif", "Gen", "FitSetup.lean")
    try:
        interior, knots, b = translate_fit_setup()
    except TranslationError as e:
        c.broken.append(("translator: BSpline1D.fit set-up", str(e)))
        return []
    text = FIT_TEMPLATE.replace("{{", "{").replace("}}", "}") % dict(interior=interior, knots=knots, b0=b[0], b1=b[1], b2=b[2], b3=b[3])
    _write_if_changed(path, text)
    return [("RtcVerif.Gen.FitSetup", "RtcVerif.Gen", ["interiorGen_eq_model", "fitKnotsGen_eq_model", "fitBoundsGen_eq_model"])]
