import RtcVerif.Model.C01Colloc
/-!
Line-protocol driver for the C01 model.

op `rows`: an instance (sizes, grid, theta, nominals, layout as recovered from the implementation,
per-member parameter values / constant-input series / histories, polynomial residual description)
and a list of sparse probe decision vectors; answers the model's `gRows` at every probe together
with the bounds.
op `effpar`: the parameter vector each member's residual sees (repaired and legacy classification).
-/
open Lean RtcVerif RtcVerif.Wire RtcVerif.Interp RtcVerif.C01

structure Mono where
  coef : Rat
  facs : List (Nat × Nat)

structure PEq where
  c : Rat
  terms : List Mono

def evalFac (v d c : List Rat) (t : Rat) (p : List Rat) : Nat × Nat → Rat
  | (0, j) => v.getD j 0
  | (1, j) => d.getD j 0
  | (2, j) => c.getD j 0
  | (3, _) => t
  | (_, j) => p.getD j 0

def evalEqs (eqs : List PEq) : Residual := fun v d c t p =>
  eqs.map (fun e => e.terms.foldl
    (fun acc m => acc + m.facs.foldl (fun x f => x * evalFac v d c t p f) m.coef) e.c)

def parseFac (j : Json) : Option (Nat × Nat) :=
  match j with
  | Json.arr a =>
    match a.toList with
    | [x, y] => do
        let x ← (fromJson? x : Except String Nat).toOption
        let y ← (fromJson? y : Except String Nat).toOption
        pure (x, y)
    | _ => none
  | _ => none

def parseMono (j : Json) : Option Mono := do
  let a ← getRat j "a"
  let f ← getArr j "f"
  let f ← f.mapM parseFac
  pure ⟨a, f⟩

def parseEq (j : Json) : Option PEq := do
  let c ← getRat j "c"
  let t ← getArr j "t"
  let t ← t.mapM parseMono
  pure ⟨c, t⟩

def parseEqs (j : Json) (k : String) : Option (List PEq) := do
  let a ← getArr j k
  a.mapM parseEq

def parseSeries (j : Json) : Option (Option Knots) :=
  match j with
  | Json.null => some none
  | _ => do
      let t ← getRatList j "t"
      let v ← getRatList j "v"
      pure (some (t.zip v))

def parseOwn (j : Json) : Option (Option Own) :=
  match j with
  | Json.null => some none
  | _ => do
      let t ← getRatList j "times"
      let m ← getNat j "mode"
      pure (some ⟨t, m⟩)

def asNatMat (j : Json) : Option (List (List Nat)) :=
  match j with
  | Json.arr a => a.toList.mapM asNatList
  | _ => none

def parseProbe (n : Nat) (j : Json) : Option (Array Rat) :=
  match j with
  | Json.arr a =>
      a.foldlM (init := Array.replicate n (0 : Rat)) (fun acc e =>
        match e with
        | Json.arr p =>
          match p.toList with
          | [i, v] => do
              let i ← (fromJson? i : Except String Nat).toOption
              let v ← asRat v
              pure (acc.setIfInBounds i v)
          | _ => none
        | _ => none)
  | _ => none

def handleRows (j : Json) : Option Json := do
  let k ← getNat j "k"
  let nd ← getNat j "nd"
  let nc ← getNat j "nc"
  let npar ← getNat j "npar"
  let E ← getNat j "E"
  let N ← getNat j "N"
  let ts ← getRatList j "ts"
  let theta ← getRat j "theta"
  let nom ← getRatList j "nom"
  let dnom ← getRatList j "dnom"
  let own ← (← getArr j "own").mapM parseOwn
  let idx ← (← getArr j "idx").mapM asNatMat
  let didx ← (← getArr j "didx").mapM asNatList
  let pvals ← getRatMat j "pvals"
  let cmode ← getNatList j "cmode"
  let cin ← (← getArr j "cin").mapM (fun mj => match mj with
    | Json.arr a => a.toList.mapM parseSeries
    | _ => none)
  let hist ← (← getArr j "hist").mapM (fun mj => match mj with
    | Json.arr a => a.toList.mapM parseSeries
    | _ => none)
  let eqs ← parseEqs j "eqs"
  let initEqs : Option (List PEq) ← match getObj j "init_eqs" with
    | none => some none
    | some Json.null => some none
    | some _ => (parseEqs j "init_eqs").map some
  let probes ← (← getArr j "probes").mapM (parseProbe N)
  let idxA : Array (Array (Array Nat)) := (idx.map (fun m => (m.map List.toArray).toArray)).toArray
  let didxA : Array (Array Nat) := (didx.map List.toArray).toArray
  let nomA := nom.toArray
  let dnomA := dnom.toArray
  let ownA := own.toArray
  let pvA := pvals.toArray
  let dynA := ((getBoolList j "dyn").getD []).toArray
  let cinA : Array (Array (Option Knots)) := (cin.map List.toArray).toArray
  let histA : Array (Array (Option Knots)) := (hist.map List.toArray).toArray
  let cmodeA := cmode.toArray
  let sys : Sys := {
    k := k, nd := nd, nc := nc, ne := eqs.length, tsL := ts, theta := theta,
    nom := fun v => nomA.getD v 1, dnom := fun v => dnomA.getD v 1,
    own := fun v => (ownA.getD v none) }
  let I : Inst := {
    sys := sys, E := E,
    idx := fun m v i => ((idxA.getD m #[]).getD v #[]).getD i 0,
    didx := fun m v => (didxA.getD m #[]).getD v 0,
    npar := npar,
    pvals := fun m => pvA.getD m [],
    dyn := fun j => dynA.getD j false,
    cin := fun m c => (((cinA.getD m #[]).getD c none)).getD [],
    cmode := fun c => cmodeA.getD c 0,
    hist := fun m v => (histA.getD m #[]).getD v none,
    extraU := fun _ _ => [],
    -- something after the DAE block in the mapped output, to exercise the `[:ne]` slice
    other := fun m i => [777 + (m : Rat) + (i : Rat)] }
  let F : Residual := evalEqs eqs
  let Finit : Residual := match initEqs with
    | none => fun _ _ _ _ _ => [0]
    | some l => evalEqs l
  -- hypotheses of the theorems (Inst.WF, non-empty own stamps): refuse instances outside them
  if !I.wfb || own.any (fun o => match o with | some w => w.times.isEmpty || w.mode > 2 | none => false) then
    pure (Json.str "bad-instance") else
  let vals := probes.map (fun arr => gRows F Finit I (fun i => arr.getD i 0))
  let nrows := (vals.head?.map List.length).getD 0
  let b := gBounds F Finit I (fun _ => 0)
  pure (Json.mkObj [
    ("rows", Json.num (Int.ofNat nrows)),
    ("ninit", Json.num (Int.ofNat (E * (eqs.length + (match initEqs with | none => 1 | some l => l.length))))),
    ("lb", ratsJ b), ("ub", ratsJ b),
    ("vals", matJ vals)])

def handleEffPar (j : Json) : Option Json := do
  let E ← getNat j "E"
  let npar ← getNat j "npar"
  let pvals ← getRatMat j "pvals"
  let pvA := pvals.toArray
  let pv : Nat → List Rat := fun m => pvA.getD m []
  let dynA := ((getBoolList j "dyn").getD []).toArray
  pure (Json.mkObj [
    ("eff", matJ ((List.range E).map (effPar E npar (fun q => dynA.getD q false) pv))),
    ("legacy", matJ ((List.range E).map (effParLegacy E npar pv)))])

def handle (j : Json) : Option Json := do
  let op ← getStr j "op"
  match op with
  | "rows" => handleRows j
  | "effpar" => handleEffPar j
  | _ => none

def main : IO Unit := runDriver handle
