import RtcVerif.Model.C04Json
import RtcVerif.Model.C02Loop
import RtcVerif.Model.C02KeepSoft
/-! Line-protocol driver for the C02 models (store operations of the priority loop). -/
open Lean RtcVerif RtcVerif.Wire RtcVerif.C04 RtcVerif.C02

def storeOfJson (j : Json) : Option Store := do
  match j with
  | Json.arr a =>
      let ents ← a.toList.mapM fun e =>
        match e with
        | Json.arr p =>
            match p.toList with
            | [Json.str fk, ivs] => do
                let l ← ivlsOfJson ivs
                pure ((List.range l.length).zip l |>.map fun (i, v) => (((fk, i) : Key), v))
            | _ => none
        | _ => none
      pure ents.flatten
  | _ => none

def optIvlJ : Option EIvl → Json
  | none => Json.null
  | some v => ivlJ v

def storeJ (s : Store) (n : Nat) : Json :=
  Json.arr (s.keys.map fun fk => Json.arr #[Json.str fk, Json.arr ((s.ofKey fk n).map optIvlJ).toArray]).toArray

/-- `ach[gj][i]`: achieved epsilon (target goals) or function value (minimisation goals);
    `fv[gj][i]`: the goal function value at the solution (all goals; optional) -/
def solOf (gs : List Goal) (ach : List (List Rat)) (fv : Option (List (List Rat))) : Sol :=
  { eps := fun gj i => (ach.getD gj []).getD i 0
    fval := fun fk i =>
      match fv with
      | some fv =>
          match (List.range gs.length).find? (fun gj =>
              match gs[gj]? with
              | some g => g.fk == fk
              | none => false) with
          | some gj => (fv.getD gj []).getD i 0
          | none => 0
      | none =>
          match (List.range gs.length).find? (fun gj =>
              match gs[gj]? with
              | some g => g.fk == fk && !g.hasTargetBounds
              | none => false) with
          | some gj => (ach.getD gj []).getD i 0
          | none => 0 }

def handle (j : Json) : Option Json := do
  let op ← getStr j "op"
  match op with
  | "convert" =>
      let st ← (getObj j "store").bind storeOfJson
      let n ← getNat j "n"
      let o ← (getObj j "opts").bind hoptsOfJson
      let gs ← goalsOfJson j "goals"
      let ach ← getRatMat j "ach"
      pure (storeJ (convertAll o n (solOf gs ach (getRatMat j "fv")) st gs) n)
  | "criticals" =>
      let st ← (getObj j "store").bind storeOfJson
      let n ← getNat j "n"
      let o ← (getObj j "opts").bind hoptsOfJson
      let gs ← goalsOfJson j "goals"
      pure (storeJ (insertCriticals o n st gs) n)
  | "chain" =>
      -- steps: [{goals, ach | null}]: criticals of the step go in, the store is reported (it is the
      -- one the solver sees at that priority), then the step's goals are converted with `ach`
      let n ← getNat j "n"
      let o ← (getObj j "opts").bind hoptsOfJson
      let steps ← getArr j "steps"
      let rec go (st : Store) (steps : List Json) (acc : List Json) : Option (List Json) :=
        match steps with
        | [] => some acc.reverse
        | sj :: rest => do
            let gs ← goalsOfJson sj "goals"
            let st1 := insertCriticals o n st gs
            let acc := storeJ st1 n :: acc
            match getRatMat sj "ach" with
            | none => go st1 rest acc
            | some ach => go (convertAll o n (solOf gs ach (getRatMat sj "fv")) st1 gs) rest acc
      let r ← go [] steps []
      pure (Json.arr r.toArray)
  | "statekey" =>
      let cn ← getStr j "canonical"
      let pos ← getBool j "positive"
      pure (Json.str (stateGoalKey cn pos))
  | "objrow" =>
      let fix ← getBool j "fix"
      let cr ← getRat j "cr"
      let v ← getRat j "v"
      let r := objRow fix cr 0 v
      pure (Json.arr #[r.lo.toJson, r.hi.toJson])
  | "update" =>
      let s ← getIvls j "self"
      let o ← getIvls j "other"
      let e ← getBool j "enforceSelf"
      let legacy := (getBool j "legacy").getD false
      if legacy then
        pure (ivlsJ (List.zipWith (fun a b => updateBoundsLegacy a b e) s o))
      else pure (ivlsJ (updateBoundsTS s o e))
  | "hard" =>
      let g ← (getObj j "goal").bind goalOfJson
      let o ← (getObj j "opts").bind hoptsOfJson
      let ach ← getRatList j "ach"
      pure (ivlsJ (hardFromEps o g ach))
  | _ => none

def main : IO Unit := runDriver handle
