import RtcVerif.Model.C03Subproblem
import RtcVerif.Model.C03Cert
/-! Line-protocol driver for the C03 models (objective assembly, Lagrangian certificate). -/
open Lean RtcVerif RtcVerif.Wire RtcVerif.C03

def targetOfJson (j : Json) : Option Target :=
  match j with
  | Json.null => some (.scalar .nan)
  | _ => do
    let k ← getStr j "k"
    match k with
    | "sc" => (getXVal j "v").map Target.scalar
    | "vec" => (getXValList j "v").map Target.vec
    | "ts" => (getXValList j "v").map Target.ts1
    | "ts2" => do
        let rows ← getArr j "v"
        let rows ← rows.mapM asXValList
        pure (Target.ts2 rows)
    | _ => none

def getTarget (j : Json) (k : String) : Option Target :=
  match getObj j k with
  | none => some (.scalar .nan)
  | some v => targetOfJson v

/-- shapes must fit the goal (the code would raise in `_gp_min_max_arrays` otherwise) -/
def targetFits (t : Target) (size T : Nat) (isPath : Bool) : Bool :=
  match t with
  | .scalar _ => true
  | .vec vs => vs.length == size || vs.length == 1
  | .ts1 vs => isPath && vs.length == T
  | .ts2 rows => isPath && rows.length == T && rows.all (fun r => r.length == size)

def goalOfJson (T : Nat) (isPath : Bool) (j : Json) : Option Goal := do
  let size ← getNat j "size"
  let weight ← getRat j "weight"
  let order ← getNat j "order"
  let nominal ← getRatList j "nominal"
  let tmin ← getTarget j "tmin"
  let tmax ← getTarget j "tmax"
  let critical := (getBool j "critical").getD false
  if size == 0 || !(nominal.length == 1 || nominal.length == size) then none
  else if !(targetFits tmin size T isPath && targetFits tmax size T isPath) then none
  else pure { size, weight, order, nominal, tmin, tmax, critical }

def termJ (t : C03.Term) : Json :=
  Json.arr #[Json.bool t.isPath, Json.num (Int.ofNat t.j), Json.num (Int.ofNat t.c),
             Json.num (Int.ofNat t.m), Json.num (Int.ofNat t.i), ratJ t.coef, ratJ t.nominal,
             Json.num (Int.ofNat t.order)]

def asSRow (j : Json) : Option SRow :=
  match j with
  | Json.arr a => a.toList.mapM fun e =>
      match e with
      | Json.arr #[jj, v] => do
          let jn ← (fromJson? jj : Except String Nat).toOption
          let q ← asRat v
          pure (jn, q)
      | _ => none
  | _ => none

def rowOfJson (j : Json) : Option Row := do
  let coefs ← (getObj j "a").bind asSRow
  let b0 ← getRat j "b0"
  let lo ← getEVal j "lo"
  let hi ← getEVal j "hi"
  pure { coefs, b0, lo, hi }

def colOfJson (j : Json) : Option Col :=
  match j with
  | Json.arr #[l, u] => do
      let lb ← EVal.ofJson? l
      let ub ← EVal.ofJson? u
      pure { lb, ub }
  | _ => none

def sqOfJson (j : Json) : Option Sq := do
  let kappa ← getRat j "k"
  let coefs ← (getObj j "a").bind asSRow
  let d ← getRat j "d"
  pure { kappa, coefs, d }

def pairOfJson (j : Json) : Option (Rat × Rat) :=
  match j with
  | Json.arr #[a, b] => do
      let x ← asRat a
      let y ← asRat b
      pure (x, y)
  | _ => none

def handle (j : Json) : Option Json := do
  let op ← getStr j "op"
  match op with
  | "objective" =>
      let sbs ← getBool j "sbs"
      let T ← getNat j "T"
      let probs ← getRatList j "probs"
      let gs ← getArr j "goals"
      let pgs ← getArr j "pathGoals"
      let goals ← gs.mapM (goalOfJson T false)
      let pathGoals ← pgs.mapM (goalOfJson T true)
      let ts := terms sbs T probs goals pathGoals
      let n := nObjectives sbs T (fun _ _ _ _ _ => 0) 0 goals pathGoals
      pure (Json.mkObj [("terms", Json.arr (ts.map termJ).toArray), ("nobj", Json.num (Int.ofNat n))])
  | "cert" =>
      let c ← getRatList j "c"
      let c0 ← getRat j "c0"
      let rows ← (← getArr j "rows").mapM rowOfJson
      let cols ← (← getArr j "cols").mapM colOfJson
      let sqs ← (← getArr j "sq").mapM sqOfJson
      let ys ← (← getArr j "ys").mapM pairOfJson
      let xt ← getRatList j "xt"
      let P : QP := { c, c0, rows, cols, sqs }
      let b := if sqs.isEmpty then lagrangianBound P.toLP ys else qpBound P xt ys
      match b with
      | none => pure (Json.str "none")
      | some L => pure (Json.mkObj [("L", ratJ L)])
  | _ => none

def main : IO Unit := runDriver handle
