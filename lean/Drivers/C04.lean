import RtcVerif.Model.C04Json
import RtcVerif.Model.C04Code
/-! Line-protocol driver for the C04 models (validation, soft rows, update_bounds, hard bounds). -/
open Lean RtcVerif RtcVerif.Wire RtcVerif.C04

def rowJ (r : Row) : Json := Json.arr #[ratJ r.val, r.lb.toJson, r.ub.toJson]

def handle (j : Json) : Option Json := do
  let op ← getStr j "op"
  match op with
  | "validate" =>
      let keep ← getBool j "keep"
      let mono ← getBool j "mono"
      let nT ← getNat j "nT"
      let goals ← goalsOfJson j "goals"
      let pgoals ← goalsOfJson j "pgoals"
      match validateAll { keepSoft := keep, checkMonotonicity := mono } nT goals pgoals with
      | none => pure (Json.str "ok")
      | some e => pure (Json.str e.name)
  | "rows" =>
      let g ← (getObj j "goal").bind goalOfJson
      let n ← getNat j "n"
      let fs ← getRatMat j "f"
      let eps ← getRatMat j "eps"
      pure (Json.arr ((softRows g n fs eps).map rowJ).toArray)
  | "update" =>
      let s ← getIvls j "self"
      let o ← getIvls j "other"
      let e ← getBool j "enforceSelf"
      let legacy := (getBool j "legacy").getD false
      if legacy then
        pure (ivlsJ (List.zipWith (fun a b => updateBoundsLegacy a b e) s o))
      else pure (ivlsJ (updateBoundsTS s o e))
  | "hard" =>
      let g ← (getObj j "goal").bind goalOfJson
      let o ← (getObj j "opts").bind hoptsOfJson
      let ach ← getRatList j "ach"
      pure (ivlsJ (hardFromEps o g ach))
  | "critical" =>
      let g ← (getObj j "goal").bind goalOfJson
      let o ← (getObj j "opts").bind hoptsOfJson
      let n ← getNat j "n"
      let ex := getIvls j "existing"
      let new := hardCritical o g n
      match ex with
      | none => pure (ivlsJ new)
      | some ex => pure (ivlsJ (updateBoundsTS ex new true))
  | "critchain" =>
      let gs ← goalsOfJson j "goals"
      let o ← (getObj j "opts").bind hoptsOfJson
      let n ← getNat j "n"
      let r := gs.foldl (fun (acc : Option (List EIvl)) g =>
        match acc with
        | none => some (hardCritical o g n)
        | some ex => some (updateBoundsTS ex (hardCritical o g n) true)) none
      pure (ivlsJ (r.getD []))
  | "minmax" =>
      -- `_gp_min_max_arrays` through its code-level reference (what Gen/GoalCode.lean is proved equal to)
      let g ← (getObj j "goal").bind goalOfJson
      let path ← getBool j "path"
      let n ← getNat j "n"
      let gt1 := decide (g.size > 1)
      let optX (v : Option XVal) : Json := match v with | some x => x.toJson | none => Json.str "none"
      let cell (c i : Nat) : Json :=
        Json.arr #[optX (minArrRef path gt1 g.tmin g.tmax c i), optX (maxArrRef path gt1 g.tmin g.tmax c i)]
      pure (Json.arr ((List.range g.size).map fun c => Json.arr ((List.range n).map (cell c)).toArray).toArray)
  | "empty" =>
      let g ← (getObj j "goal").bind goalOfJson
      pure (Json.bool g.isEmpty)
  | _ => none

def main : IO Unit := runDriver handle
