import RtcVerif.Model.C05Wire
/-! Line-protocol driver for the C05 model (bound vectors of `transcribe()`). -/
open Lean RtcVerif RtcVerif.Wire RtcVerif.C05

def handle (j : Json) : Option Json := do
  let op ← getStr j "op"
  match op with
  | "bounds" =>
      let I ← instOfJson j
      match transcribeBounds I with
      | none => pure (Json.str "raise")
      | some r =>
          let nslots := (stateBlocks I).length
          let sidx := (List.range I.E).map fun m =>
            Json.arr ((List.range nslots).map fun jj => natsJ (slotIdx I m jj)).toArray
          let cidx := (List.range I.controls.length).map fun jj =>
            natsJ ((List.range ((I.controls.getD jj (initDerBlk 0)).n)).map fun i => ctrlIndex I jj i)
          pure (Json.mkObj [
            ("N", Json.num (Int.ofNat (totalSize I))),
            ("lbx", xvalsJ r.lbx), ("ubx", xvalsJ r.ubx),
            ("sym", natsJ r.symbolic), ("dernoms", ratsJ r.derNoms),
            ("sidx", Json.arr sidx.toArray), ("cidx", Json.arr cidx.toArray)])
  | "intersect" =>
      -- bounds of one variable from several sources (user, Modelica min/max): intersection
      let los ← getEValList j "lo"
      let his ← getEValList j "hi"
      pure (Json.arr #[(intersectLo los).toJson, (intersectHi his).toJson])
  | "mobox" =>
      -- ModelicaMixin.bounds()[v]: declared type, optional user pair, min / max attributes
      let isBool ← getBool j "bool"
      let mn ← getEVal j "min"
      let mx ← getEVal j "max"
      let user := match getEVal j "ulo", getEVal j "uhi" with
        | some a, some b => some (a, b)
        | _, _ => none
      let r := modelicaBox isBool user mn mx
      pure (Json.arr #[r.1.toJson, r.2.toJson])
  | "interp" =>
      -- extended interpolation on its own (values may be ±inf / NaN)
      let mode ← getNat j "mode"
      let ts ← getRatList j "ts"
      let fs ← getXValList j "fs"
      let fl ← getXVal j "fl"
      let fr ← getXVal j "fr"
      let q ← getRatList j "q"
      let scalar := (getBool j "scalar").getD false
      let ks := ts.zip fs
      if scalar then
        match q with
        | [t] => pure (match interpScalarX mode ks fl fr t with
                       | none => Json.str "raise" | some v => v.toJson)
        | _ => none
      else pure (match interpArrayX mode ks fl fr q with
                 | none => Json.str "raise" | some l => xvalsJ l)
  | _ => none

def main : IO Unit := runDriver handle
