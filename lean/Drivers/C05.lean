import RtcVerif.Model.C05
/-! Line-protocol driver for the C05 model (bound vectors of `transcribe()`). -/
open Lean RtcVerif RtcVerif.Wire RtcVerif.C05

def sideOfJson (j : Json) : Option Side :=
  match j with
  | Json.null => some Side.none
  | _ => do
    let k ← getStr j "k"
    match k with
    | "sc" => (getEVal j "v").map Side.sc
    | "vec" => (getEValList j "v").map Side.vec
    | "ts" => do
        let t ← getRatList j "t"
        let v ← getEValList j "v"
        pure (Side.ts1 t v)
    | "ts2" => do
        let t ← getRatList j "t"
        let rows ← getArr j "v"
        let rows ← rows.mapM asEValList
        pure (Side.ts2 t rows)
    | _ => none

def nomOfJson (j : Json) : Option Nom :=
  match getRat j "sc" with
  | some q => some (Nom.sc q)
  | none => (getRatList j "vec").map Nom.vec

def blkOfJson (j : Json) : Option Blk := do
  let size ← getNat j "size"
  let times ← getRatList j "times"
  let scalarT ← getBool j "scalarT"
  let nom ← (getObj j "nom").bind nomOfJson
  let lo ← (getObj j "lo").bind sideOfJson
  let hi ← (getObj j "hi").bind sideOfJson
  let mode ← getNat j "mode"
  pure { size, times, scalarT, nom, lo, hi, mode }

def optRat (j : Json) : Option (Option Rat) :=
  match j with
  | Json.str "nan" => some none
  | _ => (asRat j).map some

def histOfJson (j : Json) : Option (Option Hist) :=
  match j with
  | Json.null => some none
  | _ => do
    let t ← getRatList j "t"
    let v ← getArr j "v"
    let v ← v.mapM optRat
    pure (some { times := t, vals := v })

def blks (j : Json) (k : String) : Option (List Blk) := (getArr j k).bind (·.mapM blkOfJson)

def instOfJson (j : Json) : Option Inst := do
  let t0 ← getRat j "t0"
  let E ← getNat j "E"
  let states ← blks j "states"
  let algs ← blks j "algs"
  let controls ← blks j "controls"
  let paths ← blks j "paths"
  let extras ← blks j "extras"
  let hist ← getArr j "hist"
  let hist ← hist.mapM fun hm => match hm with
    | Json.arr a => a.toList.mapM histOfJson
    | _ => none
  pure { t0, E, states, algs, controls, paths, extras, hist }

def slotIdx (I : Inst) (m j : Nat) : List Nat :=
  let b := (stateBlocks I).getD j (initDerBlk 0)
  (List.range b.size).flatMap fun c => (List.range b.n).map fun i => stateIndex I m j c i

def handle (j : Json) : Option Json := do
  let op ← getStr j "op"
  match op with
  | "bounds" =>
      let I ← instOfJson j
      match transcribeBounds I with
      | none => pure (Json.str "raise")
      | some r =>
          let nslots := (stateBlocks I).length
          let sidx := (List.range I.E).map fun m =>
            Json.arr ((List.range nslots).map fun jj => natsJ (slotIdx I m jj)).toArray
          let cidx := (List.range I.controls.length).map fun jj =>
            natsJ ((List.range ((I.controls.getD jj (initDerBlk 0)).n)).map fun i => ctrlIndex I jj i)
          pure (Json.mkObj [
            ("N", Json.num (Int.ofNat (totalSize I))),
            ("lbx", xvalsJ r.lbx), ("ubx", xvalsJ r.ubx),
            ("sym", natsJ r.symbolic), ("dernoms", ratsJ r.derNoms),
            ("sidx", Json.arr sidx.toArray), ("cidx", Json.arr cidx.toArray)])
  | "interp" =>
      -- extended interpolation on its own (values may be ±inf / NaN)
      let mode ← getNat j "mode"
      let ts ← getRatList j "ts"
      let fs ← getXValList j "fs"
      let fl ← getXVal j "fl"
      let fr ← getXVal j "fr"
      let q ← getRatList j "q"
      let scalar := (getBool j "scalar").getD false
      let ks := ts.zip fs
      if scalar then
        match q with
        | [t] => pure (match interpScalarX mode ks fl fr t with
                       | none => Json.str "raise" | some v => v.toJson)
        | _ => none
      else pure (match interpArrayX mode ks fl fr q with
                 | none => Json.str "raise" | some l => xvalsJ l)
  | _ => none

def main : IO Unit := runDriver handle
