import RtcVerif.Model.C06
/-! Line-protocol driver for the C06 model (objective and user-constraint assembly). -/
open Lean RtcVerif RtcVerif.Wire RtcVerif.C06

def asXVals (j : Json) : Option (List XVal) := asXValList j

def uboundOfJson (j : Json) : Option UBound := do
  let k ← getStr j "k"
  match k with
  | "sc" => (getXVal j "v").map UBound.scalar
  | "vec" => (getXValList j "v").map UBound.vec
  | "ts" => do
      let t ← getRatList j "t"
      let v ← getRatList j "v"
      pure (UBound.ts1 t v)
  | "ts2" => do
      let t ← getRatList j "t"
      let v ← getRatMat j "v"
      pure (UBound.ts2 t v)
  | _ => none

structure StaticMember where
  paths : List PathCon
  pointb : List (UBound × UBound)

def staticOfJson (j : Json) : Option StaticMember := do
  let ps ← (← getArr j "paths").mapM (fun p => do
    let s ← getNat p "s"
    let lb ← (getObj p "lb").bind uboundOfJson
    let ub ← (getObj p "ub").bind uboundOfJson
    pure (⟨s, lb, ub⟩ : PathCon))
  let pb ← (← getArr j "pointb").mapM (fun p => do
    let lb ← (getObj p "lb").bind uboundOfJson
    let ub ← (getObj p "ub").bind uboundOfJson
    pure (lb, ub))
  pure ⟨ps, pb⟩

def evalOfJson (nd : Nat) (st : StaticMember) (j : Json) : Option MemberEval := do
  let J ← getRat j "J"
  let init ← getRatList j "init"
  let initG ← getRatList j "initG"
  let jp ← getRatMat j "jp"       -- per step: path objective rows (length nj)
  let G ← getRatMat j "G"         -- per step: path constraint rows (length R)
  let pt ← getRatMat j "pt"
  let cols := List.zipWith (fun a b => stepColumn (List.replicate nd 0) a b []) jp G
  let points := List.zipWith (fun g (b : UBound × UBound) => (⟨g, b.1, b.2⟩ : PointCon)) pt st.pointb
  pure ⟨J, init, initG, cols, points, st.paths⟩

def handle (j : Json) : Option Json := do
  let op ← getStr j "op"
  match op with
  | "c06" =>
      let times ← getRatList j "times"
      let nd ← getNat j "nd"
      let nj ← getNat j "nj"
      let R ← getNat j "R"
      let probs ← getRatList j "probs"
      let statics ← (← getArr j "members").mapM staticOfJson
      let probes ← getArr j "probes"
      let results ← probes.mapM (fun pj => do
        let ms ← match pj with
          | Json.arr a => some a.toList
          | _ => none
        if ms.length ≠ statics.length then none else
        let evals ← (List.zip statics ms).mapM (fun (st, mj) => evalOfJson nd st mj)
        let f := objectiveCode probs (evals.map (fun me => fMember me.J nd nj me.init me.cols))
        pure (f, mapMOpt (memberRows nd nj R times) evals))
      match results.mapM (fun (r : Rat × Option (List Rows)) => r.2.map (fun rows => (r.1, rows))) with
      | none => pure (Json.str "raise")
      | some rs =>
        let first := (rs.head?.map (·.2)).getD []
        pure (Json.mkObj [
          ("f", ratsJ (rs.map (·.1))),
          ("g", Json.arr (rs.map (fun r => ratsJ (r.2.flatMap (·.g)))).toArray),
          ("lbg", xvalsJ (first.flatMap (·.lb))),
          ("ubg", xvalsJ (first.flatMap (·.ub)))])
  | _ => none

def main : IO Unit := runDriver handle
