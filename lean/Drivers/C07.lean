import RtcVerif.Model.C07
import RtcVerif.Model.C07Code
/-! Line-protocol driver for the C07 models (control tree, index allocation, parameter routing). -/
open Lean RtcVerif RtcVerif.Wire RtcVerif.C07

def distOfTables (tabs : List (List (List Rat))) : Nat → Dist :=
  fun L r c => ((tabs.getD L []).getD r []).getD c 0

def pathJ (p : List Nat) : Json := natsJ p.reverse

/-- all branches the code creates, level by level -/
def allBranches (dist : Nat → Dist) (k E nb : Nat) : List (List Nat × List Nat) :=
  (List.range (nb + 1)).flatMap (fun L =>
    (levelPaths dist k E L).map (fun p => (p, membersOf dist k E p)))

structure Ctl where
  ts : List Rat
  pol : String

def ctlOfJson (j : Json) : Option Ctl := do
  let ts ← getRatList j "ts"
  let pol ← getStr j "pol"
  pure ⟨ts, pol⟩

/-- index arrays of one control variable for all members, and the new count; `none` = raise -/
def ctlIdx (full : Bool) (c : TreeCfg) (v : Ctl) (count0 : Nat) : Option (List (List Nat) × Nat) :=
  let n := if full then v.ts.length else 0
  match v.pol with
  | "tree" =>
    let a := treeAlloc c v.ts count0
    if a.count > count0 && !int16Ok a.count then none
    else some ((List.range c.E).map (fun m => (List.range n).map (treeIdx c v.ts count0 m)), a.count)
  | "shared" =>
    let a := flatAlloc .shared c.E v.ts.length count0
    some ((List.range c.E).map (fun m => (List.range n).map (flatIdx .shared c.E v.ts.length count0 m)), a.count)
  | "per" =>
    let a := flatAlloc .perMember c.E v.ts.length count0
    some ((List.range c.E).map (fun m => (List.range n).map (flatIdx .perMember c.E v.ts.length count0 m)), a.count)
  | _ => none

def allCtl (full : Bool) (c : TreeCfg) : List Ctl → Nat → Option (List (List (List Nat)) × Nat)
  | [], count => some ([], count)
  | v :: vs, count => do
    let (ix, c1) ← ctlIdx full c v count
    let (rest, c2) ← allCtl full c vs c1
    pure (ix :: rest, c2)

/-- the same with the tree variables computed by the CODE-level reference definitions
    (`Model/C07Code.lean`: base member loop around `ControlTreeMixin.discretize_control`) on the
    dictionary `brs` of the real run, in its dictionary order -/
def ctlIdxCode (brs : List (List Nat × List Nat)) (c : TreeCfg) (v : Ctl) (count0 : Nat) :
    Option (List (List Nat) × Nat) :=
  match v.pol with
  | "tree" =>
    let r := ctrlLoopRef (discretizeControlRef brs c.t0 c.bts v.ts) stopArr (List.range c.E) (count0, [], [])
    some (r.2.2, r.1)
  | _ => ctlIdx true c v count0

def allCtlCode (brs : List (List Nat × List Nat)) (c : TreeCfg) : List Ctl → Nat → Option (List (List (List Nat)) × Nat)
  | [], count => some ([], count)
  | v :: vs, count => do
    let (ix, c1) ← ctlIdxCode brs c v count
    let (rest, c2) ← allCtlCode brs c vs c1
    pure (ix :: rest, c2)

def brOfJson (j : Json) : Option (List Nat × List Nat) := do
  let l ← j.getArr?.toOption
  let p ← asNatList (← l[0]?)
  let ms ← asNatList (← l[1]?)
  pure (p.reverse, ms)

/-- `ChainOf` of `Proofs/C07Code.lean`, decided: the entries of the dictionary that contain `m` are
    `m`'s branches of the model in increasing depth -/
def chainOk (c : TreeCfg) (brs : List (List Nat × List Nat)) (m : Nat) : Bool :=
  (brs.filter (fun br => br.2.contains m)).map (·.1) == (List.range (c.bts.length + 1)).map (c.path m)

def handle (j : Json) : Option Json := do
  let op ← getStr j "op"
  match op with
  | "layout" =>
      let E ← getNat j "E"
      let k := (getNat j "k").getD 2
      let t0 := (getRat j "t0").getD 0
      let bts := (getRatList j "bts").getD []
      let ntimes := (getNat j "ntimes").getD (bts.length + 1)
      let tabs ← match getArr j "dist" with
        | none => some []
        | some l => l.mapM asRatMat
      let ctl ← (← getArr j "ctrl").mapM ctlOfJson
      let tree := (getBool j "tree").getD false
      let cfg : TreeCfg := ⟨distOfTables tabs, k, E, t0, bts⟩
      if tree && treeRejected k E bts.length ntimes then pure (Json.str "raise") else
      let full := (getBool j "idx").getD true
      match allCtl full cfg ctl 0 with
      | none => pure (Json.str "raise")
      | some (ix, count) =>
        let br := if tree then
            (allBranches cfg.dist k E bts.length).map (fun (p, ms) => Json.arr #[pathJ p, natsJ ms])
          else []
        pure (Json.mkObj [
          ("branches", Json.arr br.toArray),
          ("idx", Json.arr (ix.map (fun perVar => Json.arr (perVar.map natsJ).toArray)).toArray),
          ("count", Json.num (Int.ofNat count))])
  | "codeloop" =>
      let E ← getNat j "E"
      let k := (getNat j "k").getD 2
      let t0 := (getRat j "t0").getD 0
      let bts := (getRatList j "bts").getD []
      let tabs ← match getArr j "dist" with
        | none => some []
        | some l => l.mapM asRatMat
      let ctl ← (← getArr j "ctrl").mapM ctlOfJson
      let brs ← (← getArr j "brs").mapM brOfJson
      let cfg : TreeCfg := ⟨distOfTables tabs, k, E, t0, bts⟩
      match allCtlCode brs cfg ctl 0 with
      | none => pure (Json.str "raise")
      | some (ix, count) =>
        pure (Json.mkObj [
          ("idx", Json.arr (ix.map (fun perVar => Json.arr (perVar.map natsJ).toArray)).toArray),
          ("count", Json.num (Int.ofNat count)),
          ("chain", Json.bool ((List.range E).all (chainOk cfg brs)))])
  | "route" =>
      -- parameter classification / routing: P = E x np matrix, dyn flags
      let P ← getRatMat j "P"
      let dyn := (getBoolList j "dyn").getD []
      let legacy := (getBool j "legacy").getD false
      let np := (P.headD []).length
      let isC := if legacy then isConstParamLegacy else isConstParam
      pure (Json.mkObj [
        ("const", Json.arr ((List.range np).map (fun i => Json.bool (isC P dyn i))).toArray),
        ("eff", matJ ((List.range P.length).map (fun m => (List.range np).map (effParam isC P dyn m))))])
  | _ => none

def main : IO Unit := runDriver handle
