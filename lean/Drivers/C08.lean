import RtcVerif.Model.C05Wire
import RtcVerif.Model.C08
/-! Line-protocol driver for the C08 models (nominal scaling). -/
open Lean RtcVerif RtcVerif.Wire RtcVerif.C05 RtcVerif.C08

/-- physical bound of every state-pass entry: scaled bound times the nominal of its component -/
def physOf (I : Inst) (arr : List XVal) (m j : Nat) : List XVal :=
  let b := (stateBlocks I).getD j (initDerBlk 0)
  (List.range b.size).flatMap fun c => (List.range b.n).map fun i =>
    xmulPos (arr.getD (stateIndex I m j c i) .nan) (b.nom.at c)

def physCtrl (I : Inst) (arr : List XVal) (j : Nat) : List XVal :=
  let b := I.controls.getD j (initDerBlk 0)
  (List.range b.n).map fun i => xmulPos (arr.getD (ctrlIndex I j i) .nan) (b.nom.at 0)

def simVarOfJson (j : Json) : Option SimVar := do
  let index ← getNat j "index"
  let sign ← getInt j "sign"
  let nominal ← getRat j "nominal"
  pure { index, sign, nominal }

/-- run a script of set/get operations on the simulation state vector -/
def runSim (n : Nat) : List Json → C08.Vec → List Json → Option (List Json)
  | [], _, acc => some acc.reverse
  | op :: ops, s, acc => do
      let k ← getStr op "k"
      let a ← (getObj op "var").bind simVarOfJson
      match k with
      | "set" => do
          let v ← getRat op "v"
          runSim n ops (simSet n s a v) acc
      | "get" => runSim n ops s (ratJ (simGet n s a) :: acc)
      | _ => none

def handle (j : Json) : Option Json := do
  let op ← getStr j "op"
  match op with
  | "phys" =>
      -- physical box of a C05 instance: ν · lbx, ν · ubx per named entry (pins included; the
      -- initial derivatives with their own nominal `dernoms`)
      let I ← instOfJson j
      match transcribeBounds I with
      | none => pure (Json.str "raise")
      | some r =>
          let nslots := (stateBlocks I).length
          let nreg := nslots - I.states.length
          let per := fun (arr : List XVal) => (List.range I.E).map fun m =>
            Json.arr ((List.range nslots).map fun jj =>
              if jj < nreg then xvalsJ (physOf I arr m jj)
              else xvalsJ [xmulPos (arr.getD (stateIndex I m jj 0 0) .nan) (r.derNoms.getD (jj - nreg) 1)]).toArray
          let perC := fun (arr : List XVal) => (List.range I.controls.length).map fun jj =>
            xvalsJ (physCtrl I arr jj)
          pure (Json.mkObj [
            ("N", Json.num (Int.ofNat (totalSize I))),
            ("lo", Json.arr (per r.lbx).toArray), ("hi", Json.arr (per r.ubx).toArray),
            ("clo", Json.arr (perC r.lbx).toArray), ("chi", Json.arr (perC r.ubx).toArray),
            ("dernoms", ratsJ r.derNoms)])
  | "seedblock" =>
      -- `x0[inds] = seed; x0[inds] /= nominal`: the block of one (member, variable); the seed is
      -- carried in the `lo` field, fill 0 outside a seed series
      let b ← (getObj j "blk").bind blkOfJson
      match blockWrite b b.lo (XVal.fin 0) with
      | none => pure (Json.str "raise")
      | some none => pure (Json.arr #[])
      | some (some vs) => pure (xvalsJ vs)
  | "goalobj" =>
      -- Σ weight · (f_i / nominal)^order
      let w ← getRat j "w"
      let nu ← getRat j "nu"
      let order ← getNat j "order"
      let fs ← getRatList j "f"
      pure (ratJ ((fs.map (goalObj w nu order)).foldl (· + ·) 0))
  | "softrows" =>
      let fv ← getRat j "f"
      let eps ← getRat j "eps"
      let m ← getRat j "m"
      let mt ← getRat j "mt"
      let nu ← getRat j "nu"
      pure (ratsJ [softMinRow fv eps m mt nu, softMaxRow fv eps m mt nu])
  | "sim" =>
      let n ← getNat j "n"
      let ops ← getArr j "ops"
      match runSim n ops (fun _ => 0) [] with
      | none => none
      | some outs => pure (Json.arr outs.toArray)
  | "encdec" =>
      -- encode then decode a physical vector with the given nominals
      let nu ← getRatList j "nu"
      let z ← getRatList j "z"
      let nuf : C08.Vec := fun k => nu.getD k 1
      let zf : C08.Vec := fun k => z.getD k 0
      let x := encode nuf zf
      pure (Json.mkObj [("x", ratsJ ((List.range z.length).map x)),
                        ("z", ratsJ ((List.range z.length).map (decode nuf x)))])
  | _ => none

def main : IO Unit := runDriver handle
