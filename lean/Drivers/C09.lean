import RtcVerif.Model.Wire
import RtcVerif.Model.C09Sim
/-! Line-protocol driver for the C09 model (simulation step residual, update, IO loop). -/
open Lean RtcVerif RtcVerif.Wire RtcVerif.C09

def slotOfJson (j : Json) : Option Slot :=
  match j with
  | Json.arr a =>
    match a.toList with
    | [Json.str "t"] => some Slot.t
    | [Json.str k, n] => do
        let i ← (fromJson? n : Except String Nat).toOption
        match k with
        | "x" => some (Slot.x i)
        | "a" => some (Slot.a i)
        | "d" => some (Slot.d i)
        | "e" => some (Slot.e i)
        | "u" => some (Slot.u i)
        | "p" => some (Slot.p i)
        | _ => none
    | _ => none
  | _ => none

def termOfJson (j : Json) : Option (Rat × List Slot) := do
  let c ← getRat j "c"
  let fs ← getArr j "f"
  let fs ← fs.mapM slotOfJson
  pure (c, fs)

def polyOfJson (j : Json) : Option Poly :=
  match j with
  | Json.arr a => a.toList.mapM termOfJson
  | _ => none

def polysOf (j : Json) (k : String) : Option (List Poly) := do
  let l ← getArr j k
  l.mapM polyOfJson

structure WModel where
  M : Static
  F : List Poly
  Finit : List Poly
  G : List Poly

def nomOfJson (j : Json) : Option (Nat × Rat) :=
  match j with
  | Json.arr a =>
    match a.toList with
    | [i, v] => do
        let i ← (fromJson? i : Except String Nat).toOption
        let v ← asRat v
        pure (i, v)
    | _ => none
  | _ => none

def modelOf (j : Json) : Option WModel := do
  let m ← getObj j "model"
  let nS ← getNat m "nS"
  let nA ← getNat m "nA"
  let nE ← getNat m "nE"
  let nU ← getNat m "nU"
  let nP ← getNat m "nP"
  let F ← polysOf m "F"
  let Finit ← polysOf m "Finit"
  let G ← polysOf m "G"
  let nom ← getArr j "nom"
  let nom ← nom.mapM nomOfJson
  let p ← getRatList j "p"
  pure { M := { L := { nS, nA, nE, nU, nP }, nom, p }, F, Finit, G }

def optRatOf (j : Json) : Option (Option Rat) :=
  match j with
  | Json.null => some none
  | Json.str "nan" => some none
  | Json.str "inf" => some none
  | Json.str "-inf" => some none
  | v => (asRat v).map some

def seriesOf (j : Json) : Option Series := do
  let idx ← getNat j "idx"
  let neg ← getBool j "neg"
  let vs ← getArr j "vals"
  let vals ← vs.mapM optRatOf
  pure { idx, neg, vals }

def pairOf (j : Json) : Option (Nat × Bool) :=
  match j with
  | Json.arr a =>
    match a.toList with
    | [i, b] => do
        let i ← (fromJson? i : Except String Nat).toOption
        let b ← (fromJson? b : Except String Bool).toOption
        pure (i, b)
    | _ => none
  | _ => none

def setOf (j : Json) : Option (Nat × Bool × Rat) := do
  let i ← getNat j "idx"
  let neg ← getBool j "neg"
  let v ← getRat j "v"
  pure (i, neg, v)

def outcomeJ (tag : String) (fields : List (String × Json)) : Json :=
  Json.mkObj (("status", Json.str tag) :: fields)

def handle (j : Json) : Option Json := do
  let op ← getStr j "op"
  match op with
  | "residual" =>
      -- the model's step residual at a given (scaled) X, dt, constants
      let w ← modelOf j
      let X ← getRatList j "X"
      let dt ← getRat j "dt"
      let consts ← getRatList j "consts"
      pure (ratsJ (stepResidual w.M (polyRes w.F) (polyRes w.G) X dt consts))
  | "init_constraints" =>
      let w ← modelOf j
      let sv ← getRatList j "sv"
      let X ← getRatList j "X"
      pure (ratsJ (initConstraints w.M (polyRes w.F) (polyRes w.Finit) (polyRes w.G) sv X))
  | "getvars" =>
      let w ← modelOf j
      let sv ← getRatList j "sv"
      let qs ← getArr j "q"
      let qs ← qs.mapM pairOf
      pure (ratsJ (qs.map fun q => getVar w.M { sv, dt := 0 } q.1 q.2))
  | "steps" =>
      -- plain `SimulationProblem`: per step some `set_var` calls, then `update(dtArg)`;
      -- root finder = exact affine solve
      let w ← modelOf j
      let sv ← getRatList j "sv"
      let dt0 ← getRat j "dt"
      let steps ← getArr j "steps"
      let rec go (o : SimObj) (todo : List Json) (acc : List Json) : Option (List Json) :=
        match todo with
        | [] => some acc.reverse
        | st :: rest => do
          let sets ← getArr st "set"
          let sets ← sets.mapM setOf
          let dtArg ← getRat st "dt"
          -- optional `reset()` before the set_var calls of this step
          let o0 := if (getBool st "reset").getD false then applyOp w.M (polyRes w.F) (polyRes w.G) soundAffineRoot o Op.reset else o
          let o1 := sets.foldl (fun o (q : Nat × Bool × Rat) =>
            applyOp w.M (polyRes w.F) (polyRes w.G) soundAffineRoot o (Op.setVar q.1 q.2.1 q.2.2)) o0
          match update w.M (polyRes w.F) (polyRes w.G) soundAffineRoot o1.cur dtArg with
          | .raised s2 => some ((outcomeJ "raise" [("sv", ratsJ s2.sv)]) :: acc).reverse
          | .returned _ =>
            let o2 := applyOp w.M (polyRes w.F) (polyRes w.G) soundAffineRoot o1 (Op.update dtArg)
            go o2 rest (outcomeJ "ok" [("sv", ratsJ o2.cur.sv), ("init", ratsJ o2.init)] :: acc)
      let outs ← go { cur := { sv, dt := dt0 }, init := sv } steps []
      pure (Json.arr outs.toArray)
  | "run" =>
      -- IO loop: `ioInitialize` (initial NLP answered with the given X0) then `ioRun`
      let w ← modelOf j
      let sv0 ← getRatList j "sv0"
      let X0 ← getRatList j "X0"
      let timesSec ← getRatList j "timesSec"
      let series ← getArr j "series"
      let series ← series.mapM seriesOf
      let outs ← getArr j "outs"
      let outs ← outs.mapM pairOf
      let dts ← getRatList j "dts"
      let dtImport ← getRat j "dtImport"
      let io : IOStatic := { M := w.M, timesSec, series, outs }
      let F := polyRes w.F
      let G := polyRes w.G
      let res :=
        match ioInitialize io F (polyRes w.Finit) G [] (fun _ _ _ => some X0) sv0 with
        | .raised st => Outcome.raised st
        | .returned st => ioRun io F G soundAffineRoot dtImport st dts
      let st := res.obj
      pure (outcomeJ (if res.isReturned then "ok" else "raise")
        [("times", ratsJ st.times), ("out", matJ st.out), ("sv", ratsJ st.sim.sv)])
  | "bisect" =>
      let ts ← getRatList j "ts"
      let t ← getRat j "t"
      pure (Json.num (Int.ofNat (bisectLeft ts t)))
  | _ => none

def main : IO Unit := runDriver handle
