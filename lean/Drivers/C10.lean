import RtcVerif.Model.Wire
import RtcVerif.Model.Num
import RtcVerif.Model.C10Priority
/-! Line-protocol driver for the C10 model (priority loop). -/
open Lean RtcVerif RtcVerif.Wire RtcVerif.C10

def targetOfJson (j : Json) : Option Target := do
  let ser ← getBool j "series"
  let vals ← getXValList j "v"
  pure ⟨ser, vals⟩

def goalOfJson (j : Json) : Option Goal := do
  let p ← getRat j "priority"
  let tmin ← (getObj j "tmin").bind targetOfJson
  let tmax ← (getObj j "tmax").bind targetOfJson
  pure ⟨p, tmin, tmax⟩

def intJ (i : Int) : Json := Json.num i

def eventJ : Event → Json
  | .started p => Json.arr #[Json.str "S", intJ p]
  | .solve p ok => Json.arr #[Json.str "X", intJ p, Json.bool ok]
  | .completed p => Json.arr #[Json.str "C", intJ p]
  | .post => Json.arr #[Json.str "P"]

def exposedJ : Exposed → Json
  | .cached p => Json.arr #[Json.str "cached", intJ p]
  | .raw p ok => Json.arr #[Json.str "raw", intJ p, Json.bool ok]
  | .nothing => Json.arr #[Json.str "nothing"]

def asIntList : Json → Option (List Int)
  | Json.arr a => a.toList.mapM (fun x => (fromJson? x : Except String Int).toOption)
  | _ => none

def exposedSJ : ExposedS → Json
  | .cached r p => Json.arr #[Json.str "cached", Json.num (Int.ofNat r), intJ p]
  | .raw r p ok => Json.arr #[Json.str "raw", Json.num (Int.ofNat r), intJ p, Json.bool ok]
  | .nothing => Json.arr #[Json.str "nothing"]
  | .broken => Json.arr #[Json.str "broken"]

def runOfJson (j : Json) : Option RunSpec := do
  let goals ← getArr j "goals"
  let goals ← goals.mapM goalOfJson
  let script ← getBoolList j "script"
  let skips ← (getObj j "skip").bind asIntList
  pure ⟨goals, fun p => skips.contains p, scriptOracle script⟩

def handle (j : Json) : Option Json := do
  let op ← getStr j "op"
  match op with
  | "run" =>
      let single ← getBool j "single"
      let goals ← getArr j "goals"
      let goals ← goals.mapM goalOfJson
      let script ← getBoolList j "script"
      let skips ← (getObj j "skip").bind asIntList
      let v := if single then Variant.singlePass else Variant.multiPass
      let r := optimize v goals (fun p => skips.contains p) (scriptOracle script)
      pure (Json.mkObj [
        ("events", Json.arr (r.events.map eventJ).toArray),
        ("ret", Json.bool r.success),
        ("exposed", exposedJ (exposed r)),
        ("nsolves", Json.num (Int.ofNat r.nsolves)),
        ("priorities", Json.arr ((priorities goals).map intJ).toArray),
        ("empty", Json.arr (goals.map (fun g => Json.bool (isEmpty g))).toArray),
        ("sizes", Json.arr ((priorities goals).map (fun p => Json.num (Int.ofNat (goalsAt goals p).length))).toArray)])
  | "seq" =>
      let single ← getBool j "single"
      let reset := (getBool j "reset").getD true
      let runs ← getArr j "runs"
      let runs ← runs.mapM runOfJson
      let v := if single then Variant.singlePass else Variant.multiPass
      let out := seqFrom v reset 0 Persist.init runs
      pure (Json.arr (out.map (fun x => Json.mkObj [
        ("events", Json.arr (x.1.events.map eventJ).toArray),
        ("ret", Json.bool x.1.success),
        ("exposed", exposedSJ x.2)])).toArray)
  | _ => none

def main : IO Unit := runDriver handle
