import RtcVerif.Model.C11
/-! Line-protocol driver for the C11 models (PI records, resize, floor, CSV rounding, parameters, ids). -/
open Lean RtcVerif RtcVerif.Wire RtcVerif.C11

def intJ (i : Int) : Json := Json.num (JsonNumber.fromInt i)
def optIntJ : Option Int → Json
  | none => Json.null
  | some i => intJ i
def optNatJ : Option Nat → Json
  | none => Json.null
  | some i => intJ i
def optRatJ : Option Rat → Json
  | none => Json.null
  | some q => ratJ q
def intsJ (l : List Int) : Json := Json.arr (l.map intJ).toArray

def getOptInt (j : Json) (k : String) : Option (Option Int) :=
  match getObj j k with
  | none => some none
  | some Json.null => some none
  | some v => ((fromJson? v : Except String Int).toOption).map some

def getOptNat (j : Json) (k : String) : Option (Option Nat) :=
  match getObj j k with
  | none => some none
  | some Json.null => some none
  | some v => ((fromJson? v : Except String Nat).toOption).map some

def getOptRat (j : Json) (k : String) : Option (Option Rat) :=
  match getObj j k with
  | none => some none
  | some Json.null => some none
  | some v => (asRat v).map some

def asIntList : Json → Option (List Int)
  | Json.arr a => a.toList.mapM (fun x => (fromJson? x : Except String Int).toOption)
  | _ => none
def getIntList (j : Json) (k : String) : Option (List Int) := (getObj j k).bind asIntList

def hdrOfJson (j : Json) : Option Hdr := do
  let var ← getNat j "var"
  let member ← getOptNat j "member"
  let step ← getOptInt j "step"
  let start ← getInt j "start"
  let stop ← getInt j "stop"
  let forecast ← getOptInt j "forecast"
  let miss ← getXVal j "miss"
  let unit ← getStr j "unit"
  pure ⟨var, member, step, start, stop, forecast, miss, unit⟩

def hdrToJson (h : Hdr) : Json :=
  Json.mkObj [("var", intJ h.var), ("member", optNatJ h.member), ("step", optIntJ h.step),
    ("start", intJ h.start), ("stop", intJ h.stop), ("forecast", optIntJ h.forecast),
    ("miss", h.miss.toJson), ("unit", Json.str h.unit)]

def recOfJson (j : Json) : Option Rec := do
  let h ← (getObj j "hdr").bind hdrOfJson
  let evt ← getIntList j "evt"
  let evs ← getXValList j "evs"
  pure ⟨h, evt, evs⟩

def recToJson (r : Rec) : Json :=
  Json.mkObj [("hdr", hdrToJson r.hdr), ("evt", intsJ r.evTimes), ("evs", xvalsJ r.evs)]

def fileOfJson (j : Json) : Option File := do
  let tz ← getOptRat j "tz"
  let recs ← getArr j "recs"
  let recs ← recs.mapM recOfJson
  let bin : Option (List XVal) ←
    match getObj j "bin" with
    | none => some none
    | some Json.null => some none
    | some v => (asXValList v).map some
  pure ⟨tz, recs, bin⟩

def fileToJson (f : File) : Json :=
  Json.mkObj [("tz", optRatJ f.tz), ("recs", Json.arr (f.recs.map recToJson).toArray),
    ("bin", match f.bin with | none => Json.null | some l => xvalsJ l)]

def entryOfJson (j : Json) : Option Entry := do
  let var ← getNat j "var"
  let unit ← getStr j "unit"
  let vals ← getXValList j "vals"
  pure ⟨var, unit, vals⟩

def entryToJson (e : Entry) : Json :=
  Json.mkObj [("var", intJ e.var), ("unit", Json.str e.unit), ("vals", xvalsJ e.vals)]

def asSlot : Json → Option Slot
  | Json.arr a => a.toList.mapM entryOfJson
  | _ => none

def storeOfJson (j : Json) : Option Store := do
  let dt ← getOptInt j "dt"
  let start ← getInt j "start"
  let stop ← getInt j "stop"
  let times ← getIntList j "times"
  let forecast ← getInt j "forecast"
  let fcIndex ← getInt j "fcIndex"
  let tz ← getOptRat j "tz"
  let ce ← getBool j "containsEns"
  let es ← getNat j "ensSize"
  let slots ← getArr j "slots"
  let slots ← slots.mapM asSlot
  pure ⟨dt, start, stop, times, forecast, fcIndex, tz, ce, es, slots⟩

def storeToJson (s : Store) : Json :=
  Json.mkObj [("dt", optIntJ s.dt), ("start", intJ s.start), ("stop", intJ s.stop),
    ("times", intsJ s.times), ("forecast", intJ s.forecast), ("fcIndex", intJ s.fcIndex),
    ("tz", optRatJ s.tz), ("containsEns", Json.bool s.containsEns), ("ensSize", intJ s.ensSize),
    ("slots", Json.arr (s.slots.map (fun sl => Json.arr (sl.map entryToJson).toArray)).toArray)]

def raiseJ : Json := Json.str "raise"

/-- float32 conversion handed over by the harness as a table (trusted library `numpy`) -/
def tableFn (j : Json) : Option (XVal → XVal) :=
  match getObj j "r32" with
  | none => some id
  | some Json.null => some id
  | some (Json.arr a) => do
      let pairs ← a.toList.mapM (fun p => match p with
        | Json.arr #[x, y] => do
            let x ← XVal.ofJson? x
            let y ← XVal.ofJson? y
            pure (x, y)
        | _ => none)
      pure (fun v => ((pairs.find? (fun p => p.1 = v)).map (·.2)).getD v)
  | _ => none

def optKeyJ (j : Json) (k : String) : Option (Option Nat) := getOptNat j k

def pvalOfJson (j : Json) : Option PVal := do
  let t ← getStr j "t"
  match t with
  | "bool" => (getBool j "v").map PVal.bool
  | "int" => (getInt j "v").map PVal.int
  | "dbl" => (getXVal j "v").map PVal.dbl
  | "str" => (getStr j "v").map PVal.str
  | _ => none

def pvalToJson : PVal → Json
  | .bool b => Json.mkObj [("t", "bool"), ("v", Json.bool b)]
  | .int i => Json.mkObj [("t", "int"), ("v", intJ i)]
  | .dbl x => Json.mkObj [("t", "dbl"), ("v", x.toJson)]
  | .str s => Json.mkObj [("t", "str"), ("v", Json.str s)]

def pargOfJson (j : Json) : Option PArg := do
  let t ← getStr j "t"
  match t with
  | "bool" => (getBool j "v").map PArg.bool
  | "int" => (getInt j "v").map PArg.int
  | "dbl" => (getRat j "v").map PArg.dbl
  | _ => none

def pgroupOfJson (j : Json) : Option PGroup := do
  let id ← getNat j "id"
  let loc ← getOptNat j "loc"
  let model ← getOptNat j "model"
  let pars ← getArr j "pars"
  let pars ← pars.mapM (fun p => do
    let k ← getNat p "k"
    let v ← (getObj p "v").bind pvalOfJson
    pure (k, v))
  pure ⟨id, loc, model, pars⟩

def pgroupToJson (g : PGroup) : Json :=
  Json.mkObj [("id", intJ g.id), ("loc", optNatJ g.loc), ("model", optNatJ g.model),
    ("pars", Json.arr (g.pars.map (fun p => Json.mkObj [("k", intJ p.1), ("v", pvalToJson p.2)])).toArray)]

def extOfJson (j : Json) : Option ExtId := do
  let loc ← getNat j "loc"
  let par ← getNat j "par"
  let quals ← getNatList j "quals"
  pure ⟨loc, par, quals⟩

def extToJson (e : ExtId) : Json :=
  Json.mkObj [("loc", intJ e.loc), ("par", intJ e.par), ("quals", natsJ e.quals)]

/-- run a get/set sequence on a parameter configuration -/
def runParam : PConf → List Json → List Json → Option (List Json × PConf)
  | c, [], acc => some (acc.reverse, c)
  | c, o :: os, acc => do
    let op ← getStr o "op"
    let gid ← getNat o "g"
    let p ← getNat o "p"
    let loc ← getOptNat o "loc"
    let model ← getOptNat o "model"
    match op with
    | "get" =>
      let r := match pget c gid p loc model with
        | none => raiseJ
        | some v => pvalToJson v
      runParam c os (r :: acc)
    | "set" =>
      let a ← (getObj o "a").bind pargOfJson
      match pset c gid p a loc model with
      | none => runParam c os (raiseJ :: acc)
      | some c' => runParam c' os (Json.str "ok" :: acc)
    | _ => none

def runResize : Store → List Json → List Json → Option (List Json)
  | _, [], acc => some acc.reverse
  | s, o :: os, acc => do
    let ns ← getInt o "ns"
    let ne ← getInt o "ne"
    match resize ns ne s with
    | none => runResize s os (raiseJ :: acc)
    | some s' => runResize s' os (storeToJson s' :: acc)

/-- a sequence of `resize` / `set` calls on one object; the object after every call -/
def runPiOps : Store → List Json → List Json → Option (List Json)
  | _, [], acc => some acc.reverse
  | s, o :: os, acc => do
    let op ← getStr o "op"
    match op with
    | "resize" =>
      let ns ← getInt o "ns"
      let ne ← getInt o "ne"
      match resize ns ne s with
      | none => runPiOps s os (raiseJ :: acc)
      | some s' => runPiOps s' os (storeToJson s' :: acc)
    | "set" =>
      let m ← getNat o "m"
      let e ← entryOfJson o
      match setSeries m e s with
      | none => runPiOps s os (raiseJ :: acc)
      | some s' => runPiOps s' os (storeToJson s' :: acc)
    | _ => none

def handle (j : Json) : Option Json := do
  let op ← getStr j "op"
  match op with
  | "pi_read" =>
      let binary ← getBool j "binary"
      let f ← (getObj j "file").bind fileOfJson
      match read binary f with
      | none => pure raiseJ
      | some s => pure (storeToJson s)
  | "pi_write" =>
      let binary ← getBool j "binary"
      let s ← (getObj j "store").bind storeOfJson
      let r32 ← tableFn j
      match write r32 binary s with
      | none => pure raiseJ
      | some f => pure (fileToJson f)
  | "pi_roundtrip" =>
      let binary ← getBool j "binary"
      let s ← (getObj j "store").bind storeOfJson
      let r32 ← tableFn j
      match write r32 binary s with
      | none => pure raiseJ
      | some f =>
        let back := match read binary f with
          | none => raiseJ
          | some s' => storeToJson s'
        pure (Json.mkObj [("file", fileToJson f), ("store", back)])
  | "pi_resize" =>
      let s ← (getObj j "store").bind storeOfJson
      let seq ← getArr j "seq"
      let r ← runResize s seq []
      pure (Json.arr r.toArray)
  | "pi_ops" =>
      let s ← (getObj j "store").bind storeOfJson
      let ops ← getArr j "ops"
      let r ← runPiOps s ops []
      pure (Json.arr r.toArray)
  | "floor" =>
      let g ← getInt j "g"
      let d ← getInt j "d"
      let f ← getInt j "f"
      if d ≤ 0 then none else
      pure (Json.arr #[intJ (floorDT g d f), intJ (floorDTLegacy g d f)])
  | "round6" =>
      let xs ← getRatList j "xs"
      pure (ratsJ (xs.map round6))
  | "nc_times" =>
      let ts ← getIntList j "times"
      let ft ← getInt j "ft"
      let fd ← getInt j "fd"
      match ncWriteTimes ts ft fd with
      | none => pure raiseJ
      | some w => pure (Json.mkObj [("values", intsJ w.1), ("ref", intJ w.2), ("read", intsJ (ncReadTimes w))])
  | "param" =>
      let conf ← getArr j "conf"
      let conf ← conf.mapM pgroupOfJson
      let ops ← getArr j "ops"
      let (rs, c') ← runParam conf ops []
      pure (Json.mkObj [("results", Json.arr rs.toArray), ("conf", Json.arr (c'.map pgroupToJson).toArray)])
  | "ids" =>
      let conf ← getArr j "conf"
      let conf ← conf.mapM (fun p => do
        let i ← getNat p "id"
        let e ← (getObj p "ext").bind extOfJson
        pure (i, e))
      let hs ← getArr j "headers"
      let hs ← hs.mapM extOfJson
      let vs ← getNatList j "vars"
      pure (Json.mkObj [
        ("valid", Json.bool (dcValid conf)),
        ("variable", Json.arr (hs.map (fun h => optNatJ (dcVariable conf h))).toArray),
        ("ids", Json.arr (vs.map (fun v => match dcIds conf v with
            | none => Json.null
            | some e => extToJson e)).toArray)])
  | _ => none

def main : IO Unit := runDriver handle
