import RtcVerif.Model.C12
/-! Line-protocol driver for the C12 models (time axis, set_timeseries alignment, export stamps). -/
open Lean RtcVerif RtcVerif.Wire RtcVerif.C12

def intJ (i : Int) : Json := Json.num (JsonNumber.fromInt i)
def intsJ (l : List Int) : Json := Json.arr (l.map intJ).toArray
def asIntList : Json → Option (List Int)
  | Json.arr a => a.toList.mapM (fun x => (fromJson? x : Except String Int).toOption)
  | _ => none
def getIntList (j : Json) (k : String) : Option (List Int) := (getObj j k).bind asIntList
def raiseJ : Json := Json.str "raise"

def argOfJson (j : Json) : Option Arg :=
  match getObj j "times" with
  | some Json.null | none => (getXValList j "values").map Arg.arr
  | some t => do
      let t ← asIntList t
      let v ← getXValList j "values"
      pure (Arg.ts t v)

def storeJ (st : Store) : Json :=
  Json.arr (st.map (fun s => Json.arr (s.map (fun p => Json.arr #[intJ p.1, xvalsJ p.2])).toArray)).toArray

/-- a sequence of set/get operations on the series of a problem; state = the data store -/
def runOps (ts : List Int) : Store → List Json → List Json → Option (List Json)
  | _, [], acc => some acc.reverse
  | st, o :: os, acc => do
    let op ← getStr o "op"
    let m ← getNat o "m"
    let v ← getNat o "v"
    match op with
    | "get" =>
      let r := match ioGet st m v with
        | none => raiseJ
        | some x => xvalsJ x
      runOps ts st os (r :: acc)
    | "set" =>
      let a ← argOfJson o
      let check := (getBool o "check").getD true
      let legacy := (getBool o "legacy").getD false
      match (if legacy then setTsLegacy ts a check else setTs ts a check) with
      | none => runOps ts st os (raiseJ :: acc)
      | some x =>
        match ioSet ts.length st m v x with
        | none => runOps ts st os (raiseJ :: acc)
        | some st' => runOps ts st' os (xvalsJ x :: acc)
    | _ => none

def handle (j : Json) : Option Json := do
  let op ← getStr j "op"
  match op with
  | "axis" =>
      let dts ← getIntList j "dts"
      let ref ← getInt j "ref"
      match timesSec dts ref with
      | none => pure raiseJ
      | some ts =>
        pure (Json.mkObj [("times_sec", intsJ ts), ("horizon", intsJ (horizon ts)),
          ("hist_len", intJ (histLen ts)), ("export", intsJ (exportStamps ref ts)),
          ("nc_export", intsJ (ncExportStamps dts ref))])
  | "history" =>
      let ts ← getIntList j "ts"
      let v ← getXValList j "values"
      let h := history ts v
      pure (Json.mkObj [("times", intsJ h.1), ("values", xvalsJ h.2)])
  | "bound" =>
      let ts ← getIntList j "ts"
      let v ← getXValList j "values"
      let lower ← getBool j "lower"
      let big ← getRat j "big"
      let b := boundSeries ts v lower big
      pure (Json.mkObj [("times", intsJ b.1), ("values", xvalsJ b.2)])
  | "ops" =>
      let ts ← getIntList j "ts"
      let ops ← getArr j "ops"
      let init ← getArr j "init"
      let st ← init.mapM (fun s => do
        let l ← (match s with | Json.arr a => some a.toList | _ => none)
        l.mapM (fun p => match p with
          | Json.arr #[k, x] => do
              let k ← (fromJson? k : Except String Nat).toOption
              let x ← asXValList x
              pure (k, x)
          | _ => none))
      let r ← runOps ts st ops []
      pure (Json.arr r.toArray)
  | _ => none

def main : IO Unit := runDriver handle
