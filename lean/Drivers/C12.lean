import RtcVerif.Model.C12
import RtcVerif.Model.C12Io
/-! Line-protocol driver for the C12 models (time axis, set_timeseries alignment, export stamps). -/
open Lean RtcVerif RtcVerif.Wire RtcVerif.C12

def intJ (i : Int) : Json := Json.num (JsonNumber.fromInt i)
def intsJ (l : List Int) : Json := Json.arr (l.map intJ).toArray
def asIntList : Json → Option (List Int)
  | Json.arr a => a.toList.mapM (fun x => (fromJson? x : Except String Int).toOption)
  | _ => none
def getIntList (j : Json) (k : String) : Option (List Int) := (getObj j k).bind asIntList
def raiseJ : Json := Json.str "raise"

def argOfJson (j : Json) : Option Arg :=
  match getObj j "times" with
  | some Json.null | none => (getXValList j "values").map Arg.arr
  | some t => do
      let t ← asIntList t
      let v ← getXValList j "values"
      pure (Arg.ts t v)

def storeJ (st : Store) : Json :=
  Json.arr (st.map (fun s => Json.arr (s.map (fun p => Json.arr #[intJ p.1, xvalsJ p.2])).toArray)).toArray

/-- a sequence of set/get operations on the series of a problem; state = the data store -/
def runOps (ts : List Int) : Store → List Json → List Json → Option (List Json)
  | _, [], acc => some acc.reverse
  | st, o :: os, acc => do
    let op ← getStr o "op"
    let m ← getNat o "m"
    let v ← getNat o "v"
    match op with
    | "get" =>
      let r := match ioGet st m v with
        | none => raiseJ
        | some x => xvalsJ x
      runOps ts st os (r :: acc)
    | "set" =>
      let a ← argOfJson o
      let check := (getBool o "check").getD true
      let legacy := (getBool o "legacy").getD false
      match (if legacy then setTsLegacy ts a check else setTs ts a check) with
      | none => runOps ts st os (raiseJ :: acc)
      | some x =>
        match ioSet ts.length st m v x with
        | none => runOps ts st os (raiseJ :: acc)
        | some st' => runOps ts st' os (xvalsJ x :: acc)
    | _ => none


/-! accessor slices (Model/C12Io.lean) -/
def serJ (s : Ser) : Json := Json.mkObj [("times", intsJ s.1), ("values", xvalsJ s.2)]
def optSerJ : Option Ser → Json
  | none => Json.null
  | some s => serJ s
def inheritedJ : Json := Json.str "inherited"

def parseStore (j : Json) (k : String) : Option Store := do
  let init ← getArr j k
  init.mapM (fun s => do
    let l ← (match s with | Json.arr a => some a.toList | _ => none)
    l.mapM (fun p => match p with
      | Json.arr #[k, x] => do
          let k ← (fromJson? k : Except String Nat).toOption
          let x ← asXValList x
          pure (k, x)
      | _ => none))

/-- the getter of one model variable: ids of the series `v`, `v_Min`, `v_Max` -/
def getterOf (st : Store) (iv imin imax : Nat) : Getter :=
  fun m k => ioGetRef st m (match k with | Key.var => iv | Key.min => imin | Key.max => imax)

def parsePairs (j : Json) (k : String) : Option (List (Nat × Rat)) := do
  let l ← getArr j k
  l.mapM (fun p => match p with
    | Json.arr #[a, b] => do
        let a ← (fromJson? a : Except String Nat).toOption
        let b ← asRat b
        pure (a, b)
    | _ => none)

def handle (j : Json) : Option Json := do
  let op ← getStr j "op"
  match op with
  | "axis" =>
      let dts ← getIntList j "dts"
      let ref ← getInt j "ref"
      match timesSec dts ref with
      | none => pure raiseJ
      | some ts =>
        pure (Json.mkObj [("times_sec", intsJ ts), ("horizon", intsJ (horizon ts)),
          ("hist_len", intJ (histLen ts)), ("export", intsJ (exportStamps ref ts)),
          ("nc_export", intsJ (ncExportStamps dts ref))])
  | "history" =>
      let ts ← getIntList j "ts"
      let v ← getXValList j "values"
      let h := history ts v
      pure (Json.mkObj [("times", intsJ h.1), ("values", xvalsJ h.2)])
  | "bound" =>
      let ts ← getIntList j "ts"
      let v ← getXValList j "values"
      let lower ← getBool j "lower"
      let big ← getRat j "big"
      let b := boundSeries ts v lower big
      pure (Json.mkObj [("times", intsJ b.1), ("values", xvalsJ b.2)])
  | "ops" =>
      let ts ← getIntList j "ts"
      let ops ← getArr j "ops"
      let init ← getArr j "init"
      let st ← init.mapM (fun s => do
        let l ← (match s with | Json.arr a => some a.toList | _ => none)
        l.mapM (fun p => match p with
          | Json.arr #[k, x] => do
              let k ← (fromJson? k : Except String Nat).toOption
              let x ← asXValList x
              pure (k, x)
          | _ => none))
      let r ← runOps ts st ops []
      pure (Json.arr r.toArray)
  | "slices" =>
      -- every accessor entry of one variable for one member, on one final store
      let ts ← getIntList j "ts"
      let st ← parseStore j "store"
      let iv ← getNat j "iv"
      let imin ← getNat j "imin"
      let imax ← getNat j "imax"
      let m ← getNat j "m"
      let big ← getRat j "big"
      let get := getterOf st iv imin imax
      let b := match (boundsEntry ts get big (none : Option Unit)) with
        | Entry.inherited _ => inheritedJ
        | Entry.io (lo, hi) => Json.mkObj [("m", optSerJ lo), ("M", optSerJ hi)]
      let h := match (historyEntry ts get m (none : Option Unit)) with
        | Entry.inherited _ => inheritedJ
        | Entry.io s => serJ s
      let sd := match (seedEntry ts get m (none : Option Unit)) with
        | Entry.inherited _ => inheritedJ
        | Entry.io s => serJ s
      let ci := match (constInputEntry ts get m (none : Option Unit)) with
        | none => raiseJ
        | some (Entry.inherited _) => inheritedJ
        | some (Entry.io s) => serJ s
      pure (Json.mkObj [("bounds", b), ("history", h), ("seed", sd), ("cinput", ci),
        ("store_min", match get 0 Key.min with | none => Json.null | some v => xvalsJ (boundsStoreAfter ts v true big)),
        ("store_max", match get 0 Key.max with | none => Json.null | some v => xvalsJ (boundsStoreAfter ts v false big))])
  | "params" =>
      let parent ← parsePairs j "parent"
      let io ← parsePairs j "io"
      pure (Json.arr ((parametersMerge parent io).map (fun p => Json.arr #[intJ p.1, ratJ p.2])).toArray)
  | "sim" =>
      let ts ← getIntList j "ts"
      let dts ← getIntList j "dts"
      let feeds := ((getArr j "feeds").getD []).filterMap asXValList
      match simRun ts dts with
      | none => pure raiseJ
      | some s => pure (Json.mkObj [("stamps", intsJ s.stamps), ("recorded", intsJ s.recorded),
          ("fed", Json.arr (s.fed.map (fun p => intJ p.1)).toArray),
          ("fed_time", intsJ (s.fed.map Prod.snd)),
          ("fed_values", Json.arr (feeds.map (fun vals => Json.arr (s.fed.map (fun p =>
              match feedValue vals p.1 with
              | none => raiseJ
              | some none => Json.str "skip"
              | some (some x) => XVal.toJson x)).toArray)).toArray)])
  | "feed" =>
      let v ← getXValList j "values"
      let i ← getNat j "idx"
      match feedValue v i with
      | none => pure raiseJ
      | some none => pure (Json.str "skip")
      | some (some x) => pure (XVal.toJson x)
  | _ => none

def main : IO Unit := runDriver handle
