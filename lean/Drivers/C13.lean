import RtcVerif.Model.C13
import RtcVerif.Model.C13IO
/-! Line-protocol driver for the C13 models (AliasDict operation machine, simulation vector). -/
open Lean RtcVerif RtcVerif.Wire RtcVerif.C13

def signOfInt (i : Int) : Sign := if i < 0 then .neg else .pos

/-- relation from a finite table; names outside the table behave as in pymoca
    (`"-x" ↦ ("x", -1)`, `"x" ↦ ("x", 1)`) -/
def relOfTable (tbl : List (VName × VName × Sign)) : Rel := fun n =>
  match tbl.find? (fun e => e.1 == n) with
  | some e => e.2
  | none => if n.startsWith "-" then ((n.drop 1).toString, .neg) else (n, .pos)

def getRel (j : Json) : Option Rel := do
  let rows ← getArr j "rel"
  let tbl ← rows.mapM (fun row =>
    match row with
    | Json.arr #[Json.str a, Json.str c, s] =>
        match (fromJson? s : Except String Int) with
        | .ok i => some (a, c, signOfInt i)
        | .error _ => none
    | _ => none)
  pure (relOfTable tbl)

def atomOfJson (j : Json) : Option Atom := do
  let k ← getStr j "k"
  match k with
  | "num" => (getXVal j "v").map Atom.num
  | "ts" => do
      let t ← getRatList j "t"
      let v ← getXValList j "v"
      pure (Atom.ts t v)
  | _ => none

/-- a tuple side: `{"k": "none"}` is Python's `None` -/
def sideOfJson (j : Json) : Option (Option Atom) :=
  if getStr j "k" == some "none" then some none else (atomOfJson j).map some

def sideJ : Option Atom → Json
  | none => Json.mkObj [("k", "none")]
  | some a => match a with
    | .num x => Json.mkObj [("k", "num"), ("v", x.toJson)]
    | .ts t v => Json.mkObj [("k", "ts"), ("t", ratsJ t), ("v", xvalsJ v)]

def valOfJson (j : Json) : Option Val := do
  let k ← getStr j "k"
  match k with
  | "tup" => do
      let xs ← getArr j "v"
      let xs ← xs.mapM sideOfJson
      pure (Val.tup xs)
  | "list" => do
      let xs ← getArr j "v"
      let xs ← xs.mapM atomOfJson
      pure (Val.list xs)
  | _ => (atomOfJson j).map Val.atom

def atomJ : Atom → Json
  | .num x => Json.mkObj [("k", "num"), ("v", x.toJson)]
  | .ts t v => Json.mkObj [("k", "ts"), ("t", ratsJ t), ("v", xvalsJ v)]

def valJ : Val → Json
  | .atom a => atomJ a
  | .tup xs => Json.mkObj [("k", "tup"), ("v", Json.arr (xs.map sideJ).toArray)]
  | .list xs => Json.mkObj [("k", "list"), ("v", Json.arr (xs.map atomJ).toArray)]

def itemsJ (l : List (VName × Val)) : Json :=
  Json.arr (l.map (fun kv => Json.arr #[Json.str kv.1, valJ kv.2])).toArray

def kvOfJson (j : Json) : Option (VName × Val) :=
  match j with
  | Json.arr #[Json.str k, v] => (valOfJson v).map (fun v => (k, v))
  | _ => none

def opOfJson (j : Json) : Option (Op Val) := do
  let o ← getStr j "o"
  match o with
  | "set" => do pure (.set (← getStr j "k") (← (getObj j "v").bind valOfJson))
  | "get" => do pure (.get (← getStr j "k"))
  | "del" => do pure (.del (← getStr j "k"))
  | "contains" => do pure (.contains (← getStr j "k"))
  | "len" => pure .len
  | "keys" => pure .keys
  | "values" => pure .values
  | "items" => pure .items
  | "update" => do
      let kvs ← getArr j "kvs"
      pure (.update (← kvs.mapM kvOfJson))
  | "setdefault" => do pure (.setdefault (← getStr j "k") (← (getObj j "v").bind valOfJson))
  | "getD" => do pure (.getD (← getStr j "k") (← (getObj j "v").bind valOfJson))
  | "copy" => pure .copy
  | "swap" => pure .swap
  | _ => none

def errJ : Err → Json
  | .keyError => Json.str "KeyError"
  | .assertion => Json.str "AssertionError"

def outJ : Out Val → Json
  | .unit => Json.str "ok"
  | .val v => Json.mkObj [("val", valJ v)]
  | .err e => errJ e
  | .bool b => Json.bool b
  | .nat n => Json.num (Int.ofNat n)
  | .names l => strsJ l
  | .vals l => Json.arr (l.map valJ).toArray
  | .items l => Json.mkObj [("items", itemsJ l)]

/-- simulation ops -/
def simOps (r : Rel) : Sim → List Json → Option (List Json)
  | _, [] => some []
  | s, j :: rest => do
    let o ← getStr j "o"
    let k ← getStr j "k"
    match o with
    | "get" =>
        let out := match s.getVar r k with
          | some q => ratJ q
          | none => Json.str "KeyError"
        (simOps r s rest).map (out :: ·)
    | "set" => do
        let v ← getRat j "v"
        match s.setVar r k v with
        | some s' => (simOps r s' rest).map (Json.str "ok" :: ·)
        | none => (simOps r s rest).map (Json.str "KeyError" :: ·)
    | "nominal" => (simOps r s rest).map (ratJ (s.nominal r k) :: ·)
    | _ => none

def handle (j : Json) : Option Json := do
  let op ← getStr j "op"
  match op with
  | "dict" =>
      let r ← getRel j
      let sv ← getBool j "signed"
      let ops ← getArr j "ops"
      let ops ← ops.mapM opOfJson
      let init : List (VName × Val) ← match getArr j "init" with
        | some l => l.mapM kvOfJson
        | none => some []
      let s0 : St Val := ⟨⟨sv, init⟩, ADict.empty sv⟩
      let (s, outs) := run r s0 ops
      pure (Json.mkObj [("outs", Json.arr (outs.map outJ).toArray),
                        ("cur", itemsJ s.cur.items), ("alt", itemsJ s.alt.items)])
  | "read" =>
      -- the IO readers: per stage an alias-keyed store built from the file columns, copied into
      -- the result for every listed variable (`readListed`); then the result read through `keys`
      let r ← getRel j
      let stages ← getArr j "stages"
      let stages ← stages.mapM (fun st => do
        let cols ← getArr st "cols"
        let cols ← cols.mapM kvOfJson
        let vars ← getStrList st "vars"
        pure (cols, vars))
      let keys ← getStrList j "keys"
      let res : Except Err (ADict Val) := stages.foldl (fun acc st =>
        match acc with
        | .ok h =>
          match ADict.update r (ADict.empty true) st.1 with
          | (store, none) => readListed r store h st.2
          | (_, some e) => .error e
        | .error e => .error e) (.ok (ADict.empty true))
      match res with
      | .ok h =>
          pure (Json.mkObj [("outs", Json.arr (keys.map (fun k =>
            match h.get r k with
            | .ok v => Json.mkObj [("val", valJ v)]
            | .error e => errJ e)).toArray)])
      | .error e => pure (Json.mkObj [("outs", errJ e)])
  | "sim" =>
      let r ← getRel j
      let slots ← getArr j "slots"
      let slots ← slots.mapM (fun row =>
        match row with
        | Json.arr #[Json.str a, i] => ((fromJson? i : Except String Nat).toOption).map (fun i => (a, i))
        | _ => none)
      let noms ← getArr j "nominals"
      let noms ← noms.mapM (fun row =>
        match row with
        | Json.arr #[Json.str a, q] => (asRat q).map (fun q => (a, q))
        | _ => none)
      let signedNominals := (getBool j "signed_nominals").getD false
      let nd := (ADict.update r (ADict.empty signedNominals) noms).1
      let sim : Sim := {
        vec := ← getRatList j "vec",
        nStates := ← getNat j "nstates",
        slot := fun n => (slots.find? (fun e => e.1 == n)).map (·.2),
        nominals := nd }
      let ops ← getArr j "ops"
      let outs ← simOps r sim ops
      pure (Json.arr outs.toArray)
  | _ => none

def main : IO Unit := runDriver handle
