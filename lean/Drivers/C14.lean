import RtcVerif.Model.C14
/-! Line-protocol driver for the C14 model (Modelica declaration handling). -/
open Lean RtcVerif RtcVerif.Wire RtcVerif.C14

def ptypeOf : String → Option PType
  | "real" => some .real
  | "int" => some .int
  | "bool" => some .bool
  | _ => none

def attrOf (j : Json) : Option Attr :=
  match getObj j "sym" with
  | some (Json.arr #[a, Json.str p, b]) => do
      pure (Attr.sym (← asRat a) p (← asRat b))
  | _ => do
      let x ← getEVal j "lit"
      pure (Attr.lit x ((getBool j "mx").getD false))

def declOf (j : Json) : Option Decl := do
  pure {
    name := ← getStr j "name"
    ptype := ← (getStr j "ptype").bind ptypeOf
    min := ← (getObj j "min").bind attrOf
    max := ← (getObj j "max").bind attrOf
    nominal := ← (getObj j "nominal").bind attrOf
    start := ← (getObj j "start").bind attrOf
    fixed := ← getBool j "fixed" }

def pvalOf : Json → Option PVal
  | Json.str "nan" => some none
  | j => (asRat j).map some

def pairsOf (j : Json) (k : String) : Option (List (String × PVal)) := do
  let rows ← getArr j k
  rows.mapM (fun row =>
    match row with
    | Json.arr #[Json.str n, v] => (pvalOf v).map (fun v => (n, v))
    | _ => none)

def pvalJ : PVal → Json
  | none => Json.str "nan"
  | some q => ratJ q

/-- parameter sources of a line: `code1` are the extra code overrides of ensemble member 1 -/
def envsOf (j : Json) :
    Option ((Nat → Env) × List (String × PVal) × List (String × PVal) × (Nat → List (String × PVal))) := do
  let model ← pairsOf j "model"
  let file ← pairsOf j "file"
  let code ← pairsOf j "code"
  let code1 := (pairsOf j "code1").getD []
  let deleted := (getStrList j "deleted").getD []
  let codeOf : Nat → List (String × PVal) := fun m => if m = 0 then code else code1 ++ code
  pure (fun m n => if deleted.contains n then none else chain model file (codeOf m) n, model, file, codeOf)

def outcomeJ : Outcome EVal → Json
  | .keep => Json.str "keep"
  | .raise => Json.str "raise"
  | .put v => Json.mkObj [("put", v.toJson)]

def roleJ : Role → Json
  | .algebraic => "algebraic"
  | .lookup => "lookup"
  | .constantInput => "constant"
  | .control => "control"

def sourceJ : Source → Json
  | .seed => "seed"
  | .modelica => "modelica"
  | .initialState => "initial_state"
  | .default => "default"

def optRat (j : Json) (k : String) : Option Rat := (getObj j k).bind asRat

def handle (j : Json) : Option Json := do
  let op ← getStr j "op"
  match op with
  | "opt" =>
      let (envs, model, file, codeOf) ← (getObj j "params").bind envsOf
      let member := ((getObj j "params").bind (getNat · "member")).getD 0
      let code := codeOf member
      let states ← (← getArr j "states").mapM declOf
      let algs ← (← getArr j "algs").mapM declOf
      let inputsJ ← getArr j "inputs"
      let inputs ← inputsJ.mapM declOf
      let flags ← inputsJ.mapM (fun i => do
        pure ((getBool i "delay").getD false, (getBool i "lookup").getD false))
      let declared ← getStrList j "outputs"
      let inhJ := (getArr j "inherited").getD []
      let inh ← inhJ.mapM (fun row =>
        match row with
        | Json.arr #[Json.str n, lo, hi] => do pure (n, (← EVal.ofJson? lo), (← EVal.ofJson? hi))
        | _ => none)
      let roles := (inputs.zip flags).map (fun (d, f) => (d.name, inputRoleOpt f.1 f.2 d.fixed))
      let simRoles := (inputs.zip flags).map (fun (d, f) => (d.name, inputRoleSim f.1 f.2))
      let all := states ++ algs ++ inputs
      let boundsJ := all.map (fun d =>
        Json.arr #[Json.str d.name,
          match boundsOf (C14.envOf envs .bounds member) (inh.lookup d.name) d with
          | some (lo, hi) => Json.arr #[lo.toJson, hi.toJson]
          | none => Json.str "raise"])
      let nomJ := all.map (fun d => Json.arr #[Json.str d.name, (nominalOf (C14.envOf envs .nominal member) d).toJson])
      let discJ := all.map (fun d => Json.arr #[Json.str d.name, Json.bool (isDiscrete d.ptype)])
      let histJ := states.map (fun d => Json.arr #[Json.str d.name, outcomeJ (historyOf (C14.envOf envs .history member) d)])
      let seedJ := (states ++ algs).map (fun d => Json.arr #[Json.str d.name, outcomeJ (seedOf (C14.envOf envs .seed member) d)])
      let names := (model ++ file ++ code).map (·.1) |>.eraseDups
      let parJ := names.map (fun n => Json.arr #[Json.str n,
        match chain model file code n with
        | some v => pvalJ v
        | none => Json.null])
      let controls := controlsOf ((inputs.zip flags).map (fun (d, f) => ⟨d.name, f.1, f.2, d.fixed⟩))
      pure (Json.mkObj [
        ("roles", Json.arr (roles.map (fun (n, r) => Json.arr #[Json.str n, roleJ r])).toArray),
        ("sim_roles", Json.arr (simRoles.map (fun (n, r) => Json.arr #[Json.str n, roleJ r])).toArray),
        ("bounds", Json.arr boundsJ.toArray),
        ("nominal", Json.arr nomJ.toArray),
        ("discrete", Json.arr discJ.toArray),
        ("history", Json.arr histJ.toArray),
        ("seed", Json.arr seedJ.toArray),
        ("parameters", Json.arr parJ.toArray),
        ("outputs", strsJ (outputsOf declared controls))])
  | "outputs" =>
      let declared ← getStrList j "declared"
      let inputs ← (← getArr j "inputs").mapM (fun i => do
        pure (⟨← getStr i "name", (getBool i "delay").getD false, (getBool i "lookup").getD false,
               ← getBool i "fixed"⟩ : InputRec))
      pure (Json.mkObj [
        ("outputs", strsJ (exportedOf declared inputs)),
        ("controls", strsJ (controlsOf inputs)),
        ("constants", strsJ (roleListOf .constantInput inputs))])
  | "sim" =>
      let (envs, _, _, _) ← (getObj j "params").bind envsOf
      let env := envs 0
      let d ← (getObj j "decl").bind declOf
      match simStart env d (optRat j "initial_state") (optRat j "seed") with
      | none => pure (Json.str "unresolved")
      | some s => pure (Json.mkObj [("source", sourceJ s.source), ("value", s.value.toJson),
                                    ("fixed", Json.bool s.fixed)])
  | _ => none

def main : IO Unit := runDriver handle
