import RtcVerif.Model.C15Wire
/-! Line-protocol driver for the C15 model (trajectory accessors). -/
open Lean RtcVerif RtcVerif.Wire RtcVerif.Interp RtcVerif.C15 RtcVerif.C15.W

def handle (j : Json) : Option Json := do
  let op ← getStr j "op"
  match op with
  | "acc" =>
      let p ← (getObj j "prob").bind probOfJson
      let qs ← getArr j "q"
      let rs ← qs.mapM (query p)
      pure (Json.arr rs.toArray)
  | "map" =>
      let mp ← (getObj j "mp").bind mapProbOfJson
      let es ← getArr j "e"
      let es ← es.mapM exprOfJson
      pure (Json.arr (es.map (fun e => Json.arr ((mapPathExpression mp e).map resJ).toArray)).toArray)
  | _ => none

def main : IO Unit := runDriver handle
