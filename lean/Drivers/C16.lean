import RtcVerif.Model.C15Wire
import RtcVerif.Model.C16
/-! Line-protocol driver for the C16 model (delayed feedback, optimisation and simulation). -/
open Lean RtcVerif RtcVerif.Wire RtcVerif.Interp RtcVerif.C15 RtcVerif.C15.W RtcVerif.C16

def asRes : Json → Option Res
  | Json.str "nan" => some Res.nan
  | v => (asRat v).map Res.num

def optKnots (j : Json) : Option (Option RKnots) :=
  match j with
  | Json.null => some none
  | h => do
      let t ← getRatList h "t"
      let v ← getArr h "v"
      let v ← v.mapM asRes
      if t.length = v.length then pure (some (t.zip v)) else none

def delayProbOfJson (j : Json) : Option DelayProb := do
  let mp ← (getObj j "mp").bind mapProbOfJson
  let hs ← getArr j "hists"
  let hists ← hs.mapM optKnots
  let allHistTimes ← getRatMat j "allHistTimes"
  let expr ← (getObj j "expr").bind exprOfJson
  let out ← getNat j "out"
  let outNeg ← getBool j "outNeg"
  let tau ← (getObj j "tau").bind exprOfJson
  let d : DelayProb := ⟨mp, hists, allHistTimes, expr, out, outNeg, tau⟩
  -- the receiving variable given by NAME: resolved here through the alias relation (`DelayProb.named`)
  match getStr j "outName" with
  | none => pure d
  | some name =>
      let names ← getStrList j "colNames"
      let al ← getArr j "aliases"
      let aliases ← al.mapM (fun a => do
        let n ← getStr a "name"
        let c ← getStr a "of"
        let neg ← getBool a "neg"
        pure (n, (c, neg)))
      pure (d.named aliases names name)

def handle (j : Json) : Option Json := do
  let op ← getStr j "op"
  match op with
  | "delay" =>
      let d ← (getObj j "d").bind delayProbOfJson
      pure (Json.mkObj [
        ("rows", Json.arr (d.rows.map resJ).toArray),
        ("incomplete", Json.bool d.incomplete),
        ("nominal", ratJ d.nominal),
        ("histStart", Json.num d.histStart),
        ("out", Json.num (Int.ofNat d.out)),
        ("outNeg", Json.bool d.outNeg),
        ("hts", ratsJ d.hts),
        ("histD", Json.arr (d.histD.map resJ).toArray),
        ("trajD", Json.arr (d.trajD.map resJ).toArray),
        ("delayed", Json.arr ((List.range d.ts.length).map (fun k => resJ (d.delayedAt k))).toArray),
        ("y", Json.arr ((List.range d.ts.length).map (fun k => resJ (d.yAt k))).toArray)])
  | "sim" =>
      let tau ← getRat j "tau"
      let dt ← getRat j "dt"
      let d0 ← getRat j "d0"
      let ds ← getRatList j "ds"
      let tr := simTrace tau dt d0 ds
      pure (Json.mkObj [
        ("n", Json.num (Int.ofNat (bufLen tau dt))),
        ("w", ratJ (weight tau dt)),
        ("y", ratsJ (tr.map (·.y))),
        ("buf", matJ (tr.map (·.buf)))])
  | _ => none

def main : IO Unit := runDriver handle
