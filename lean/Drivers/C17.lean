import RtcVerif.Model.C17LinOrder
import RtcVerif.Model.C17SinglePass
/-! Line-protocol driver for the C17 models (linearised-order table, min-abs rows). -/
open Lean RtcVerif RtcVerif.Wire RtcVerif.C17 RtcVerif.C03

def dummyRow : Row := { coefs := [], b0 := 0, lo := .ninf, hi := .pinf }

def bndOfJson (j : Json) : Option (EVal × EVal) :=
  match j with
  | Json.arr #[l, u] => do
      let lo ← EVal.ofJson? l
      let hi ← EVal.ofJson? u
      pure (lo, hi)
  | _ => none

def pairsJ (l : List (Rat × Rat)) : Json :=
  Json.arr (l.map (fun ab => Json.arr #[ratJ ab.1, ratJ ab.2])).toArray

def handle (j : Json) : Option Json := do
  let op ← getStr j "op"
  match op with
  | "lin" =>
      let r ← getNat j "r"
      let xs ← getRatList j "knots"
      let q ← getRatList j "q"
      let cs := coeffs r xs
      pure (Json.mkObj [("ok", Json.bool (knotsOK xs)), ("coeffs", pairsJ cs), ("gaps", ratsJ (segGaps r xs)),
                        ("vals", ratsJ (q.map (linMax cs)))])
  | "minabs" =>
      let f ← getRat j "f"
      let n ← getRat j "n"
      let a ← getRatList j "a"
      pure (Json.mkObj [("abs", ratJ (qabs (f / n))), ("feasible", Json.arr (a.map (fun v => Json.bool (minAbsFeasible f n v))).toArray)])
  | "minabs_relax" =>
      -- retained bound of the converted min-abs goal, on the scaled auxiliary variable
      let fstar ← getRat j "fstar"
      let n ← getRat j "n"
      let r ← getRat j "r"
      let cr ← getRat j "cr"
      pure (Json.mkObj [("upper", ratJ (retainedUpper (qabs fstar / n) (convertedRelaxation r n) 1 cr))])
  | "plan" =>
      -- row counts and objective-row bounds of the three loops at priority index k
      let nbase ← getNat j "base"
      let soft ← getNatList j "soft"
      let bnds ← (← getArr j "bnd").mapM bndOfJson
      let k ← getNat j "k"
      let P : Plan := { base := List.replicate nbase dummyRow,
                        soft := soft.map (fun n => List.replicate n dummyRow),
                        objRow := bnds.map (fun _ => dummyRow), bnd := bnds }
      let tail := fun (l : List Row) (n : Nat) => (l.drop (l.length - n)).map (fun r => Json.arr #[r.lo.toJson, r.hi.toJson])
      pure (Json.mkObj [("keep", Json.num (Int.ofNat (keepRows P k).length)),
                        ("append", Json.num (Int.ofNat (appendRows P k).length)),
                        ("update", Json.num (Int.ofNat (updateRows P k).length)),
                        ("append_tail", Json.arr (tail (appendRows P k) k).toArray),
                        ("update_tail", Json.arr (tail (updateRows P k) bnds.length).toArray)])
  | _ => none

def main : IO Unit := runDriver handle
