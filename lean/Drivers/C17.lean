import RtcVerif.Model.C17LinOrder
import RtcVerif.Model.C17SinglePass
import RtcVerif.Model.C17Caching
import RtcVerif.Model.C17Code
/-! Line-protocol driver for the C17 models (linearised-order table, min-abs rows). -/
open Lean RtcVerif RtcVerif.Wire RtcVerif.C17 RtcVerif.C03

def dummyRow : Row := { coefs := [], b0 := 0, lo := .ninf, hi := .pinf }

def bndOfJson (j : Json) : Option (EVal × EVal) :=
  match j with
  | Json.arr #[l, u] => do
      let lo ← EVal.ofJson? l
      let hi ← EVal.ofJson? u
      pure (lo, hi)
  | _ => none

def pairsJ (l : List (Rat × Rat)) : Json :=
  Json.arr (l.map (fun ab => Json.arr #[ratJ ab.1, ratJ ab.2])).toArray

/-- one construction event of a `CachingQPSol` session: the NLP and the calls made on its solver -/
def cachingEvent (j : Json) : Option ((NLP × List CallIn) × List Rat) := do
  let n ← getNat j "n"
  let Q ← getRatMat j "Q"
  let c ← getRatList j "c"
  let k ← getRat j "k"
  let ga ← getRatMat j "ga"
  let gb ← getRatList j "gb"
  let calls ← getArr j "calls"
  let cs ← calls.mapM fun cj => do
    let x0 ← getRatList cj "x0"
    let lbx ← getEValList cj "lbx"
    let ubx ← getEValList cj "ubx"
    let lbg ← getEValList cj "lbg"
    let ubg ← getEValList cj "ubg"
    let cost ← getRat cj "cost"
    pure (({ x0 := x0, lbx := lbx, ubx := ubx, lbg := lbg, ubg := ubg } : CallIn), cost)
  let p : NLP := { n := n, f := { Q := Q, c := c, k := k }, g := (List.zip ga gb).map fun ab => { a := ab.1, b := ab.2 } }
  pure ((p, cs.map (·.1)), cs.map (·.2))

def optMatJ : Option Mat → Json
  | some m => Json.mkObj [("ncol", Json.num (Int.ofNat m.ncol)), ("rows", matJ m.rows)]
  | none => Json.null
def optRatsJ : Option (List Rat) → Json
  | some v => ratsJ v
  | none => Json.null
def optEValsJ : Option (List EVal) → Json
  | some v => evalsJ v
  | none => Json.null

def solverInJ (d : SolverIn) : List (String × Json) :=
  [("h", optMatJ d.h), ("g", optRatsJ d.g), ("a", optMatJ d.a), ("x0", optRatsJ d.x0), ("lbx", optEValsJ d.lbx),
   ("ubx", optEValsJ d.ubx), ("lba", optEValsJ d.lba), ("uba", optEValsJ d.uba)]

def traceJ (t : Trace) (costs : List Rat) : Json :=
  match t.made with
  | .error _ => Json.mkObj [("made", Json.str "raise")]
  | .ok s =>
    Json.mkObj [("made", Json.mkObj (solverInJ s.sin ++ [("b", ratsJ s.b), ("f0", ratJ s.f0)])),
                ("calls", Json.arr ((List.zip t.calls costs).map fun rc =>
                  match rc.1 with
                  | .error _ => Json.str "raise"
                  | .ok d => Json.mkObj (solverInJ d ++ [("f", ratJ (report s rc.2))])).toArray)]

def handle (j : Json) : Option Json := do
  let op ← getStr j "op"
  match op with
  | "lin" =>
      let r ← getNat j "r"
      let xs ← getRatList j "knots"
      let q ← getRatList j "q"
      let cs := coeffs r xs
      pure (Json.mkObj [("ok", Json.bool (knotsOK xs)), ("coeffs", pairsJ cs), ("gaps", ratsJ (segGaps r xs)),
                        ("vals", ratsJ (q.map (linMax cs)))])
  | "minabs" =>
      let f ← getRat j "f"
      let n ← getRat j "n"
      let a ← getRatList j "a"
      pure (Json.mkObj [("abs", ratJ (qabs (f / n))), ("feasible", Json.arr (a.map (fun v => Json.bool (minAbsFeasible f n v))).toArray)])
  | "minabs_relax" =>
      -- retained bound of the converted min-abs goal, on the scaled auxiliary variable
      let fstar ← getRat j "fstar"
      let n ← getRat j "n"
      let r ← getRat j "r"
      let cr ← getRat j "cr"
      pure (Json.mkObj [("upper", ratJ (retainedUpper (qabs fstar / n) (convertedRelaxation r n) 1 cr))])
  | "caching" =>
      -- the life of one CachingQPSol object: constructions (cache carried along) and their calls
      let evs ← (← getArr j "events").mapM cachingEvent
      let traces := session none (evs.map (·.1))
      pure (Json.mkObj [("traces", Json.arr ((List.zip traces (evs.map (·.2))).map fun tc => traceJ tc.1 tc.2).toArray)])
  | "plan_opts" =>
      -- as "plan", the bounds of the retained objective rows computed from the options active at each priority
      let nbase ← getNat j "base"
      let soft ← getNatList j "soft"
      let vals ← getRatList j "vals"
      let fixs ← getBoolList j "fix"
      let crs ← getRatList j "cr"
      let k ← getNat j "k"
      let opts := fun (i : Nat) => (fixs.getD i false, crs.getD i 0)
      let bnds := (List.range vals.length).map fun i => rowBnd singlePassOptRead opts (fun i => vals.getD i 0) i
      let P : Plan := { base := List.replicate nbase dummyRow,
                        soft := soft.map (fun n => List.replicate n dummyRow),
                        objRow := bnds.map (fun _ => dummyRow), bnd := bnds }
      let tail := fun (l : List Row) (n : Nat) => (l.drop (l.length - n)).map (fun r => Json.arr #[r.lo.toJson, r.hi.toJson])
      pure (Json.mkObj [("keep", Json.num (Int.ofNat (keepRows P k).length)),
                        ("append", Json.num (Int.ofNat (appendRows P k).length)),
                        ("update", Json.num (Int.ofNat (updateRows P k).length)),
                        ("append_tail", Json.arr (tail (appendRows P k) k).toArray),
                        ("update_tail", Json.arr (tail (updateRows P k) bnds.length).toArray)])
  | "plan" =>
      -- row counts and objective-row bounds of the three loops at priority index k
      let nbase ← getNat j "base"
      let soft ← getNatList j "soft"
      let bnds ← (← getArr j "bnd").mapM bndOfJson
      let k ← getNat j "k"
      let P : Plan := { base := List.replicate nbase dummyRow,
                        soft := soft.map (fun n => List.replicate n dummyRow),
                        objRow := bnds.map (fun _ => dummyRow), bnd := bnds }
      let tail := fun (l : List Row) (n : Nat) => (l.drop (l.length - n)).map (fun r => Json.arr #[r.lo.toJson, r.hi.toJson])
      pure (Json.mkObj [("keep", Json.num (Int.ofNat (keepRows P k).length)),
                        ("append", Json.num (Int.ofNat (appendRows P k).length)),
                        ("update", Json.num (Int.ofNat (updateRows P k).length)),
                        ("append_tail", Json.arr (tail (appendRows P k) k).toArray),
                        ("update_tail", Json.arr (tail (updateRows P k) bnds.length).toArray)])
  | _ => none

def main : IO Unit := runDriver handle
