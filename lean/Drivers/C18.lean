import RtcVerif.Model.Wire
import RtcVerif.Model.C18Homotopy
/-! Line-protocol driver for the C18 model (homotopy loop). -/
open Lean RtcVerif RtcVerif.Wire RtcVerif.C18

def seedJ : SeedSrc → Json
  | .base => Json.str "base"
  | .unset => Json.str "unset"
  | .stored a => Json.mkObj [("stored", ratJ a)]

def solveJ (e : Solve) : Json :=
  Json.mkObj [("th", ratJ e.theta), ("d", ratJ e.delta), ("ok", Json.bool e.ok), ("seed", seedJ e.seed)]

def optRatJ : Option Rat → Json
  | none => Json.null
  | some q => ratJ q

def handle (j : Json) : Option Json := do
  let op ← getStr j "op"
  match op with
  | "run" =>
      let ts ← getRat j "ts"
      let d0 ← getRat j "d0"
      let dmin ← getRat j "dmin"
      let script ← getBoolList j "script"
      let pad := (getNat j "pad").getD 0
      let legacy := (getBool j "legacy").getD false
      let o : Opts := ⟨ts, d0, dmin⟩
      let l := script ++ List.replicate pad true
      match optimizeWith (if legacy then stepLegacy else step) o l with
      | none => pure (Json.mkObj [("raise", Json.bool true)])
      | some (s, r) =>
          pure (Json.mkObj [
            ("raise", Json.bool false),
            ("ret", match r with | none => Json.null | some b => Json.bool b),
            ("log", Json.arr (s.solves.reverse.map solveJ).toArray),
            ("theta", ratJ s.theta), ("delta", ratJ s.delta), ("acc", optRatJ s.acc),
            ("linear", Json.bool s.linear), ("cleared", Json.num (Int.ofNat s.cleared))])
  | _ => none

def main : IO Unit := runDriver handle
