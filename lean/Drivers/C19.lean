import RtcVerif.Model.Interp
import RtcVerif.Model.Merge
import RtcVerif.Model.C19MergeCode
/-! Line-protocol driver for the C19 models (interpolation, merge_bounds). -/
open Lean RtcVerif RtcVerif.Wire RtcVerif.Interp RtcVerif.Merge
open RtcVerif.MergeCode (PyV mergeBoundsRef)

def getFill (j : Json) (k : String) : Option Fill :=
  match getObj j k with
  | none => some none
  | some Json.null => some none
  | some v => (XVal.ofJson? v).map some

def outJ : Out → Json
  | .raise => Json.str "raise"
  | .val v => v.toJson

def optListJ : Option (List XVal) → Json
  | none => Json.str "raise"
  | some l => xvalsJ l

def bndOfJson (j : Json) : Option Bnd := do
  let k ← getStr j "k"
  match k with
  | "sc" => (getEVal j "v").map Bnd.sc
  | "vec" => (getEValList j "v").map Bnd.vec
  | "ts" => do
      let t ← getRatList j "t"
      let v ← getEValList j "v"
      pure (Bnd.ts1 t v)
  | "ts2" => do
      let t ← getRatList j "t"
      let rows ← getArr j "v"
      let rows ← rows.mapM asEValList
      pure (Bnd.ts2 t rows)
  | _ => none

def bndToJson : Bnd → Json
  | .sc v => Json.mkObj [("k", "sc"), ("v", v.toJson)]
  | .vec vs => Json.mkObj [("k", "vec"), ("v", evalsJ vs)]
  | .ts1 t vs => Json.mkObj [("k", "ts"), ("t", ratsJ t), ("v", evalsJ vs)]
  | .ts2 t rows => Json.mkObj [("k", "ts2"), ("t", ratsJ t), ("v", Json.arr (rows.map evalsJ).toArray)]

/-- code-level values (`Model/C19MergeCode.lean`): as `bndOfJson` plus the int / float flag -/
def pyvOfJson (j : Json) : Option PyV := do
  let k ← getStr j "k"
  let i := (getBool j "int").getD false
  match k with
  | "sc" => (getEVal j "v").map (PyV.num i)
  | "vec" => (getEValList j "v").map (PyV.arr i)
  | "ts" => do
      let t ← getRatList j "t"
      let v ← getEValList j "v"
      pure (PyV.ts1 t v)
  | "ts2" => do
      let t ← getRatList j "t"
      let rows ← getArr j "v"
      let rows ← rows.mapM asEValList
      pure (PyV.ts2 t rows)
  | _ => none

def pyvToJson : PyV → Json
  | .num i v => Json.mkObj [("k", "sc"), ("int", Json.bool i), ("v", v.toJson)]
  | .arr i vs => Json.mkObj [("k", "vec"), ("int", Json.bool i), ("v", evalsJ vs)]
  | .ts1 t vs => Json.mkObj [("k", "ts"), ("int", Json.bool false), ("t", ratsJ t), ("v", evalsJ vs)]
  | .ts2 t rows => Json.mkObj [("k", "ts2"), ("int", Json.bool false), ("t", ratsJ t),
      ("v", Json.arr (rows.map evalsJ).toArray)]
  | _ => Json.mkObj [("k", "other")]

def handle (j : Json) : Option Json := do
  let op ← getStr j "op"
  match op with
  | "interp" =>
      let mode ← getNat j "mode"
      let ts ← getRatList j "ts"
      let fs ← getRatList j "fs"
      let fl ← getFill j "fl"
      let fr ← getFill j "fr"
      let q ← getRatList j "q"
      let scalar := (getBool j "scalar").getD false
      let ks := ts.zip fs
      if scalar then
        match q with
        | [t] => pure (outJ (interpScalar mode ks fl fr t))
        | _ => none
      else pure (optListJ (interpArray mode ks fl fr q))
  | "interp2" =>
      let mode ← getNat j "mode"
      let ts ← getRatList j "ts"
      let cols ← getRatMat j "cols"
      let fl ← getFill j "fl"
      let fr ← getFill j "fr"
      let q ← getRatList j "q"
      match interpColumns mode (cols.map (ts.zip ·)) fl fr q with
      | none => pure (Json.str "raise")
      | some r => pure (Json.arr (r.map xvalsJ).toArray)
  | "interp2s" =>
      let mode ← getNat j "mode"
      let ts ← getRatList j "ts"
      let cols ← getRatMat j "cols"
      let fl ← getFill j "fl"
      let fr ← getFill j "fr"
      let q ← getRatList j "q"
      match q with
      | [t] => pure (optListJ (interpColumnsScalar mode (cols.map (ts.zip ·)) fl fr t))
      | _ => none
  | "sym" =>
      let mode ← getNat j "mode"
      let ts ← getRatList j "ts"
      let fs ← getRatList j "fs"
      let q ← getRatList j "q"
      let ks := ts.zip fs
      pure (Json.arr (q.map (fun t => outJ (interpSym mode ks t))).toArray)
  | "merge" =>
      let a ← getArr j "a"
      let b ← getArr j "b"
      match a, b with
      | [lo1, hi1], [lo2, hi2] =>
          let lo1 ← bndOfJson lo1
          let hi1 ← bndOfJson hi1
          let lo2 ← bndOfJson lo2
          let hi2 ← bndOfJson hi2
          match mergeBounds lo1 hi1 lo2 hi2 with
          | none => pure (Json.str "raise")
          | some (m, M) => pure (Json.arr #[bndToJson m, bndToJson M])
      | _, _ => none
  | "mergecode" =>
      let a ← getArr j "a"
      let b ← getArr j "b"
      match a, b with
      | [lo1, hi1], [lo2, hi2] =>
          let lo1 ← pyvOfJson lo1
          let hi1 ← pyvOfJson hi1
          let lo2 ← pyvOfJson lo2
          let hi2 ← pyvOfJson hi2
          match mergeBoundsRef lo1 hi1 lo2 hi2 with
          | none => pure (Json.str "raise")
          | some (m, M) => pure (Json.arr #[pyvToJson m, pyvToJson M])
      | _, _ => none
  | _ => none

def main : IO Unit := runDriver handle
