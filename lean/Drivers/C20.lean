import RtcVerif.Model.Wire
import RtcVerif.Model.C20BSpline
import RtcVerif.Model.C20Fit
/-! Line-protocol driver for the C20 models (B-spline evaluation, inverse lookup, fit cache). -/
open Lean RtcVerif RtcVerif.Wire RtcVerif.C20

def optRatsJ : Option (List Rat) → Json
  | none => Json.str "raise"
  | some l => ratsJ l

def asY : Json → Option Y
  | Json.str "nan" => some none
  | j => (asRat j).map some

def yJ : Y → Json
  | none => Json.str "nan"
  | some q => ratJ q

def asOptRat : Json → Option (Option Rat)
  | Json.null => some none
  | j => (asRat j).map some

def getOptRat (j : Json) (k : String) : Option (Option Rat) :=
  match getObj j k with
  | none => some none
  | some v => asOptRat v

def asPair : Json → Option (Rat × Rat)
  | Json.arr #[a, b] => do pure ((← asRat a), (← asRat b))
  | _ => none

def asEv : Json → Option (Nat × Ev)
  | Json.arr a => do
    let τ ← (fromJson? (a.getD 0 Json.null) : Except String Nat).toOption
    let kind ← (fromJson? (a.getD 1 Json.null) : Except String String).toOption
    match kind with
    | "editCsv" => do
        let d ← (fromJson? (a.getD 2 Json.null) : Except String Nat).toOption
        pure (τ, Ev.editCsv d)
    | "editIni" => do
        let o ← (fromJson? (a.getD 2 Json.null) : Except String Nat).toOption
        pure (τ, Ev.editIni o)
    | "delIni" => pure (τ, Ev.delIni)
    | "corrupt" => pure (τ, Ev.corrupt)
    | "pre" => pure (τ, Ev.pre)
    | _ => none
  | _ => none

def optNatJ : Option Nat → Json
  | none => Json.null
  | some n => Json.num (Int.ofNat n)

def handle (j : Json) : Option Json := do
  let op ← getStr j "op"
  match op with
  | "fitsetup" =>
      -- knot vector and constraint-row bounds `BSpline1D.fit` hands to the solver
      let x ← getRatList j "x"
      let k ← getNat j "k"
      let δ ← getRat j "delta"
      let ε ← getRat j "eps"
      let mono ← getInt j "mono"
      let curv ← getInt j "curv"
      let interior := match getObj j "interior" with
        | some (Json.null) => none
        | some v => asRatList v
        | none => none
      if x.length < k + 1 then none else
      let b := fitBounds mono curv ε
      let ev : EVal → Json := fun
        | .ninf => Json.str "-inf"
        | .pinf => Json.str "inf"
        | .fin q => ratJ q
      pure (Json.mkObj [("t", ratsJ (fitKnots x k δ interior)),
        ("dcMin", ev b.dcMin), ("dcMax", ev b.dcMax), ("ssMin", ev b.ssMin), ("ssMax", ev b.ssMax)])
  | "b1" =>
      let t ← getRatList j "t"
      let w ← getRatList j "w"
      let k ← getNat j "k"
      let q ← getRatList j "q"
      -- hypothesis of the theorems: the knots never decrease (otherwise `bad-op`)
      if !sortedB t then none else
      pure (optRatsJ (q.mapM (spline1dL t w k)))
  | "b1legacy" =>
      let t ← getRatList j "t"
      let w ← getRatList j "w"
      let k ← getNat j "k"
      let q ← getRatList j "q"
      pure (ratsJ (q.map (spline1dLegacy (knotFn t) t.length (knotFn w) k)))
  | "d1" =>
      let t ← getRatList j "t"
      let w ← getRatList j "w"
      let k ← getNat j "k"
      let d ← getNat j "d"
      let q ← getRatList j "q"
      if t.length - k - 1 ≤ w.length then
        pure (ratsJ (q.map (dspline1d (knotFn t) t.length (knotFn w) k d)))
      else pure (Json.str "raise")
  | "basis" =>
      let t ← getRatList j "t"
      let k ← getNat j "k"
      let q ← getRatList j "q"
      let tf := knotFn t
      let tl := tf (t.length - 1)
      pure (Json.arr ((q.map (fun x =>
        ratsJ ((List.range (t.length - k - 1)).map (fun i => basis tf tl x k i)))).toArray))
  | "b2" =>
      let tx ← getRatList j "tx"
      let ty ← getRatList j "ty"
      let w ← getRatList j "w"
      let kx ← getNat j "kx"
      let ky ← getNat j "ky"
      let q ← getArr j "q"
      let q ← q.mapM asPair
      if !(sortedB tx && sortedB ty) then none else
      pure (optRatsJ (q.mapM (fun p => spline2dL tx ty w kx ky p.1 p.2)))
  | "rev" =>
      let t ← getRatList j "t"
      let w ← getRatList j "w"
      let k ← getNat j "k"
      let dl ← getRat j "dl"
      let du ← getRat j "du"
      let ld ← getOptRat j "ld"
      let ud ← getOptRat j "ud"
      let detect ← getBool j "detect"
      let legacy := (getBool j "legacy").getD false
      let ys ← getArr j "ys"
      let ys ← ys.mapM asY
      let roots ← getArr j "roots"
      let roots ← roots.mapM asOptRat
      if roots.length ≠ ys.length then none else
      let f : Rat → Rat := spline1d (knotFn t) t.length (knotFn w) k
      let c : RevCfg := { f := f, dl := dl, du := du, ld := ld, ud := ud, detect := detect }
      -- the oracle's transcript, keyed by the target value `q = f 0 - g 0`
      let tbl : List (Rat × Option Rat) :=
        (ys.zip roots).filterMap (fun p => p.1.map (fun q => (q, p.2)))
      let root : Root := fun g _ _ => (tbl.lookup (f 0 - g 0)).join
      let out := if legacy then reverseCallLegacy c root ys else reverseCall c root ys
      let brackets := (finiteOf ys).map (fun q => ratsJ [f c.lo - q, f c.hi - q])
      let outJ : Json := match out with
        | .error .range => Json.str "range"
        | .error .bracket => Json.str "bracket"
        | .ok xs => Json.mkObj [("xs", Json.arr (xs.map yJ).toArray),
            ("res", Json.arr ((xs.zip ys).map (fun p =>
              match p.1, p.2 with
              | some x, some q => ratJ (f x - q)
              | _, _ => Json.str "nan")).toArray)]
      pure (Json.mkObj [("out", outJ), ("brackets", Json.arr brackets.toArray),
        ("range", ratsJ [c.rangeLo, c.rangeHi])])
  | "cache" =>
      let data ← getNat j "data"
      let csvM ← getNat j "csvM"
      let ini : Option (Nat × Nat) := match getNatList j "ini" with
        | some [o, m] => some (o, m)
        | _ => none
      let evs ← getArr j "evs"
      let evs ← evs.mapM asEv
      let s0 : St := { data := data, csvM := csvM, ini := ini, cache := none, served := [] }
      -- hypothesis of `served_is_current`: time stamps never go backwards (otherwise `bad-op`)
      if !(decide (Chrono 0 evs)) then none else
      let s := run s0 evs
      pure (Json.arr ((s.served.map (fun p =>
        Json.arr #[Json.num (Int.ofNat p.1.1), optNatJ p.1.2, Json.bool p.2])).toArray))
  | "valid" =>
      let csvM ← getNat j "csvM"
      let ini : Option Nat := getNat j "ini"
      let npz : Option Nat := getNat j "npz"
      let loadable ← getBool j "loadable"
      pure (Json.bool (validCache { csvM := csvM, ini := ini, npz := npz, loadable := loadable }))
  | _ => none

def main : IO Unit := runDriver handle
