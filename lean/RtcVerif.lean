-- Root of the `RtcVerif` library: models, helper proofs and property theorems.
import RtcVerif.Model.Wire
import RtcVerif.Model.Num
import RtcVerif.Model.Interp
import RtcVerif.Model.Merge
import RtcVerif.Proofs.NumOrder
