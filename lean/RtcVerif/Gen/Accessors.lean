import RtcVerif.Proofs.C15Gen
/-!
GENERATED on every run of the C15 check by harness/translate_c15.py from `der_at`,
`__states_times_in` (from the window selection on) and `integral` in
/repo/src/rtctools/optimization/collocated_integrated_optimization_problem.py
(symbolic execution against the table in the header of the translator).  Do not edit.
The theorems tie the source, read this way, to the model the property theorems of C15 are about.
-/
set_option linter.unusedVariables false
set_option linter.unusedSimpArgs false
set_option linter.unreachableTactic false
set_option linter.unusedTactic false
namespace RtcVerif.Gen
open RtcVerif RtcVerif.Interp RtcVerif.C15

def derAtGen_j1 (p : Prob) (name : String) (t : Rat) : Res :=
  let times : List Rat := p.timesOf name
  let history_and_times : List Rat := if t ≤ p.t0 then (match p.histOf name with | some h => (((h.map (·.1))).dropLast ++ times) | none => times) else times
  match history_and_times with
  | [] => .raise
  | h0 :: _ =>
    if t = h0 then
      .num 0
    else
      match scanPairs (fun a b => decide (t > a) && decide (t ≤ b)) history_and_times with
      | some (a, b) =>
          (Res.divBy (b - a) (Res.sub (stateAt p name b false true) (stateAt p name a false true)))
      | none =>
          .raise


/-- `der_at(variable, t, m)` -/
def derAtGen (p : Prob) (name : String) (t : Rat) : Res :=
  if t = p.t0 then
    match p.initDerOf name with
    | some d =>
      .num ((d.1 * sgn (p.canon name).2) * d.2)
    | none => derAtGen_j1 p name t
  else
    derAtGen_j1 p name t

/-- the model of `der_at`, with its special case written as a branch -/
theorem derAt_unfold (p : Prob) (name : String) (t : Rat) :
    C15.derAt p name t =
      (match (if t = p.t0 then p.initDerOf name else none) with
       | some d => .num (d.1 * sgn (p.canon name).2 * d.2)
       | none =>
         match p.derKnots name t with
         | [] => Res.raise
         | h0 :: rest =>
           if t = h0 then .num 0
           else match findSeg (h0 :: rest) t with
             | none => .raise
             | some (a, b) => ((stateAt p name b false true).sub (stateAt p name a false true)).divBy (b - a)) := by
  unfold C15.derAt
  cases (if t = p.t0 then p.initDerOf name else none) with
  | none => rfl
  | some d => rfl

theorem derAtGen_eq_model (p : Prob) (name : String) (t : Rat) : derAtGen p name t = C15.derAt p name t := by
  rw [derAt_unfold]
  unfold derAtGen derAtGen_j1 Prob.derKnots
  simp only [findSeg_eq_scanPairs, gt_iff_lt, ge_iff_le]
  by_cases h0 : t = p.t0 <;> by_cases h1 : t ≤ p.t0 <;> cases hd : p.initDerOf name <;> cases hh : p.histOf name <;>
    simp only [h0, h1, hd, hh, if_true, if_false, le_refl] <;>
    first
      | rfl
      | (split <;> [rfl; (split <;> [rfl; (split <;> simp_all [Bool.and_comm])])])
      | (congr 1; ring; done)
      | (simp_all [Bool.and_comm]; done)

/-- `__states_times_in` from "Collect time stamps and states" on (`a`, `b` = window; `hist`, `state` =
    the history knots available and the signed, unscaled state knots computed before) -/
def assembleGen (p : Prob) (name : String) (a b : Rat) (hist state : Knots) : Option Knots := do
  some ((← (if (!hasTime (inWindow a b state) a && !hasTime (inWindow a b hist) a) then endPoint p name a else some [])) ++ (inWindow a b hist) ++ (inWindow a b state) ++ (← (if (!hasTime (inWindow a b state) b && !hasTime (inWindow a b hist) b) then endPoint p name b else some [])))

theorem assembleGen_eq_model (p : Prob) (name : String) (a b : Rat) (hist state : Knots) :
    assembleGen p name a b hist state = C15.assemble p name a b hist state := by
  unfold assembleGen C15.assemble endKnot
  simp only [hasTime_append]
  cases h1 : hasTime (inWindow a b hist) a <;> cases h2 : hasTime (inWindow a b state) a <;>
    cases h3 : hasTime (inWindow a b hist) b <;> cases h4 : hasTime (inWindow a b state) b <;>
    simp [List.append_assoc]

/-- the quadrature of `integral` over the knot list (`x` = values, `t` = times) -/
def trapzGen (ks : Knots) : Rat :=
  if ks.length > 1 then (vmul (vscale (1 / 2 : Rat) (vadd (ks.map (·.2)).dropLast (ks.map (·.2)).tail)) (vsub (ks.map (·.1)).tail (ks.map (·.1)).dropLast)).sum else 0

theorem trapzGen_eq_model (ks : Knots) : trapzGen ks = C15.trapz ks := by
  rw [← trapzVec_eq_trapz]
  unfold trapzGen trapzVec
  first
    | rfl
    | (simp only [vadd_comm, vmul_comm])
    | (unfold vmul vadd vsub vscale; congr 2; simp only [List.zipWith_comm_of_comm, mul_comm, add_comm])

end RtcVerif.Gen
