import RtcVerif.Model.C13
import RtcVerif.Proofs.C13Lemmas
/-!
GENERATED on every run of the C13 check by harness/translate_c13.py from class `AliasDict` in
src/rtctools/_internal/alias_tools.py (symbolic execution per sign / value kind).  Do not edit.
Each `...Gen` is the source; each `...Gen_eq_model` ties it to the model function the C13 property
theorems are about (value type `Val`: atoms, tuples, lists).
-/
namespace RtcVerif.Gen
open RtcVerif.C13

def csignedGen (r : Rel) (sv : Bool) (k : VName) : VName × Sign :=
  match sv with
  | true => ((r k).1, (r k).2)
  | false => ((r k).1, Sign.pos)

theorem csignedGen_eq_model (r : Rel) (sv : Bool) (k : VName) : csignedGen r sv k = csigned r sv k := by
  cases sv <;> rfl

def delGen (r : Rel) (a : ADict Val) (k : VName) : Except Err (ADict Val) :=
  if a.d.has (csignedGen r a.signedValues k).1 then .ok { a with d := a.d.del (csignedGen r a.signedValues k).1 } else .error .keyError

theorem delGen_eq_model (r : Rel) (a : ADict Val) (k : VName) : delGen r a k = ADict.del r a k := by
  simp only [delGen, ADict.del, csignedGen_eq_model]

def containsGen (r : Rel) (a : ADict Val) (k : VName) : Bool := a.d.has (csignedGen r a.signedValues k).1

theorem containsGen_eq_model (r : Rel) (a : ADict Val) (k : VName) :
    containsGen r a k = ADict.contains r a k := by
  simp only [containsGen, ADict.contains, csignedGen_eq_model]

def keysGen (a : ADict Val) : List VName := a.d.keys

theorem keysGen_eq_model (a : ADict Val) : keysGen a = ADict.keys a := rfl

def valuesGen (a : ADict Val) : List Val := a.d.values

theorem valuesGen_eq_model (a : ADict Val) : valuesGen a = ADict.values a := rfl

def itemsGen (a : ADict Val) : List (VName × Val) := a.d

theorem itemsGen_eq_model (a : ADict Val) : itemsGen a = ADict.items a := rfl

def lenGen (a : ADict Val) : Nat := a.d.length

theorem lenGen_eq_model (a : ADict Val) : lenGen a = ADict.len a := rfl

def iterGen (a : ADict Val) : List VName := a.d.keys

theorem iterGen_eq_model (a : ADict Val) : iterGen a = ADict.keys a := rfl

end RtcVerif.Gen
