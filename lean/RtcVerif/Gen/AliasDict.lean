import RtcVerif.Model.C13
import RtcVerif.Proofs.C13Lemmas
/-!
GENERATED on every run of the C13 check by harness/translate_c13.py from class `AliasDict` in
src/rtctools/_internal/alias_tools.py (symbolic execution per sign / value kind).  Do not edit.
Each `...Gen` is the source; each `...Gen_eq_model` ties it to the model function the C13 property
theorems are about (value type `Val`: atoms, tuples, lists).
-/
namespace RtcVerif.Gen
open RtcVerif.C13

def csignedGen (r : Rel) (sv : Bool) (k : VName) : VName × Sign :=
  match sv with
  | true => ((r k).1, (r k).2)
  | false => ((r k).1, Sign.pos)

theorem csignedGen_eq_model (r : Rel) (sv : Bool) (k : VName) : csignedGen r sv k = csigned r sv k := by
  cases sv <;> rfl

/-- the value `__setitem__` stores (or the AssertionError) -/
def setValGen : Sign → Val → Except Err Val
  | .pos, .atom x => .ok (.atom x)
  | .neg, .atom x => .ok (.atom (Atom.neg x))
  | .pos, .tup [some x0, some x1] => .ok (.tup [some x0, some x1])
  | .pos, .tup [some x0, none] => .ok (.tup [some x0, none])
  | .pos, .tup [none, some x1] => .ok (.tup [none, some x1])
  | .pos, .tup [none, none] => .ok (.tup [none, none])
  | .neg, .tup [some x0, some x1] => .ok (.tup [some (Atom.neg x1), some (Atom.neg x0)])
  | .neg, .tup [some x0, none] => .ok (.tup [none, some (Atom.neg x0)])
  | .neg, .tup [none, some x1] => .ok (.tup [some (Atom.neg x1), none])
  | .neg, .tup [none, none] => .ok (.tup [none, none])
  | _, .tup _ => .error .assertion
  | .pos, .list xs => .ok (.list xs)
  | .neg, .list xs => .ok (.list (xs.map Atom.neg))

def setGen (r : Rel) (a : ADict Val) (k : VName) (v : Val) : Except Err (ADict Val) :=
  match setValGen (csignedGen r a.signedValues k).2 v with
  | .ok w => .ok { a with d := a.d.set (csignedGen r a.signedValues k).1 w }
  | .error e => .error e

theorem setValGen_eq (s : Sign) (v : Val) :
    setValGen s v = if ok v then .ok (signed s v) else .error .assertion := by
  cases s <;> cases v with
  | atom x => rfl
  | list xs => rfl
  | tup xs => rcases xs with _ | ⟨_ | x0, _ | ⟨_ | x1, _ | ⟨x2, rest⟩⟩⟩ <;> rfl

theorem setGen_eq_model (r : Rel) (a : ADict Val) (k : VName) (v : Val) :
    setGen r a k v = ADict.set r a k v := by
  simp only [setGen, ADict.set, setValGen_eq, csignedGen_eq_model]
  cases ok v <;> rfl

/-- the value `__getitem__` returns for a stored value -/
def getValGen : Sign → Val → Except Err Val
  | .pos, .atom x => .ok (.atom x)
  | .neg, .atom x => .ok (.atom (Atom.neg x))
  | .pos, .tup [some x0, some x1] => .ok (.tup [some x0, some x1])
  | .pos, .tup [some x0, none] => .ok (.tup [some x0, none])
  | .pos, .tup [none, some x1] => .ok (.tup [none, some x1])
  | .pos, .tup [none, none] => .ok (.tup [none, none])
  | .neg, .tup [some x0, some x1] => .ok (.tup [some (Atom.neg x1), some (Atom.neg x0)])
  | .neg, .tup [some x0, none] => .ok (.tup [none, some (Atom.neg x0)])
  | .neg, .tup [none, some x1] => .ok (.tup [some (Atom.neg x1), none])
  | .neg, .tup [none, none] => .ok (.tup [none, none])
  | _, .tup _ => .error .assertion  -- unreachable: __setitem__ stores 2-tuples only
  | .pos, .list xs => .ok (.list xs)
  | .neg, .list xs => .ok (.list (xs.map Atom.neg))

def getGen (r : Rel) (a : ADict Val) (k : VName) : Except Err Val :=
  match a.d.get (csignedGen r a.signedValues k).1 with
  | some v => getValGen (csignedGen r a.signedValues k).2 v
  | none => .error .keyError

theorem getValGen_eq (s : Sign) (v : Val) (h : ok v = true) : getValGen s v = .ok (signed s v) := by
  cases s <;> cases v with
  | atom x => rfl
  | list xs => rfl
  | tup xs =>
    rcases xs with _ | ⟨_ | x0, _ | ⟨_ | x1, _ | ⟨x2, rest⟩⟩⟩
    all_goals first | rfl | (simp [NegVal.ok, Val.ok] at h)

/-- under the representation invariant (stored tuples are pairs, as `__setitem__` guarantees) -/
theorem getGen_eq_model (r : Rel) (a : ADict Val) (k : VName)
    (hinv : ∀ c v, a.d.get c = some v → ok v = true) : getGen r a k = ADict.get r a k := by
  simp only [getGen, ADict.get, csignedGen_eq_model]
  cases h : a.d.get (csigned r a.signedValues k).1 with
  | none => rfl
  | some v => exact getValGen_eq _ v (hinv _ v h)

def delGen (r : Rel) (a : ADict Val) (k : VName) : Except Err (ADict Val) :=
  if a.d.has (csignedGen r a.signedValues k).1 then .ok { a with d := a.d.del (csignedGen r a.signedValues k).1 } else .error .keyError

theorem delGen_eq_model (r : Rel) (a : ADict Val) (k : VName) : delGen r a k = ADict.del r a k := by
  simp only [delGen, ADict.del, csignedGen_eq_model]

def containsGen (r : Rel) (a : ADict Val) (k : VName) : Bool := a.d.has (csignedGen r a.signedValues k).1

theorem containsGen_eq_model (r : Rel) (a : ADict Val) (k : VName) :
    containsGen r a k = ADict.contains r a k := by
  simp only [containsGen, ADict.contains, csignedGen_eq_model]

def updateGen (r : Rel) : ADict Val → List (VName × Val) → ADict Val × Option Err
  | a, [] => (a, none)
  | a, (k, v) :: rest =>
    match setGen r a k v with
    | .ok a' => updateGen r a' rest
    | .error e => (a, some e)

theorem updateGen_eq_model (r : Rel) (l : List (VName × Val)) :
    ∀ a : ADict Val, updateGen r a l = ADict.update r a l := by
  induction l with
  | nil => intro a; rfl
  | cons p rest ih =>
    intro a
    obtain ⟨k, v⟩ := p
    simp only [updateGen, ADict.update, setGen_eq_model]
    cases ADict.set r a k v with
    | ok a' => exact ih a'
    | error e => rfl

def getDGen (r : Rel) (a : ADict Val) (k : VName) (dflt : Val) : Except Err Val :=
  if containsGen r a k then getGen r a k else .ok dflt

theorem getDGen_eq_model (r : Rel) (a : ADict Val) (k : VName) (dflt : Val)
    (hinv : ∀ c v, a.d.get c = some v → ok v = true) :
    getDGen r a k dflt = .ok (ADict.getD r a k dflt) := by
  simp only [getDGen, ADict.getD, containsGen_eq_model, getGen_eq_model r a k hinv]
  cases hc : ADict.contains r a k
  · rfl
  · simp only [ADict.contains, PyDict.has] at hc
    simp only [ADict.get, if_true]
    cases hg : a.d.get (csigned r a.signedValues k).1 with
    | none => rw [hg] at hc; cases hc
    | some v => rfl

def keysGen (a : ADict Val) : List VName := a.d.keys

theorem keysGen_eq_model (a : ADict Val) : keysGen a = ADict.keys a := rfl

def valuesGen (a : ADict Val) : List Val := a.d.values

theorem valuesGen_eq_model (a : ADict Val) : valuesGen a = ADict.values a := rfl

def itemsGen (a : ADict Val) : List (VName × Val) := a.d

theorem itemsGen_eq_model (a : ADict Val) : itemsGen a = ADict.items a := rfl

def lenGen (a : ADict Val) : Nat := a.d.length

theorem lenGen_eq_model (a : ADict Val) : lenGen a = ADict.len a := rfl

def iterGen (a : ADict Val) : List VName := a.d.keys

theorem iterGen_eq_model (a : ADict Val) : iterGen a = ADict.keys a := rfl

end RtcVerif.Gen
