import RtcVerif.Gen.BSplineBasis
/-!
GENERATED on every run of the C20 check by harness/translate_c20.py from `BSpline2D.__call__`
(src/rtctools/data/interpolation/bspline2d.py) in the tree under check.  Do not edit.
-/
namespace RtcVerif.Gen
open RtcVerif

def spline2dGen (tx : Nat → Rat) (nx : Nat) (ty : Nat → Rat) (ny : Nat) (w : Nat → Rat)
    (kx ky : Nat) (x y : Rat) : Rat :=
  C20.sumN (nx - kx - 1) (fun i => C20.sumN (ny - ky - 1) (fun j => ((w (((i * (ny - ky - 1)) + j)) * (if (decide (tx (i) ≤ x) && decide (x ≤ tx (((i + kx) + 1)))) then (basisGen tx (tx (nx - 1)) x kx (i)) else 0)) * (if (decide (ty (j) ≤ y) && decide (y ≤ ty (((j + ky) + 1)))) then (basisGen ty (ty (ny - 1)) y ky (j)) else 0))))

theorem spline2dGen_eq_model (tx : Nat → Rat) (nx : Nat) (ty : Nat → Rat) (ny : Nat) (w : Nat → Rat)
    (kx ky : Nat) (x y : Rat) :
    spline2dGen tx nx ty ny w kx ky x y = C20.spline2d tx nx ty ny w kx ky x y := by
  unfold spline2dGen C20.spline2d
  apply C20.sumN_congr
  intro i _
  apply C20.sumN_congr
  intro j _
  simp only [basisGen_eq_model, C20.wbasis, Bool.and_eq_true, decide_eq_true_eq]
  all_goals ring_nf

end RtcVerif.Gen
