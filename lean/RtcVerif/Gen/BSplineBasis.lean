import RtcVerif.Model.C20BSpline
import RtcVerif.Proofs.C20Lemmas
import Mathlib.Algebra.Order.Field.Rat
import Mathlib.Tactic.Ring
import Mathlib.Tactic.Tauto
/-!
GENERATED on every run of the C20 check by harness/translate_c20.py from `BSpline.basis`
(src/rtctools/data/interpolation/bspline.py) and `BSpline1D.__call__` (bspline1d.py) in the tree
under check.  Do not edit.  `basisGen` / `spline1dGen` are the source read as Lean terms
(construct table: harness/translate_c20.py); the theorems tie them to the models the property
theorems of C20 are about.
-/
namespace RtcVerif.Gen
open RtcVerif

def basisGen (t : Nat → Rat) (tl x : Rat) : Nat → Nat → Rat
  | 0, i => (if (if (decide (t (i) < t ((i + 1))) && decide (t ((i + 1)) = tl)) then ((decide (t (i) ≤ x) && decide (x < t ((i + 1)))) || decide (x = tl)) else (decide (t (i) ≤ x) && decide (x < t ((i + 1))))) then 1 else 0)
  | k' + 1, i => ((if decide (t (i) < t ((i + (k' + 1)))) then (((x - t (i)) / (t ((i + (k' + 1))) - t (i))) * (basisGen t tl x k' (i))) else 0) + (if decide (t ((i + 1)) < t (((i + (k' + 1)) + 1))) then (((t (((i + (k' + 1)) + 1)) - x) / (t (((i + (k' + 1)) + 1)) - t ((i + 1)))) * (basisGen t tl x k' ((i + 1)))) else 0))

theorem basisGen_eq_model (t : Nat → Rat) (tl x : Rat) :
    ∀ k i, basisGen t tl x k i = C20.basis t tl x k i := by
  intro k
  induction k with
  | zero =>
    intro i
    rw [C20.basis_zero]
    simp only [basisGen]
    by_cases hm : C20.inside0 t tl x i
    · rw [if_pos hm]; unfold C20.inside0 at hm
      split_ifs <;> first
        | rfl
        | (exfalso; simp only [Bool.and_eq_true, Bool.or_eq_true, decide_eq_true_eq] at *; tauto)
    · rw [if_neg hm]; unfold C20.inside0 at hm
      split_ifs <;> first
        | rfl
        | (exfalso; simp only [Bool.and_eq_true, Bool.or_eq_true, decide_eq_true_eq] at *; tauto)
  | succ k ih =>
    intro i
    simp only [basisGen, C20.basis, ih, decide_eq_true_eq]
    all_goals ring_nf

def spline1dGen (t : Nat → Rat) (n : Nat) (w : Nat → Rat) (k : Nat) (x : Rat) : Rat :=
  C20.sumN (n - k - 1) (fun i => (if (decide (t (i) ≤ x) && decide (x ≤ t (((i + k) + 1)))) then (w (i) * (basisGen t (t (n - 1)) x k (i))) else 0))

theorem spline1dGen_eq_model (t : Nat → Rat) (n : Nat) (w : Nat → Rat) (k : Nat) (x : Rat) :
    spline1dGen t n w k x = C20.spline1d t n w k x := by
  unfold spline1dGen C20.spline1d
  apply C20.sumN_congr
  intro i _
  simp only [basisGen_eq_model, C20.term1d, Bool.and_eq_true, decide_eq_true_eq]
  all_goals ring_nf

end RtcVerif.Gen
