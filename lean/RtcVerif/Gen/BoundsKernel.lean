import RtcVerif.Model.C05Kernel
import RtcVerif.Proofs.C05Kernel
/-!
GENERATED on every run of the C05 / C08 checks by harness/translate_c05.py from
`_collint_get_lbx_ubx` and `_collint_get_x0` in
/repo/src/rtctools/optimization/collocated_integrated_optimization_problem.py (path-by-path execution
of the per-variable body; the construct table is in the header of the translator).  Do not edit.
The theorems tie the source, read this way, to the reference kernel `RtcVerif.C05.K`, which
`Proofs/C05Kernel.lean` proves equal to the model function `C05.blockWrite` of the C05 / C08 theorems.
-/
namespace RtcVerif.Gen
open RtcVerif RtcVerif.C05

/-- fill of `lbx` / `ubx` before any bound is written -/
def initLowerGen : XVal := XVal.ninf
def initUpperGen : XVal := XVal.pinf

/-- per-entry nominal array in `_collint_get_lbx_ubx` -/
def nominalGen (b : Blk) : List Rat :=
  match b.nom with
  | .sc q => K.scalarNom b q
  | .vec qs => K.cm (K.broadcastNom b qs)

/-- per-entry nominal array in `_collint_get_x0` -/
def seedNominalGen (b : Blk) : List Rat :=
  match b.nom with
  | .sc q => K.scalarNom b q
  | .vec qs => K.cm (K.broadcastNom b qs)

/-- what is written into `lbx[inds]` for one (member, variable) -/
def lowerGenS (b : Blk) (s : Side) : Option (Option (List XVal)) :=
  match s with
  | .none => some none
  | .sc x => K.bindAssign b (some (K.scalar x)) (nominalGen b)
  | .vec xs => K.bindAssign b ((K.broadcastVec b xs).map K.Val.cm) (nominalGen b)
  | .ts1 t vals => K.bindAssign b ((K.interpolate b (.ts1 t vals) XVal.ninf XVal.ninf).map K.Val.cm) (nominalGen b)
  | .ts2 t rows => K.bindAssign b ((K.interpolate b (.ts2 t rows) XVal.ninf XVal.ninf).map K.Val.cm) (nominalGen b)
def lowerGen (b : Blk) : Option (Option (List XVal)) := lowerGenS b b.lo

/-- what is written into `ubx[inds]` -/
def upperGenS (b : Blk) (s : Side) : Option (Option (List XVal)) :=
  match s with
  | .none => some none
  | .sc x => K.bindAssign b (some (K.scalar x)) (nominalGen b)
  | .vec xs => K.bindAssign b ((K.broadcastVec b xs).map K.Val.cm) (nominalGen b)
  | .ts1 t vals => K.bindAssign b ((K.interpolate b (.ts1 t vals) XVal.pinf XVal.pinf).map K.Val.cm) (nominalGen b)
  | .ts2 t rows => K.bindAssign b ((K.interpolate b (.ts2 t rows) XVal.pinf XVal.pinf).map K.Val.cm) (nominalGen b)
def upperGen (b : Blk) : Option (Option (List XVal)) := upperGenS b b.hi

/-- what is written into `x0[inds]` for the seed `s` of one (member, variable) -/
def seedGen (b : Blk) (s : Side) : Option (Option (List XVal)) :=
  match s with
  | .none => some none
  | .sc x => K.bindAssign b (some (K.scalar x)) (seedNominalGen b)
  | .vec xs => K.bindAssign b (some (xs.map XVal.e)) (seedNominalGen b)
  | .ts1 t vals => K.bindAssign b ((K.interpolate b (.ts1 t vals) (XVal.fin 0) (XVal.fin 0)).map K.Val.cm) (seedNominalGen b)
  | .ts2 t rows => K.bindAssign b ((K.interpolate b (.ts2 t rows) (XVal.fin 0) (XVal.fin 0)).map K.Val.cm) (seedNominalGen b)

theorem initFillGen_eq_model : initLowerGen = C05.fillOf true ∧ initUpperGen = C05.fillOf false := ⟨rfl, rfl⟩

theorem nominalGen_eq_model (b : Blk) : nominalGen b = K.nominalK b := rfl

theorem seedNominalGen_eq_model (b : Blk) : seedNominalGen b = K.nominalK b := rfl

theorem lowerGen_eq_model (b : Blk) : lowerGen b = K.blockWriteK b b.lo XVal.ninf := by
  show lowerGenS b b.lo = _
  generalize b.lo = s
  cases s <;> rfl

theorem upperGen_eq_model (b : Blk) : upperGen b = K.blockWriteK b b.hi XVal.pinf := by
  show upperGenS b b.hi = _
  generalize b.hi = s
  cases s <;> rfl

theorem seedGen_eq_model (b : Blk) (s : Side) : seedGen b s = K.seedWriteK b s := by
  cases s <;> rfl

/-- ... and hence the model function of the C05 / C08 property theorems -/
theorem boundsGen_eq_blockWrite (b : Blk) :
    lowerGen b = C05.blockWrite b b.lo (C05.fillOf true) ∧ upperGen b = C05.blockWrite b b.hi (C05.fillOf false) :=
  ⟨by rw [lowerGen_eq_model, K.blockWriteK_eq]; rfl, by rw [upperGen_eq_model, K.blockWriteK_eq]; rfl⟩

theorem seedGen_eq_blockWrite (b : Blk) (s : Side) (h : ∀ xs, s = .vec xs → b.n = 1 ∧ xs.length = b.size) :
    seedGen b s = C05.blockWrite b s (XVal.fin 0) := by
  rw [seedGen_eq_model, K.seedWriteK_eq b s h]

end RtcVerif.Gen
