import RtcVerif.Model.C01Colloc
import RtcVerif.Proofs.C01Gen
/-!
GENERATED on every run of the C01 check by harness/translate_c01.py from
`CollocatedIntegratedOptimizationProblem.transcribe` in
/repo/src/rtctools/optimization/collocated_integrated_optimization_problem.py.  Do not edit.
The `…Gen` definitions are the source, read through the table in the header of the translator; the
theorems tie them to the model functions the C01 property theorems are about.
-/
namespace RtcVerif.Gen
open RtcVerif RtcVerif.Interp RtcVerif.C01

/-! parameter classification: which value the residual of member `m` is given for parameter `j` -/
def effParGen (E npar : Nat) (dyn : Nat → Bool) (pvals : Nat → List Rat) (m : Nat) : List Rat :=
  (List.range npar).map (fun j =>
    if (((E == 1) || ((List.range (E - 1)).all fun m => (pvals (m + 1)).getD j 0 == (pvals 0).getD j 0)) && (!dyn j)) then (pvals 0).getD j 0 else (pvals m).getD j 0)

theorem effParGen_eq_model (E npar : Nat) (dyn : Nat → Bool) (pvals : Nat → List Rat) (m : Nat) :
    effParGen E npar dyn pvals m = effPar E npar dyn pvals m := by
  unfold effParGen effPar isConstPar
  apply List.map_congr_left
  intro j _
  generalize (E == 1) = a
  generalize ((List.range (E - 1)).all fun m => (pvals (m + 1)).getD j 0 == (pvals 0).getD j 0) = b
  generalize dyn j = d
  cases a <;> cases b <;> cases d <;> rfl

/-! initial residual: argument order and model time -/
def initRowsGen (F Finit : Residual) (s : Sys) (z d u par : List Rat) : List Rat :=
  F z d u (0) par ++ Finit z d u (0) par

theorem initRowsGen_eq_model (F Finit : Residual) (s : Sys) (c : Mem) (X : Vec) :
    initRowsGen F Finit s (initStateCode s c X) (initDersCode s c X) (initInputs s c) c.par
      = initRowsCode F Finit s c X := rfl

/-! initial state and scattered initial derivatives of member `m` -/
def initStateGen (I : Inst) (m : Nat) (X : Vec) : List Rat :=
  let s := I.sys
  List.zipWith (· * ·) ((List.range s.k).map (fun j => X (I.idx m j 0))) ((List.range s.k).map s.nom)

theorem initStateGen_eq_model (I : Inst) (m : Nat) (X : Vec) :
    initStateGen I m X = initStateCode I.sys (I.mem m) X := rfl

def initDersGen (I : Inst) (m : Nat) (X : Vec) : List Rat :=
  let s := I.sys
  let z := List.replicate s.k (0 : Rat)
  let a := scatter z (List.range s.nd)
    (List.zipWith (· * ·) ((List.range s.nd).map (fun j => X (I.didx m j))) ((List.range s.nd).map s.dnom))
  scatter a ((List.range (s.k - s.nd)).map (s.nd + ·))
    ((List.range (s.k - s.nd)).map (fun q => histDer (I.hist m (s.nd + q)) s.t0))

theorem initDersGen_eq_model (I : Inst) (m : Nat) (X : Vec) :
    initDersGen I m X = initDersCode I.sys (I.mem m) X := rfl

/-! variables with their own time stamps: interpolant at the collocation times, overwritten columns -/
def ownInterpGen (X : Vec) (idxv : Nat → Nat) (nomv : Rat) (o : Own) (tsL : List Rat) : List Rat :=
  tsL.map (fun t => nomv * outRat (interpSym o.mode
    (o.times.zip ((List.range o.times.length).map (fun q => X (idxv q)))) t))

theorem ownInterpGen_eq_model (X : Vec) (idxv : Nat → Nat) (nomv : Rat) (o : Own) (tsL : List Rat) :
    ownInterpGen X idxv nomv o tsL = interpOwnAll X idxv nomv o tsL := rfl

def ownColsGen (k j : Nat) : List (Nat × Nat) := [(j, 0), ((k + j), 1)]

theorem ownColsGen_eq_model (k j : Nat) : ownColsGen k j = ownCols k j := by
  unfold ownColsGen ownCols
  first
    | rfl
    | (simp only [List.cons.injEq, Prod.mk.injEq, and_true, true_and]; omega)

/-! collocation block: finite differences, residual calls, theta branch -/
def collocBlockGen (F : Residual) (theta tinit : Rat) (par s0 s1 c0 c1 : List Rat) (ta tb : Rat) : List Rat :=
  if theta = 0 then (F s0 (((vsub s1 s0)).map (· / (tb - ta))) c0 (ta - tinit) par)
  else if theta = 1 then (F s1 (((vsub s1 s0)).map (· / (tb - ta))) c1 (tb - tinit) par)
  else (vadd (vscale (1 - theta) (F s0 (((vsub s1 s0)).map (· / (tb - ta))) c0 (ta - tinit) par)) (vscale theta (F s1 (((vsub s1 s0)).map (· / (tb - ta))) c1 (tb - tinit) par)))

theorem collocBlockGen_eq_model (F : Residual) (theta tinit : Rat) (par s0 s1 c0 c1 : List Rat) (ta tb : Rat) :
    collocBlockGen F theta tinit par s0 s1 c0 c1 ta tb = collocBlock F theta tinit par s0 s1 c0 c1 ta tb := by
  unfold collocBlockGen collocBlock
  split
  · rfl
  · split
    · rfl
    · first
      | rfl
      | exact vadd_comm _ _

/-! positions of the slices of the mapped input row -/
def sliceIdxGen (k nc : Nat) : List (Nat × Nat) := [(0, k), (k, (2 * k)), ((2 * k), ((2 * k) + nc)), (((2 * k) + nc), ((2 * k) + (2 * nc)))]
def timeIdxGen (k nc : Nat) : Nat × Nat := (((2 * (k + nc)) + 0), ((2 * (k + nc)) + 1))

theorem sliceIdxGen_eq_model (k nc : Nat) : sliceIdxGen k nc = sliceIdx k nc := by
  unfold sliceIdxGen sliceIdx
  first
    | rfl
    | (simp only [List.cons.injEq, Prod.mk.injEq, and_true, true_and]; omega)

theorem timeIdxGen_eq_model (k nc : Nat) : timeIdxGen k nc = timeIdx k nc := by
  unfold timeIdxGen timeIdx
  first
    | rfl
    | (simp only [Prod.mk.injEq]; omega)
    | (simp only [Prod.mk.injEq]; constructor <;> omega)

/-- the DAE block the mapped function computes from its input row -/
theorem blockOfRowGen_eq_model (F : Residual) (theta tinit : Rat) (par : List Rat) (k nc : Nat) (u : List Rat) :
    collocBlockGen F theta tinit par
        (slice u ((sliceIdxGen k nc).getD 0 (0, 0)).1 ((sliceIdxGen k nc).getD 0 (0, 0)).2)
        (slice u ((sliceIdxGen k nc).getD 1 (0, 0)).1 ((sliceIdxGen k nc).getD 1 (0, 0)).2)
        (slice u ((sliceIdxGen k nc).getD 2 (0, 0)).1 ((sliceIdxGen k nc).getD 2 (0, 0)).2)
        (slice u ((sliceIdxGen k nc).getD 3 (0, 0)).1 ((sliceIdxGen k nc).getD 3 (0, 0)).2)
        (u.getD (timeIdxGen k nc).1 0) (u.getD (timeIdxGen k nc).2 0)
      = blockOfRow F theta tinit par k nc u := by
  rw [collocBlockGen_eq_model, sliceIdxGen_eq_model, timeIdxGen_eq_model, blockOfRow_idx]

end RtcVerif.Gen
