import RtcVerif.Model.C01Plumb
import RtcVerif.Proofs.C01Plumb
/-!
GENERATED on every run of the C01 check by harness/translate_c01.py (`gen_colloc_plumbing`) from
`CollocatedIntegratedOptimizationProblem.transcribe` in
/repo/src/rtctools/optimization/collocated_integrated_optimization_problem.py and `reduce_matvec` in
/repo/src/rtctools/_internal/casadi_helpers.py.  Do not edit.
-/
namespace RtcVerif.Gen
open RtcVerif RtcVerif.Interp RtcVerif.C01

/-! index lists: first / second argument of `ca.vertcat(X[..], X[..])` as the loop fills them -/
def firstHalfGen (raw : Nat → List Nat) (k n ph : Nat) : List Nat :=
  (List.range k).flatMap (fun v => ((padCut (raw v) n ph)).dropLast)

def secondHalfGen (raw : Nat → List Nat) (k n ph : Nat) : List Nat :=
  (List.range k).flatMap (fun v => ((padCut (raw v) n ph)).tail)

theorem indexListsGen_eq_model (raw : Nat → List Nat) (k n ph : Nat) :
    firstHalfGen raw k n ph = explicitInds (idxOf raw ph) k n
    ∧ secondHalfGen raw k n ph = implicitInds (idxOf raw ph) k n :=
  ⟨explicitIndsCode_eq raw k n ph, implicitIndsCode_eq raw k n ph⟩

/-! tiled nominals, element-wise product, reshape -/
def repeatedNominalsGen (nom : Nat → Rat) (k n : Nat) : List Rat :=
  npTile (npRepeat ((List.range k).map nom) (n - 1)) 2

theorem repeatedNominalsGen_eq_model (nom : Nat → Rat) (k n : Nat) :
    repeatedNominalsGen nom k n = repeatedNominals nom k n :=
  repeatedNominalsCode_eq nom k n

def interpolatedFlatGen (X : Vec) (raw : Nat → List Nat) (nom : Nat → Rat) (k n ph : Nat) : List Rat :=
  List.zipWith (· * ·) ((firstHalfGen raw k n ph).map X ++ (secondHalfGen raw k n ph).map X)
    (repeatedNominalsGen nom k n)

theorem interpolatedFlatGen_eq_model (X : Vec) (raw : Nat → List Nat) (nom : Nat → Rat) (k n ph : Nat) :
    interpolatedFlatGen X raw nom k n ph = interpolatedFlat X (idxOf raw ph) nom k n := by
  unfold interpolatedFlatGen interpolatedFlat
  rw [(indexListsGen_eq_model raw k n ph).1, (indexListsGen_eq_model raw k n ph).2,
    repeatedNominalsGen_eq_model, List.map_append]

/-- the shape handed to `reshape` -/
def reshapeShapeGen (k n : Nat) : Nat × Nat := ((n - 1), (k * 2))

set_option linter.unnecessarySeqFocus false in
theorem reshapeShapeGen_eq_model (k n : Nat) : reshapeShapeGen k n = (n - 1, 2 * k) := by
  unfold reshapeShapeGen
  first
    | rfl
    | (ext <;> dsimp only <;> try omega)

/-- entry `(i, j)` / `(i, k + j)` of the reshaped matrix: nominal × decision variable of variable `j`
    at collocation time `i` / `i + 1` (what `C01_rows_eq_theta` uses through `stateEntry`) -/
theorem stateMatrixGen_entries (X : Vec) (raw : Nat → List Nat) (nom : Nat → Rat) (k n ph i j : Nat)
    (hj : j < k) (hi : i < n - 1) :
    reshapeAt (interpolatedFlatGen X raw nom k n ph) (reshapeShapeGen k n).1 i j
        = nom j * X (idxOf raw ph j i)
    ∧ reshapeAt (interpolatedFlatGen X raw nom k n ph) (reshapeShapeGen k n).1 i (k + j)
        = nom j * X (idxOf raw ph j (i + 1)) := by
  rw [interpolatedFlatGen_eq_model, reshapeShapeGen_eq_model]
  exact ⟨reshape_explicit X _ nom k n i j hj hi, reshape_implicit X _ nom k n i j hj hi⟩

/-! the mapped input row: slots of `accumulation_U`, in slot order, at step `i` -/
def uRowGen (s : Sys) (c : Mem) (X : Vec) (i : Nat) : List Rat :=
  stateCols s X c.idx i
    ++ (List.range s.nc).map (fun j => (((c.civ j)).take (s.n - 1)).getD i 0)
    ++ (List.range s.nc).map (fun j => (((((c.civ j)).take s.n)).drop 1).getD i 0)
    ++ [((s.tsL).take (s.n - 1)).getD i 0, ((((s.tsL).take s.n)).drop 1).getD i 0]
    ++ c.extraU i

theorem uRowGen_eq_model (s : Sys) (c : Mem) (X : Vec) (i : Nat) : uRowGen s c X i = uRow s c X i := rfl

/-! history block: initial derivative of a non-differentiated variable -/
def histDerGen (h : Option Knots) (t0 : Rat) : Rat :=
  Option.elim h 0 (fun ks =>
    if pyAt (ks.map (·.1)) 0 = t0 ∨ ks.length = 1 then 0
    else (pyAt (ks.map (·.2)) (-1) - pyAt (ks.map (·.2)) (-2)) / (pyAt (ks.map (·.1)) (-1) - pyAt (ks.map (·.1)) (-2)))

theorem histDerGen_eq_model (h : Option Knots) (t0 : Rat) : histDerGen h t0 = histDer h t0 :=
  (show histDerGen h t0 = histDerCode h t0 from rfl).trans (histDerCode_eq h t0)

/-! `reduce_matvec` on one entry of an affine expression: `lin` = (jacobian · v), `const` = the
    expression at `v = 0`, `sym` = the constant part has free symbols -/
def reduceMatvecGen (lin const : Rat) (sym : Bool) : Rat :=
  (if sym = false then (if const = 0 then lin else (lin + const)) else (lin + const))

theorem reduceMatvecGen_eq_model (lin const : Rat) (sym : Bool) :
    reduceMatvecGen lin const sym = affVal lin const := by
  unfold reduceMatvecGen affVal
  (repeat' split) <;> simp_all

/-- the initial derivatives handed to the initial residual (`C01_initial_rows`) after
    `reduce_matvec`: decision variable × nominal, or the history constant (finding F36) -/
theorem initDersReducedGen_eq_model (I : Inst) (m : Nat) (X : Vec) (hnd : I.sys.nd ≤ I.sys.k) :
    List.zipWith (fun a b => reduceMatvecGen a b false) (initDersLin I.sys (I.mem m) X)
        (List.map (fun v => if v < I.sys.nd then 0 else histDerGen (I.hist m v) I.sys.t0) (List.range I.sys.k))
      = initDersCode I.sys (I.mem m) X := by
  have h1 : (fun a b => reduceMatvecGen a b false) = affVal := by
    funext a b
    exact reduceMatvecGen_eq_model a b false
  have h2 : List.map (fun v => if v < I.sys.nd then 0 else histDerGen (I.hist m v) I.sys.t0) (List.range I.sys.k)
      = initDersConst I.sys (I.mem m) := by
    unfold initDersConst
    apply List.map_congr_left
    intro v _
    rw [histDerGen_eq_model]
    rfl
  rw [h1, h2, initDers_affine, initDersCode_eq _ _ _ hnd]

/-! cached functions: the slots `transcribe()` fills only when empty, the slots `clear_transcription_cache()` resets -/
def cacheSlotsGen : List String := ["dae_residual_function_collocated", "initial_residual_with_params_fun_map", "integrator_step_function"]
def clearedSlotsGen : List String := ["dae_residual_function_collocated", "initial_residual_with_params_fun_map", "integrator_step_function"]

theorem clearCoversCacheGen : ∀ s ∈ cacheSlotsGen, s ∈ clearedSlotsGen := by decide

/-- after `clear_transcription_cache()` the next transcription is that of a fresh object with the current data -/
theorem clearThenFreshGen {α β : Type} (build : α → String → β) (d : α) (cache : Cache β) :
    transcribeWith cacheSlotsGen build d (clearSlots clearedSlotsGen cache)
      = transcribeWith cacheSlotsGen build d (fun _ => none) :=
  clear_then_fresh _ _ clearCoversCacheGen build d cache

end RtcVerif.Gen
