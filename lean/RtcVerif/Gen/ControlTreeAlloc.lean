import RtcVerif.Model.C07Code
import RtcVerif.Proofs.C07Code
/-!
GENERATED on every run of the C07 check by harness/translate_c07.py (`gen_alloc`) from the distance
fill of `branch()` and `discretize_control` in
/repo/src/rtctools/optimization/control_tree_mixin.py and from `discretize_control`, the member loop
of `discretize_controls` and the member loops of `transcribe()` in
/repo/src/rtctools/optimization/collocated_integrated_optimization_problem.py.  Do not edit.
The `…Gen` definitions are the source statements read through the table in the translator; the
theorems tie them to the functions the C07 property theorems are about.
-/
namespace RtcVerif.Gen
open RtcVerif.C07

/-- `distances[p, q]` after the fill (positions in the member list `ms` of a branch of depth `L`) -/
def fillEntryGen (fc : Forecasts) (t0 : Rat) (bts : List Rat) (nv L : Nat) (ms : List Nat)
    (p q : Nat) : Rat :=
  (List.range nv).foldl (fun acc v => acc + fc.norm2 (subVec (selMask (fc.F v (ms.getD p 0)) ((fc.T v 0).map (fun t => geBT t (btAt t0 bts (L + 1)) && ltBT t (btAt t0 bts (L + 2))))) (selMask (fc.F v (ms.getD q 0)) ((fc.T v 0).map (fun t => geBT t (btAt t0 bts (L + 1)) && ltBT t (btAt t0 bts (L + 2))))))) 0

/-- index width of the tree's index array (`np.intNN` holds values up to `2^(NN-1) - 1`) -/
def indexBitsGen : Nat := 15

/-- body of `for branch, members in self.__branches.items()` of the tree's `discretize_control` -/
def dcStepGen (t0 : Rat) (bts : List Rat) (ts : List Rat) (m : Nat) (st : DC)
    (br : List Nat × List Nat) : DC :=
  if !(br.2.contains m) then st
  else
    match lookupB st.cache br.1 with
    | some blk => ⟨writeMask st.arr (ts.map (fun t => geBT t (btAt t0 bts (br.1.length + 0)) && ltBT t (btAt t0 bts (br.1.length + 1)))) blk, st.offset, st.cache⟩
    | none => ⟨(writeMask st.arr (ts.map (fun t => geBT t (btAt t0 bts (br.1.length + 0)) && ltBT t (btAt t0 bts (br.1.length + 1)))) (List.range' st.offset ((ts.map (fun t => geBT t (btAt t0 bts (br.1.length + 0)) && ltBT t (btAt t0 bts (br.1.length + 1)))).count true))), (st.offset + ((ts.map (fun t => geBT t (btAt t0 bts (br.1.length + 0)) && ltBT t (btAt t0 bts (br.1.length + 1)))).count true)), ((br.1, readMask (writeMask st.arr (ts.map (fun t => geBT t (btAt t0 bts (br.1.length + 0)) && ltBT t (btAt t0 bts (br.1.length + 1)))) (List.range' st.offset ((ts.map (fun t => geBT t (btAt t0 bts (br.1.length + 0)) && ltBT t (btAt t0 bts (br.1.length + 1)))).count true))) (ts.map (fun t => geBT t (btAt t0 bts (br.1.length + 0)) && ltBT t (btAt t0 bts (br.1.length + 1))))) :: st.cache)⟩

/-- one call `discretize_control(variable, m, times, offset)` of `ControlTreeMixin` -/
def discretizeControlGen (brs : List (List Nat × List Nat)) (t0 : Rat) (bts : List Rat)
    (ts : List Rat) (m offset : Nat) (cache : BlockCache) : List Nat × BlockCache :=
  let st := brs.foldl (dcStepGen t0 bts ts m) ⟨List.replicate ts.length 0, offset, cache⟩
  (st.arr, st.cache)

/-- base `discretize_control` for a variable with `n` time stamps -/
def defaultControlGen (n : Nat) (_m : Nat) (offset : Nat) (cache : Option (Nat × Nat)) :
    (Nat × Nat) × Option (Nat × Nat) :=
  match cache with
  | some s => (s, some s)
  | none => ((offset, offset + n), some (offset, offset + n))

def stopSliceGen (s : Nat × Nat) : Nat := s.2

def stopArrGen (arr : List Nat) : Nat := arr.foldl max 0 + 1

/-- body of `for ensemble_member in range(self.ensemble_size)` of the base `discretize_controls` -/
def ctrlStepGen {R C : Type} (dc : Nat → Nat → C → R × C) (stop : R → Nat)
    (st : Nat × C × List R) (m : Nat) : Nat × C × List R :=
  let rc := dc m st.1 st.2.1
  (max st.1 (stop rc.1), rc.2, st.2.2 ++ [rc.1])

/-- per-member accessors used inside the member loops of `transcribe()`: (accessor, the member
    index is the loop's member) -/
def memberUsesGen : List (String × Bool) :=
  [("constant_inputs", true), ("ensemble_store", true), ("parameters", true), ("constant_inputs", true), ("indices_state", true), ("indices", true), ("indices", true), ("indices_as_lists", true), ("indices_as_lists", true), ("indices_as_lists", true), ("ensemble_store", true), ("history", true), ("indices_as_lists", true), ("indices", true), ("indices_as_lists", true), ("ensemble_aggregate", true), ("ensemble_aggregate", true), ("ensemble_aggregate", true), ("ensemble_aggregate", true), ("ensemble_aggregate", true), ("ensemble_aggregate", true), ("extra_variable", true), ("ensemble_store", true), ("ensemble_store", true), ("history", true), ("indices_as_lists", true), ("state_vector", true), ("indices", true), ("state_vector", true), ("indices_as_lists", true), ("state_vector", true), ("state_vector", true), ("integrators", true), ("ensemble_store", true), ("ensemble_parameter_values", true), ("constant_inputs", true), ("func_initial_inputs", true), ("state_vector", true), ("objective", true), ("func_initial_inputs", true), ("ensemble_member_probability", true), ("constraints", true), ("path_constraints", true), ("func_initial_inputs", true), ("ensemble_parameter_values", true)]

/-- cache key of `state_at` -/
def symbolKeyGen (a : SymArgs) :=
  (a.var, a.member, a.dt, a.scaled, a.extrapolate)

/-- **distance fill**: read through the reverse map, the filled table is the model's table of the
    level: the sum over the forecast variables of the norm of the difference of the two members'
    series on the window `[BT[L+1], BT[L+2])` (member 0's stamps) -/
theorem distFillGen_eq_model (fc : Forecasts) (t0 : Rat) (bts : List Rat) (nv L : Nat)
    (ms : List Nat) (a b : Nat) (ha : a ∈ ms) (hb : b ∈ ms) :
    fillEntryGen fc t0 bts nv L ms (ms.idxOf a) (ms.idxOf b) = distSpec fc t0 bts nv L a b :=
  fillEntryRef_eq_distSpec fc t0 bts nv L ms a b ha hb

/-- **one call of the tree's `discretize_control`** = one round of requests of the model's
    allocator (`reqAll st (memberReqs c ts m)`); the array entries are block start + rank at the
    level written last (`levelAt`), 0 where no segment covers the stamp -/
theorem discretizeControlGen_eq_model (c : TreeCfg) (brs : List (List Nat × List Nat))
    (ts : List Rat) (m : Nat) (stM : Alloc (List Nat)) (cC : BlockCache) (hchain : ChainOf c brs m)
    (hinv : Inv (fun p : List Nat => segCount c.t0 c.bts p.length ts) stM)
    (hrel : Rel (fun p => segCount c.t0 c.bts p.length ts) cC stM.cache) :
    Rel (fun p => segCount c.t0 c.bts p.length ts)
      (discretizeControlGen brs c.t0 c.bts ts m stM.count cC).2 (reqAll stM (memberReqs c ts m)).1.cache ∧
    (discretizeControlGen brs c.t0 c.bts ts m stM.count cC).1.length = ts.length ∧
    ∀ i, i < ts.length →
      (discretizeControlGen brs c.t0 c.bts ts m stM.count cC).1.getD i 0 =
        match levelAt c.t0 c.bts (ts.getD i 0) with
        | none => 0
        | some L => (lookup (reqAll stM (memberReqs c ts m)).1.cache (c.path m L)).getD 0
            + rankIn c.t0 c.bts L ts i := by
  obtain ⟨_, h2, h3, _, _, h6⟩ := discretizeControlRef_spec c brs ts m stM cC hchain hinv hrel
  exact ⟨h2, h3, h6⟩

/-- **the member loop under the control tree** (base loop + tree `discretize_control` +
    `count = max(count, max(indices) + 1)`): every member's index array is the model's `treeIdx`,
    the count ends at the model's count, and the index width is the model's `int16Ok` guard -/
theorem treeLoopGen_eq_model (c : TreeCfg) (brs : List (List Nat × List Nat)) (ts : List Rat)
    (count0 : Nat) (hts : ts ≠ []) (ht0 : ∀ t ∈ ts, c.t0 ≤ t)
    (hch : ∀ m, m < c.E → ChainOf c brs m) :
    ((List.range c.E).foldl (ctrlStepGen (discretizeControlGen brs c.t0 c.bts ts) stopArrGen)
      (count0, [], [])).1 = (treeAlloc c ts count0).count ∧
    (∀ m i, m < c.E → i < ts.length →
      (((List.range c.E).foldl (ctrlStepGen (discretizeControlGen brs c.t0 c.bts ts) stopArrGen)
        (count0, [], [])).2.2.getD m []).getD i 0 = treeIdx c ts count0 m i) ∧
    (∀ count, int16Ok count = decide (count ≤ 2 ^ indexBitsGen)) := by
  have h := treeLoop_eq_model c brs ts count0 hts ht0 hch
  rw [← foldl_ctrlStep_eq] at h
  exact ⟨h.1, h.2.2, int16Ok_eq_bits⟩

/-- **the default member loop** (base loop + base `discretize_control`): all members receive the
    same slice, which is the model's shared block -/
theorem defaultLoopGen_eq_model (E n count0 : Nat) (hE : 0 < E) :
    (List.range E).foldl (ctrlStepGen (defaultControlGen n) stopSliceGen) (count0, none, []) =
      ((flatAlloc .shared E n count0).count, some (count0, count0 + n),
        List.replicate E (count0, count0 + n)) ∧
    ∀ m i, sliceIdx (count0, count0 + n) i = flatIdx .shared E n count0 m i := by
  have h := defaultLoop_eq_model E n count0 hE
  rw [← foldl_ctrlStep_eq] at h
  exact h

/-- **member loops of `transcribe()`**: every per-member accessor is indexed by the loop's member -/
theorem memberUsesGen_own : ∀ u ∈ memberUsesGen, u.2 = true := by
  decide

/-- **the symbol cache of `state_at`**: the key determines all arguments of the call, the
    ensemble member among them, so the memoised accessor returns for every call what is built for
    that call's own arguments (`memoRun_transparent`) -/
theorem symbolKeyGen_injective (V : Type) (build : SymArgs → V) (calls : List SymArgs) :
    (∀ a b : SymArgs, symbolKeyGen a = symbolKeyGen b → a = b) ∧
    memoRun symbolKeyGen build calls [] = calls.map build := by
  have hinj : ∀ a b : SymArgs, symbolKeyGen a = symbolKeyGen b → a = b := by
    intro a b h
    cases a; cases b
    simp only [symbolKeyGen, Prod.mk.injEq] at h
    simp_all
  exact ⟨hinj, memoRun_transparent symbolKeyGen build hinj calls [] (by simp)⟩

end RtcVerif.Gen
