import RtcVerif.Model.C07Ref
import RtcVerif.Proofs.C07Ref
/-!
GENERATED on every run of the C07 check by harness/translate_c07.py from the nested function
`branch()` of `ControlTreeMixin.discretize_controls` in
/repo/src/rtctools/optimization/control_tree_mixin.py.  Do not edit.
The `…Gen` definitions are the source statements read through the table in the translator's header;
the theorems tie them to the functions the C07 property theorems are about.
-/
namespace RtcVerif.Gen
open RtcVerif.C07

/-- `idx = np.argmax(np.amax(distances, axis=0))` -/
def firstSeedGen (d : Dist) (ms : List Nat) : Option Nat :=
  argmaxFirst (colMax d ms) ms

/-- entry of `min_distances` for member `c` -/
def seedScoreGen (d : Dist) (ms avail : List Nat) (c : Nat) : Option Rat :=
  minOver (fun j => d j c) (ms.filter (fun j => !avail.contains j && avail.contains c))

/-- `idx = np.argmax(min_distances)` and the stop rule -/
def nextSeedGen (d : Dist) (ms avail : List Nat) : Option Nat :=
  match argmaxNI (seedScoreGen d ms avail) ms with
  | none => none
  | some c => if leNI (seedScoreGen d ms avail c) (some 0) then none else some c

/-- body of the scan `for i in range(k)` for child `i` with head `h` -/
def scanStepGen (d : Dist) (a : Nat) (i : Nat) (h : Option Nat) (st : Nat × Option Rat) : Nat × Option Rat :=
  match h with
  | none => st
  | some r => if ltInf (d a r) st.2 then (i, some (d a r)) else st

def scanFromGen (d : Dist) (a : Nat) : List (Option Nat) → Nat → Nat × Option Rat → Nat × Option Rat
  | [], _, st => st
  | h :: t, i, st => scanFromGen d a t (i + 1) (scanStepGen d a i h st)

/-- `min_i` after the scan (from `min_i = 0`, `min_distance = np.inf`) -/
def scanGen (d : Dist) (a : Nat) (heads : List (Option Nat)) : Nat := (scanFromGen d a heads 0 (0, none)).1

/-- the first representative is the model's: `selectReps` starts from it -/
theorem firstSeedGen_eq_model (d : Dist) (ms : List Nat) (k : Nat) :
    firstSeedGen d ms = firstSeedRef d ms ∧
    selectReps d ms (k + 1) = (match firstSeedGen d ms with
                               | none => []
                               | some r => moreReps d ms k [r]) :=
  ⟨rfl, selectReps_eq_firstSeed d ms k⟩

/-- the seed loop continues exactly as the model's `moreReps` does (`available` = the members of
    the branch that are not representatives yet) -/
theorem nextSeedGen_eq_model (d : Dist) (ms reps : List Nat) (n : Nat) (hms : ms.Nodup)
    (hnd : reps.Nodup) (hsub : ∀ r ∈ reps, r ∈ ms) (hne : reps ≠ []) :
    moreReps d ms (n + 1) reps =
      match nextSeedGen d ms (ms.filter (fun a => !reps.contains a)) with
      | none => reps
      | some c => moreReps d ms n (reps ++ [c]) := by
  have h : nextSeedGen d ms (ms.filter (fun a => !reps.contains a)) = nextSeed d ms reps :=
    nextSeedRef_eq_model d ms reps hms hnd hsub hne
  rw [h]
  exact moreReps_succ_eq d ms n reps

/-- the allocation scan picks the model's nearest representative (children heads = the
    representatives, then empty children) -/
theorem scanGen_eq_model (d : Dist) (a : Nat) (reps : List Nat) (m : Nat) :
    scanGen d a (reps.map some ++ List.replicate m none) = nearestRep d reps a := by
  have hstep : ∀ i h st, scanStepGen d a i h st = scanStep d a i h st := by
    intro i h st
    cases h <;> rfl
  have hfrom : ∀ (l : List (Option Nat)) i st, scanFromGen d a l i st = scanFrom d a l i st := by
    intro l
    induction l with
    | nil => intro i st; rfl
    | cons h t ih =>
      intro i st
      rw [scanFromGen, scanFrom_cons, hstep, ih]
  unfold scanGen
  rw [hfrom]
  exact scanRef_eq_nearestRep d a reps m

end RtcVerif.Gen
