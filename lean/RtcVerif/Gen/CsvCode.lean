import RtcVerif.Model.C11Csv
/-!
GENERATED on every run of the C11 check by harness/translate_c11.py (gen_csv_code) from
src/rtctools/data/csv.py of the tree under check.  Do not edit.
-/
set_option linter.unusedVariables false
namespace RtcVerif.Gen
open RtcVerif RtcVerif.C11

def fmtGen (withTime : Bool) (ncols : Nat) : List Fmt := if withTime then [Fmt.s] ++ List.replicate (ncols - 1) Fmt.f else List.replicate ncols Fmt.f
def convTableGen (withTime semicolon : Bool) (nSemi nComma : Nat) : List (Nat × Conv) :=
  let c : List (Nat × Conv) := []
  let c := if withTime then c ++ [(0, Conv.time)] else c
  let c := if semicolon then (if nComma ≠ 0 then c ++ (List.range (1 + nSemi - c.length)).map (fun i => (i + c.length, Conv.flt)) else c) else c
  c
def fillKeysGen (c : List (Nat × Conv)) : List Nat := (c.filter (fun kv => kv.2 == Conv.flt)).map (·.1)
def strToFloatGen (c : Cell) : Option XVal :=
  match c with
  | .num x _ => some x
  | _ => none

theorem fmtGen_eq_model (withTime : Bool) (ncols : Nat) : fmtGen withTime ncols = C11.fmtList withTime ncols := by
  unfold fmtGen C11.fmtList
  cases withTime <;> first | rfl | simp

theorem convTableGen_eq_model (withTime semicolon : Bool) (nSemi nComma : Nat) :
    convTableGen withTime semicolon nSemi nComma = C11.convTable withTime semicolon nSemi nComma := by
  unfold convTableGen C11.convTable
  cases withTime <;> cases semicolon <;> by_cases h : nComma = 0 <;> simp [h, Nat.add_comm]

theorem fillKeysGen_eq_model (c : List (Nat × Conv)) : fillKeysGen c = C11.fillKeys c := rfl

theorem strToFloatGen_eq_model (c : Cell) : strToFloatGen c = C11.strToFloat c := by
  cases c <;> rfl

end RtcVerif.Gen
