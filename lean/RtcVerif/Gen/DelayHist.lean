import RtcVerif.Proofs.C16Hist
/-!
GENERATED on every run of the C16 check by harness/translate_c16.py (`gen_delay_hist`) from the
delayed-feedback block of `CollocatedIntegratedOptimizationProblem.transcribe` in
/repo/src/rtctools/optimization/collocated_integrated_optimization_problem.py: the history assembly of
the delayed expression, the delay-duration resolution, the row scaling and the alias resolution of the
receiving variable (table in the header of the translator).
Do not edit.  The theorems tie the source, read this way, to the model the theorems of C16 are about.
-/
set_option linter.unusedVariables false
set_option linter.unusedSimpArgs false
set_option linter.unreachableTactic false
set_option linter.unusedTactic false
namespace RtcVerif.Gen
open RtcVerif RtcVerif.Interp RtcVerif.C15 RtcVerif.C16

/-- `history_times` -/
def histTimesGen (d : DelayProb) : List Rat := (uniqueTimes d.allHistTimes).dropLast

theorem histTimesGen_eq_model (d : DelayProb) : histTimesGen d = d.hts := by
  unfold histTimesGen DelayProb.hts historyTimes
  rfl

/-- `history_values[:, j]` -/
def histValsGen (d : DelayProb) (j : Nat) : List Res :=
  match d.hists.getD j none with
  | none => (histTimesGen d).map (fun _ => Res.nan)
  | some ks => (histTimesGen d).map (fun t => interpNaN (d.colMode j) ks t)

theorem histValsGen_eq_model (d : DelayProb) (j : Nat) :
    histValsGen d j = histColumn (d.colMode j) (d.hists.getD j none) d.hts := by
  unfold histValsGen histColumn
  rw [histTimesGen_eq_model]
  cases d.hists.getD j none <;> rfl

/-- `history_derivatives[:, j]` -/
def histDersGen (d : DelayProb) (j : Nat) : List Res :=
  if (histTimesGen d).length > 1 then [Res.nan] ++ resDivRows (resDiff (histValsGen d j)) (ratDiff (histTimesGen d)) else [Res.nan]

/-- `constant_input_values[:, j]` -/
def cinHistGen (d : DelayProb) (j : Nat) : List Res :=
  (histTimesGen d).map (fun t => ofOut (interpCore (d.cinRaw j).mode (d.cinRaw j).series nanFill nanFill t))

/-- the inputs of the delayed-feedback function on history row `i` -/
def symHistGen (d : DelayProb) (i : Nat) : Sym → Res
  | .state j => (histValsGen d j).getD i .nan
  | .der j => (histDersGen d j).getD i .nan
  | .cin j => (cinHistGen d j).getD i .nan
  | .time => .num ((histTimesGen d).getD i 0)
  | .pathv _ => .nan
  | .par j => .num (d.mp.pars.getD j 0)

theorem symHistGen_eq_model (d : DelayProb) (i : Nat) (hi : i < d.hts.length) (s : Sym) :
    symHistGen d i s = symHist d i s := by
  cases s with
  | state j => simp only [symHistGen, symHist, histValsGen_eq_model]; rfl
  | der j =>
    simp only [symHistGen, symHist]
    unfold histDersGen
    rw [histValsGen_eq_model, histTimesGen_eq_model]
    exact histDerRef_getD _ _ (histColumn_length _ _ _) i
  | cin j =>
    simp only [symHistGen, symHist]
    unfold cinHistGen
    rw [histTimesGen_eq_model, getD_map_lt _ _ i 0 _ hi]
    rfl
  | time => simp only [symHistGen, symHist, histTimesGen_eq_model]
  | pathv j => rfl
  | par j => rfl

/-- `delayed_feedback_history[:, i]`: the delayed expression on every history row -/
def histDGen (d : DelayProb) : List Res :=
  (List.range (histTimesGen d).length).map (fun i => d.expr.eval (symHistGen d i))

theorem histDGen_eq_model (d : DelayProb) : histDGen d = d.histD := by
  unfold histDGen DelayProb.histD
  rw [histTimesGen_eq_model]
  apply List.map_congr_left
  intro i hi
  have hi' : i < d.hts.length := List.mem_range.1 hi
  exact congrArg _ (funext (symHistGen_eq_model d i hi'))

/-- `out_times` -/
def outTimesGen (d : DelayProb) : List Rat := histTimesGen d ++ d.ts

/-- `out_values` -/
def outValuesGen (d : DelayProb) : List Res := histDGen d ++ d.trajD

/-- the knots the delayed value is interpolated from: after an incomplete history has been sliced
    off (code), else from `hist_start_ind` on (the model's reading of the complete case) -/
def outKnotsGen (d : DelayProb) : Knots :=
  if d.incomplete then resKnots ((outTimesGen d).drop (histTimesGen d).length) ((outValuesGen d).drop (histTimesGen d).length)
  else resKnots ((outTimesGen d).drop d.histStart.toNat) ((outValuesGen d).drop d.histStart.toNat)

theorem outKnotsGen_eq_model (d : DelayProb) : outKnotsGen d = d.outKnots := by
  unfold outKnotsGen outTimesGen outValuesGen
  rw [histDGen_eq_model, histTimesGen_eq_model]
  by_cases hi : d.incomplete = true
  · rw [if_pos hi, outKnots_incomplete_ref d hi]
  · have hf : d.incomplete = false := by simpa using hi
    rw [if_neg hi, (outKnots_complete d hf).1]

/-- the inputs of the mapped delay-duration function at collocation stamp `k` -/
def symTauGen (d : DelayProb) (k : Nat) : Sym → Res
  | .par j => .num (d.mp.pars.getD j 0)
  | .cin j => d.cinAt j k
  | .time => .num (d.ts.getD k 0)
  | _ => .raise

/-- `evaluated_delay_durations[i][k]` -/
def tauAtGen (d : DelayProb) (k : Nat) : Res := d.tau.eval (symTauGen d k)

theorem tauAtGen_eq_model (d : DelayProb) (k : Nat)
    (h : ∀ tm ∈ d.tau.terms, ∀ s ∈ tm.2, tauSymOK s = true) : tauAtGen d k = d.tauAt k := by
  unfold tauAtGen DelayProb.tauAt
  apply Expr.eval_congr
  intro tm htm s hs
  have := h tm htm s hs
  cases s <;> first | rfl | (simp [tauSymOK] at this)

/-- `hist_earliest` -/
def earliestGen (d : DelayProb) : Rat :=
  minList ((List.range d.ts.length).map (fun k => d.ts.getD k 0 - resRat (tauAtGen d k)))

theorem earliestGen_eq_model (d : DelayProb)
    (h : ∀ tm ∈ d.tau.terms, ∀ s ∈ tm.2, tauSymOK s = true) : earliestGen d = d.earliest := by
  unfold earliestGen DelayProb.earliest
  congr 1
  apply List.map_congr_left
  intro k _
  rw [tauAtGen_eq_model d k h]

/-- the inputs of `nominal_delayed_feedback` -/
def symNominalGen (d : DelayProb) : Sym → Res
  | .state j => .num (d.colNominal j)
  | .der _ => .num 0
  | .cin j => d.cinAt j 0
  | .time => .num 0
  | .pathv _ => .num 1
  | .par j => .num (d.mp.pars.getD j 0)

/-- `nominal_delayed_feedback[i]` -/
def nominalGen (d : DelayProb) : Rat := resRat (d.expr.eval (symNominalGen d))

theorem nominalGen_eq_model (d : DelayProb) : nominalGen d = d.nominal := by
  have hs : symNominalGen d = symNominal d := by
    funext s
    cases s <;> first | rfl | (simp only [symNominalGen, symNominal, DelayProb.colNominal, DelayProb.cinAt]; try ring_nf)
  unfold nominalGen DelayProb.nominal
  rw [hs]

/-- the receiving variable, named: `in_nominal * state_vector(in_canonical)` times the alias sign,
    on the collocation times -/
def yAtNamedGen (d : DelayProb) (aliases : List (String × (String × Bool))) (colNames : List String)
    (name : String) (k : Nat) : Res :=
  let cs := canonicalSigned aliases name
  let col := d.mp.cols.getD (colNames.idxOf cs.1) ⟨⟨0, [], [], 0, none, none⟩, 0⟩
  (if d.ts.length ≠ col.sv.times.length then ofOut (interpSym col.sv.mode (col.sv.times.zip (col.sv.xs.map ((sgn cs.2 * col.sv.nominal) * ·))) (d.ts.getD k 0)) else .num ((col.sv.xs.map ((sgn cs.2 * col.sv.nominal) * ·)).getD k 0))

theorem yAtNamedGen_eq_model (d : DelayProb) (aliases : List (String × (String × Bool))) (colNames : List String)
    (name : String) (k : Nat) :
    yAtNamedGen d aliases colNames name k = (d.named aliases colNames name).yAt k := by
  rw [yAt_ref]
  unfold yAtNamedGen
  simp only [getD_map_mul]
  show (if (d.named aliases colNames name).ts.length ≠ (d.named aliases colNames name).outCol.sv.times.length then _ else _) = _
  by_cases h : (d.named aliases colNames name).outCol.sv.times.length = (d.named aliases colNames name).ts.length
  · simp only [h, ne_eq, not_true_eq_false, if_false, if_true]
    all_goals first | rfl | (congr 1; ring)
  · have h' : ¬ (d.named aliases colNames name).ts.length = (d.named aliases colNames name).outCol.sv.times.length := fun e => h e.symm
    simp only [h, h', ne_eq, not_false_eq_true, if_true, if_false]
    all_goals first
      | rfl
      | (simp only [mul_comm, mul_left_comm, mul_assoc]; rfl)

/-- the whole delay row at collocation stamp `k`, the receiving variable given by name -/
def delayRowGen (d : DelayProb) (aliases : List (String × (String × Bool))) (colNames : List String)
    (name : String) (k : Nat) : Res :=
  Res.divBy (nominalGen d) (Res.sub (yAtNamedGen d aliases colNames name k) (ofOut (interpSym (d.named aliases colNames name).outMode (outKnotsGen d) (d.ts.getD k 0 - resRat (tauAtGen d k)))))

theorem delayRowGen_eq_model (d : DelayProb) (aliases : List (String × (String × Bool))) (colNames : List String)
    (name : String) (k : Nat) (hk : k < d.ts.length)
    (h : ∀ tm ∈ d.tau.terms, ∀ s ∈ tm.2, tauSymOK s = true) :
    delayRowGen d aliases colNames name k = (d.named aliases colNames name).rows.getD k .raise := by
  rw [(rows_spec (d.named aliases colNames name)).2 k hk]
  unfold delayRowGen
  rw [yAtNamedGen_eq_model, nominalGen_eq_model, outKnotsGen_eq_model, tauAtGen_eq_model d k h]
  all_goals rfl

end RtcVerif.Gen
