import RtcVerif.Proofs.C16Gen
/-!
GENERATED on every run of the C16 check by harness/translate_c16.py from
`SimulationProblem._create_delay_expression_states` / `initialize` (delay residuals) in
/repo/src/rtctools/simulation/simulation_problem.py and the delayed-feedback row loop of
`CollocatedIntegratedOptimizationProblem.transcribe` (table in the header of the translator).
Do not edit.  The theorems tie the source, read this way, to the model the theorems of C16 are about.
-/
set_option linter.unusedVariables false
set_option linter.unusedSimpArgs false
set_option linter.unreachableTactic false
set_option linter.unusedTactic false
namespace RtcVerif.Gen
open RtcVerif RtcVerif.Interp RtcVerif.C15 RtcVerif.C16

/-- number of buffered expression values -/
def bufLenGen (tau dt : Rat) : Nat := if tau > 0 then ceilNat (tau / dt) else 1

theorem bufLenGen_eq_model (tau dt : Rat) : bufLenGen tau dt = C16.bufLen tau dt := by
  unfold bufLenGen C16.bufLen
  first | rfl | (split <;> simp_all)

/-- `interpolation_weight` -/
def weightGen (tau dt : Rat) : Rat := (((C16.bufLen tau dt : Nat) : Rat) - (tau / dt))

theorem weightGen_eq_model (tau dt : Rat) : weightGen tau dt = C16.weight tau dt := by
  unfold weightGen C16.weight
  first | rfl | ring

/-- the state that zeroes the three delay residuals of one step -/
def simStepGen (tau dt : Rat) (s : SimState) (dNew : Rat) : SimState :=
  let w := weightGen tau dt
  let buf' : List Rat := (dNew) :: (s.buf.dropLast)
  ⟨buf', w * buf'.getLastD 0 + (1 - w) * s.buf.getLastD 0⟩

theorem simStepGen_eq_model (tau dt : Rat) (s : SimState) (dNew : Rat) :
    simStepGen tau dt s dNew = C16.simStep tau dt s dNew := by
  unfold simStepGen C16.simStep
  try rw [weightGen_eq_model]
  all_goals first | rfl | (congr 1; ring; done) | (simp only [SimState.mk.injEq, true_and]; ring)

/-- `hist_start_ind` -/
def histStartGen (d : DelayProb) : Int := (if (d.hts ++ d.ts).getD (((searchLeft (d.hts ++ d.ts) d.earliest : Nat) : Int)).toNat 0 ≠ d.earliest then (((searchLeft (d.hts ++ d.ts) d.earliest : Nat) : Int) - 1) else ((searchLeft (d.hts ++ d.ts) d.earliest : Nat) : Int))

theorem histStartGen_eq_model (d : DelayProb) : histStartGen d = d.histStart := by
  unfold histStartGen DelayProb.histStart
  simp only [Int.toNat_natCast]

/-- the incomplete-history test -/
def incompleteGen (d : DelayProb) : Bool :=
  decide (histStartGen d < 0) || ((d.histD.drop (histStartGen d).toNat).any (fun r => r.toRat?.isNone))

theorem incompleteGen_eq_model (d : DelayProb) : incompleteGen d = d.incomplete := by
  unfold incompleteGen DelayProb.incomplete
  rw [histStartGen_eq_model]

/-- the knots after the history has been dropped -/
def outKnotsIncGen (d : DelayProb) : Knots := resKnots ((d.hts ++ d.ts).drop d.hts.length) ((d.histD ++ d.trajD).drop d.hts.length)

theorem outKnotsIncGen_eq_model (d : DelayProb) (hi : d.incomplete = true) : outKnotsIncGen d = d.outKnots := by
  rw [outKnots_incomplete_ref d hi]
  rfl

/-- `x_in` at collocation stamp `k` -/
def yAtGen (d : DelayProb) (k : Nat) : Res := (if d.ts.length ≠ d.outCol.sv.times.length then ofOut (interpSym d.outCol.sv.mode (d.outCol.sv.times.zip (d.outCol.sv.xs.map ((sgn d.outNeg * d.outCol.sv.nominal) * ·))) (d.ts.getD k 0)) else .num ((d.outCol.sv.xs.map ((sgn d.outNeg * d.outCol.sv.nominal) * ·)).getD k 0))

theorem yAtGen_eq_model (d : DelayProb) (k : Nat) : yAtGen d k = d.yAt k := by
  rw [yAt_ref]
  unfold yAtGen
  simp only [getD_map_mul]
  by_cases h : d.outCol.sv.times.length = d.ts.length
  · simp only [h, ne_eq, not_true_eq_false, if_false, if_true]
    all_goals first | rfl | (congr 1; ring)
  · have h' : ¬ d.ts.length = d.outCol.sv.times.length := fun e => h e.symm
    simp only [h, h', ne_eq, not_false_eq_true, if_true, if_false]
    all_goals first
      | rfl
      | (simp only [mul_comm, mul_left_comm, mul_assoc])

/-- the appended row at collocation stamp `k` -/
def rowGen (d : DelayProb) (k : Nat) : Res := Res.divBy d.nominal (Res.sub (yAtGen d k) (d.delayedAt k))

theorem rowGen_eq_model (d : DelayProb) (k : Nat) (hk : k < d.ts.length) : rowGen d k = d.rows.getD k .raise := by
  rw [(rows_spec d).2 k hk]
  unfold rowGen
  try rw [yAtGen_eq_model]
  all_goals rfl

end RtcVerif.Gen
