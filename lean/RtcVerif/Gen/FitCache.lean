import RtcVerif.Model.C20BSpline
/-!
GENERATED on every run of the C20 check by harness/translate_c20.py from the fit-cache decision of
`CSVLookupTableMixin.pre` (src/rtctools/optimization/csv_lookup_table_mixin.py).  Do not edit.
-/
namespace RtcVerif.Gen
open RtcVerif

/-- `valid_cache` as the source computes it -/
def validCacheGen (F : C20.Files) : Bool :=
  (match F.npz with | none => false | some m => (if (match F.ini with | none => decide (F.csvM < m) | some i => (decide (F.csvM < m) && decide (i < m))) then (if F.loadable then (match F.ini with | none => decide (F.csvM < m) | some i => (decide (F.csvM < m) && decide (i < m))) else false) else (match F.ini with | none => decide (F.csvM < m) | some i => (decide (F.csvM < m) && decide (i < m)))))

/-- the guard of every recomputation of the table function and of the final `np.savez` / `function.save` -/
def recomputeGen (F : C20.Files) : Bool := !validCacheGen F

theorem validCacheGen_eq_model (F : C20.Files) : validCacheGen F = C20.validCache F := by
  rcases F with ⟨c, ini, npz, l⟩
  cases npz <;> cases ini <;> cases l <;> simp [validCacheGen, C20.validCache] <;> first | omega | grind

/-- the served fit is recomputed (and the cache rewritten) exactly when the model's `step … .pre` does so -/
theorem recomputeGen_eq_model (F : C20.Files) : recomputeGen F = !C20.validCache F := by
  rw [recomputeGen, validCacheGen_eq_model]

end RtcVerif.Gen
