import RtcVerif.Model.C20Fit
/-!
GENERATED on every run of the C20 check by harness/translate_c20.py from the set-up of `BSpline1D.fit`
(src/rtctools/data/interpolation/bspline1d.py): automatic knots, knot vector, bounds of the
monotonicity (coefficient differences) and curvature rows.  Do not edit.
-/
namespace RtcVerif.Gen
open RtcVerif

def interiorGen (x : List Rat) (k : Nat) : List Rat :=
  (if k % 2 = 1 then (C20.pySlice x (k / 2 + 1) ((k + 1) / 2)) else (List.zipWith (fun p q => (p + q) / 2) (C20.pySlice x (k / 2 + 1) ((k + 1) / 2)) (C20.pySlice x (k / 2) ((k + 1) / 2 + 1))))

def fitKnotsGen (x : List Rat) (k : Nat) (δ : Rat) (interior : Option (List Rat)) : List Rat :=
  List.replicate (k + 1) (x.headD 0 - δ) ++ interior.getD (if k % 2 = 1 then (C20.pySlice x (k / 2 + 1) ((k + 1) / 2)) else (List.zipWith (fun p q => (p + q) / 2) (C20.pySlice x (k / 2 + 1) ((k + 1) / 2)) (C20.pySlice x (k / 2) ((k + 1) / 2 + 1)))) ++ List.replicate (k + 1) (x.getLastD 0 + δ)

def fitBoundsGen (mono curv : Int) (ε : Rat) : C20.FitBounds :=
  { dcMin := (if (mono ≠ 0) then (if (mono < 0) then EVal.ninf else EVal.fin ε) else EVal.ninf)
    dcMax := (if (mono ≠ 0) then (if (mono < 0) then EVal.fin (-ε) else EVal.pinf) else EVal.pinf)
    ssMin := (if (curv ≠ 0) then (if (curv < 0) then EVal.ninf else EVal.fin ε) else EVal.ninf)
    ssMax := (if (curv ≠ 0) then (if (curv < 0) then EVal.fin (-ε) else EVal.pinf) else EVal.pinf) }

theorem interiorGen_eq_model (x : List Rat) (k : Nat) : interiorGen x k = C20.interiorKnots x k := rfl

theorem fitKnotsGen_eq_model (x : List Rat) (k : Nat) (δ : Rat) (interior : Option (List Rat)) :
    fitKnotsGen x k δ interior = C20.fitKnots x k δ interior := rfl

theorem fitBoundsGen_eq_model (mono curv : Int) (ε : Rat) : fitBoundsGen mono curv ε = C20.fitBounds mono curv ε := by
  unfold fitBoundsGen C20.fitBounds
  congr 1 <;> (repeat' split) <;> first | rfl | (exfalso; omega)

end RtcVerif.Gen
