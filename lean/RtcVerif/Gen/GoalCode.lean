import RtcVerif.Model.C04Code
import RtcVerif.Model.C04Inputs
import Mathlib.Algebra.Order.Field.Rat
import Mathlib.Tactic.Ring
/-!
GENERATED on every run of the C04 check by harness/translate_c04.py (`gen_goal_code`, translators in
harness/c04_goalcode.py) from /repo/src/rtctools/optimization/goal_programming_mixin_base.py
(`_gp_validate_goals`, `_gp_min_max_arrays`, the soft-constraint and critical-goal parts of `_gp_goal_constraints`,
the `Goal` properties) and the `bounds()` / `constant_inputs()` / `parameters()` methods of goal_programming_mixin.py /
single_pass_goal_programming_mixin.py.  Do not edit.
The `*Gen` definitions are the source read through the table in harness/c04_goalcode.py; the theorems tie
them to the code-level reference `Model/C04Code.lean`, which `Proofs/C04Code.lean` ties to the model the
property theorems of C04 are about (`validate`, `Target.at`, `softRows`, `epsBounds`).
-/
set_option linter.unusedVariables false
set_option linter.unreachableTactic false
set_option linter.unusedTactic false
namespace RtcVerif.Gen
open RtcVerif RtcVerif.C04

/-! ## `_gp_validate_goals` -/

def valLoop1Gen (o : Opts) (isPath : Bool) (g : Goal) : Option Err :=
  (firstErr [(if (g.nominal.any (fun n => decide (n ≤ 0))) then (some Err.nominal) else none),
      (if (g.critical && (!g.hasTargetBounds)) then (some Err.criticalMin) else none),
      (if g.critical then none else (if g.hasTargetBounds then (firstErr [(if ((!(g.rangeLo.all XVal.isFinite)) || (!(g.rangeHi.all XVal.isFinite))) then (some Err.noRange) else none),
      (if ((List.range g.size).any (fun c => (xle (g.hiAt c) (g.loAt c)))) then (some Err.badRange) else none),
      (if decide (g.weight ≤ 0) then (some Err.weight) else none)]) else (if (!g.rangeDefault) then (some Err.rangeOnMin) else none))),
      (if (!isPath) then (firstErr [(if g.tmin.isSeries then (some Err.tsMin) else none),
      (if g.tmax.isSeries then (some Err.tsMax) else none)]) else none),
      (if o.keepSoft then (firstErr [(if decide (g.relaxation ≠ 0) then (some Err.relaxKeepSoft) else none),
      (if g.violationId then (some Err.violIdKeepSoft) else none)]) else (if decide (g.size > 1) then (some Err.vectorNeedsKeepSoft) else none)),
      (if (g.critical && decide (g.size > 1)) then (some Err.vectorCritical) else none)])

theorem valLoop1Gen_eq_ref (o : Opts) (isPath : Bool) (g : Goal) : valLoop1Gen o isPath g = C04.checkDefRef o isPath g := by
  first
  | rfl
  | (simp only [valLoop1Gen, C04.checkDefRef]; done)
  | (simp only [valLoop1Gen, C04.checkDefRef]
     try generalize (g.nominal.any (fun n => decide (n ≤ 0))) = a0
     try generalize g.critical = a1
     try generalize g.hasTargetBounds = a2
     try generalize (g.rangeLo.all XVal.isFinite) = a3
     try generalize (g.rangeHi.all XVal.isFinite) = a4
     try generalize ((List.range g.size).any (fun c => (xle (g.hiAt c) (g.loAt c)))) = a5
     try generalize decide (g.weight ≤ 0) = a6
     try generalize g.rangeDefault = a7
     try generalize isPath = a8
     try generalize g.tmin.isSeries = a9
     try generalize g.tmax.isSeries = a10
     try generalize o.keepSoft = a11
     try generalize decide (g.relaxation ≠ 0) = a12
     try generalize g.violationId = a13
     try generalize decide (g.size > 1) = a14
     first | rfl | (cases a0 <;> (first | rfl | (cases a1 <;> (first | rfl | (cases a2 <;> (first | rfl | (cases a3 <;> (first | rfl | (cases a4 <;> (first | rfl | (cases a5 <;> (first | rfl | (cases a6 <;> (first | rfl | (cases a7 <;> (first | rfl | (cases a8 <;> (first | rfl | (cases a9 <;> (first | rfl | (cases a10 <;> (first | rfl | (cases a11 <;> (first | rfl | (cases a12 <;> (first | rfl | (cases a13 <;> (first | rfl | (cases a14 <;> (rfl)))))))))))))))))))))))))))))))

def valMonoGen (nSteps : Nat) (g prev : Goal) : Option Err :=
  (firstErr [(if g.hasMin then (if (anyCell g.size nSteps (fun c i => ((!((xIsNan (g.mAt c i)) || (xIsNan (prev.mAt c i)))) && xlt (g.mAt c i) (prev.mAt c i)))) then (some Err.monoMin) else none) else none),
      (if g.hasMax then (if (anyCell g.size nSteps (fun c i => ((!((xIsNan (g.MAt c i)) || (xIsNan (prev.MAt c i)))) && xlt (prev.MAt c i) (g.MAt c i)))) then (some Err.monoMax) else none) else none)])

theorem valMonoGen_eq_ref (nSteps : Nat) (g prev : Goal) : valMonoGen nSteps g prev = C04.checkMonoRef nSteps g prev := by
  first
  | rfl
  | (simp only [valMonoGen, C04.checkMonoRef]; done)
  | (simp only [valMonoGen, C04.checkMonoRef]
     try generalize g.hasMin = a0
     try generalize (anyCell g.size nSteps (fun c i => ((!((xIsNan (g.mAt c i)) || (xIsNan (prev.mAt c i)))) && xlt (g.mAt c i) (prev.mAt c i)))) = a1
     try generalize g.hasMax = a2
     try generalize (anyCell g.size nSteps (fun c i => ((!((xIsNan (g.MAt c i)) || (xIsNan (prev.MAt c i)))) && xlt (prev.MAt c i) (g.MAt c i)))) = a3
     first | rfl | (cases a0 <;> (first | rfl | (cases a1 <;> (first | rfl | (cases a2 <;> (first | rfl | (cases a3 <;> (rfl)))))))))

def valLoop3Gen (nSteps : Nat) (g : Goal) : Option Err :=
  (firstErr [(if (g.hasMin && g.hasMax) then (if (anyCell g.size nSteps (fun c i => ((!((xIsNan (g.mAt c i)) || (xIsNan (g.MAt c i)))) && xlt (g.MAt c i) (g.mAt c i)))) then (some Err.minGtMax) else none) else none),
      (if (g.hasMin && (!g.critical)) then (firstErr [(if (anyCell g.size nSteps (fun c i => ((XVal.isFinite (g.mAt c i)) && xle (g.mAt c i) (g.loAt c)))) then (some Err.tminLeLb) else none),
      (if (anyCell g.size nSteps (fun c i => ((XVal.isFinite (g.mAt c i)) && xlt (g.hiAt c) (g.mAt c i)))) then (some Err.tminGtUb) else none)]) else none),
      (if (g.hasMax && (!g.critical)) then (firstErr [(if (anyCell g.size nSteps (fun c i => ((XVal.isFinite (g.MAt c i)) && xle (g.hiAt c) (g.MAt c i)))) then (some Err.tmaxGeUb) else none),
      (if (anyCell g.size nSteps (fun c i => ((XVal.isFinite (g.MAt c i)) && xlt (g.MAt c i) (g.loAt c)))) then (some Err.tmaxLtLb) else none)]) else none),
      (if decide (g.relaxation < 0) then (some Err.relaxNeg) else none)])

theorem valLoop3Gen_eq_ref (nSteps : Nat) (g : Goal) : valLoop3Gen nSteps g = C04.checkTargetsRef nSteps g := by
  first
  | rfl
  | (simp only [valLoop3Gen, C04.checkTargetsRef]; done)
  | (simp only [valLoop3Gen, C04.checkTargetsRef]
     try generalize g.hasMin = a0
     try generalize g.hasMax = a1
     try generalize (anyCell g.size nSteps (fun c i => ((!((xIsNan (g.mAt c i)) || (xIsNan (g.MAt c i)))) && xlt (g.MAt c i) (g.mAt c i)))) = a2
     try generalize g.critical = a3
     try generalize (anyCell g.size nSteps (fun c i => ((XVal.isFinite (g.mAt c i)) && xle (g.mAt c i) (g.loAt c)))) = a4
     try generalize (anyCell g.size nSteps (fun c i => ((XVal.isFinite (g.mAt c i)) && xlt (g.hiAt c) (g.mAt c i)))) = a5
     try generalize (anyCell g.size nSteps (fun c i => ((XVal.isFinite (g.MAt c i)) && xle (g.hiAt c) (g.MAt c i)))) = a6
     try generalize (anyCell g.size nSteps (fun c i => ((XVal.isFinite (g.MAt c i)) && xlt (g.MAt c i) (g.loAt c)))) = a7
     try generalize decide (g.relaxation < 0) = a8
     first | rfl | (cases a0 <;> (first | rfl | (cases a1 <;> (first | rfl | (cases a2 <;> (first | rfl | (cases a3 <;> (first | rfl | (cases a4 <;> (first | rfl | (cases a5 <;> (first | rfl | (cases a6 <;> (first | rfl | (cases a7 <;> (first | rfl | (cases a8 <;> (rfl)))))))))))))))))))

/-- the whole method: stable priority sort, then the checks in source order -/
def validateGen (o : Opts) (isPath : Bool) (nTimes : Nat) (goals : List Goal) : Option Err :=
  let gs := sortByPriority goals
  let nSteps := if isPath then nTimes else 1
  firstErr [firstOf (valLoop1Gen o isPath) gs,
    (if o.checkMonotonicity then monoWalkWith (valMonoGen nSteps) [] gs else none),
    firstOf (valLoop3Gen nSteps) gs]

theorem validateGen_eq_ref (o : Opts) (isPath : Bool) (nTimes : Nat) (goals : List Goal) :
    validateGen o isPath nTimes goals = C04.validateRef o isPath nTimes goals := by
  have h1 : valLoop1Gen = C04.checkDefRef := by funext o isPath g; exact valLoop1Gen_eq_ref o isPath g
  have h2 : valMonoGen = C04.checkMonoRef := by funext n g p; exact valMonoGen_eq_ref n g p
  have h3 : valLoop3Gen = C04.checkTargetsRef := by funext n g; exact valLoop3Gen_eq_ref n g
  simp only [validateGen, C04.validateRef, h1, h2, h3]

/-! ## `_gp_min_max_arrays`  (`none` = the shape assertion of the method fails for this combination;
hypotheses on the goal recorded by the translator: columns of the Timeseries values = goal.size; len(ndarray target) = goal.size) -/

def minArrGen (path gt1 : Bool) (tmin tmax : Target) (c i : Nat) : Option XVal :=
  match tmin with
  | .scalar _ => if path then (if gt1 then some tmin.sv else some tmin.sv) else (if gt1 then some tmin.sv else some tmin.sv)
  | .vector _ => if path then (if gt1 then some (getB tmin.vec c .nan) else none) else (if gt1 then some (tmin.vec.getD c .nan) else none)
  | .series [_] => if path then (if gt1 then some ((tmin.cols.getD 0 []).getD i .nan) else some ((tmin.cols.getD 0 []).getD i .nan)) else (if gt1 then none else none)
  | .series _ => if path then (if gt1 then some ((tmin.cols.getD c []).getD i .nan) else none) else (if gt1 then none else none)

theorem minArrGen_eq_ref (path gt1 : Bool) (tmin tmax : Target) (c i : Nat) :
    minArrGen path gt1 tmin tmax c i = C04.minArrRef path gt1 tmin tmax c i := by
  first
  | rfl
  | (unfold minArrGen C04.minArrRef; cases path <;> cases gt1 <;> rfl)
  | (unfold minArrGen C04.minArrRef; split <;> cases path <;> cases gt1 <;> rfl)

/-- left / right fill of the interpolation of a Timeseries target onto the grid -/
def minFillGen : XVal × XVal := (XVal.ninf, XVal.ninf)

theorem minFillGen_eq_ref : minFillGen = C04.minFillRef := by rfl

def maxArrGen (path gt1 : Bool) (tmin tmax : Target) (c i : Nat) : Option XVal :=
  match tmax with
  | .scalar _ => if path then (if gt1 then some tmax.sv else some tmax.sv) else (if gt1 then some tmax.sv else some tmax.sv)
  | .vector _ => if path then (if gt1 then some (getB tmax.vec c .nan) else none) else (if gt1 then some (tmax.vec.getD c .nan) else none)
  | .series [_] => if path then (if gt1 then some ((tmax.cols.getD 0 []).getD i .nan) else some ((tmax.cols.getD 0 []).getD i .nan)) else (if gt1 then none else none)
  | .series _ => if path then (if gt1 then some ((tmax.cols.getD c []).getD i .nan) else none) else (if gt1 then none else none)

theorem maxArrGen_eq_ref (path gt1 : Bool) (tmin tmax : Target) (c i : Nat) :
    maxArrGen path gt1 tmin tmax c i = C04.maxArrRef path gt1 tmin tmax c i := by
  first
  | rfl
  | (unfold maxArrGen C04.maxArrRef; cases path <;> cases gt1 <;> rfl)
  | (unfold maxArrGen C04.maxArrRef; split <;> cases path <;> cases gt1 <;> rfl)

/-- left / right fill of the interpolation of a Timeseries target onto the grid -/
def maxFillGen : XVal × XVal := (XVal.pinf, XVal.pinf)

theorem maxFillGen_eq_ref : maxFillGen = C04.maxFillRef := by rfl

/-! ## soft constraints of `_gp_goal_constraints` -/

/-- the constant registered for the target (parameter / constant input) at (component, step) -/
def minConstGen (g : Goal) (c i : Nat) : XVal :=
  match g.tmin with
  | .series _ => (if ((xIsNan (g.mAt c i)) || (xIsNinf (g.mAt c i))) then (XVal.fin (-floatMax)) else (g.mAt c i))
  | .vector _ => (if ((xIsNan (g.mAt c 0)) || (xIsNinf (g.mAt c 0))) then (XVal.fin (-floatMax)) else (g.mAt c 0))
  | .scalar _ => (g.mAt c i)

theorem minConstGen_eq_ref (g : Goal) (c i : Nat) : minConstGen g c i = C04.minConstRef g c i := by
  first
  | rfl
  | (unfold minConstGen C04.minConstRef; split <;> rfl)

/-- slice indices: is component `c` kept in the soft constraint of this side? -/
def keepMinGen (g : Goal) (n c : Nat) : Bool :=
  match g.tmin with
  | .series _ => (!((List.range n).all (fun i => ((xIsNan (g.mAt c i)) || (xIsNinf (g.mAt c i))))))
  | .vector _ => (!((xIsNan (g.mAt c 0)) || (xIsNinf (g.mAt c 0))))
  | .scalar _ => true

theorem keepMinGen_eq_ref (g : Goal) (n c : Nat) : keepMinGen g n c = C04.keepMinRef g n c := by
  first
  | rfl
  | (unfold keepMinGen C04.keepMinRef; split <;> rfl)

/-- the constant registered for the target (parameter / constant input) at (component, step) -/
def maxConstGen (g : Goal) (c i : Nat) : XVal :=
  match g.tmax with
  | .series _ => (if ((xIsNan (g.MAt c i)) || (xIsPinf (g.MAt c i))) then (XVal.fin floatMax) else (g.MAt c i))
  | .vector _ => (if ((xIsNan (g.MAt c 0)) || (xIsPinf (g.MAt c 0))) then (XVal.fin floatMax) else (g.MAt c 0))
  | .scalar _ => (g.MAt c i)

theorem maxConstGen_eq_ref (g : Goal) (c i : Nat) : maxConstGen g c i = C04.maxConstRef g c i := by
  first
  | rfl
  | (unfold maxConstGen C04.maxConstRef; split <;> rfl)

/-- slice indices: is component `c` kept in the soft constraint of this side? -/
def keepMaxGen (g : Goal) (n c : Nat) : Bool :=
  match g.tmax with
  | .series _ => (!((List.range n).all (fun i => ((xIsNan (g.MAt c i)) || (xIsPinf (g.MAt c i))))))
  | .vector _ => (!((xIsNan (g.MAt c 0)) || (xIsPinf (g.MAt c 0))))
  | .scalar _ => true

theorem keepMaxGen_eq_ref (g : Goal) (n c : Nat) : keepMaxGen g n c = C04.keepMaxRef g n c := by
  first
  | rfl
  | (unfold keepMaxGen C04.keepMaxRef; split <;> rfl)

/-- `_soft_constraint_func`: the expression of one component at one step -/
def softExprGen (target : XVal) (f eps bound nom : Rat) : Rat :=
  ifAbsLt target floatMax (fun t => (((f - (eps * (bound - t))) - t) / nom)) 0

theorem softExprGen_eq_ref (target : XVal) (f eps bound nom : Rat) :
    softExprGen target f eps bound nom = C04.softExprRef target f eps bound nom := by
  first
  | rfl
  | (unfold softExprGen C04.softExprRef ifAbsLt; split <;> (try split) <;> first | rfl | ring)

/-- the soft-constraint rows of one non-critical target goal for one member, in source order -/
def softRowsGen (g : Goal) (n : Nat) (fs eps : List (List Rat)) : List Row :=
  (if g.hasMin && (List.range g.size).any (keepMinGen g n) then
      ((List.range g.size).filter (keepMinGen g n)).flatMap fun c => (List.range n).map fun i =>
        rowWith (g.loAt c) (fun bound => softExprGen (minConstGen g c i) (getF fs c i) (getF eps c i) bound (g.nomAt c)) (EVal.fin 0) EVal.pinf
    else []) ++
  (if g.hasMax && (List.range g.size).any (keepMaxGen g n) then
      ((List.range g.size).filter (keepMaxGen g n)).flatMap fun c => (List.range n).map fun i =>
        rowWith (g.hiAt c) (fun bound => softExprGen (maxConstGen g c i) (getF fs c i) (getF eps c i) bound (g.nomAt c)) EVal.ninf (EVal.fin 0)
    else [])

theorem softRowsGen_eq_ref (g : Goal) (n : Nat) (fs eps : List (List Rat)) :
    softRowsGen g n fs eps = C04.softRowsRef g n fs eps := by
  have h1 : minConstGen = C04.minConstRef := by funext g c i; exact minConstGen_eq_ref g c i
  have h2 : maxConstGen = C04.maxConstRef := by funext g c i; exact maxConstGen_eq_ref g c i
  have h3 : keepMinGen = C04.keepMinRef := by funext g n c; exact keepMinGen_eq_ref g n c
  have h4 : keepMaxGen = C04.keepMaxRef := by funext g n c; exact keepMaxGen_eq_ref g n c
  have h5 : softExprGen = C04.softExprRef := by funext t f e b m; exact softExprGen_eq_ref t f e b m
  simp only [softRowsGen, C04.softRowsRef, h1, h2, h3, h4, h5]

/-- `n_active` of a target goal (divisor of its objective term), component `c` -/
def nActiveGen (g : Goal) (isPath scale : Bool) (n c : Nat) : Nat :=
  (if (isPath && scale) then (max (((List.range n).filter (fun i => ((XVal.isFinite (g.mAt c i)) || (XVal.isFinite (g.MAt c i))))).length) 1) else 1)

theorem nActiveGen_eq_ref (g : Goal) (isPath scale : Bool) (n c : Nat) :
    nActiveGen g isPath scale n c = C04.nActiveRef g isPath scale n c := by
  first
  | rfl
  | (unfold nActiveGen C04.nActiveRef; cases isPath <;> cases scale <;> rfl)

/-- number of entries of the violation variable `ca.MX.sym(eps_..., goal.size)` -/
def epsSizeGen (g : Goal) : Nat := g.size

theorem epsSizeGen_eq_ref (g : Goal) : epsSizeGen g = C04.epsSizeRef g := by rfl

/-- `bounds()` of GoalProgrammingMixin / SinglePassGoalProgrammingMixin: the entry written for every
    violation variable the class exposes through `extra_variables` / `path_variables` -/
def epsBoundsGen : Rat × Rat := (0, 1)
def epsBoundsSinglePassGen : Rat × Rat := (0, 1)

theorem epsBoundsGen_eq_model : epsBoundsGen = C04.epsBounds ∧ epsBoundsSinglePassGen = C04.epsBounds := by
  constructor <;> rfl

/-! ## critical goals in `_gp_goal_constraints`; the `Goal` properties the mixin branches on -/

/-- per member: (slot in `hard_constraints`, member handed to `_gp_goal_hard_constraint`, entry of `epsilon`,
    length of `epsilon`, the existing constraint handed over is `None`) -/
def critCallsGen (E : Nat) (isPath : Bool) (nTimes : Nat) : List (Nat × Nat × Rat × Nat × Bool) :=
  (List.range E).map fun m => (m, m, (0 : Rat), (if isPath then nTimes else 1), true)

theorem critCallsGen_eq_ref (E : Nat) (isPath : Bool) (nTimes : Nat) :
    critCallsGen E isPath nTimes = C04.critCallsRef E isPath nTimes := by
  first
  | rfl
  | (unfold critCallsGen C04.critCallsRef; cases isPath <;> rfl)

/-- `Goal.has_target_min` -/
def hasMinGen (g : Goal) : Bool :=
  (if g.tmin.isSeries then true else g.tmin.anyFinite)

theorem hasMinGen_eq_ref (g : Goal) : hasMinGen g = C04.hasMinRef g := by
  first
  | rfl
  | (simp only [hasMinGen, C04.hasMinRef]; done)
  | (simp only [hasMinGen, C04.hasMinRef]
     try generalize g.tmin.isSeries = a0
     try generalize g.tmin.anyFinite = a1
     try generalize g.tmax.isSeries = a2
     try generalize g.tmax.anyFinite = a3
     try generalize g.hasMin = a4
     try generalize g.hasMax = a5
     first | rfl | (cases a0 <;> (first | rfl | (cases a1 <;> (first | rfl | (cases a2 <;> (first | rfl | (cases a3 <;> (first | rfl | (cases a4 <;> (first | rfl | (cases a5 <;> (rfl)))))))))))))

/-- `Goal.has_target_max` -/
def hasMaxGen (g : Goal) : Bool :=
  (if g.tmax.isSeries then true else g.tmax.anyFinite)

theorem hasMaxGen_eq_ref (g : Goal) : hasMaxGen g = C04.hasMaxRef g := by
  first
  | rfl
  | (simp only [hasMaxGen, C04.hasMaxRef]; done)
  | (simp only [hasMaxGen, C04.hasMaxRef]
     try generalize g.tmin.isSeries = a0
     try generalize g.tmin.anyFinite = a1
     try generalize g.tmax.isSeries = a2
     try generalize g.tmax.anyFinite = a3
     try generalize g.hasMin = a4
     try generalize g.hasMax = a5
     first | rfl | (cases a0 <;> (first | rfl | (cases a1 <;> (first | rfl | (cases a2 <;> (first | rfl | (cases a3 <;> (first | rfl | (cases a4 <;> (first | rfl | (cases a5 <;> (rfl)))))))))))))

/-- `Goal.has_target_bounds` -/
def hasTargetBoundsGen (g : Goal) : Bool :=
  (g.hasMin || g.hasMax)

theorem hasTargetBoundsGen_eq_ref (g : Goal) : hasTargetBoundsGen g = C04.hasTargetBoundsRef g := by
  first
  | rfl
  | (simp only [hasTargetBoundsGen, C04.hasTargetBoundsRef]; done)
  | (simp only [hasTargetBoundsGen, C04.hasTargetBoundsRef]
     try generalize g.tmin.isSeries = a0
     try generalize g.tmin.anyFinite = a1
     try generalize g.tmax.isSeries = a2
     try generalize g.tmax.anyFinite = a3
     try generalize g.hasMin = a4
     try generalize g.hasMax = a5
     first | rfl | (cases a0 <;> (first | rfl | (cases a1 <;> (first | rfl | (cases a2 <;> (first | rfl | (cases a3 <;> (first | rfl | (cases a4 <;> (first | rfl | (cases a5 <;> (rfl)))))))))))))

/-- `Goal.is_empty` -/
def isEmptyGen (g : Goal) : Bool :=
  (if ((!(g.tmin.isSeries || g.tmin.anyFinite)) && (!(g.tmax.isSeries || g.tmax.anyFinite))) then false else ((!g.tmin.anyFinite) && (!g.tmax.anyFinite)))

theorem isEmptyGen_eq_ref (g : Goal) : isEmptyGen g = C04.isEmptyRef g := by
  first
  | rfl
  | (simp only [isEmptyGen, C04.isEmptyRef]; done)
  | (simp only [isEmptyGen, C04.isEmptyRef]
     try generalize g.tmin.isSeries = a0
     try generalize g.tmin.anyFinite = a1
     try generalize g.tmax.isSeries = a2
     try generalize g.tmax.anyFinite = a3
     try generalize g.hasMin = a4
     try generalize g.hasMax = a5
     first | rfl | (cases a0 <;> (first | rfl | (cases a1 <;> (first | rfl | (cases a2 <;> (first | rfl | (cases a3 <;> (first | rfl | (cases a4 <;> (first | rfl | (cases a5 <;> (rfl)))))))))))))

/-! ## `constant_inputs()` / `parameters()` of the goal-programming mixins: how the registered target constants
reach the problem (`d` = the dictionary `super()` returns, `origKeys` = this member's remembered keys) -/

def gpConstConvGen (n : Nat) (t : Target) : Target :=
  match t with | .vector vs => (.series (vs.map fun v => List.replicate n v)) | .scalar v => (.series [List.replicate n v]) | .series cols => .series cols

theorem gpConstConvGen_eq_ref (n : Nat) (t : Target) : gpConstConvGen n t = C04.constConv n t := by
  cases t <;> rfl

/-- `GoalProgrammingMixin.constant_inputs` -/
def gpConstInputsGen (origKeys : Option (List String)) (d : Dict Target) (sub prob : List (String × Target)) (n : Nat) : List String × Dict Target :=
  ((match origKeys with | some o => o | none => d.map Prod.fst), (sub ++ prob).foldl (fun acc kv => dictSet acc kv.1 ((gpConstConvGen n) kv.2)) (dictKeepOnly d (match origKeys with | some o => o | none => d.map Prod.fst)))

theorem gpConstInputsGen_eq_ref (origKeys : Option (List String)) (d : Dict Target) (sub prob : List (String × Target)) (n : Nat) :
    gpConstInputsGen origKeys d sub prob n = C04.inputsCallRef (C04.constConv n) true origKeys d (sub ++ prob) := by
  have h : gpConstConvGen n = C04.constConv n := funext (gpConstConvGen_eq_ref n)
  first
  | rfl
  | (simp only [gpConstInputsGen, C04.inputsCallRef, h]; done)
  | (simp only [gpConstInputsGen, C04.inputsCallRef, h]; rfl)

/-- `GoalProgrammingMixin.parameters` -/
def gpParametersGen (origKeys : Option (List String)) (d : Dict Target) (sub prob : List (String × Target)) (n : Nat) : List String × Dict Target :=
  ((match origKeys with | some o => o | none => d.map Prod.fst), (sub ++ prob).foldl (fun acc kv => dictSet acc kv.1 (id kv.2)) (dictKeepOnly d (match origKeys with | some o => o | none => d.map Prod.fst)))

theorem gpParametersGen_eq_ref (origKeys : Option (List String)) (d : Dict Target) (sub prob : List (String × Target)) (n : Nat) :
    gpParametersGen origKeys d sub prob n = C04.inputsCallRef id true origKeys d (sub ++ prob) := by
  first
  | rfl
  | (simp only [gpParametersGen, C04.inputsCallRef]; done)
  | (simp only [gpParametersGen, C04.inputsCallRef]; rfl)

def spConstConvGen (n : Nat) (t : Target) : Target :=
  match t with | .vector vs => (.series (vs.map fun v => List.replicate n v)) | .scalar v => (.series [List.replicate n v]) | .series cols => .series cols

theorem spConstConvGen_eq_ref (n : Nat) (t : Target) : spConstConvGen n t = C04.constConv n t := by
  cases t <;> rfl

/-- `SinglePassGoalProgrammingMixin.constant_inputs` -/
def spConstInputsGen (d : Dict Target) (prob : List (String × Target)) (n : Nat) : Dict Target :=
  (prob).foldl (fun acc kv => dictSet acc kv.1 ((spConstConvGen n) kv.2)) d

theorem spConstInputsGen_eq_ref (d : Dict Target) (prob : List (String × Target)) (n : Nat) :
    spConstInputsGen d prob n = (C04.inputsCallRef (C04.constConv n) false none d prob).2 := by
  have h : spConstConvGen n = C04.constConv n := funext (spConstConvGen_eq_ref n)
  first
  | rfl
  | (simp only [spConstInputsGen, C04.inputsCallRef, h]; done)
  | (simp only [spConstInputsGen, C04.inputsCallRef, h]; rfl)

/-- `SinglePassGoalProgrammingMixin.parameters` -/
def spParametersGen (d : Dict Target) (prob : List (String × Target)) (n : Nat) : Dict Target :=
  (prob).foldl (fun acc kv => dictSet acc kv.1 (id kv.2)) d

theorem spParametersGen_eq_ref (d : Dict Target) (prob : List (String × Target)) (n : Nat) :
    spParametersGen d prob n = (C04.inputsCallRef id false none d prob).2 := by
  first
  | rfl
  | (simp only [spParametersGen, C04.inputsCallRef]; done)
  | (simp only [spParametersGen, C04.inputsCallRef]; rfl)

end RtcVerif.Gen
