import RtcVerif.Model.C02Book
/-!
GENERATED on every run of the C02 check by harness/translate_c02.py from `GoalProgrammingMixin`
(`__soft_to_hard_constraints`, `optimize`, `__add_subproblem_objective_constraint`, `constraints`,
`path_constraints`) in /repo/src/rtctools/optimization/goal_programming_mixin.py (statement table in the
header of the translator).  Do not edit.  The theorems tie the source, read this way, to the statement-level
reference `Model/C02Book.lean`, which the `book_*` theorems of Props/C02.lean tie to the loop model of
`store_monotone` / `C02_no_degradation`.
-/
namespace RtcVerif.Gen
open RtcVerif RtcVerif.C04 RtcVerif.C02

/-- body of the goal loop of `__soft_to_hard_constraints` -/
def softToHardBodyGen {ρ : Type} (o : HOpts) (nT : Nat) (R : Reads) (sym : Nat) (isPath : Bool) (m : Nat)
    (B : Book ρ) (j : Nat) (goal : Goal) : Book ρ :=
  (if goal.critical then B else (B.put isPath m (C02.hardWrite o nT isPath goal (if goal.hasTargetBounds then (fun i => R.results m (C02.fmt2 (if isPath then "path_eps_{}_{}" else "eps_{}_{}") sym j) i + o.violationRelaxation) else (R.fvalue m isPath goal)) (R.fvalue m isPath goal) goal.fk goal.fk (B.sel isPath m) (B.sel isPath m))))

theorem softToHardBodyGen_eq_model {ρ : Type} (o : HOpts) (nT : Nat) (R : Reads) (sym : Nat) (isPath : Bool)
    (m : Nat) (B : Book ρ) (j : Nat) (goal : Goal) :
    softToHardBodyGen o nT R sym isPath m B j goal = C02.softToHardBody o nT R sym isPath m B j goal := by
  cases isPath <;> rfl

def softToHardGen {ρ : Type} (o : HOpts) (E nT : Nat) (R : Reads) (sym : Nat) (isPath : Bool)
    (goals : List Goal) (B : Book ρ) : Book ρ :=
  C02.forRange E (fun B m => C02.forEnum (softToHardBodyGen o nT R sym isPath m) B 0 goals) B

theorem softToHardGen_eq_model {ρ : Type} (o : HOpts) (E nT : Nat) (R : Reads) (sym : Nat) (isPath : Bool)
    (goals : List Goal) (B : Book ρ) :
    softToHardGen o E nT R sym isPath goals B = C02.softToHardRef o E nT R sym isPath goals B := by
  have h : ∀ m, softToHardBodyGen (ρ := ρ) o nT R sym isPath m = C02.softToHardBody o nT R sym isPath m := by
    intro m; funext B j goal; exact softToHardBodyGen_eq_model o nT R sym isPath m B j goal
  unfold softToHardGen C02.softToHardRef
  simp only [h]

/-- resets of `optimize()` before the priority loop -/
def resetGen {ρ : Type} (B : Book ρ) : Book ρ :=
  let B1 : Book ρ := { B with point := fun _ => [] }
  let B2 : Book ρ := { B1 with path := fun _ => [] }
  let B3 : Book ρ := { B2 with prob := fun _ => [] }
  let B4 : Book ρ := { B3 with probPath := fun _ => [] }
  B4

theorem resetGen_eq_model {ρ : Type} (B : Book ρ) : resetGen B = C02.resetRef B := rfl

/-- bookkeeping of one pass before the solve -/
def beforeSolveGen {ρ : Type} (o : HOpts) (E nT : Nat) (softOf : List Goal → Bool → Nat → List ρ)
    (goals pathGoals : List Goal) (B : Book ρ) : Book ρ :=
  let B1 : Book ρ := { B with sub := softOf goals false }
  let B2 : Book ρ := { B1 with subPath := softOf pathGoals true }
  let B3 : Book ρ := C02.insertHard o E nT false false goals B2
  let B4 : Book ρ := C02.insertHard o E nT true true pathGoals B3
  B4

theorem beforeSolveGen_eq_model {ρ : Type} (o : HOpts) (E nT : Nat) (softOf : List Goal → Bool → Nat → List ρ)
    (goals pathGoals : List Goal) (B : Book ρ) :
    beforeSolveGen o E nT softOf goals pathGoals B = C02.beforeSolveRef o E nT softOf goals pathGoals B := rfl

/-- `__add_subproblem_objective_constraint` -/
def addObjectiveGen {ρ : Type} (E : Nat) (row : ρ) (B : Book ρ) : Book ρ :=
  let A : Book ρ := C02.forRange E (fun B m =>
      let B1 : Book ρ := { B with prob := C02.upd B.prob m (B.prob m ++ B.sub m) }
      let B2 : Book ρ := { B1 with probPath := C02.upd B1.probPath m (B1.probPath m ++ B1.subPath m) }
      B2) B
  let A1 : Book ρ := { A with prob := C02.upd A.prob (E - 1) (A.prob (E - 1) ++ [row]) }
  A1

theorem addObjectiveGen_eq_model {ρ : Type} (E : Nat) (row : ρ) (B : Book ρ) :
    addObjectiveGen E row B = C02.addObjectiveRef E row B := rfl

/-- bookkeeping of one pass after `priority_completed` -/
def afterSolveGen {ρ : Type} (o : HOpts) (E nT : Nat) (R : Reads) (i : Nat) (keepSoft : Bool)
    (goals pathGoals : List Goal) (row : ρ) (B : Book ρ) : Book ρ :=
  if keepSoft then
    let B1 : Book ρ := addObjectiveGen E row B
    B1
  else
    let B1 : Book ρ := softToHardGen o E nT R i false goals B
    let B2 : Book ρ := softToHardGen o E nT R i true pathGoals B1
    B2

theorem afterSolveGen_eq_model {ρ : Type} (o : HOpts) (E nT : Nat) (R : Reads) (i : Nat) (keepSoft : Bool)
    (goals pathGoals : List Goal) (row : ρ) (B : Book ρ) :
    afterSolveGen o E nT R i keepSoft goals pathGoals row B
      = C02.afterSolveRef o E nT R i keepSoft goals pathGoals row B := by
  unfold afterSolveGen C02.afterSolveRef
  cases keepSoft
  · simp only [Bool.false_eq_true, if_false, softToHardGen_eq_model]
  · simp only [if_true, addObjectiveGen_eq_model]

/-- `constraints(ensemble_member)` after the user's own rows -/
def constraintsGen {ρ : Type} (B : Book ρ) (m : Nat) : List (Seg ρ) :=
  [.store (B.point m), .rows (B.prob m), .rows (B.sub m)]

theorem constraintsGen_eq_model {ρ : Type} (B : Book ρ) (m : Nat) : constraintsGen B m = C02.constraintsRef B m := rfl

/-- `path_constraints(ensemble_member)` after the user's own rows -/
def pathConstraintsGen {ρ : Type} (B : Book ρ) (m : Nat) : List (Seg ρ) :=
  [.store (B.path m), .rows (B.probPath m), .rows (B.subPath m)]

theorem pathConstraintsGen_eq_model {ρ : Type} (B : Book ρ) (m : Nat) :
    pathConstraintsGen B m = C02.pathConstraintsRef B m := rfl

end RtcVerif.Gen
