import RtcVerif.Model.C03Subproblem
import RtcVerif.Proofs.C03Objective
/-!
GENERATED on every run of the C03 check by harness/translate_c03.py from
`_GoalProgrammingMixinBase._gp_n_objectives / _gp_objective / _gp_path_objective`
(goal_programming_mixin_base.py) and `GoalProgrammingMixin.objective / path_objective`
(goal_programming_mixin.py) in /repo/src/rtctools/optimization.  Do not edit.
The `...Gen` definitions are the source read over lists (`objs`: the objective functions of the priority,
`ev o` = `o(self, ensemble_member)`); the theorems tie them to the model functions the property theorems
of C03 are about.
-/
namespace RtcVerif.Gen
open RtcVerif

def gpNObjectivesGen {α β : Type} (ev : α → List Rat) (pev : β → List Rat) (objs : List α) (pobjs : List β) : Nat :=
  ((objs.flatMap ev).length + (pobjs.flatMap pev).length)

def gpObjectiveGen {α : Type} (sbs : Bool) (ev : α → List Rat) (objs : List α) (nObj : Nat) : Rat :=
  (if 0 < objs.length then (if sbs then (objs.flatMap ev).sum / (nObj : Rat) else (objs.flatMap ev).sum) else 0)

def gpPathObjectiveGen {α : Type} (sbs : Bool) (ev : α → List Rat) (objs : List α) (nObj : Nat) : Rat :=
  (if 0 < objs.length then (if sbs then (objs.flatMap ev).sum / (nObj : Rat) else (objs.flatMap ev).sum) else 0)

theorem gpNObjectivesGen_eq_model (sbs : Bool) (T : Nat) (val : C03.Val) (m : Nat) (goals pathGoals : List C03.Goal) :
    gpNObjectivesGen (C03.objVec sbs false T val m 0) (C03.objVec sbs true T val m 0)
        (C03.objectiveFns goals) (C03.objectiveFns pathGoals)
      = C03.nObjectives sbs T val m goals pathGoals := by
  have h1 := congrArg List.length (C03.vertcat_eq_fns sbs false T val m 0 goals)
  have h2 := congrArg List.length (C03.vertcat_eq_fns sbs true T val m 0 pathGoals)
  unfold gpNObjectivesGen C03.nObjectives
  omega

theorem gpObjectiveGen_eq_model (sbs : Bool) (T : Nat) (val : C03.Val) (m : Nat) (goals : List C03.Goal) (n : Nat) :
    gpObjectiveGen sbs (C03.objVec sbs false T val m 0) (C03.objectiveFns goals) n
      = C03.gpObjective sbs false T val m 0 goals n := by
  rw [C03.gpObjective_code]
  cases sbs <;> rfl

theorem gpPathObjectiveGen_eq_model (sbs : Bool) (T : Nat) (val : C03.Val) (m i : Nat) (pathGoals : List C03.Goal)
    (n : Nat) :
    gpPathObjectiveGen sbs (C03.objVec sbs true T val m i) (C03.objectiveFns pathGoals) n
      = C03.gpObjective sbs true T val m i pathGoals n := by
  rw [C03.gpObjective_code]
  cases sbs <;> rfl

/-- `GoalProgrammingMixin.objective(ensemble_member)` -/
def objectiveGen (sbs : Bool) (T : Nat) (val : C03.Val) (goals pathGoals : List C03.Goal) (m : Nat) : Rat :=
  C03.gpObjective sbs false T val m 0 goals (C03.nObjectives sbs T val m goals pathGoals)

/-- `GoalProgrammingMixin.path_objective(ensemble_member)` at time step `i` -/
def pathObjectiveGen (sbs : Bool) (T : Nat) (val : C03.Val) (goals pathGoals : List C03.Goal) (m i : Nat) : Rat :=
  C03.gpObjective sbs true T val m i pathGoals (C03.nObjectives sbs T val m goals pathGoals)

theorem memberObjectiveGen_eq_model (sbs : Bool) (T : Nat) (val : C03.Val) (goals pathGoals : List C03.Goal) (m : Nat) :
    objectiveGen sbs T val goals pathGoals m
        + ((List.range T).map fun i => pathObjectiveGen sbs T val goals pathGoals m i).sum
      = C03.memberObjective sbs T val goals pathGoals m := by
  rfl

end RtcVerif.Gen
