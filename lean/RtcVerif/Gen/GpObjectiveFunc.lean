import RtcVerif.Model.C03Closures
import RtcVerif.Proofs.C03Closures
import RtcVerif.Gen.GpObjective
/-!
GENERATED on every run of the C03 check by harness/translate_c03.py (`gen_objective_func`, translators in
harness/c03_closures.py) from `_GoalProgrammingMixinBase._gp_goal_constraints` (objective part),
`LinearizedOrderGoalProgrammingMixin._gp_goal_constraints` (the closure stored on the goal) and the callers in
goal_programming_mixin.py / single_pass_goal_programming_mixin.py.  Do not edit.

A closure sees, for every name, either the value bound when it was created (default argument: `goal`, `epsilon`,
`nActive`) or — for a free variable the enclosing loop assigns — whatever the loop left behind (`goalLate`,
`epsilonLate`, `nActiveLate`, `mLate`); the theorems quantify over the latter, so a closure that late-binds a loop
variable cannot be proved equal to the model.
-/
set_option linter.unusedVariables false
set_option linter.unusedSimpArgs false
namespace RtcVerif.Gen
open RtcVerif

/-- `epsilon = ca.MX.sym(eps_format.format(sym_index, j), goal.size)` -/
def epsSymGen (isPath : Bool) (symIndex j : Nat) (g : C03.Goal) : C03.EpsSym :=
  { path := isPath, idx := symIndex, j := j, size := g.size }

/-- `linear_variable = ca.MX.sym(path_prefix + "lineps_{}_{}".format(sym_index, j), goal.size)` -/
def linSymGen (isPath : Bool) (symIndex j : Nat) (g : C03.Goal) : C03.EpsSym :=
  { path := isPath, idx := symIndex, j := j, size := g.size }

/-- `n_active` of a target goal, component `c` -/
def nActiveTargetGen (sbs isPath : Bool) (T : Nat) (g : C03.Goal) (c : Nat) : Rat :=
  if (isPath && sbs) then (((max (((List.range T).filter (fun i => ((g.tmin.entry c i).isFinite || (g.tmax.entry c i).isFinite))).length) 1) : Nat) : Rat) else ((1 : Nat) : Rat)

/-- `n_active` of a minimisation goal -/
def nActiveMinGen (sbs isPath : Bool) (T : Nat) (g : C03.Goal) (c : Nat) : Rat :=
  if (isPath && sbs) then ((T : Nat) : Rat) else ((1 : Nat) : Rat)

/-- `n_active` of a linearised goal (LinearizedOrderGoalProgrammingMixin) -/
def nActiveLinGen (sbs isPath : Bool) (T : Nat) (g : C03.Goal) (c : Nat) : Rat :=
  if (isPath && sbs) then (((max (((List.range T).filter (fun i => ((g.tmin.entry c i).isFinite || (g.tmax.entry c i).isFinite))).length) 1) : Nat) : Rat) else ((1 : Nat) : Rat)

/-- `_objective_func` of a goal with target bounds -/
def objFuncTargetGen (val : C03.Val) (isPath : Bool) (goal goalLate : C03.Goal × Nat) (epsilon epsilonLate : C03.EpsSym)
    (nActive nActiveLate : Nat → Rat) (mLate : Nat) : C03.Closure :=
  fun m i => if isPath then ((List.range epsilon.size).map fun c => ((goal.1.weight * ((C03.readVariable val epsilon m i c) ^ goal.1.order)) / (nActive c))) else ((List.range epsilon.size).map fun c => ((goal.1.weight * ((C03.readExtra val epsilon m c) ^ goal.1.order)) / (nActive c)))

/-- `_objective_func` of a minimisation goal -/
def objFuncMinGen (val : C03.Val) (isPath : Bool) (goal goalLate : C03.Goal × Nat) (epsilon epsilonLate : C03.EpsSym)
    (nActive nActiveLate : Nat → Rat) (mLate : Nat) : C03.Closure :=
  fun m i => ((List.range goal.1.size).map fun c => ((goal.1.weight * (((C03.readFunction val isPath goal m i c) / (goal.1.nominalAt c)) ^ goal.1.order)) / (nActive c)))

/-- `_objective_func` stored on a linearised goal (`epsilon` = the linear majorant variable) -/
def objFuncLinGen (val : C03.Val) (isPath : Bool) (goal goalLate : C03.Goal × Nat) (epsilon epsilonLate : C03.EpsSym)
    (nActive nActiveLate : Nat → Rat) (mLate : Nat) : C03.Closure :=
  fun m i => if isPath then ((List.range epsilon.size).map fun c => ((goal.1.weight * (C03.readVariable val epsilon m i c)) / (nActive c))) else ((List.range epsilon.size).map fun c => ((goal.1.weight * (C03.readExtra val epsilon m c)) / (nActive c)))

/-- the divisors are the model's `Goal.nActive` (the quantity `C03_n_active_counts` is about) -/
theorem nActiveGen_eq_model (sbs isPath : Bool) (T : Nat) (g : C03.Goal) (c : Nat) :
    (g.hasBounds = true → nActiveTargetGen sbs isPath T g c = g.nActive sbs isPath T c)
    ∧ (g.hasBounds = true → nActiveLinGen sbs isPath T g c = g.linearized.nActive sbs isPath T c)
    ∧ (g.hasBounds = false → nActiveMinGen sbs isPath T g c = g.nActive sbs isPath T c) := by
  refine ⟨fun hb => ?_, fun hb => ?_, fun hb => ?_⟩
  · cases isPath <;> cases sbs <;>
      simp [nActiveTargetGen, C03.Goal.nActive, C03.Goal.activeCount, C03.Goal.activeAt, hb, Bool.or_comm, Nat.max_comm]
  · have hb' : g.linearized.hasBounds = true := hb
    cases isPath <;> cases sbs <;>
      simp [nActiveLinGen, C03.Goal.nActive, C03.Goal.activeCount, C03.Goal.activeAt, hb', Bool.or_comm, Nat.max_comm] <;>
      simp [C03.Goal.linearized]
  · cases isPath <;> cases sbs <;>
      simp [nActiveMinGen, C03.Goal.nActive, hb, Nat.max_comm]

theorem objFuncTargetGen_eq_model (sbs isPath : Bool) (T : Nat) (val : C03.Val) (symIndex : Nat)
    (gj : C03.Goal × Nat) (gjLate : C03.Goal × Nat) (epsLate : C03.EpsSym) (nLate : Nat → Rat) (mLate : Nat)
    (hc : gj.1.critical = false) (hb : gj.1.hasBounds = true) :
    objFuncTargetGen val isPath gj gjLate (epsSymGen isPath symIndex gj.2 gj.1) epsLate
        (nActiveTargetGen sbs isPath T gj.1) nLate mLate
      = C03.closureOf sbs isPath T val gj := by
  funext m i
  cases isPath <;> cases sbs <;>
    (simp [objFuncTargetGen, epsSymGen, nActiveTargetGen, C03.closureOf, C03.objVec, C03.base, C03.Goal.nActive,
      C03.Goal.activeCount, C03.Goal.activeAt, C03.readVariable, C03.readExtra, C03.readFunction, hc, hb,
      Bool.or_comm, Nat.max_comm] <;> intros <;> ring)

theorem objFuncMinGen_eq_model (sbs isPath : Bool) (T : Nat) (val : C03.Val)
    (gj : C03.Goal × Nat) (gjLate : C03.Goal × Nat) (epsLate : C03.EpsSym) (nLate : Nat → Rat) (mLate : Nat)
    (hc : gj.1.critical = false) (hb : gj.1.hasBounds = false) :
    objFuncMinGen val isPath gj gjLate epsLate epsLate (nActiveMinGen sbs isPath T gj.1) nLate mLate
      = C03.closureOf sbs isPath T val gj := by
  funext m i
  cases isPath <;> cases sbs <;>
    (simp [objFuncMinGen, nActiveMinGen, C03.closureOf, C03.objVec, C03.base, C03.Goal.nActive,
      C03.readVariable, C03.readExtra, C03.readFunction, hc, hb, Nat.max_comm] <;> intros <;> ring)

/-- the closure of the linearising mixin is the objective function of the same goal with exponent 1 (on the linear
    majorant variable), same weight and same divisor -/
theorem objFuncLinGen_eq_model (sbs isPath : Bool) (T : Nat) (val : C03.Val) (symIndex : Nat)
    (gj : C03.Goal × Nat) (gjLate : C03.Goal × Nat) (epsLate : C03.EpsSym) (nLate : Nat → Rat) (mLate : Nat)
    (hc : gj.1.critical = false) (hb : gj.1.hasBounds = true) :
    objFuncLinGen val isPath gj gjLate (linSymGen isPath symIndex gj.2 gj.1) epsLate
        (nActiveLinGen sbs isPath T gj.1) nLate mLate
      = C03.closureOf sbs isPath T val (gj.1.linearized, gj.2) := by
  have hc' : gj.1.linearized.critical = false := hc
  have hb' : gj.1.linearized.hasBounds = true := hb
  funext m i
  cases isPath <;> cases sbs <;>
    (simp [objFuncLinGen, linSymGen, nActiveLinGen, C03.closureOf, C03.objVec, C03.base, C03.Goal.nActive,
      C03.Goal.activeCount, C03.Goal.activeAt, C03.readVariable, C03.readExtra, C03.readFunction, hc', hb',
      Bool.or_comm, Nat.max_comm] <;>
    simp [C03.Goal.linearized, Bool.or_comm, Nat.max_comm] <;> intros <;> ring)

/-- loop body of `_gp_goal_constraints`: what goal `gj` appends to `objectives` (`override gj` = the attribute
    `goal._objective_func` if the goal has one) -/
def goalObjectiveGen (sbs isPath : Bool) (T : Nat) (val : C03.Val) (symIndex : Nat)
    (override : C03.Goal × Nat → Option C03.Closure)
    (gjLate : C03.Goal × Nat) (epsLate : C03.EpsSym) (nLate : Nat → Rat) (mLate : Nat) (gj : C03.Goal × Nat) : Option C03.Closure :=
  if (!gj.1.critical) then
    some (match override gj with
      | some f => f
      | none => (if gj.1.hasBounds then objFuncTargetGen val isPath gj gjLate (epsSymGen isPath symIndex gj.2 gj.1) epsLate (nActiveTargetGen sbs isPath T gj.1) nLate mLate
        else objFuncMinGen val isPath gj gjLate epsLate epsLate (nActiveMinGen sbs isPath T gj.1) nLate mLate))
  else none

/-- the list `objectives` (element 1 of the returned tuple) -/
def objectivesGen (sbs isPath : Bool) (T : Nat) (val : C03.Val) (symIndex : Nat)
    (override : C03.Goal × Nat → Option C03.Closure)
    (gjLate : C03.Goal × Nat) (epsLate : C03.EpsSym) (nLate : Nat → Rat) (mLate : Nat) (goals : List C03.Goal) : List C03.Closure :=
  (C03.indexed goals).filterMap (goalObjectiveGen sbs isPath T val symIndex override gjLate epsLate nLate mLate)

theorem goalObjectiveGen_eq_model (sbs isPath : Bool) (T : Nat) (val : C03.Val) (symIndex : Nat)
    (gjLate : C03.Goal × Nat) (epsLate : C03.EpsSym) (nLate : Nat → Rat) (mLate : Nat) (gj : C03.Goal × Nat) :
    goalObjectiveGen sbs isPath T val symIndex (fun _ => none) gjLate epsLate nLate mLate gj
      = C03.goalClosure sbs isPath T val gj := by
  unfold goalObjectiveGen C03.goalClosure
  cases hc : gj.1.critical
  · cases hb : gj.1.hasBounds
    · simp [objFuncMinGen_eq_model sbs isPath T val gj gjLate epsLate nLate mLate hc hb]
    · simp [objFuncTargetGen_eq_model sbs isPath T val symIndex gj gjLate epsLate nLate mLate hc hb]
  · simp

theorem objectivesGen_eq_model (sbs isPath : Bool) (T : Nat) (val : C03.Val) (symIndex : Nat)
    (gjLate : C03.Goal × Nat) (epsLate : C03.EpsSym) (nLate : Nat → Rat) (mLate : Nat) (goals : List C03.Goal) :
    objectivesGen sbs isPath T val symIndex (fun _ => none) gjLate epsLate nLate mLate goals
      = C03.closures sbs isPath T val goals := by
  unfold objectivesGen C03.closures
  congr 1
  funext gj
  exact goalObjectiveGen_eq_model sbs isPath T val symIndex gjLate epsLate nLate mLate gj

theorem goalObjectiveGen_congr (sbs isPath : Bool) (T : Nat) (val : C03.Val) (symIndex : Nat)
    (o1 o2 : C03.Goal × Nat → Option C03.Closure)
    (gjLate : C03.Goal × Nat) (epsLate : C03.EpsSym) (nLate : Nat → Rat) (mLate : Nat) (gj : C03.Goal × Nat) (h : o1 gj = o2 gj) :
    goalObjectiveGen sbs isPath T val symIndex o1 gjLate epsLate nLate mLate gj
      = goalObjectiveGen sbs isPath T val symIndex o2 gjLate epsLate nLate mLate gj := by
  unfold goalObjectiveGen
  simp only [h]

/-- the `hasattr(goal, '_objective_func')` branch comes first: a goal carrying an override contributes exactly that
    closure (also when it has target bounds), a critical goal still nothing -/
theorem goalObjectiveGen_override (sbs isPath : Bool) (T : Nat) (val : C03.Val) (symIndex : Nat)
    (override : C03.Goal × Nat → Option C03.Closure)
    (gjLate : C03.Goal × Nat) (epsLate : C03.EpsSym) (nLate : Nat → Rat) (mLate : Nat) (gj : C03.Goal × Nat) (f : C03.Closure)
    (ho : override gj = some f) :
    goalObjectiveGen sbs isPath T val symIndex override gjLate epsLate nLate mLate gj
      = if gj.1.critical then none else some f := by
  unfold goalObjectiveGen
  cases hc : gj.1.critical <;> simp [ho]

/-- LinearizedOrderGoalProgrammingMixin: with the stored closures as overrides of the goals `lin` selects (all of them
    target goals: the mixin asserts it), the objective list is the model's list for the goals with exponent 1 -/
theorem objectivesGen_linearized (sbs isPath : Bool) (T : Nat) (val : C03.Val) (symIndex : Nat)
    (gjLate : C03.Goal × Nat) (epsLate : C03.EpsSym) (nLate : Nat → Rat) (mLate : Nat) (lin : C03.Goal × Nat → Bool) (goals : List C03.Goal)
    (hlin : ∀ gj, lin gj = true → gj.1.hasBounds = true) :
    objectivesGen sbs isPath T val symIndex
        (fun gj => if lin gj then some (objFuncLinGen val isPath gj gjLate (linSymGen isPath symIndex gj.2 gj.1) epsLate
            (nActiveLinGen sbs isPath T gj.1) nLate mLate) else none) gjLate epsLate nLate mLate goals
      = (C03.indexed goals).filterMap (fun gj =>
          C03.goalClosure sbs isPath T val (if lin gj then gj.1.linearized else gj.1, gj.2)) := by
  unfold objectivesGen
  congr 1
  funext gj
  cases hl : lin gj
  · have h0 : (fun gj : C03.Goal × Nat => if lin gj then some (objFuncLinGen val isPath gj gjLate
        (linSymGen isPath symIndex gj.2 gj.1) epsLate (nActiveLinGen sbs isPath T gj.1) nLate mLate) else none) gj
        = (fun _ => none) gj := by simp [hl]
    rw [goalObjectiveGen_congr sbs isPath T val symIndex _ (fun _ => none) gjLate epsLate nLate mLate gj h0,
      goalObjectiveGen_eq_model]
    simp
  · have h1 : (fun gj : C03.Goal × Nat => if lin gj then some (objFuncLinGen val isPath gj gjLate
        (linSymGen isPath symIndex gj.2 gj.1) epsLate (nActiveLinGen sbs isPath T gj.1) nLate mLate) else none) gj
        = some (objFuncLinGen val isPath gj gjLate
        (linSymGen isPath symIndex gj.2 gj.1) epsLate (nActiveLinGen sbs isPath T gj.1) nLate mLate) := by simp [hl]
    rw [goalObjectiveGen_override sbs isPath T val symIndex _ gjLate epsLate nLate mLate gj _ h1]
    cases hc : gj.1.critical
    · have hc' : gj.1.linearized.critical = false := hc
      simp [C03.goalClosure, hc',
        objFuncLinGen_eq_model sbs isPath T val symIndex gj gjLate epsLate nLate mLate hc (hlin _ hl)]
    · have hc' : gj.1.linearized.critical = true := hc
      simp [C03.goalClosure, hc']

/-- `_linearize_goal(goal)` (`gl` = the goal's own `linearize_order`, `none` for a plain `Goal`) -/
def linearizeGoalGen (optLin : Bool) (gl : Option Bool) (g : C03.Goal) : Bool :=
  (if ((gl == some true) || (optLin && (gl != some false))) then (if (decide (1 < g.order) && (!g.critical)) then true else false) else false)

theorem linearizeGoalGen_eq_model (optLin : Bool) (gl : Option Bool) (g : C03.Goal) :
    linearizeGoalGen optLin gl g = C03.isLinearized optLin gl g := by
  unfold linearizeGoalGen C03.isLinearized
  cases gl with
  | none => cases optLin <;> cases g.critical <;> simp
  | some b => cases b <;> cases optLin <;> cases g.critical <;> simp

/-- the attribute the linearising mixin leaves on the goal: `if not _linearize_goal(goal): continue` ...
    `goal._objective_func = _objective_func` -/
def linOverrideGen (sbs isPath : Bool) (T : Nat) (val : C03.Val) (symIndex : Nat) (optLin : Bool)
    (gl : C03.Goal × Nat → Option Bool) (gjLate : C03.Goal × Nat) (epsLate : C03.EpsSym) (nLate : Nat → Rat) (mLate : Nat) (gj : C03.Goal × Nat) : Option C03.Closure :=
  if !(linearizeGoalGen optLin (gl gj) gj.1) then none
  else some (objFuncLinGen val isPath gj gjLate (linSymGen isPath symIndex gj.2 gj.1) epsLate
    (nActiveLinGen sbs isPath T gj.1) nLate mLate)

/-- LinearizedOrderGoalProgrammingMixin, whole method: the objective list is the model's list for the goals in which
    exactly the goals `_linearize_goal` selects (own setting first, then the option; order > 1, not critical) have
    exponent 1 (`hlin` = the mixin's `assert goal.has_target_bounds`) -/
theorem objectivesGen_linearizedMixin (sbs isPath : Bool) (T : Nat) (val : C03.Val) (symIndex : Nat) (optLin : Bool)
    (gl : C03.Goal × Nat → Option Bool) (gjLate : C03.Goal × Nat) (epsLate : C03.EpsSym) (nLate : Nat → Rat) (mLate : Nat) (goals : List C03.Goal)
    (hlin : ∀ gj, C03.isLinearized optLin (gl gj) gj.1 = true → gj.1.hasBounds = true) :
    objectivesGen sbs isPath T val symIndex
        (linOverrideGen sbs isPath T val symIndex optLin gl gjLate epsLate nLate mLate) gjLate epsLate nLate mLate goals
      = (C03.indexed goals).filterMap (fun gj =>
          C03.goalClosure sbs isPath T val
            (if C03.isLinearized optLin (gl gj) gj.1 then gj.1.linearized else gj.1, gj.2)) := by
  have h : linOverrideGen sbs isPath T val symIndex optLin gl gjLate epsLate nLate mLate
      = fun gj => if (fun gj => C03.isLinearized optLin (gl gj) gj.1) gj then
          some (objFuncLinGen val isPath gj gjLate (linSymGen isPath symIndex gj.2 gj.1) epsLate
            (nActiveLinGen sbs isPath T gj.1) nLate mLate) else none := by
    funext gj
    unfold linOverrideGen
    rw [linearizeGoalGen_eq_model]
    cases hl : C03.isLinearized optLin (gl gj) gj.1 <;> simp [hl]
  rw [h]
  exact objectivesGen_linearized sbs isPath T val symIndex gjLate epsLate nLate mLate
    (fun gj => C03.isLinearized optLin (gl gj) gj.1) goals hlin

/-! ## callers: which returned list feeds `_gp_objective` / `_gp_path_objective` -/

/-- `GoalProgrammingMixin.__subproblem_objectives` -/
def subproblemObjectivesGen (sbs : Bool) (T : Nat) (val : C03.Val) (symIndex : Nat)
    (override : C03.Goal × Nat → Option C03.Closure)
    (gjLate : C03.Goal × Nat) (epsLate : C03.EpsSym) (nLate : Nat → Rat) (mLate : Nat) (goals pathGoals : List C03.Goal) : List C03.Closure :=
  objectivesGen sbs false T val symIndex override gjLate epsLate nLate mLate goals

/-- `GoalProgrammingMixin.__subproblem_path_objectives` -/
def subproblemPathObjectivesGen (sbs : Bool) (T : Nat) (val : C03.Val) (symIndex : Nat)
    (override : C03.Goal × Nat → Option C03.Closure)
    (gjLate : C03.Goal × Nat) (epsLate : C03.EpsSym) (nLate : Nat → Rat) (mLate : Nat) (goals pathGoals : List C03.Goal) : List C03.Closure :=
  objectivesGen sbs true T val symIndex override gjLate epsLate nLate mLate pathGoals

/-- SinglePassGoalProgrammingMixin: `subproblem_objectives` of one priority -/
def spObjectivesGen (sbs : Bool) (T : Nat) (val : C03.Val) (symIndex : Nat)
    (override : C03.Goal × Nat → Option C03.Closure)
    (gjLate : C03.Goal × Nat) (epsLate : C03.EpsSym) (nLate : Nat → Rat) (mLate : Nat) (goals pathGoals : List C03.Goal) : List C03.Closure :=
  objectivesGen sbs false T val symIndex override gjLate epsLate nLate mLate goals

/-- SinglePassGoalProgrammingMixin: `subproblem_path_objectives` of one priority -/
def spPathObjectivesGen (sbs : Bool) (T : Nat) (val : C03.Val) (symIndex : Nat)
    (override : C03.Goal × Nat → Option C03.Closure)
    (gjLate : C03.Goal × Nat) (epsLate : C03.EpsSym) (nLate : Nat → Rat) (mLate : Nat) (goals pathGoals : List C03.Goal) : List C03.Closure :=
  objectivesGen sbs true T val symIndex override gjLate epsLate nLate mLate pathGoals

theorem subproblemLists_eq_model (sbs : Bool) (T : Nat) (val : C03.Val) (symIndex : Nat)
    (gjLate : C03.Goal × Nat) (epsLate : C03.EpsSym) (nLate : Nat → Rat) (mLate : Nat) (goals pathGoals : List C03.Goal) :
    subproblemObjectivesGen sbs T val symIndex (fun _ => none) gjLate epsLate nLate mLate goals pathGoals
        = C03.closures sbs false T val goals
    ∧ subproblemPathObjectivesGen sbs T val symIndex (fun _ => none) gjLate epsLate nLate mLate goals pathGoals
        = C03.closures sbs true T val pathGoals
    ∧ spObjectivesGen sbs T val symIndex (fun _ => none) gjLate epsLate nLate mLate goals pathGoals
        = C03.closures sbs false T val goals
    ∧ spPathObjectivesGen sbs T val symIndex (fun _ => none) gjLate epsLate nLate mLate goals pathGoals
        = C03.closures sbs true T val pathGoals := by
  refine ⟨?_, ?_, ?_, ?_⟩ <;>
    first
    | exact objectivesGen_eq_model sbs false T val symIndex gjLate epsLate nLate mLate goals
    | exact objectivesGen_eq_model sbs true T val symIndex gjLate epsLate nLate mLate pathGoals

/-- whole chain, point goals: the translated `_gp_objective` applied to the translated closure list of the translated
    caller is the model's `gpObjective` (which `C03_subproblem_is_documented` / `C03_terms_eval` are about) -/
theorem gpObjective_chain (sbs : Bool) (T : Nat) (val : C03.Val) (symIndex : Nat)
    (gjLate : C03.Goal × Nat) (epsLate : C03.EpsSym) (nLate : Nat → Rat) (mLate : Nat) (goals pathGoals : List C03.Goal) (m n : Nat) :
    gpObjectiveGen sbs (fun o : C03.Closure => o m 0)
        (subproblemObjectivesGen sbs T val symIndex (fun _ => none) gjLate epsLate nLate mLate goals pathGoals) n
      = C03.gpObjective sbs false T val m 0 goals n := by
  rw [← gpObjectiveGen_eq_model,
    (subproblemLists_eq_model sbs T val symIndex gjLate epsLate nLate mLate goals pathGoals).1, C03.closures_eq_map]
  unfold gpObjectiveGen
  simp only [List.flatMap_map, List.length_map]
  rfl

/-- whole chain, path goals, at every time step `i` -/
theorem gpPathObjective_chain (sbs : Bool) (T : Nat) (val : C03.Val) (symIndex : Nat)
    (gjLate : C03.Goal × Nat) (epsLate : C03.EpsSym) (nLate : Nat → Rat) (mLate : Nat) (goals pathGoals : List C03.Goal) (m i n : Nat) :
    gpPathObjectiveGen sbs (fun o : C03.Closure => o m i)
        (subproblemPathObjectivesGen sbs T val symIndex (fun _ => none) gjLate epsLate nLate mLate goals pathGoals) n
      = C03.gpObjective sbs true T val m i pathGoals n := by
  rw [← gpPathObjectiveGen_eq_model,
    (subproblemLists_eq_model sbs T val symIndex gjLate epsLate nLate mLate goals pathGoals).2.1, C03.closures_eq_map]
  unfold gpPathObjectiveGen
  simp only [List.flatMap_map, List.length_map]
  rfl

/-- whole chain, `_gp_n_objectives` -/
theorem gpNObjectives_chain (sbs : Bool) (T : Nat) (val : C03.Val) (symIndex : Nat)
    (gjLate : C03.Goal × Nat) (epsLate : C03.EpsSym) (nLate : Nat → Rat) (mLate : Nat) (goals pathGoals : List C03.Goal) (m : Nat) :
    gpNObjectivesGen (fun o : C03.Closure => o m 0) (fun o : C03.Closure => o m 0)
        (subproblemObjectivesGen sbs T val symIndex (fun _ => none) gjLate epsLate nLate mLate goals pathGoals)
        (subproblemPathObjectivesGen sbs T val symIndex (fun _ => none) gjLate epsLate nLate mLate goals pathGoals)
      = C03.nObjectives sbs T val m goals pathGoals := by
  rw [← gpNObjectivesGen_eq_model,
    (subproblemLists_eq_model sbs T val symIndex gjLate epsLate nLate mLate goals pathGoals).1,
    (subproblemLists_eq_model sbs T val symIndex gjLate epsLate nLate mLate goals pathGoals).2.1,
    C03.closures_eq_map, C03.closures_eq_map]
  unfold gpNObjectivesGen
  simp only [List.flatMap_map]
  rfl

/-- **whole chain**: closures read from `_gp_goal_constraints`, handed over by the translated callers, evaluated by the
    translated `_gp_n_objectives` / `_gp_objective` (once) / `_gp_path_objective` (every time step), weighted with the
    member probabilities: the documented objective of the priority -/
theorem documented_chain (sbs : Bool) (T : Nat) (probs : List Rat) (val : C03.Val) (symIndex : Nat)
    (gjLate : C03.Goal × Nat) (epsLate : C03.EpsSym) (nLate : Nat → Rat) (mLate : Nat) (goals pathGoals : List C03.Goal) :
    (probs.zipIdx.map fun pm =>
      pm.1 * (gpObjectiveGen sbs (fun o : C03.Closure => o pm.2 0)
          (subproblemObjectivesGen sbs T val symIndex (fun _ => none) gjLate epsLate nLate mLate goals pathGoals)
          (gpNObjectivesGen (fun o : C03.Closure => o pm.2 0) (fun o : C03.Closure => o pm.2 0)
            (subproblemObjectivesGen sbs T val symIndex (fun _ => none) gjLate epsLate nLate mLate goals pathGoals)
            (subproblemPathObjectivesGen sbs T val symIndex (fun _ => none) gjLate epsLate nLate mLate goals pathGoals))
        + ((List.range T).map fun i => gpPathObjectiveGen sbs (fun o : C03.Closure => o pm.2 i)
          (subproblemPathObjectivesGen sbs T val symIndex (fun _ => none) gjLate epsLate nLate mLate goals pathGoals)
          (gpNObjectivesGen (fun o : C03.Closure => o pm.2 0) (fun o : C03.Closure => o pm.2 0)
            (subproblemObjectivesGen sbs T val symIndex (fun _ => none) gjLate epsLate nLate mLate goals pathGoals)
            (subproblemPathObjectivesGen sbs T val symIndex (fun _ => none) gjLate epsLate nLate mLate goals
              pathGoals))).sum)).sum
      = C03.documented sbs T probs val goals pathGoals := by
  rw [← C03.objective_eq_documented]
  simp only [gpNObjectives_chain, gpObjective_chain, gpPathObjective_chain]
  rfl

/-- non-vacuity: two goals (a size-2 path target goal whose second component is never active, a path minimisation
    goal with nominal 10), `scale_by_problem_size`, T = 3: the generated closures give distinct non-trivial vectors
    per goal, member and step, equal to the model's, and the late-bound values play no role -/
example :
    let g1 : C03.Goal := { size := 2, weight := 3, order := 2, nominal := [1],
                           tmin := .ts2 [[.fin 1, .nan], [.fin 2, .nan], [.nan, .nan]], tmax := .scalar .nan,
                           critical := false }
    let g2 : C03.Goal := { size := 1, weight := 2, order := 1, nominal := [10],
                           tmin := .scalar .nan, tmax := .scalar .nan, critical := false }
    let val : C03.Val := fun isPath j c m i => if isPath then (1 + 2 * j + c + 3 * m + 5 * i : Nat) else 0
    let junk : C03.Goal × Nat := (g2, 7)
    (objectivesGen true true 3 val 0 (fun _ => none) junk ⟨false, 9, 9, 9⟩ (fun _ => 0) 5 [g1, g2]).map (fun o => o 1 2)
      = [[294, 675], [16 / 15]]
    ∧ (C03.closures true true 3 val [g1, g2]).map (fun o => o 1 2) = [[294, 675], [16 / 15]] := by
  decide +kernel

end RtcVerif.Gen
