import RtcVerif.Model.C04Elem
/-!
GENERATED on every run of the C02 / C04 checks by harness/translate_c04.py from /repo/src/rtctools/
optimization/goal_programming_mixin_base.py (`_gp_goal_hard_constraint`, `_gp_update_constraint_store`)
and goal_programming_mixin.py (`GoalProgrammingMixin.__goal_hard_constraint`).  Do not edit.
The `*Gen` definitions are the source read element-wise (table in harness/translate_c04.py); the
theorems tie them to the mask-level model `C04.hardElemX` / `C04.mergeNew` / `C04.mergeStored`, which
`Proofs/C04Elem.lean` ties to the models the property theorems of C02 / C04 are about.
-/
namespace RtcVerif.Gen
open RtcVerif RtcVerif.C04

def hardCriticalGen (e : Rat) (gm gM r0 r1 : XVal) (relax nom : Rat) (critical hasMin hasMax hasT : Bool)
    (thr cr : Rat) (vt : XVal) (fix : Bool) (v : Rat) : XVal × XVal :=
  ((if hasT then (xsub (xsel (xlt vt (XVal.fin e)) (xdiv (xsub (XVal.fin v) (XVal.fin relax)) (XVal.fin nom)) (xsel (!(XVal.isFinite gm)) (xneg XVal.pinf) (if (hasMin && hasMax) then (xsel ((!((xIsNan (if hasMin then (xdiv (xsub (xadd (xmul (XVal.fin e) (if (!critical) then (xsub r0 gm) else (XVal.fin (0)))) gm) (XVal.fin relax)) (XVal.fin nom)) else (xneg XVal.pinf))) || (xIsNan (if hasMax then (xdiv (xadd (xadd (xmul (XVal.fin e) (if (!critical) then (xsub r1 gM) else (XVal.fin (0)))) gM) (XVal.fin relax)) (XVal.fin nom)) else XVal.pinf)))) && (xlt (xabs (xsub (if hasMin then (xdiv (xsub (xadd (xmul (XVal.fin e) (if (!critical) then (xsub r0 gm) else (XVal.fin (0)))) gm) (XVal.fin relax)) (XVal.fin nom)) else (xneg XVal.pinf)) (if hasMax then (xdiv (xadd (xadd (xmul (XVal.fin e) (if (!critical) then (xsub r1 gM) else (XVal.fin (0)))) gM) (XVal.fin relax)) (XVal.fin nom)) else XVal.pinf))) (XVal.fin thr))) (xmul (XVal.fin (1 / 2)) (xadd (if hasMin then (xdiv (xsub (xadd (xmul (XVal.fin e) (if (!critical) then (xsub r0 gm) else (XVal.fin (0)))) gm) (XVal.fin relax)) (XVal.fin nom)) else (xneg XVal.pinf)) (if hasMax then (xdiv (xadd (xadd (xmul (XVal.fin e) (if (!critical) then (xsub r1 gM) else (XVal.fin (0)))) gM) (XVal.fin relax)) (XVal.fin nom)) else XVal.pinf))) (if hasMin then (xdiv (xsub (xadd (xmul (XVal.fin e) (if (!critical) then (xsub r0 gm) else (XVal.fin (0)))) gm) (XVal.fin relax)) (XVal.fin nom)) else (xneg XVal.pinf))) else (if hasMin then (xdiv (xsub (xadd (xmul (XVal.fin e) (if (!critical) then (xsub r0 gm) else (XVal.fin (0)))) gm) (XVal.fin relax)) (XVal.fin nom)) else (xneg XVal.pinf))))) (XVal.fin cr)) else (if (fix && (xeqX (XVal.fin relax) (XVal.fin (0)))) then (xdiv (XVal.fin e) (XVal.fin nom)) else (xmul (xneg XVal.pinf) (XVal.fin (1))))),
   (if hasT then (xadd (xsel (xlt vt (XVal.fin e)) (xdiv (xadd (XVal.fin v) (XVal.fin relax)) (XVal.fin nom)) (xsel (!(XVal.isFinite gM)) XVal.pinf (if (hasMin && hasMax) then (xsel ((!((xIsNan (if hasMin then (xdiv (xsub (xadd (xmul (XVal.fin e) (if (!critical) then (xsub r0 gm) else (XVal.fin (0)))) gm) (XVal.fin relax)) (XVal.fin nom)) else (xneg XVal.pinf))) || (xIsNan (if hasMax then (xdiv (xadd (xadd (xmul (XVal.fin e) (if (!critical) then (xsub r1 gM) else (XVal.fin (0)))) gM) (XVal.fin relax)) (XVal.fin nom)) else XVal.pinf)))) && (xlt (xabs (xsub (if hasMin then (xdiv (xsub (xadd (xmul (XVal.fin e) (if (!critical) then (xsub r0 gm) else (XVal.fin (0)))) gm) (XVal.fin relax)) (XVal.fin nom)) else (xneg XVal.pinf)) (if hasMax then (xdiv (xadd (xadd (xmul (XVal.fin e) (if (!critical) then (xsub r1 gM) else (XVal.fin (0)))) gM) (XVal.fin relax)) (XVal.fin nom)) else XVal.pinf))) (XVal.fin thr))) (xmul (XVal.fin (1 / 2)) (xadd (if hasMin then (xdiv (xsub (xadd (xmul (XVal.fin e) (if (!critical) then (xsub r0 gm) else (XVal.fin (0)))) gm) (XVal.fin relax)) (XVal.fin nom)) else (xneg XVal.pinf)) (if hasMax then (xdiv (xadd (xadd (xmul (XVal.fin e) (if (!critical) then (xsub r1 gM) else (XVal.fin (0)))) gM) (XVal.fin relax)) (XVal.fin nom)) else XVal.pinf))) (if hasMax then (xdiv (xadd (xadd (xmul (XVal.fin e) (if (!critical) then (xsub r1 gM) else (XVal.fin (0)))) gM) (XVal.fin relax)) (XVal.fin nom)) else XVal.pinf)) else (if hasMax then (xdiv (xadd (xadd (xmul (XVal.fin e) (if (!critical) then (xsub r1 gM) else (XVal.fin (0)))) gM) (XVal.fin relax)) (XVal.fin nom)) else XVal.pinf)))) (XVal.fin cr)) else (if (fix && (xeqX (XVal.fin relax) (XVal.fin (0)))) then (xdiv (XVal.fin e) (XVal.fin nom)) else (xadd (xdiv (xadd (XVal.fin e) (XVal.fin relax)) (XVal.fin nom)) (XVal.fin cr)))))

theorem hardCriticalGen_eq_model (e : Rat) (gm gM r0 r1 : XVal) (relax nom : Rat)
    (critical hasMin hasMax hasT : Bool) (thr cr : Rat) (vt : XVal) (fix : Bool) (v : Rat) :
    hardCriticalGen e gm gM r0 r1 relax nom critical hasMin hasMax hasT thr cr vt fix v
      = C04.hardElemX e gm gM r0 r1 relax nom critical hasMin hasMax hasT thr cr vt fix v := by
  cases critical <;> cases hasMin <;> cases hasMax <;> cases hasT <;> cases fix <;> rfl

/-- the merge with the constraint already stored for the key, at the end of the method -/
def hardCriticalMergeGen {α : Type} (mx mn : α → α → α) (new : C04.Ivl α) (existing : Option (C04.Ivl α)) : C04.Ivl α :=
  match existing with
  | none => new
  | some ex => C04.updateBoundsWith mx mn new ex false

theorem hardCriticalMergeGen_eq_model {α : Type} (mx mn : α → α → α) (new : C04.Ivl α) (existing : Option (C04.Ivl α)) :
    hardCriticalMergeGen mx mn new existing = C04.mergeNew mx mn new existing := by
  cases existing <;> rfl

def hardFromEpsGen (e : Rat) (gm gM r0 r1 : XVal) (relax nom : Rat) (critical hasMin hasMax hasT : Bool)
    (thr cr : Rat) (vt : XVal) (fix : Bool) (v : Rat) : XVal × XVal :=
  ((if hasT then (xsub (xsel (xlt vt (XVal.fin e)) (xdiv (xsub (XVal.fin v) (XVal.fin relax)) (XVal.fin nom)) (xsel (!(XVal.isFinite gm)) (xneg XVal.pinf) (if (hasMin && hasMax) then (xsel ((!((xIsNan (if hasMin then (xdiv (xsub (xadd (xmul (XVal.fin e) (if (!critical) then (xsub r0 gm) else (XVal.fin (0)))) gm) (XVal.fin relax)) (XVal.fin nom)) else (xneg XVal.pinf))) || (xIsNan (if hasMax then (xdiv (xadd (xadd (xmul (XVal.fin e) (if (!critical) then (xsub r1 gM) else (XVal.fin (0)))) gM) (XVal.fin relax)) (XVal.fin nom)) else XVal.pinf)))) && (xlt (xabs (xsub (if hasMin then (xdiv (xsub (xadd (xmul (XVal.fin e) (if (!critical) then (xsub r0 gm) else (XVal.fin (0)))) gm) (XVal.fin relax)) (XVal.fin nom)) else (xneg XVal.pinf)) (if hasMax then (xdiv (xadd (xadd (xmul (XVal.fin e) (if (!critical) then (xsub r1 gM) else (XVal.fin (0)))) gM) (XVal.fin relax)) (XVal.fin nom)) else XVal.pinf))) (XVal.fin thr))) (xmul (XVal.fin (1 / 2)) (xadd (if hasMin then (xdiv (xsub (xadd (xmul (XVal.fin e) (if (!critical) then (xsub r0 gm) else (XVal.fin (0)))) gm) (XVal.fin relax)) (XVal.fin nom)) else (xneg XVal.pinf)) (if hasMax then (xdiv (xadd (xadd (xmul (XVal.fin e) (if (!critical) then (xsub r1 gM) else (XVal.fin (0)))) gM) (XVal.fin relax)) (XVal.fin nom)) else XVal.pinf))) (if hasMin then (xdiv (xsub (xadd (xmul (XVal.fin e) (if (!critical) then (xsub r0 gm) else (XVal.fin (0)))) gm) (XVal.fin relax)) (XVal.fin nom)) else (xneg XVal.pinf))) else (if hasMin then (xdiv (xsub (xadd (xmul (XVal.fin e) (if (!critical) then (xsub r0 gm) else (XVal.fin (0)))) gm) (XVal.fin relax)) (XVal.fin nom)) else (xneg XVal.pinf))))) (XVal.fin cr)) else (if (fix && (xeqX (XVal.fin relax) (XVal.fin (0)))) then (xdiv (XVal.fin e) (XVal.fin nom)) else (xmul (xneg XVal.pinf) (XVal.fin (1))))),
   (if hasT then (xadd (xsel (xlt vt (XVal.fin e)) (xdiv (xadd (XVal.fin v) (XVal.fin relax)) (XVal.fin nom)) (xsel (!(XVal.isFinite gM)) XVal.pinf (if (hasMin && hasMax) then (xsel ((!((xIsNan (if hasMin then (xdiv (xsub (xadd (xmul (XVal.fin e) (if (!critical) then (xsub r0 gm) else (XVal.fin (0)))) gm) (XVal.fin relax)) (XVal.fin nom)) else (xneg XVal.pinf))) || (xIsNan (if hasMax then (xdiv (xadd (xadd (xmul (XVal.fin e) (if (!critical) then (xsub r1 gM) else (XVal.fin (0)))) gM) (XVal.fin relax)) (XVal.fin nom)) else XVal.pinf)))) && (xlt (xabs (xsub (if hasMin then (xdiv (xsub (xadd (xmul (XVal.fin e) (if (!critical) then (xsub r0 gm) else (XVal.fin (0)))) gm) (XVal.fin relax)) (XVal.fin nom)) else (xneg XVal.pinf)) (if hasMax then (xdiv (xadd (xadd (xmul (XVal.fin e) (if (!critical) then (xsub r1 gM) else (XVal.fin (0)))) gM) (XVal.fin relax)) (XVal.fin nom)) else XVal.pinf))) (XVal.fin thr))) (xmul (XVal.fin (1 / 2)) (xadd (if hasMin then (xdiv (xsub (xadd (xmul (XVal.fin e) (if (!critical) then (xsub r0 gm) else (XVal.fin (0)))) gm) (XVal.fin relax)) (XVal.fin nom)) else (xneg XVal.pinf)) (if hasMax then (xdiv (xadd (xadd (xmul (XVal.fin e) (if (!critical) then (xsub r1 gM) else (XVal.fin (0)))) gM) (XVal.fin relax)) (XVal.fin nom)) else XVal.pinf))) (if hasMax then (xdiv (xadd (xadd (xmul (XVal.fin e) (if (!critical) then (xsub r1 gM) else (XVal.fin (0)))) gM) (XVal.fin relax)) (XVal.fin nom)) else XVal.pinf)) else (if hasMax then (xdiv (xadd (xadd (xmul (XVal.fin e) (if (!critical) then (xsub r1 gM) else (XVal.fin (0)))) gM) (XVal.fin relax)) (XVal.fin nom)) else XVal.pinf)))) (XVal.fin cr)) else (if (fix && (xeqX (XVal.fin relax) (XVal.fin (0)))) then (xdiv (XVal.fin e) (XVal.fin nom)) else (xadd (xdiv (xadd (XVal.fin e) (XVal.fin relax)) (XVal.fin nom)) (XVal.fin cr)))))

theorem hardFromEpsGen_eq_model (e : Rat) (gm gM r0 r1 : XVal) (relax nom : Rat)
    (critical hasMin hasMax hasT : Bool) (thr cr : Rat) (vt : XVal) (fix : Bool) (v : Rat) :
    hardFromEpsGen e gm gM r0 r1 relax nom critical hasMin hasMax hasT thr cr vt fix v
      = C04.hardElemX e gm gM r0 r1 relax nom critical hasMin hasMax hasT thr cr vt fix v := by
  cases critical <;> cases hasMin <;> cases hasMax <;> cases hasT <;> cases fix <;> rfl

/-- the merge with the constraint already stored for the key, at the end of the method -/
def hardMergeGen {α : Type} (mx mn : α → α → α) (new : C04.Ivl α) (existing : Option (C04.Ivl α)) : C04.Ivl α :=
  match existing with
  | none => new
  | some ex => C04.updateBoundsWith mx mn new ex false

theorem hardMergeGen_eq_model {α : Type} (mx mn : α → α → α) (new : C04.Ivl α) (existing : Option (C04.Ivl α)) :
    hardMergeGen mx mn new existing = C04.mergeNew mx mn new existing := by
  cases existing <;> rfl

/-- `_gp_update_constraint_store`: update the stored constraint of the key, or insert -/
def updateStoreGen {α : Type} (mx mn : α → α → α) (stored : Option (C04.Ivl α)) (other : C04.Ivl α) : C04.Ivl α :=
  match stored with
  | some s => C04.updateBoundsWith mx mn s other true
  | none => other

theorem updateStoreGen_eq_model {α : Type} (mx mn : α → α → α) (stored : Option (C04.Ivl α)) (other : C04.Ivl α) :
    updateStoreGen mx mn stored other = C04.mergeStored mx mn stored other := by
  cases stored <;> rfl

end RtcVerif.Gen
