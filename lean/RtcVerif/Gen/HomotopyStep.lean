import RtcVerif.Model.C18Homotopy
import Mathlib.Tactic.Ring
import Mathlib.Algebra.Order.Field.Rat
/-!
GENERATED on every run of the C18 check by harness/translate_c18.py from `HomotopyMixin.optimize`
in /repo/src/rtctools/optimization/homotopy_mixin.py (symbolic execution of the `while` body over
the model's state; the statement table is in the header of the translator).  Do not edit.
The theorems tie the source, read this way, to the model the property theorems of C18 are about.
Proof of `stepGen_eq_model`: definitional unfolding (`rfl`) when the source has the model's shape;
otherwise unfolding + `ring_nf` (the same branches with re-associated arithmetic).
-/
set_option linter.unreachableTactic false
set_option linter.unusedTactic false
namespace RtcVerif.Gen
open RtcVerif.C18

/-- the state when the loop is entered -/
def initGen (o : Opts) : St :=
  { theta := o.thetaStart, delta := o.delta0, acc := none, linear := true, cleared := 0, solves := [] }

/-- one pass through the loop body; `ok` = outcome of this pass's `super().optimize(...)` -/
def stepGen (o : Opts) (s : St) (ok : Bool) : St × Status :=
  let s1 : St := C18.push o s ok
  if ok = true then
    let s2 : St := { s1 with acc := some s1.theta }
    let s3 : St := if s2.theta = 0 then { s2 with linear := false, cleared := s2.cleared + 1 } else s2
    if s3.theta ≥ 1 then
      (s3, .finished true)
    else
      let s4 : St := if (s3.theta + s3.delta) ≥ 1 then { s3 with theta := 1, delta := (1 - s3.theta) } else { s3 with theta := (s3.theta + s3.delta) }
      if s4.theta ≤ 1 then (s4, .running) else (s4, .finished true)
  else
    if s1.theta = o.thetaStart then
      (s1, .finished false)
    else
      let s5 : St := { s1 with theta := (s1.theta - s1.delta), delta := (s1.delta / 2) }
      if s5.delta < o.deltaMin then
        (s5, .finished false)
      else
        let s6 : St := if (s5.theta + s5.delta) ≥ 1 then { s5 with theta := 1, delta := (1 - s5.theta) } else { s5 with theta := (s5.theta + s5.delta) }
        if s6.theta ≤ 1 then (s6, .running) else (s6, .finished false)

/-- the method: first `while` test, then the passes (`none`: the body never runs, `success` unbound) -/
def optimizeGen (o : Opts) (l : List Bool) : Option (St × Option Bool) :=
  if (initGen o).theta ≤ 1 then some (run stepGen o (initGen o) l) else none

theorem initGen_eq_model (o : Opts) : initGen o = C18.init o := rfl

theorem stepGen_eq_model (o : Opts) (s : St) (ok : Bool) : stepGen o s ok = C18.step o s ok := by
  cases ok
  all_goals first
    | rfl
    | (simp only [stepGen, C18.step, C18.push, C18.accept, C18.mark, C18.stepBack, C18.advance, C18.guard]
       ring_nf)
    | (simp only [stepGen, C18.step, C18.push, C18.accept, C18.mark, C18.stepBack, C18.advance, C18.guard]
       repeat' split
       all_goals simp_all)

theorem optimizeGen_eq_model (o : Opts) (l : List Bool) : optimizeGen o l = C18.optimize o l := by
  have h : stepGen = C18.step := by
    funext o s ok; exact stepGen_eq_model o s ok
  have hi : initGen o = C18.init o := rfl
  unfold optimizeGen C18.optimize C18.optimizeWith
  rw [h, hi]
  rfl

end RtcVerif.Gen
