import RtcVerif.Props.C19
/-!
GENERATED on every run of the C19 check by harness/translate_c19.py from
`OptimizationProblem.interpolate`, `OptimizationProblem.__interpolate`
(/repo/src/rtctools/optimization/optimization_problem.py) and `interpolate`
(/repo/src/rtctools/_internal/casadi_helpers.py).  Do not edit.
-/
namespace RtcVerif.Gen.InterpCode
open RtcVerif RtcVerif.Interp RtcVerif.InterpCode

/-- `__interpolate`, scalar query -/
def coreScalarGen (mode : Nat) (ks : Knots) (fl fr : Fill) (t : Rat) : OutC :=
  (if (fl = none) then (if (t < firstTime ks) then OutC.raise else (if (fr = none) then (if (lastTime ks < t) then OutC.raise else (if (mode = 0) then (npInterp ks fl fr t) else (if (mode = 1) then (if (t < firstTime ks) then (fillC fl) else (if (lastTime ks < t) then (fillC fr) else (OutC.val (XVal.fin (atIdx ks (max ((ssRight ks t : Int) - 1) 0)))))) else (if (mode = 2) then (if (t < firstTime ks) then (fillC fl) else (if (lastTime ks < t) then (fillC fr) else (OutC.val (XVal.fin (atIdx ks (min (ssLeft ks t : Int) ((ks.length : Int) - 1))))))) else OutC.raise)))) else (if (mode = 0) then (npInterp ks fl fr t) else (if (mode = 1) then (if (t < firstTime ks) then (fillC fl) else (if (lastTime ks < t) then (fillC fr) else (OutC.val (XVal.fin (atIdx ks (max ((ssRight ks t : Int) - 1) 0)))))) else (if (mode = 2) then (if (t < firstTime ks) then (fillC fl) else (if (lastTime ks < t) then (fillC fr) else (OutC.val (XVal.fin (atIdx ks (min (ssLeft ks t : Int) ((ks.length : Int) - 1))))))) else OutC.raise))))) else (if (fr = none) then (if (lastTime ks < t) then OutC.raise else (if (mode = 0) then (npInterp ks fl fr t) else (if (mode = 1) then (if (t < firstTime ks) then (fillC fl) else (if (lastTime ks < t) then (fillC fr) else (OutC.val (XVal.fin (atIdx ks (max ((ssRight ks t : Int) - 1) 0)))))) else (if (mode = 2) then (if (t < firstTime ks) then (fillC fl) else (if (lastTime ks < t) then (fillC fr) else (OutC.val (XVal.fin (atIdx ks (min (ssLeft ks t : Int) ((ks.length : Int) - 1))))))) else OutC.raise)))) else (if (mode = 0) then (npInterp ks fl fr t) else (if (mode = 1) then (if (t < firstTime ks) then (fillC fl) else (if (lastTime ks < t) then (fillC fr) else (OutC.val (XVal.fin (atIdx ks (max ((ssRight ks t : Int) - 1) 0)))))) else (if (mode = 2) then (if (t < firstTime ks) then (fillC fl) else (if (lastTime ks < t) then (fillC fr) else (OutC.val (XVal.fin (atIdx ks (min (ssLeft ks t : Int) ((ks.length : Int) - 1))))))) else OutC.raise)))))

/-- `__interpolate`, one element of an array query -/
def coreElemGen (mode : Nat) (ks : Knots) (fl fr : Fill) (t : Rat) : OutC :=
  (if (fl = none) then (if (t < firstTime ks) then OutC.raise else (if (fr = none) then (if (lastTime ks < t) then OutC.raise else (if (mode = 0) then (npInterp ks fl fr t) else (if (mode = 1) then (if (lastTime ks < t) then (fillC fr) else (if (t < firstTime ks) then (fillC fl) else (OutC.val (XVal.fin (atIdx ks (max ((ssRight ks t : Int) - 1) 0)))))) else (if (mode = 2) then (if (lastTime ks < t) then (fillC fr) else (if (t < firstTime ks) then (fillC fl) else (OutC.val (XVal.fin (atIdx ks (min (ssLeft ks t : Int) ((ks.length : Int) - 1))))))) else OutC.raise)))) else (if (mode = 0) then (npInterp ks fl fr t) else (if (mode = 1) then (if (lastTime ks < t) then (fillC fr) else (if (t < firstTime ks) then (fillC fl) else (OutC.val (XVal.fin (atIdx ks (max ((ssRight ks t : Int) - 1) 0)))))) else (if (mode = 2) then (if (lastTime ks < t) then (fillC fr) else (if (t < firstTime ks) then (fillC fl) else (OutC.val (XVal.fin (atIdx ks (min (ssLeft ks t : Int) ((ks.length : Int) - 1))))))) else OutC.raise))))) else (if (fr = none) then (if (lastTime ks < t) then OutC.raise else (if (mode = 0) then (npInterp ks fl fr t) else (if (mode = 1) then (if (lastTime ks < t) then (fillC fr) else (if (t < firstTime ks) then (fillC fl) else (OutC.val (XVal.fin (atIdx ks (max ((ssRight ks t : Int) - 1) 0)))))) else (if (mode = 2) then (if (lastTime ks < t) then (fillC fr) else (if (t < firstTime ks) then (fillC fl) else (OutC.val (XVal.fin (atIdx ks (min (ssLeft ks t : Int) ((ks.length : Int) - 1))))))) else OutC.raise)))) else (if (mode = 0) then (npInterp ks fl fr t) else (if (mode = 1) then (if (lastTime ks < t) then (fillC fr) else (if (t < firstTime ks) then (fillC fl) else (OutC.val (XVal.fin (atIdx ks (max ((ssRight ks t : Int) - 1) 0)))))) else (if (mode = 2) then (if (lastTime ks < t) then (fillC fr) else (if (t < firstTime ks) then (fillC fl) else (OutC.val (XVal.fin (atIdx ks (min (ssLeft ks t : Int) ((ks.length : Int) - 1))))))) else OutC.raise)))))

/-- `interpolate`, scalar query, 1-D values -/
def interpScalarGen (mode : Nat) (ks : Knots) (fl fr : Fill) (t : Rat) : OutC :=
  (if (firstTime ks = t) then (OutC.val (XVal.fin (firstVal ks))) else (coreScalarGen mode ks fl fr t))

/-- `interpolate`, array query, 1-D values -/
def interpArrayGen (mode : Nat) (ks : Knots) (fl fr : Fill) (qs : List Rat) : Option (List XVal) :=
  (if ((qs.length = ks.length) ∧ (qs = ks.map (·.1))) then (some (ks.map (fun k => XVal.fin k.2))) else (sequenceC (qs.map (coreElemGen mode ks fl fr))))

/-- `casadi_helpers.interpolate` -/
def interpSymGen (mode : Nat) (ks : Knots) (t : Rat) : Out :=
  (if mode = 0 then (interp1d "linear" ks t) else (if mode = 1 then (interp1d "floor" ks t) else (interp1d "ceil" ks t)))

theorem coreScalarGen_eq_ref (mode : Nat) (ks : Knots) (fl fr : Fill) (t : Rat) :
    coreScalarGen mode ks fl fr t = coreRef false mode ks fl fr t := by
  unfold coreScalarGen coreRef fillsRef
  by_cases h1 : t < firstTime ks <;> by_cases h2 : lastTime ks < t <;> cases fl <;> cases fr <;>
    obtain _ | _ | _ | n := mode <;> simp [h1, h2]

theorem coreElemGen_eq_ref (mode : Nat) (ks : Knots) (fl fr : Fill) (t : Rat) :
    coreElemGen mode ks fl fr t = coreRef true mode ks fl fr t := by
  unfold coreElemGen coreRef fillsRef
  by_cases h1 : t < firstTime ks <;> by_cases h2 : lastTime ks < t <;> cases fl <;> cases fr <;>
    obtain _ | _ | _ | n := mode <;> simp [h1, h2]

/-- the code of `__interpolate`, as it is in the source now, computes the model's `interpCore` -/
theorem coreGen_eq_model (mode : Nat) (ks : Knots) (fl fr : Fill) (t : Rat)
    (hne : ks ≠ []) (hfl : firstTime ks ≤ lastTime ks) :
    coreScalarGen mode ks fl fr t = embed (interpCore mode ks fl fr t) ∧
    coreElemGen mode ks fl fr t = embed (interpCore mode ks fl fr t) := by
  rw [coreScalarGen_eq_ref, coreElemGen_eq_ref]
  exact ⟨C19.code_core_is_model false mode ks fl fr t hne hfl, C19.code_core_is_model true mode ks fl fr t hne hfl⟩

/-- the code of `interpolate` (scalar query), as it is in the source now, computes the model's `interpScalar` -/
theorem interpScalarGen_eq_model (mode : Nat) (ks : Knots) (fl fr : Fill) (t : Rat)
    (hne : ks ≠ []) (hfl : firstTime ks ≤ lastTime ks) :
    interpScalarGen mode ks fl fr t = embed (interpScalar mode ks fl fr t) := by
  rw [← C19.code_scalar_is_model mode ks fl fr t hne hfl]
  unfold interpScalarGen scalarRef
  by_cases h : firstTime ks = t <;> simp [h, coreScalarGen_eq_ref]

/-- the code of `interpolate` (array query), as it is in the source now, computes the model's `interpArray` -/
theorem interpArrayGen_eq_model (mode : Nat) (ks : Knots) (fl fr : Fill) (qs : List Rat)
    (hne : ks ≠ []) (hfl : firstTime ks ≤ lastTime ks) :
    interpArrayGen mode ks fl fr qs = interpArray mode ks fl fr qs := by
  rw [← C19.code_array_is_model mode ks fl fr qs hne hfl]
  unfold interpArrayGen arrayRef
  have hc : coreElemGen mode ks fl fr = coreRef true mode ks fl fr := funext (coreElemGen_eq_ref mode ks fl fr)
  by_cases h : qs = ks.map (·.1) <;> simp [h, hc]

/-- the symbolic wrapper, as it is in the source now, is the model's symbolic interpolant -/
theorem interpSymGen_eq_model (mode : Nat) (hm : mode ≤ 2) (ks : Knots) (t : Rat) :
    interpSymGen mode ks t = interpSym mode ks t := by
  rw [← C19.code_sym_is_model mode hm ks t]
  match mode, hm with
  | 0, _ => rfl
  | 1, _ => rfl
  | 2, _ => rfl

end RtcVerif.Gen.InterpCode
