import RtcVerif.Gen.InterpCode
/-!
GENERATED on every run of the C19 check by harness/translate_c19.py (`gen_interp_cols`) from the 2-D values
branch of `OptimizationProblem.interpolate` (/repo/src/rtctools/optimization/optimization_problem.py).
Do not edit.
-/
namespace RtcVerif.Gen.InterpCols
open RtcVerif RtcVerif.Interp RtcVerif.InterpCode RtcVerif.Gen.InterpCode

/-- `interpolate`, 2-D values, scalar query -/
def colsScalarGen (mode : Nat) (ts : List Rat) (cols : List Knots) (fl fr : Fill) (t : Rat) : Option (List XVal) :=
  (stackC (cols.map (fun ks => interpScalarGen mode ks fl fr t)))

/-- `interpolate`, 2-D values, array query -/
def colsArrayGen (mode : Nat) (ts : List Rat) (cols : List Knots) (fl fr : Fill) (qs : List Rat) :
    Option (List (List XVal)) :=
  (if ((qs.length = ts.length) ∧ (qs = ts)) then (some (cols.map fun ks => ks.map fun k => XVal.fin k.2)) else (stackA (cols.map (fun ks => interpArrayGen mode ks fl fr qs))))

theorem colsScalarGen_eq_ref (mode : Nat) (ts : List Rat) (cols : List Knots) (fl fr : Fill) (t : Rat) :
    colsScalarGen mode ts cols fl fr t = colsScalarRef mode cols fl fr t := by
  have h1 : ∀ ks, interpScalarGen mode ks fl fr t = scalarRef mode ks fl fr t := by
    intro ks
    unfold interpScalarGen scalarRef
    by_cases h : firstTime ks = t <;> simp [h, coreScalarGen_eq_ref]
  unfold colsScalarGen colsScalarRef
  simp only [h1]

theorem colsArrayGen_eq_ref (mode : Nat) (ts : List Rat) (cols : List Knots) (fl fr : Fill) (qs : List Rat) :
    colsArrayGen mode ts cols fl fr qs = colsArrayRef mode ts cols fl fr qs := by
  have hc : coreElemGen mode = coreRef true mode := by
    funext ks fl fr t; exact coreElemGen_eq_ref mode ks fl fr t
  have h1 : ∀ ks, interpArrayGen mode ks fl fr qs = arrayRef mode ks fl fr qs := by
    intro ks
    unfold interpArrayGen arrayRef
    by_cases h : qs = ks.map (·.1) <;> simp [h, hc]
  unfold colsArrayGen colsArrayRef
  by_cases h : qs = ts <;> simp [h, h1]

/-- the 2-D branch as it is in the source now (scalar query, the F20 repair) is the column-wise model -/
theorem colsScalarGen_eq_model (mode : Nat) (ts : List Rat) (cols : List Knots) (fl fr : Fill) (t : Rat)
    (h : ColsOK ts cols) :
    colsScalarGen mode ts cols fl fr t = interpColumnsScalar mode cols fl fr t := by
  rw [colsScalarGen_eq_ref]
  exact C19.code_cols_scalar_is_model mode ts cols fl fr t h

/-- the 2-D branch as it is in the source now (array query) is the column-wise model `interpColumns`
    (`interp_columnwise`) -/
theorem colsArrayGen_eq_model (mode : Nat) (ts : List Rat) (cols : List Knots) (fl fr : Fill) (qs : List Rat)
    (h : ColsOK ts cols) :
    colsArrayGen mode ts cols fl fr qs = interpColumns mode cols fl fr qs := by
  rw [colsArrayGen_eq_ref]
  exact C19.code_cols_array_is_model mode ts cols fl fr qs h

end RtcVerif.Gen.InterpCols
