import RtcVerif.Model.C12
import RtcVerif.Proofs.C12Ref
/-!
GENERATED on every run of the C12 check by harness/translate_c12.py from the tree under check
(storage.py, optimization/io_mixin.py, csv_mixin.py, pi_mixin.py).  Do not edit.  The `…Gen`
definitions are the source read through the construct table in the translator's header; the
theorems tie them to the model functions the C12 theorems are about.
-/
set_option linter.unusedVariables false
set_option linter.unreachableTactic false
set_option linter.unusedTactic false
namespace RtcVerif.Gen
open RtcVerif RtcVerif.C12

def timesMapGen (d : List Int) (t0 : Int) : List Int := d.map (fun t => t - t0)

theorem timesMapGen_eq_model (d : List Int) (t0 : Int) (h : t0 ∈ d) :
    C12.timesSec d t0 = some (timesMapGen d t0) := by
  unfold C12.timesSec timesMapGen
  rw [if_pos h]

def growGen (st : Store) (n : Nat) : Store := st ++ List.replicate (n - st.length) []

theorem growGen_eq_model (st : Store) (n : Nat) : growGen st n = C12.grow st n := rfl

def horizonGen (ts : List Int) : List Int := ts.drop ((bisectLeft ts 0))

theorem horizonGen_eq_model (ts : List Int) : horizonGen ts = C12.horizon ts := rfl

def historyGen (ts : List Int) (vals : List XVal) : List Int × List XVal := (ts.take ((bisectLeft ts 0) + 1), vals.take ((bisectLeft ts 0) + 1))

theorem historyGen_eq_model (ts : List Int) (vals : List XVal) : historyGen ts vals = C12.history ts vals := rfl

def setTsGen (ts : List Int) (arg : Arg) (check : Bool) : Option (List XVal) :=
  match arg with
  | .ts times values => (if values.length ≠ times.length then none else (if ¬ (ts = times) then (if check = true then (if ¬ ((times.all (fun t => ts.contains t)) = true) then none else (match times with | [] => none | t0 :: _ => (if (times.all (fun t => ts.contains t)) = true then some (scatter ts times values (nans ts.length)) else stretch ts.length (bisectLeft ts t0) values))) else (match times with | [] => none | t0 :: _ => (if (times.all (fun t => ts.contains t)) = true then some (scatter ts times values (nans ts.length)) else stretch ts.length (bisectLeft ts t0) values))) else some values))
  | .arr values => (if check = true then (if (horizon ts).length ≠ values.length then none else (if ¬ (((horizon ts).all (fun t => ts.contains t)) = true) then none else stretch ts.length (bisectLeft ts 0) values)) else stretch ts.length (bisectLeft ts 0) values)

theorem setTsGen_eq_model (ts : List Int) (arg : Arg) (check : Bool) :
    setTsGen ts arg check = C12.setTs ts arg check := by
  have h : setTsGen ts arg check = C12.setTsRef ts arg check := by
    first
      | rfl
      | (cases arg <;> rfl)
      | (cases arg <;> cases check <;> simp only [setTsGen, C12.setTsRef] <;> rfl)
  rw [h, C12.setTsRef_eq]

def csvStampsGen (ref : Int) (ts : List Int) : List Int := (horizon ts).map (fun s => ref + s)

theorem csvStampsGen_eq_model (ref : Int) (ts : List Int) : csvStampsGen ref ts = C12.exportStamps ref ts := by
  unfold csvStampsGen C12.exportStamps
  apply List.map_congr_left
  intro s _
  omega

def piStampsGen (ref : Int) (ts : List Int) : List Int := (horizon ts).map (fun s => ref + s)

theorem piStampsGen_eq_model (ref : Int) (ts : List Int) : piStampsGen ref ts = C12.exportStamps ref ts := by
  unfold piStampsGen C12.exportStamps
  apply List.map_congr_left
  intro s _
  omega

def piDtGen (hor : List Int) : Option Int := if (diffs hor).eraseDups.length = 1 then some (hor.getD 1 0 - hor.getD 0 0) else none

theorem piDtGen_eq_model (hor : List Int) : piDtGen hor = C12.exportDt hor := rfl

end RtcVerif.Gen
