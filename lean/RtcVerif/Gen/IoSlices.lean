import RtcVerif.Model.C12Io
import RtcVerif.Proofs.C12Io
/-!
GENERATED on every run of the C12 check by harness/translate_c12.py (`gen_io_slices`) from the tree
under check (optimization/io_mixin.py, simulation/io_mixin.py, data/storage.py).  Do not edit.
-/
set_option linter.unusedVariables false
set_option linter.unreachableTactic false
set_option linter.unusedTactic false
set_option linter.unusedSimpArgs false
namespace RtcVerif.Gen
open RtcVerif RtcVerif.C12

def boundsEntryGen {β : Type} (ts : List Int) (get : Getter) (big : Rat) (parent : Option β) :
    Entry β (Option Ser × Option Ser) := (if ((match (match (get 0 Key.min) with | none => none | some vals => some (vals.drop ((bisectLeft ts 0)))) with | none => none | some a => some ((ts.drop ((bisectLeft ts 0))), (a.map (replNan (-big))))).isSome || (match (match (get 0 Key.max) with | none => none | some vals => some (vals.drop ((bisectLeft ts 0)))) with | none => none | some a => some ((ts.drop ((bisectLeft ts 0))), (a.map (replNan big)))).isSome) = true then Entry.io ((match (match (get 0 Key.min) with | none => none | some vals => some (vals.drop ((bisectLeft ts 0)))) with | none => none | some a => some ((ts.drop ((bisectLeft ts 0))), (a.map (replNan (-big))))), (match (match (get 0 Key.max) with | none => none | some vals => some (vals.drop ((bisectLeft ts 0)))) with | none => none | some a => some ((ts.drop ((bisectLeft ts 0))), (a.map (replNan big))))) else Entry.inherited parent)

theorem boundsEntryGen_eq_model {β : Type} (ts : List Int) (get : Getter) (big : Rat) (parent : Option β) :
    boundsEntryGen ts get big parent = C12.boundsEntry ts get big parent := by
  unfold boundsEntryGen C12.boundsEntry C12.boundSide C12.boundSeries
  cases h1 : get 0 Key.min <;> cases h2 : get 0 Key.max <;> simp [C12.replNan_def, h1, h2]

def boundsStoreGen (ts : List Int) (vals : List XVal) (lower : Bool) (big : Rat) : List XVal :=
  if lower then vals else vals

theorem boundsStoreGen_eq_model (ts : List Int) (vals : List XVal) (lower : Bool) (big : Rat) :
    boundsStoreGen ts vals lower big = C12.boundsStoreAfter ts vals lower big := by
  cases lower <;> rfl

def boundsRolesGen : List Role := [Role.freeVariables]

theorem boundsRolesGen_eq_model : boundsRolesGen = C12.boundsRoles := rfl

def historyEntryGen {β : Type} (ts : List Int) (get : Getter) (m : Nat) (parent : Option β) : Entry β Ser := (match (get m Key.var) with | none => Entry.inherited parent | some vals => Entry.io ((ts.take ((bisectLeft ts 0) + 1)), (vals.take ((bisectLeft ts 0) + 1))))

theorem historyEntryGen_eq_model {β : Type} (ts : List Int) (get : Getter) (m : Nat) (parent : Option β) :
    historyEntryGen ts get m parent = C12.historyEntry ts get m parent := by
  unfold historyEntryGen C12.historyEntry C12.history C12.histLen
  cases get m Key.var <;> rfl

def historyRolesGen : List Role := [Role.states, Role.algebraics, Role.controlInputs, Role.constantInputs]

theorem historyRolesGen_eq_model : historyRolesGen = C12.historyRoles := rfl

def seedEntryGen {β : Type} (ts : List Int) (get : Getter) (m : Nat) (parent : Option β) : Entry β Ser := (match (get m Key.var) with | none => Entry.inherited parent | some vals => Entry.io ((ts, vals).1, (ts, vals).2.map (replNan 0)))

theorem seedEntryGen_eq_model {β : Type} (ts : List Int) (get : Getter) (m : Nat) (parent : Option β) :
    seedEntryGen ts get m parent = C12.seedEntry ts get m parent := by
  unfold seedEntryGen C12.seedEntry
  cases get m Key.var <;> rfl

def seedRolesGen : List Role := [Role.freeVariables]

theorem seedRolesGen_eq_model : seedRolesGen = C12.seedRoles := rfl

def constInputEntryGen {β : Type} (ts : List Int) (get : Getter) (m : Nat) (parent : Option β) :
    Option (Entry β Ser) := (match (get m Key.var) with | none => some (Entry.inherited parent) | some vals => (if ((maskSel ((ts, vals).1.map (fun t => decide (t ≥ 0))) (ts, vals).2).any (fun v => decide (v = XVal.nan))) = true then none else some (Entry.io (ts, vals))))

theorem constInputEntryGen_eq_model {β : Type} (ts : List Int) (get : Getter) (m : Nat) (parent : Option β) :
    constInputEntryGen ts get m parent = C12.constInputEntry ts get m parent := by
  unfold constInputEntryGen C12.constInputEntry
  cases get m Key.var <;> rfl

def constInputRolesGen : List Role := [Role.constantInputs]

theorem constInputRolesGen_eq_model : constInputRolesGen = C12.constInputRoles := rfl

def parametersGen {α : Type} (parent io : List (Nat × α)) : List (Nat × α) := io.foldl (fun acc kv => aset kv.1 kv.2 acc) parent

theorem parametersGen_eq_model {α : Type} (parent io : List (Nat × α)) :
    parametersGen parent io = C12.parametersMerge parent io := rfl

def ioSetGen (n : Nat) (st : Store) (m v : Nat) (x : List XVal) : Option Store := if n ≠ x.length then none else some ((if m ≥ st.length then grow' st (m + 1) else st).modify m (sset v x))

theorem ioSetGen_eq_model (n : Nat) (st : Store) (m v : Nat) (x : List XVal) :
    ioSetGen n st m v x = C12.ioSet n st m v x := by
  rw [← C12.ioSetRef_eq]
  unfold ioSetGen C12.ioSetRef
  first
    | rfl
    | (by_cases h : n = x.length <;> simp [h, Nat.add_comm, eq_comm])

def ioGetGen (st : Store) (m v : Nat) : Option (List XVal) := if m ≥ st.length then none else (st[m]?).bind (sget v)

theorem ioGetGen_eq_model (st : Store) (m v : Nat) : ioGetGen st m v = C12.ioGet st m v := by
  rw [← C12.ioGetRef_eq]
  rfl

def simInitGen (ts : List Int) : Option SimSt :=
  match ts with
  | a :: b :: _ => some { dtImport := b - a, time := 0, stamps := [0], fed := [((bisectLeft ts 0), 0)], recorded := [0] }
  | _ => none

theorem simInitGen_eq_model (ts : List Int) : simInitGen ts = C12.simInit ts := rfl

def simUpdateGen (ts : List Int) (s : SimSt) (dtArg : Int) : SimSt :=
  { s with time := (s.time + (if dtArg < 0 then s.dtImport else dtArg)), stamps := s.stamps ++ [(s.time + (if dtArg < 0 then s.dtImport else dtArg))], fed := s.fed ++ [((bisectLeft ts (s.time + (if dtArg < 0 then s.dtImport else dtArg))), s.time)],
           recorded := s.recorded ++ [(s.time + (if dtArg < 0 then s.dtImport else dtArg))] }

theorem simUpdateGen_eq_model (ts : List Int) (s : SimSt) (dtArg : Int) :
    simUpdateGen ts s dtArg = C12.simUpdate ts s dtArg := by
  first
    | rfl
    | (simp only [simUpdateGen, C12.simUpdate, Int.add_comm])

def feedValueGen (vals : List XVal) (idx : Nat) : Option (Option XVal) := match vals[idx]? with | none => none | some v => some (if v.isFinite then some v else none)

theorem feedValueGen_eq_model (vals : List XVal) (idx : Nat) : feedValueGen vals idx = C12.feedValue vals idx := rfl

end RtcVerif.Gen
