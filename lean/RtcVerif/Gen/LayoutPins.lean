import RtcVerif.Model.C05Layout
import RtcVerif.Proofs.C05Layout
/-!
GENERATED on every run of the C05 check by harness/translate_c05.py from `discretize_states`,
`discretize_control`, `discretize_controls` and two fragments of `transcribe()` (the merge of the index
tables; the history-pin and initial-derivative loops) in
/repo/src/rtctools/optimization/collocated_integrated_optimization_problem.py (the construct table is in
the translator).  Do not edit.  The `…_eq_model` theorems tie the source, read this way, to the
reference definitions `RtcVerif.C05.L`; the `…_is_…` theorems (through `Proofs/C05Layout.lean`) to the
model functions `stateIndex`, `ctrlIndex`, `pinIndex`, `derIndex`, `applyPins`, `derPin` of the C05 theorems.
-/
set_option linter.unusedVariables false
namespace RtcVerif.Gen.LayoutPins
open RtcVerif RtcVerif.C05

/-- `ensemble_member_size` of `discretize_states` -/
def memberSizeGen (I : Inst) : Nat :=
  let s := 0
  let s := L.accum (I.states ++ I.algs) (fun b => b.n * b.size) s
  let s := L.accum I.paths (fun b => b.n * b.size) s
  let s := L.accum I.extras (fun b => b.size) s
  let s := s + I.states.length
  s

/-- `count` of `discretize_states` -/
def stateCountGen (I : Inst) : Nat := I.E * memberSizeGen I

/-- `indices[m]` of `discretize_states`, in insertion order -/
def stateSlotsGen (I : Inst) (m : Nat) : List L.Slot :=
  let offset := m * memberSizeGen I
  let r1 := L.alloc (fun b offset => L.Slot.slice (offset) (offset + b.n * b.size)) (fun b => b.n * b.size) (I.states ++ I.algs) offset
  let r2 := L.alloc (fun b offset => L.Slot.slice (offset) (offset + b.n * b.size)) (fun b => b.n * b.size) I.paths r1.2
  let r3 := L.alloc (fun b offset => L.Slot.slice (offset) (offset + b.size)) (fun b => b.size) I.extras r2.2
  let r4 := L.alloc (fun b offset => L.Slot.int (offset)) (fun b => 1) (L.derBlocks I) r3.2
  r1.1 ++ r2.1 ++ r3.1 ++ r4.1

/-- the shift of a state index in the merge of `transcribe()` -/
def shiftGen (controlSize : Nat) : L.Slot → L.Slot
  | .slice s e => .slice (s + controlSize) (e + controlSize)
  | .int i => .int (i + controlSize)

/-- `discretize_control(variable, ensemble_member, times, offset)`, `ntimes = len(times)` -/
def discretizeControlGen (cache : L.Cache) (var ntimes offset : Nat) : L.Slot × L.Cache :=
  match cache.lookup var with
  | some s => (s, cache)
  | none => (L.Slot.slice (offset) (offset + ntimes), (var, L.Slot.slice (offset) (offset + ntimes)) :: cache)

/-- body of the member loop of `discretize_controls` -/
def ctrlStepGen (b : Blk) (var : Nat) (st : L.CSt) : L.Slot × L.CSt :=
  let r := discretizeControlGen st.cache var b.n st.count
  (r.1, { cache := r.2, count := max st.count r.1.stop })

/-- loop nest of `discretize_controls` (controls outside, members inside; cache and count start empty / 0) -/
def ctrlSlotsGen (I : Inst) : List (List L.Slot) × Nat :=
  let r := L.ctrlNest I.E ctrlStepGen I.controls 0 { cache := [], count := 0 }
  (r.1, r.2.count)

/-- `self.__indices[m][v]` after the merge, `v` the `k`-th variable of the history-pin loop -/
def pinSlotGen (I : Inst) (m k : Nat) : Option L.Slot :=
  let ns := I.states.length + I.algs.length
  if k < ns then ((stateSlotsGen I m)[k]?).map (shiftGen (ctrlSlotsGen I).2)
  else ((ctrlSlotsGen I).1[k - ns]?).bind (·[m]?)

/-- `self.__indices[m][initial_der_name]` of the `i`-th differentiated state -/
def derSlotGen (I : Inst) (m i : Nat) : Option L.Slot :=
  ((stateSlotsGen I m)[I.states.length + I.algs.length + I.paths.length + I.extras.length + i]?).map
    (shiftGen (ctrlSlotsGen I).2)

/-- iteration order of the history-pin loop -/
def pinVarsGen (I : Inst) : List Blk := I.states ++ I.algs ++ I.controls

/-- one iteration of the history-pin loop; `idx` = first entry of the variable's indices -/
def pinStepGen (t0 : Rat) (b : Blk) (h : Option Hist) (idx : Nat) (lbx ubx : List XVal) :
    Option (List XVal × List XVal) :=
  match h with
  | none => some (lbx, ubx)
  | some h =>
    match L.interpolate b h XVal.nan XVal.nan t0 with
    | none => none
    | some v_val =>
      let v_val := xdivPos v_val (L.nominal b)
      if ¬ (L.isnan v_val = true) then
        some (lbx.set idx v_val, ubx.set idx v_val)
      else some (lbx, ubx)

/-- one iteration of the initial-derivative loop; `nomDer` = nominal of the initial derivative -/
def derStepGen (t0 : Rat) (b : Blk) (h : Option Hist) (nomDer : Rat) : DerPin :=
  match h with
  | none => DerPin.free
  | some h =>
    if h.times.length ≤ 1 ∨ L.isnan (L.valAt2 h) = true then DerPin.free
    else
      if ¬ (L.timeAt1 h = some t0) then DerPin.raise
      else
        if L.isnan (L.valAt1 h) = true then
          DerPin.symbolic
        else
          match L.interpolate b h XVal.nan XVal.nan t0 with
          | none => DerPin.raise
          | some v_t0_val =>
            let v_val := L.backDiff v_t0_val (L.valAt2 h) (L.timeAt2 h) t0
            let v_val := L.divNom v_val nomDer
            L.pinOf v_val

/-- the nominal of the initial derivative of one state; `h0` = its entry in `self.history(0)` -/
def derNominalGen (b : Blk) (h0 : Option Hist) : Option Rat :=
  if b.times.length > 1 then
    match h0 with
    | none =>
      if ((b.times[1]?).getD 0 - (b.times[0]?).getD 0) > 0 then
        some ((L.nominal b / ((b.times[1]?).getD 0 - (b.times[0]?).getD 0)))
      else
        some (L.nominal b)
    | some h =>
      if h.times[0]? = b.times[0]? ∨ h.vals.length = 1 then
        if ((b.times[1]?).getD 0 - (b.times[0]?).getD 0) > 0 then
          some ((L.nominal b / ((b.times[1]?).getD 0 - (b.times[0]?).getD 0)))
        else
          some (L.nominal b)
      else
        if ¬ (L.last1 h.times = b.times[0]?) then none
        else
          if ((L.last1 h.times).getD 0 - (L.last2 h.times).getD 0) > 0 then
            some ((L.nominal b / ((L.last1 h.times).getD 0 - (L.last2 h.times).getD 0)))
          else
            some (L.nominal b)
  else
    match h0 with
    | none =>
      if (0 : Rat) > 0 then
        some ((L.nominal b / (0 : Rat)))
      else
        some (L.nominal b)
    | some h =>
      if h.times[0]? = b.times[0]? ∨ h.vals.length = 1 then
        if (0 : Rat) > 0 then
          some ((L.nominal b / (0 : Rat)))
        else
          some (L.nominal b)
      else
        if ¬ (L.last1 h.times = b.times[0]?) then none
        else
          if ((L.last1 h.times).getD 0 - (L.last2 h.times).getD 0) > 0 then
            some ((L.nominal b / ((L.last1 h.times).getD 0 - (L.last2 h.times).getD 0)))
          else
            some (L.nominal b)

theorem memberSizeGen_eq_model (I : Inst) :
    memberSizeGen I = L.memberSizeK I ∧ stateCountGen I = L.stateCountK I := ⟨rfl, rfl⟩

theorem stateSlotsGen_eq_model (I : Inst) (m : Nat) : stateSlotsGen I m = L.stateSlotsK I m := rfl

theorem shiftGen_eq_model (k : Nat) (s : L.Slot) : shiftGen k s = L.shiftK k s := by
  cases s <;> rfl

theorem discretizeControlGen_eq_model (cache : L.Cache) (var ntimes offset : Nat) :
    discretizeControlGen cache var ntimes offset = L.discretizeControlK cache var ntimes offset := rfl

theorem ctrlSlotsGen_eq_model (I : Inst) : ctrlSlotsGen I = L.ctrlSlotsK I := rfl

theorem pinVarsGen_eq_model (I : Inst) : pinVarsGen I = C05.pinVars I := by
  simp [pinVarsGen, C05.pinVars]

theorem pinStepGen_eq_model (t0 : Rat) (b : Blk) (h : Option Hist) (idx : Nat) (lbx ubx : List XVal) :
    pinStepGen t0 b h idx lbx ubx = L.pinStepK t0 b h idx lbx ubx := rfl

theorem derStepGen_eq_model (t0 : Rat) (b : Blk) (h : Option Hist) (nomDer : Rat) :
    derStepGen t0 b h nomDer = L.derStepK t0 b h nomDer := rfl

theorem derNominalGen_eq_model (b : Blk) (h0 : Option Hist) : derNominalGen b h0 = L.derNominalK b h0 := rfl

/-- the nominal the initial-derivative pin is divided by is the model's `derNominal` -/
theorem derNominalGen_is_derNominal (b : Blk) (h0 : Option Hist) : derNominalGen b h0 = derNominal b h0 :=
  L.derNominalK_eq b h0

private theorem shiftGen_fun (k : Nat) : shiftGen k = L.shiftK k := funext (shiftGen_eq_model k)

/-- the index table built by the source is the layout model of `stateIndex_range / injective / surjective` -/
theorem layoutGen_is_stateIndex (I : Inst) (m j : Nat) (b : Blk) (hE : 0 < I.E)
    (hsz : ∀ b ∈ I.controls, b.size = 1) (hex : L.ExtrasOneStamp I) (hb : (stateBlocks I)[j]? = some b) :
    memberSizeGen I = memberSize I ∧
    ∃ s, ((stateSlotsGen I m)[j]?).map (shiftGen (ctrlSlotsGen I).2) = some s ∧ s.stop = s.first + b.len ∧
      ∀ c i, s.first + (c * b.n + i) = stateIndex I m j c i := by
  rw [shiftGen_fun]
  exact ⟨L.memberSizeK_eq I hex, L.stateSlot_is_stateIndex I m j b hE hsz hex hb⟩

/-- ... and of `ctrlIndex_*` (one shared slice per control) -/
theorem layoutGen_is_ctrlIndex (I : Inst) (hE : 0 < I.E) (hsz : ∀ b ∈ I.controls, b.size = 1)
    (m j : Nat) (b : Blk) (hm : m < I.E) (hb : I.controls[j]? = some b) :
    (ctrlSlotsGen I).2 = ctrlSize I ∧
    ∃ s, ((ctrlSlotsGen I).1[j]?).bind (·[m]?) = some s ∧ s.stop = s.first + b.n ∧
      ∀ i, s.first + i = ctrlIndex I j i :=
  L.ctrlSlot_is_ctrlIndex I hE hsz m j b hm hb

/-- the entry the history pin writes is the model's `pinIndex`, the pin is one step of `applyPins` -/
theorem pinGen_is_applyPins (I : Inst) (m k : Nat) (b : Blk) (h : Option Hist) (lo hi : List XVal)
    (hE : 0 < I.E) (hm : m < I.E) (hex : L.ExtrasOneStamp I) (hsz : ∀ b ∈ I.controls, b.size = 1)
    (hk : k < (pinVarsGen I).length) :
    ∃ s, pinSlotGen I m k = some s ∧ s.first = pinIndex I m k ∧
      pinStepGen I.t0 b h s.first lo hi = applyPins I m [(b, h)] k (lo, hi) := by
  rw [pinVarsGen_eq_model] at hk
  obtain ⟨s, h1, h2⟩ := L.pinSlot_first I m k hE hm hex hsz hk
  refine ⟨s, ?_, h2, ?_⟩
  · unfold pinSlotGen; rw [shiftGen_fun]; exact h1
  · rw [h2]; exact L.pinStepK_eq I m k b h lo hi

/-- the initial-derivative iteration is the model's `derPin`, written at the model's `derIndex` -/
theorem derGen_is_derPin (I : Inst) (m i : Nat) (b : Blk) (h : Option Hist) (nomDer : Rat)
    (hE : 0 < I.E) (hex : L.ExtrasOneStamp I) (hsz : ∀ b ∈ I.controls, b.size = 1) (hi : i < I.states.length) :
    derStepGen I.t0 b h nomDer = derPin I.t0 b h nomDer ∧
    ∃ s, derSlotGen I m i = some s ∧ s.first = derIndex I m i := by
  refine ⟨L.derStepK_eq I.t0 b h nomDer, ?_⟩
  obtain ⟨s, h1, h2⟩ := L.derSlot_first I m i hex hE hsz hi
  exact ⟨s, by unfold derSlotGen; rw [shiftGen_fun]; exact h1, h2⟩

end RtcVerif.Gen.LayoutPins
