import RtcVerif.Props.C19
/-!
GENERATED on every run of the C19 check by harness/translate_c19.py (`gen_merge_code`) from
`OptimizationProblem.merge_bounds` (/repo/src/rtctools/optimization/optimization_problem.py) and
`Timeseries.__init__` (/repo/src/rtctools/optimization/timeseries.py).  Do not edit.
-/
namespace RtcVerif.Gen.MergeCode
open RtcVerif RtcVerif.Merge RtcVerif.MergeCode

/-- `Timeseries.__init__` -/
def tsInitGen (times : List Rat) (values : PyV) : PyV :=
  (if (((isArr values = true) ∨ (isList values = true)) ∧ ((len values) = 1) ∧ (¬ (iterable (getItem0 values) = true))) then (if (iterable (getItem0 values) = true) then (mkTs times (asFloatArray (getItem0 values))) else (mkTs times (fullTimes times (getItem0 values)))) else (if (iterable values = true) then (mkTs times (asFloatArray values)) else (mkTs times (fullTimes times values))))

/-- the debug assertions on one input -/
def checkGen (v : PyV) : Bool :=
  (if (isArr v = true) then (if ((ndim v) = 1) then (if (numericDtype v = true) then true else false) else false) else (if ((isFloat v = true) ∨ (isInt v = true) ∨ (isTs v = true)) then true else false))

/-- body of the normalisation loop: the final `all_bounds[i]` -/
def normGen (v : PyV) : PyV :=
  (if ((isArr v = true) ∧ ((size v) = 1)) then (if (isInt (item v) = true) then (toFloat (item v)) else (item v)) else (if (isInt v = true) then (toFloat v) else v))

/-- the index pairs of the upcasting loop -/
def orderGen : List (Nat × Nat) := [(0, 2), (2, 0), (1, 3), (3, 1)]

/-- body of the upcasting loop: the new `all_bounds[i]` -/
def upcastGen (v1 v2 : PyV) : Option PyV :=
  (if (sameType v1 v2 = true) then (some v1) else (if (((isInt v1 = true) ∨ (isFloat v1 = true)) ∧ (isTs v2 = true)) then (some (tsInit (timesOf v2) (fullLike (valuesOf v2) v1))) else (if ((isArr v1 = true) ∧ (isTs v2 = true)) then (if (((ndim (valuesOf v2)) ≠ 2) ∨ ((len v1) ≠ (shape1 (valuesOf v2)))) then none else (some (tsInit (timesOf v2) (broadcastLike v1 (valuesOf v2))))) else (if (((isInt v1 = true) ∨ (isFloat v1 = true)) ∧ (isArr v2 = true)) then (some (fullLikeF v2 v1)) else (some v1)))))

/-- the type assertions after the loops -/
def assertsGen (a A b B : PyV) : Bool :=
  decide ((sameType a b = true) ∧ (sameType A B = true))

/-- merge of the lower bounds -/
def loGen (a b : PyV) : Option PyV :=
  (if (isArr a = true) then (if (¬ (shapeOf a = shapeOf b)) then none else (some (npMaximum a b))) else (if (isTs a = true) then (if (((timesOf a)).length ≠ ((timesOf b)).length) then none else (if (¬ ((timesOf a) = (timesOf b))) then none else (if (¬ (shapeOf (valuesOf a) = shapeOf (valuesOf b))) then none else (some (tsInit (timesOf a) (npMaximum (valuesOf a) (valuesOf b))))))) else (some (pyMax a b))))

/-- merge of the upper bounds -/
def hiGen (a b : PyV) : Option PyV :=
  (if (isArr a = true) then (if (¬ (shapeOf a = shapeOf b)) then none else (some (npMinimum a b))) else (if (isTs a = true) then (if (((timesOf a)).length ≠ ((timesOf b)).length) then none else (if (¬ ((timesOf a) = (timesOf b))) then none else (if (¬ (shapeOf (valuesOf a) = shapeOf (valuesOf b))) then none else (some (tsInit (timesOf a) (npMinimum (valuesOf a) (valuesOf b))))))) else (some (pyMin a b))))

/-- `merge_bounds` -/
def mergeBoundsGen : PyV → PyV → PyV → PyV → Option (PyV × PyV) :=
  frame checkGen normGen orderGen upcastGen assertsGen loGen hiGen

theorem tsInitGen_eq_ref (times : List Rat) (values : PyV) : tsInitGen times values = tsInit times values := by
  unfold tsInitGen tsInit
  cases values with
  | arr i vs =>
    match vs with
    | [] => simp [isArr, isList, len, iterable, getItem0]
    | [x] => simp [isArr, isList, len, iterable, getItem0]
    | x :: y :: rest => simp [isArr, isList, len, iterable, getItem0]
  | arr2 rows =>
    match rows with
    | [] => simp [isArr, isList, len, iterable, getItem0]
    | [r] => simp [isArr, isList, len, iterable, getItem0]
    | r :: s :: rest => simp [isArr, isList, len, iterable, getItem0]
  | _ => simp [isArr, isList, len, iterable, getItem0]

theorem checkGen_eq_ref (v : PyV) : checkGen v = checkRef v := by
  unfold checkGen checkRef
  cases v with
  | num i x => cases i <;> simp [isArr, ndim, numericDtype, isFloat, isInt, isTs]
  | _ => simp [isArr, ndim, numericDtype, isFloat, isInt, isTs]

theorem normGen_eq_ref (v : PyV) : normGen v = normRef v := by
  unfold normGen normRef
  by_cases h : (isArr v = true ∧ size v = 1)
  · obtain ⟨h1, h2⟩ := h
    simp [h1, h2]
  · have h' : (isArr v && size v == 1) = false := by
      cases ha : isArr v <;> simp [ha] at h ⊢
      exact h
    simp [h, h']

theorem orderGen_eq_ref : orderGen = orderRef := by decide

theorem upcastGen_eq_ref (v1 v2 : PyV) : upcastGen v1 v2 = upcastRef v1 v2 := by
  unfold upcastGen upcastRef
  cases hs : sameType v1 v2 <;> cases hi : isInt v1 <;> cases hf : isFloat v1 <;> cases ha : isArr v1 <;>
    cases ht : isTs v2 <;> cases hb : isArr v2 <;> simp

theorem assertsGen_eq_ref (a A b B : PyV) : assertsGen a A b B = assertsRef a A b B := by
  unfold assertsGen assertsRef
  cases sameType a b <;> cases sameType A B <;> simp

theorem loGen_eq_ref (a b : PyV) : loGen a b = combineRef true a b := by
  unfold loGen combineRef npMaximum pyMax
  cases ha : isArr a <;> cases ht : isTs a <;> simp

theorem hiGen_eq_ref (a b : PyV) : hiGen a b = combineRef false a b := by
  unfold hiGen combineRef npMinimum pyMin
  cases ha : isArr a <;> cases ht : isTs a <;> simp

/-- `merge_bounds`, as it is in the source now, is the code-level reference -/
theorem mergeBoundsGen_eq_ref : mergeBoundsGen = mergeBoundsRef := by
  unfold mergeBoundsGen mergeBoundsRef
  rw [show checkGen = checkRef from funext checkGen_eq_ref, show normGen = normRef from funext normGen_eq_ref,
    orderGen_eq_ref, show upcastGen = upcastRef from funext fun a => funext (upcastGen_eq_ref a),
    show assertsGen = assertsRef from
      funext fun a => funext fun A => funext fun b => funext (assertsGen_eq_ref a A b),
    show loGen = combineRef true from funext fun a => funext (loGen_eq_ref a),
    show hiGen = combineRef false from funext fun a => funext (hiGen_eq_ref a)]

/-- `merge_bounds`, as it is in the source now, computes the model's `mergeBounds` on everything its
    assertions accept (every mixture of int / float scalars, integer- / float-dtype vectors, 1-D / 2-D
    Timeseries), including which inputs raise -/
theorem mergeBoundsGen_eq_model (a A b B : PyV) (ha : Valid a) (hA : Valid A) (hb : Valid b) (hB : Valid B)
    (wa : WF a) (wA : WF A) (wb : WF b) (wB : WF B) :
    (mergeBoundsGen a A b B).map (fun p => (den p.1, den p.2)) = mergeBounds (den a) (den A) (den b) (den B) := by
  rw [mergeBoundsGen_eq_ref]
  exact C19.code_merge_is_model a A b B ha hA hb hB wa wA wb wB

/-- ... and raises on everything else -/
theorem mergeBoundsGen_rejects_invalid (a A b B : PyV) (h : ¬ (Valid a ∧ Valid A ∧ Valid b ∧ Valid B)) :
    mergeBoundsGen a A b B = none := by
  rw [mergeBoundsGen_eq_ref]
  exact C19.code_merge_rejects_invalid a A b B h

end RtcVerif.Gen.MergeCode
