import RtcVerif.Model.C14
import RtcVerif.Proofs.C14Lemmas
/-!
GENERATED on every run of the C14 check by harness/translate_c14.py from `ModelicaMixin.bounds`,
`history`, `seed`, `__nominals` (symbolic execution of the per-variable loop body, path by path), the
role classification loop of `__init__` and `output_variables` in
src/rtctools/optimization/modelica_mixin.py.  Do not edit.  Each `...Gen` is the source;
each `..._eq_model` ties it to the model function the C14 property theorems are about.
-/
set_option linter.unusedVariables false
namespace RtcVerif.Gen
open RtcVerif RtcVerif.C14

def inputRoleGen (isDelay isLookup fixed : Bool) : Role :=
  if isDelay then
    .algebraic
  else
    if isLookup then
      .lookup
    else
      if fixed then
        .constantInput
      else
        .control

theorem inputRoleGen_eq_model (isDelay isLookup fixed : Bool) :
    inputRoleGen isDelay isLookup fixed = inputRoleOpt isDelay isLookup fixed := by
  cases isDelay <;> cases isLookup <;> cases fixed <;> rfl

/-- the role lists start empty and get the input's name appended when the classification says so -/
def roleListGen (r : Role) (inputs : List InputRec) : List String :=
  inputs.foldl (fun acc i => if inputRoleGen i.isDelay i.isLookup i.fixed = r then acc ++ [i.name] else acc) []

theorem roleListGen_eq_model (r : Role) (inputs : List InputRec) :
    roleListGen r inputs = roleListOf r inputs := by
  unfold roleListGen
  rw [foldl_collect (fun i => inputRoleGen i.isDelay i.isLookup i.fixed) r]
  simp only [roleListOf, InputRec.role, inputRoleGen_eq_model, List.nil_append]
  congr

def outputsGen (declared controls : List String) : List String :=
  (declared ++ controls)

theorem outputsGen_eq_model (declared controls : List String) :
    outputsGen declared controls = outputsOf declared controls := by
  simp [outputsGen, outputsOf]

/-- `output_variables` on top of the role lists `__init__` builds -/
def exportedGen (declared : List String) (inputs : List InputRec) : List String :=
  outputsGen declared (roleListGen .control inputs)

theorem exportedGen_eq_model (declared : List String) (inputs : List InputRec) :
    exportedGen declared inputs = exportedOf declared inputs := by
  simp [exportedGen, exportedOf, controlsOf, outputsGen_eq_model, roleListGen_eq_model]

def boundsGen (env : Env) (inherited : Option (EVal × EVal)) (d : Decl) : Option (EVal × EVal) :=
  match inherited with
  | some mM =>
    match d.min with
    | .lit x_min false =>
      match d.max with
      | .lit x_max false =>
        some ((EVal.max mM.1 x_min), (EVal.min mM.2 x_max))
      | .lit x_max true =>
        some ((EVal.max mM.1 x_min), (EVal.min mM.2 x_max))
      | .sym a_max p_max b_max =>
        match (Attr.sym a_max p_max b_max).resolve env with
        | .val r_max =>
          some ((EVal.max mM.1 x_min), (EVal.min mM.2 r_max))
        | .nan =>
          none
        | .unresolved =>
          none
    | .lit x_min true =>
      match d.max with
      | .lit x_max false =>
        some ((EVal.max mM.1 x_min), (EVal.min mM.2 x_max))
      | .lit x_max true =>
        some ((EVal.max mM.1 x_min), (EVal.min mM.2 x_max))
      | .sym a_max p_max b_max =>
        match (Attr.sym a_max p_max b_max).resolve env with
        | .val r_max =>
          some ((EVal.max mM.1 x_min), (EVal.min mM.2 r_max))
        | .nan =>
          none
        | .unresolved =>
          none
    | .sym a_min p_min b_min =>
      match (Attr.sym a_min p_min b_min).resolve env with
      | .val r_min =>
        match d.max with
        | .lit x_max false =>
          some ((EVal.max mM.1 r_min), (EVal.min mM.2 x_max))
        | .lit x_max true =>
          some ((EVal.max mM.1 r_min), (EVal.min mM.2 x_max))
        | .sym a_max p_max b_max =>
          match (Attr.sym a_max p_max b_max).resolve env with
          | .val r_max =>
            some ((EVal.max mM.1 r_min), (EVal.min mM.2 r_max))
          | .nan =>
            none
          | .unresolved =>
            none
      | .nan =>
        none
      | .unresolved =>
        none
  | none =>
    if (d.ptype = .bool) then
      match d.min with
      | .lit x_min false =>
        match d.max with
        | .lit x_max false =>
          some ((EVal.max (.fin 0) x_min), (EVal.min (.fin 1) x_max))
        | .lit x_max true =>
          some ((EVal.max (.fin 0) x_min), (EVal.min (.fin 1) x_max))
        | .sym a_max p_max b_max =>
          match (Attr.sym a_max p_max b_max).resolve env with
          | .val r_max =>
            some ((EVal.max (.fin 0) x_min), (EVal.min (.fin 1) r_max))
          | .nan =>
            none
          | .unresolved =>
            none
      | .lit x_min true =>
        match d.max with
        | .lit x_max false =>
          some ((EVal.max (.fin 0) x_min), (EVal.min (.fin 1) x_max))
        | .lit x_max true =>
          some ((EVal.max (.fin 0) x_min), (EVal.min (.fin 1) x_max))
        | .sym a_max p_max b_max =>
          match (Attr.sym a_max p_max b_max).resolve env with
          | .val r_max =>
            some ((EVal.max (.fin 0) x_min), (EVal.min (.fin 1) r_max))
          | .nan =>
            none
          | .unresolved =>
            none
      | .sym a_min p_min b_min =>
        match (Attr.sym a_min p_min b_min).resolve env with
        | .val r_min =>
          match d.max with
          | .lit x_max false =>
            some ((EVal.max (.fin 0) r_min), (EVal.min (.fin 1) x_max))
          | .lit x_max true =>
            some ((EVal.max (.fin 0) r_min), (EVal.min (.fin 1) x_max))
          | .sym a_max p_max b_max =>
            match (Attr.sym a_max p_max b_max).resolve env with
            | .val r_max =>
              some ((EVal.max (.fin 0) r_min), (EVal.min (.fin 1) r_max))
            | .nan =>
              none
            | .unresolved =>
              none
        | .nan =>
          none
        | .unresolved =>
          none
    else
      match d.min with
      | .lit x_min false =>
        match d.max with
        | .lit x_max false =>
          some ((EVal.max .ninf x_min), (EVal.min .pinf x_max))
        | .lit x_max true =>
          some ((EVal.max .ninf x_min), (EVal.min .pinf x_max))
        | .sym a_max p_max b_max =>
          match (Attr.sym a_max p_max b_max).resolve env with
          | .val r_max =>
            some ((EVal.max .ninf x_min), (EVal.min .pinf r_max))
          | .nan =>
            none
          | .unresolved =>
            none
      | .lit x_min true =>
        match d.max with
        | .lit x_max false =>
          some ((EVal.max .ninf x_min), (EVal.min .pinf x_max))
        | .lit x_max true =>
          some ((EVal.max .ninf x_min), (EVal.min .pinf x_max))
        | .sym a_max p_max b_max =>
          match (Attr.sym a_max p_max b_max).resolve env with
          | .val r_max =>
            some ((EVal.max .ninf x_min), (EVal.min .pinf r_max))
          | .nan =>
            none
          | .unresolved =>
            none
      | .sym a_min p_min b_min =>
        match (Attr.sym a_min p_min b_min).resolve env with
        | .val r_min =>
          match d.max with
          | .lit x_max false =>
            some ((EVal.max .ninf r_min), (EVal.min .pinf x_max))
          | .lit x_max true =>
            some ((EVal.max .ninf r_min), (EVal.min .pinf x_max))
          | .sym a_max p_max b_max =>
            match (Attr.sym a_max p_max b_max).resolve env with
            | .val r_max =>
              some ((EVal.max .ninf r_min), (EVal.min .pinf r_max))
            | .nan =>
              none
            | .unresolved =>
              none
        | .nan =>
          none
        | .unresolved =>
          none

theorem boundsGen_eq_model (env : Env) (inherited : Option (EVal × EVal)) (d : Decl) : boundsGen env inherited d = boundsOf env inherited d := by
  obtain ⟨nm, pt, mn, mx, nom, st, fx⟩ := d
  cases inherited <;> cases mn <;> cases mx <;> cases pt <;>
    simp only [boundsGen, boundsOf, defaultBounds, Attr.resolve, Option.getD] <;>
    (repeat' split) <;> simp_all <;>
    (first | exact ⟨EVal.max_comm' _ _, EVal.min_comm' _ _⟩ | exact ⟨EVal.max_comm' _ _, rfl⟩
           | exact ⟨rfl, EVal.min_comm' _ _⟩)

def boundsEnvGen (envs : Nat → Env) (member : Nat) : Env := envs 0

theorem boundsEnvGen_eq_model (envs : Nat → Env) (member : Nat) :
    boundsEnvGen envs member = envOf envs .bounds member := rfl

def boundsScopeGen : List VarList := [.states, .algs, .inputs]

theorem boundsScopeGen_eq_model : boundsScopeGen = scopeOf .bounds := rfl

def historyGen (env : Env) (d : Decl) : Outcome EVal :=
  match d.fixed with
  | true =>
    match d.start with
    | .lit x_start false =>
      .put x_start
    | .lit x_start true =>
      .put (cast d.ptype x_start)
    | .sym a_start p_start b_start =>
      match (Attr.sym a_start p_start b_start).resolve env with
      | .val r_start =>
        .put (cast d.ptype r_start)
      | .nan =>
        .raise
      | .unresolved =>
        .raise
  | false =>
    .keep

theorem historyGen_eq_model (env : Env) (d : Decl) : historyGen env d = historyOf env d := by
  obtain ⟨nm, pt, mn, mx, nom, st, fx⟩ := d
  cases fx <;> cases st <;> simp only [historyGen, historyOf, Attr.resolve] <;>
    (repeat' split) <;> simp_all

def historyEnvGen (envs : Nat → Env) (member : Nat) : Env := envs member

theorem historyEnvGen_eq_model (envs : Nat → Env) (member : Nat) :
    historyEnvGen envs member = envOf envs .history member := rfl

def historyScopeGen : List VarList := [.states]

theorem historyScopeGen_eq_model : historyScopeGen = scopeOf .history := rfl

def seedGen (env : Env) (d : Decl) : Outcome EVal :=
  match d.fixed with
  | true =>
    .keep
  | false =>
    match d.start with
    | .lit x_start false =>
      if (x_start ≠ .fin 0) then
        .put (cast d.ptype x_start)
      else
        .keep
    | .lit x_start true =>
      .put (cast d.ptype x_start)
    | .sym a_start p_start b_start =>
      match (Attr.sym a_start p_start b_start).resolve env with
      | .val r_start =>
        .put (cast d.ptype r_start)
      | .nan =>
        .keep
      | .unresolved =>
        .keep

theorem seedGen_eq_model (env : Env) (d : Decl) : seedGen env d = seedOf env d := by
  obtain ⟨nm, pt, mn, mx, nom, st, fx⟩ := d
  cases fx <;> cases st <;> simp only [seedGen, seedOf, Attr.resolve] <;>
    (repeat' split) <;> simp_all

def seedEnvGen (envs : Nat → Env) (member : Nat) : Env := envs member

theorem seedEnvGen_eq_model (envs : Nat → Env) (member : Nat) :
    seedEnvGen envs member = envOf envs .seed member := rfl

def seedScopeGen : List VarList := [.states, .algs]

theorem seedScopeGen_eq_model : seedScopeGen = scopeOf .seed := rfl

def nominalGen (env : Env) (d : Decl) : EVal :=
  match d.nominal with
  | .lit x_nominal false =>
    if ((eabs x_nominal) = .fin 0 ∨ (eabs x_nominal) = .fin 1) then
      .fin 1
    else
      (eabs x_nominal)
  | .lit x_nominal true =>
    if ((eabs x_nominal) = .fin 0 ∨ (eabs x_nominal) = .fin 1) then
      .fin 1
    else
      (eabs x_nominal)
  | .sym a_nominal p_nominal b_nominal =>
    match (Attr.sym a_nominal p_nominal b_nominal).resolve env with
    | .val r_nominal =>
      if ((eabs r_nominal) = .fin 0 ∨ (eabs r_nominal) = .fin 1) then
        .fin 1
      else
        (eabs r_nominal)
    | .nan =>
      .fin 1
    | .unresolved =>
      .fin 1

theorem nominalGen_eq_model (env : Env) (d : Decl) : nominalGen env d = nominalOf env d := by
  obtain ⟨nm, pt, mn, mx, nom, st, fx⟩ := d
  cases nom <;> simp only [nominalGen, nominalOf, Attr.resolve] <;>
    (repeat' split) <;> simp_all

def nominalEnvGen (envs : Nat → Env) (member : Nat) : Env := envs 0

theorem nominalEnvGen_eq_model (envs : Nat → Env) (member : Nat) :
    nominalEnvGen envs member = envOf envs .nominal member := rfl

def nominalScopeGen : List VarList := [.states, .algs, .inputs]

theorem nominalScopeGen_eq_model : nominalScopeGen = scopeOf .nominal := rfl

end RtcVerif.Gen
