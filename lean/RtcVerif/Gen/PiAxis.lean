import RtcVerif.Model.C11
import RtcVerif.Proofs.C11Ref
/-!
GENERATED on every run of the C11 check by harness/translate_c11.py from
src/rtctools/data/pi.py of the tree under check.  Do not edit.  The `…Gen` definitions are the
source read through the construct table in the translator's header; the theorems tie them to the
model functions the C11 theorems are about.
-/
set_option linter.unusedVariables false
namespace RtcVerif.Gen
open RtcVerif RtcVerif.C11

def floorGen (g d f : Int) : Int := f + ((2 * (f - g) + d) / (2 * d) * d - (f - g))

theorem floorGen_eq_model (g d f : Int) : floorGen g d f = C11.floorDT g d f := rfl

def nDeltaSEqGen (d start ns : Int) : Int := roundDiv (ns - start) d
def nTargetGen (d ns ne : Int) : Int := roundDiv (ne - ns) d + 1
def timesEqGen (d ns nt : Int) : List Int := (List.range nt.toNat).map (fun (i : Nat) => ns + (i : Int) * d)
def nDeltaSNeqGen (times : List Int) (start ns : Int) : Option Int := if ns ≥ start then some ((bisectLeft times ns : Int) - (bisectLeft times start : Int)) else none
def nDeltaENeqGen (times : List Int) (stop ne : Int) : Option Int := if ne ≤ stop then some ((bisectLeft times ne : Int) - (bisectLeft times stop : Int)) else none
def timesNeqGen (times : List Int) (ns ne : Int) : List Int := (times.take (bisectLeft times ne + 1)).drop (bisectLeft times ns)
def cutFrontGen (n : Int) (v : List XVal) : List XVal := if n > 0 then v.drop n.toNat else if n < 0 then nans n.natAbs ++ v else v
def fitEndGen (n : Int) (v : List XVal) : List XVal := if n > 0 then v ++ nans n.toNat else if n < 0 then v.take (v.length - n.natAbs) else v

/-- the method: the pieces above in the (checked) statement order of the source -/
def resizeGen (ns ne : Int) (s : Store) : Option Store :=
  C11.resizeWith nDeltaSEqGen nTargetGen timesEqGen nDeltaSNeqGen nDeltaENeqGen timesNeqGen cutFrontGen fitEndGen ns ne s

theorem resizeGen_eq_model (ns ne : Int) (s : Store) : resizeGen ns ne s = C11.resize ns ne s := by
  have h1 : nDeltaSEqGen = C11.nDeltaSEqRef := rfl
  have h2 : nTargetGen = C11.nTargetRef := rfl
  have h3 : timesEqGen = C11.timesEqRef := rfl
  have h4 : nDeltaSNeqGen = C11.nDeltaSNeqRef := rfl
  have h5 : nDeltaENeqGen = C11.nDeltaENeqRef := rfl
  have h6 : timesNeqGen = C11.timesNeqRef := rfl
  have h7 : cutFrontGen = C11.cutFrontRef := rfl
  have h8 : fitEndGen = C11.fitEndRef := rfl
  unfold resizeGen
  rw [h1, h2, h3, h4, h5, h6, h7, h8]
  exact C11.resizeRef_eq ns ne s

def tLenGen (d start stop : Int) : Int := roundDivP1 (stop - start) d
def nValuesGen (d hstart hstop : Int) : Int := roundDivP1 (hstop - hstart) d
def padFrontGen (d gstart hstart : Int) : Int := roundDiv (hstart - gstart) d
def padBackGen (d gstop hstop : Int) : Int := roundDiv (gstop - hstop) d
def headerStepGen (d : Int) : Int := d

theorem tLenGen_eq_model (d start stop : Int) : tLenGen d start stop = C11.roundDivP1 (stop - start) d := rfl

theorem nValuesGen_eq_model (g : Geo) (h : Hdr) (d0 d : Int) (hg : g.dt = some d0) (hs : h.step = some d) (hd : d ≠ 0) :
    C11.nValues g h = some (nValuesGen d h.start h.stop) := by
  unfold C11.nValues nValuesGen
  rw [hg, hs]
  simp only [hd, if_false]

theorem padFrontGen_eq_model (g : Geo) (h : Hdr) (d0 d : Int) (hg : g.dt = some d0) (hs : h.step = some d)
    (hlt : g.start < h.start) : C11.padFront g h = padFrontGen d g.start h.start := by
  unfold C11.padFront padFrontGen
  rw [if_pos hlt, hg, hs]
  rfl

theorem padBackGen_eq_model (g : Geo) (h : Hdr) (d0 d : Int) (hg : g.dt = some d0) (hs : h.step = some d)
    (hlt : h.stop < g.stop) : C11.padBack g h = padBackGen d g.stop h.stop := by
  unfold C11.padBack padBackGen
  rw [if_pos hlt, hg, hs]
  rfl

theorem headerStepGen_eq_model (s : Store) (m : Nat) (e : Entry) (d : Int) (hd : s.dt = some d) :
    (C11.mkHdr s m e).step = some (headerStepGen d) := by
  unfold C11.mkHdr headerStepGen
  exact hd

end RtcVerif.Gen
