import RtcVerif.Model.C12Io
import RtcVerif.Proofs.C12Io
/-!
GENERATED on every run of the C12 check by harness/translate_c12.py (`gen_pi_bin_order`) from
data/pi.py (`Timeseries.write`) of the tree under check.  Do not edit.
-/
set_option linter.unusedVariables false
namespace RtcVerif.Gen
open RtcVerif RtcVerif.C12

def headerOrderGen (vars : Nat → List Nat) (E : Nat) : List SKey := (List.range E).flatMap (fun m => (vars m).map (fun v => (m, v)))

theorem headerOrderGen_eq_model (vars : Nat → List Nat) (E : Nat) :
    headerOrderGen vars E = C12.headerOrder vars E := rfl

def recordOrderGen (hs : List SKey) (E : Nat) : List SKey := (List.range E).flatMap (fun m => (hs.filter (fun h => decide (h.1 = m))).map (fun h => ((m, h.2) : SKey)))

theorem recordOrderGen_eq_model (hs : List SKey) (E : Nat) : recordOrderGen hs E = C12.recordOrder hs E :=
  C12.recordOrderCode_eq hs E

/-- the two loop nests of the source agree: the blocks of a new binary file come in header order -/
theorem binOrderGen_consistent (vars : Nat → List Nat) (E : Nat) :
    recordOrderGen (headerOrderGen vars E) E = headerOrderGen vars E := by
  rw [recordOrderGen_eq_model, headerOrderGen_eq_model]
  exact C12.recordOrder_headerOrder vars E

end RtcVerif.Gen
