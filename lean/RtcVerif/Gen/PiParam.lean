import RtcVerif.Model.C11
import RtcVerif.Proofs.C11RecRef
/-!
GENERATED on every run of the C11 check by harness/translate_c11.py (gen_pi_param) from
pi.ParameterConfig.get / .set in src/rtctools/data/pi.py of the tree under check.  Do not edit.
-/
set_option linter.unusedVariables false
set_option linter.unusedSimpArgs false
namespace RtcVerif.Gen
open RtcVerif RtcVerif.C11

def passesGetGen (g : PGroup) (gid : Nat) (loc model : Option Nat) : Bool :=
  (g.id == gid) &&
  !(match loc, g.loc with
    | some l, some x => (l != x)
    | _, _ => false) &&
  !(match model, g.model with
    | some l, some x => (l != x)
    | _, _ => false)
def passesSetGen (g : PGroup) (gid : Nat) (loc model : Option Nat) : Bool :=
  (g.id == gid) &&
  !(match loc, g.loc with
    | some l, some x => (l != x)
    | _, _ => false) &&
  !(match model, g.model with
    | some l, some x => (l != x)
    | _, _ => false)
def coerceGen (old : PVal) (a : PArg) : Option PVal :=
  match old with
  | .bool _ =>
    match a with
    | .bool true => some (.bool true)
    | .bool false => some (.bool false)
    | _ => none
  | .int _ => some (.int (C11.pyInt a))
  | .dbl _ => C11.strAsDbl a
  | .str _ => none
def pgetGen (c : PConf) (gid p : Nat) (loc model : Option Nat) : Option PVal :=
  C11.pgetWith passesGetGen c gid p loc model
def psetGen (c : PConf) (gid p : Nat) (a : PArg) (loc model : Option Nat) : Option PConf :=
  C11.psetWith passesSetGen coerceGen c gid p a loc model

theorem passesGetGen_eq_model (g : PGroup) (gid : Nat) (loc model : Option Nat) :
    passesGetGen g gid loc model = g.passes gid loc model := by
  unfold passesGetGen C11.PGroup.passes
  cases loc <;> cases g.loc <;> cases model <;> cases g.model <;> simp [bne_comm, Bool.and_comm] <;> grind

theorem passesSetGen_eq_model (g : PGroup) (gid : Nat) (loc model : Option Nat) :
    passesSetGen g gid loc model = g.passes gid loc model := by
  unfold passesSetGen C11.PGroup.passes
  cases loc <;> cases g.loc <;> cases model <;> cases g.model <;> simp [bne_comm, Bool.and_comm] <;> grind

theorem coerceGen_eq_model (old : PVal) (a : PArg) : coerceGen old a = C11.coerce old a := by
  cases old <;> cases a <;> first | rfl | (rename_i b; cases b <;> rfl) | (rename_i _ b; cases b <;> rfl)

theorem pgetGen_eq_model (c : PConf) (gid p : Nat) (loc model : Option Nat) :
    pgetGen c gid p loc model = C11.pget c gid p loc model :=
  C11.pgetWith_eq passesGetGen passesGetGen_eq_model c gid p loc model

theorem psetGen_eq_model (c : PConf) (gid p : Nat) (a : PArg) (loc model : Option Nat) :
    psetGen c gid p a loc model = C11.pset c gid p a loc model :=
  C11.psetWith_eq passesSetGen coerceGen passesSetGen_eq_model coerceGen_eq_model c gid p a loc model

end RtcVerif.Gen
