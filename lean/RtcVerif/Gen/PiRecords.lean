import RtcVerif.Model.C11
import RtcVerif.Proofs.C11RecRef
/-!
GENERATED on every run of the C11 check by harness/translate_c11.py (gen_pi_records) from
src/rtctools/data/pi.py of the tree under check.  Do not edit.  Record-level logic of the PI
reader (both passes over the series) and of the writer, read through the construct table in the
translator; the theorems tie it to the model functions of `C11_pi_roundtrip` / `C11_padding_correct_end`.
-/
set_option linter.unusedVariables false
set_option linter.unusedSimpArgs false
namespace RtcVerif.Gen
open RtcVerif RtcVerif.C11

def scanDtGen (gdt hstep : Option Int) : Option (Option Int) :=
  match gdt with
  | none => some hstep
  | some d => if hstep ≠ some d then none else some (some d)
def scanStartGen (gs : Option Int) (hs : Int) : Int :=
  match gs with
  | none => hs
  | some x => if hs < x then hs else x
def scanStopGen (gs : Option Int) (hs : Int) : Int :=
  match gs with
  | none => hs
  | some x => if hs > x then hs else x
def scanFcValGen (h : Hdr) : Int :=
  match h.forecast with
  | some f => f
  | none => h.start
def scanFcGen (gf : Option Int) (h : Hdr) : Option Int :=
  match gf with
  | none => some (scanFcValGen h)
  | some x => if h.forecast.isSome && (scanFcValGen h != x) then none else some x
def scanEnsGen (size : Nat) (h : Hdr) : Nat :=
  match h.member with
  | some k => if k > size - 1 then k + 1 else size
  | none => size
def scanContGen (gc : Bool) (h : Hdr) : Bool :=
  if gc = false then h.member.isSome else gc

/-- one iteration of the consistency loop: the pieces above in the skeleton of Proofs/C11RecRef -/
def scanStepGen (g : Glob) (h : Hdr) : Option Glob :=
  C11.scanStepWith scanDtGen scanStartGen scanStopGen scanFcGen scanEnsGen scanContGen g h

theorem scanStepGen_eq_model (g : Glob) (h : Hdr) : scanStepGen g h = C11.scanStep g h := by
  have h1 : scanDtGen = C11.scanDtRef := by
    funext gdt hstep
    unfold scanDtGen C11.scanDtRef
    cases gdt with
    | none => rfl
    | some d =>
      by_cases hh : hstep = some d
      · subst hh; simp
      · have hh' : ¬ some d = hstep := fun e => hh e.symm
        simp [hh, hh']
  have h2 : scanStartGen = C11.scanStartRef := by
    funext gs hs
    cases gs <;> rfl
  have h3 : scanStopGen = C11.scanStopRef := by
    funext gs hs
    cases gs <;> rfl
  have h4 : scanFcGen = C11.scanFcRef := by
    funext gf h
    unfold scanFcGen C11.scanFcRef scanFcValGen
    cases gf <;> cases h.forecast <;> simp [Bool.and_comm, bne_comm]
  have h5 : scanEnsGen = C11.scanEnsRef := by
    funext size h
    unfold scanEnsGen C11.scanEnsRef
    cases h.member <;> rfl
  have h6 : scanContGen = C11.scanContRef := by
    funext gc h
    unfold scanContGen C11.scanContRef
    cases gc <;> simp
  unfold scanStepGen
  rw [h1, h2, h3, h4, h5, h6]
  exact C11.scanStepRef_eq g h

/-- the whole first pass -/
theorem scanGen_eq_model (g : Glob) (hs : List Hdr) : C11.scanWith scanStepGen g hs = C11.scan g hs :=
  C11.scanWith_eq scanStepGen scanStepGen_eq_model g hs

def hdrMemberGen (s : Store) (m : Nat) : Option Nat := if s.containsEns then some m else none
def hdrForecastGen (s : Store) : Option Int := if s.forecast ≠ s.start then some s.forecast else none
def hdrStepFullGen (s : Store) : Option Int :=
  match s.dt with
  | some d => some d
  | none => none
def hdrMissGen : XVal := XVal.fin (-999)
def mkHdrGen (s : Store) (m : Nat) (e : Entry) : Hdr :=
  { var := e.var, member := hdrMemberGen s m, step := hdrStepFullGen s, start := s.start, stop := s.stop,
    forecast := hdrForecastGen s, miss := hdrMissGen, unit := e.unit }
def encXmlGen (miss v : XVal) : XVal := if v = XVal.nan then miss else v
def evTimesGen (s : Store) (n : Nat) : List Int :=
  match s.dt with
  | some d => gridTimes s.start d n
  | none => s.times.take n
def keepGen (e : Entry) : Bool := !(e.vals.length == 0)
def binValsGen (r32 : XVal → XVal) (e : Entry) : List XVal := e.vals.map r32
def mkRecGen (s : Store) (binary : Bool) (m : Nat) (e : Entry) : Rec :=
  { hdr := mkHdrGen s m e
    evTimes := if binary then [] else evTimesGen s e.vals.length
    evs := if binary then [] else e.vals.map (encXmlGen (mkHdrGen s m e).miss) }
def recsFromGen (s : Store) (binary : Bool) (k : Nat) (slots : List Slot) : List Rec :=
  C11.recsFromWith (mkRecGen s binary) keepGen k slots

theorem mkHdrGen_eq_model (s : Store) (m : Nat) (e : Entry) : mkHdrGen s m e = C11.mkHdr s m e := by
  unfold mkHdrGen C11.mkHdr hdrMemberGen hdrForecastGen hdrStepFullGen hdrMissGen C11.newMiss
  have h1 : (match s.dt with | some d => some d | none => none) = s.dt := by cases s.dt <;> rfl
  by_cases hf : s.forecast = s.start <;> simp [hf, h1]

theorem encXmlGen_eq_model (v : XVal) : encXmlGen hdrMissGen v = C11.encXml v := by
  unfold encXmlGen C11.encXml hdrMissGen C11.newMiss
  first | rfl | (by_cases hh : v = XVal.nan <;> simp [hh, eq_comm])

theorem mkRecGen_eq_model (s : Store) (binary : Bool) (m : Nat) (e : Entry) :
    mkRecGen s binary m e = C11.mkRec s binary m e := by
  have hm : (mkHdrGen s m e).miss = hdrMissGen := rfl
  have he : encXmlGen hdrMissGen = C11.encXml := funext encXmlGen_eq_model
  have ht : evTimesGen s e.vals.length = C11.evTimesOf s e.vals.length := by
    unfold evTimesGen C11.evTimesOf
    cases s.dt <;> rfl
  unfold mkRecGen C11.mkRec
  rw [hm, he, ht, mkHdrGen_eq_model]

/-- all series records of a new file: one per (member, sorted variable) with values -/
theorem recsFromGen_eq_model (s : Store) (binary : Bool) (k : Nat) (slots : List Slot) :
    recsFromGen s binary k slots = C11.recsFrom s binary k slots := by
  unfold recsFromGen
  exact C11.recsFromWith_eq s binary (mkRecGen s binary) keepGen (mkRecGen_eq_model s binary)
    (fun e => by unfold keepGen; cases e.vals <;> rfl) k slots

def streamGen (r32 : XVal → XVal) (slots : List Slot) : List XVal :=
  C11.streamFromWith keepGen (binValsGen r32) slots

/-- binary stream: every value of every kept series (member by member, sorted variables), converted -/
theorem streamGen_eq_model (r32 : XVal → XVal) (slots : List Slot) :
    streamGen r32 slots = C11.streamFrom r32 slots := by
  unfold streamGen
  exact C11.streamFromWith_eq r32 keepGen (binValsGen r32)
    (fun e => by unfold keepGen; cases e.vals <;> rfl) (fun e => rfl) slots

def writeGen (r32 : XVal → XVal) (binary : Bool) (s : Store) : Option File :=
  C11.writeWith recsFromGen streamGen r32 binary s

/-- **the whole writer of a new file**: the translated header / series / event loops are the model
    function `write` of `C11_pi_roundtrip` -/
theorem writeGen_eq_model (r32 : XVal → XVal) (binary : Bool) (s : Store) :
    writeGen r32 binary s = C11.write r32 binary s := by
  unfold writeGen
  exact C11.writeWith_eq recsFromGen streamGen (fun s b k sl => recsFromGen_eq_model s b k sl)
    streamGen_eq_model r32 binary s

end RtcVerif.Gen
