import RtcVerif.Model.C11
import RtcVerif.Proofs.C11RecRef
/-!
GENERATED on every run of the C11 check by harness/translate_c11.py (gen_pi_records) from
src/rtctools/data/pi.py of the tree under check.  Do not edit.  Record-level logic of the PI
reader (both passes over the series) and of the writer, read through the construct table in the
translator; the theorems tie it to the model functions of `C11_pi_roundtrip` / `C11_padding_correct_end`.
-/
set_option linter.unusedVariables false
set_option linter.unusedSimpArgs false
namespace RtcVerif.Gen
open RtcVerif RtcVerif.C11

def scanDtGen (gdt hstep : Option Int) : Option (Option Int) :=
  match gdt with
  | none => some hstep
  | some d => if hstep ≠ some d then none else some (some d)
def scanStartGen (gs : Option Int) (hs : Int) : Int :=
  match gs with
  | none => hs
  | some x => if hs < x then hs else x
def scanStopGen (gs : Option Int) (hs : Int) : Int :=
  match gs with
  | none => hs
  | some x => if hs > x then hs else x
def scanFcValGen (h : Hdr) : Int :=
  match h.forecast with
  | some f => f
  | none => h.start
def scanFcGen (gf : Option Int) (h : Hdr) : Option Int :=
  match gf with
  | none => some (scanFcValGen h)
  | some x => if h.forecast.isSome && (scanFcValGen h != x) then none else some x
def scanEnsGen (size : Nat) (h : Hdr) : Nat :=
  match h.member with
  | some k => if k > size - 1 then k + 1 else size
  | none => size
def scanContGen (gc : Bool) (h : Hdr) : Bool :=
  if gc = false then h.member.isSome else gc

/-- one iteration of the consistency loop: the pieces above in the skeleton of Proofs/C11RecRef -/
def scanStepGen (g : Glob) (h : Hdr) : Option Glob :=
  C11.scanStepWith scanDtGen scanStartGen scanStopGen scanFcGen scanEnsGen scanContGen g h

theorem scanStepGen_eq_model (g : Glob) (h : Hdr) : scanStepGen g h = C11.scanStep g h := by
  have h1 : scanDtGen = C11.scanDtRef := by
    funext gdt hstep
    unfold scanDtGen C11.scanDtRef
    cases gdt with
    | none => rfl
    | some d =>
      by_cases hh : hstep = some d
      · subst hh; simp
      · have hh' : ¬ some d = hstep := fun e => hh e.symm
        simp [hh, hh']
  have h2 : scanStartGen = C11.scanStartRef := by
    funext gs hs
    cases gs <;> rfl
  have h3 : scanStopGen = C11.scanStopRef := by
    funext gs hs
    cases gs <;> rfl
  have h4 : scanFcGen = C11.scanFcRef := by
    funext gf h
    unfold scanFcGen C11.scanFcRef scanFcValGen
    cases gf <;> cases h.forecast <;> simp [Bool.and_comm, bne_comm]
  have h5 : scanEnsGen = C11.scanEnsRef := by
    funext size h
    unfold scanEnsGen C11.scanEnsRef
    cases h.member <;> rfl
  have h6 : scanContGen = C11.scanContRef := by
    funext gc h
    unfold scanContGen C11.scanContRef
    cases gc <;> simp
  unfold scanStepGen
  rw [h1, h2, h3, h4, h5, h6]
  exact C11.scanStepRef_eq g h

/-- the whole first pass -/
theorem scanGen_eq_model (g : Glob) (hs : List Hdr) : C11.scanWith scanStepGen g hs = C11.scan g hs :=
  C11.scanWith_eq scanStepGen scanStepGen_eq_model g hs

def memberGen (h : Hdr) : Nat :=
  match h.member with
  | some k => k
  | none => 0
def virtualGen (g : Geo) (h : Hdr) : Bool :=
  if h.member.isNone && g.containsEns then true else false
def virtTargetsGen (g : Geo) : List Nat := List.range' 1 (g.ensSize - 1)
def virtSrcGen : Nat := 0
/-- slots a series is stored in: its own, then the virtual-ensemble references -/
def targetsGen (g : Geo) (h : Hdr) : List Nat :=
  memberGen h :: (if virtualGen g h then virtTargetsGen g else [])
def nValuesFullGen (g : Geo) (h : Hdr) : Option Int :=
  match g.dt with
  | some _ =>
    match h.step with
    | none => none
    | some d => if d = 0 then none else some (roundDivP1 (h.stop - h.start) d)
  | none => some ((bisectLeft g.times h.stop : Int) - (bisectLeft g.times h.start : Int) + 1)
def rawGen (binary : Bool) (n : Nat) (evs : List XVal) (stream : Option (List XVal)) :
    List XVal × Option (List XVal) :=
  if binary then
    match stream with
    | some st => (st.take n, some (st.drop n))
    | none => (nans n, none)
  else (evs.take (min n evs.length) ++ nans (n - (min n evs.length)), stream)
def missGen (miss v : XVal) : XVal := if v = miss then XVal.nan else v
def padFrontFullGen (g : Geo) (h : Hdr) : Int :=
  if h.start > g.start then
    match g.dt with
    | some _ => roundDiv (h.start - g.start) (h.step.getD 1)
    | none => (bisectLeft g.times h.start : Int) - (bisectLeft g.times g.start : Int)
  else 0
def padBackFullGen (g : Geo) (h : Hdr) : Int :=
  if h.stop < g.stop then
    match g.dt with
    | some _ => roundDiv (g.stop - h.stop) (h.step.getD 1)
    | none => (bisectLeft g.times g.stop : Int) - (bisectLeft g.times h.stop : Int)
  else 0
def asmGen (pf pb : Nat) (v : List XVal) : List XVal := (nans pf ++ v) ++ nans pb
def entryGen (h : Hdr) (vals : List XVal) : Entry := ⟨h.var, h.unit, vals⟩

def readSeriesGen (g : Geo) (binary : Bool) (r : Rec) (stream : Option (List XVal)) :
    Option (List XVal × Option (List XVal)) :=
  C11.readSeriesWith nValuesFullGen rawGen missGen padFrontFullGen padBackFullGen asmGen g binary r stream

def fillGen (g : Geo) (binary : Bool) (rs : List Rec) (stream : Option (List XVal)) (slots : List Slot) :
    Option (List Slot) :=
  C11.fillWith readSeriesGen targetsGen entryGen g binary rs stream slots

/-- the array referenced by the virtual members is the one the series itself was stored in -/
theorem virtSrcGen_is_member (g : Geo) (h : Hdr) (hv : virtualGen g h = true) : memberGen h = virtSrcGen := by
  unfold virtualGen at hv
  unfold memberGen virtSrcGen
  cases hm : h.member with
  | none => rfl
  | some k => simp [hm] at hv

theorem targetsGen_eq_model (g : Geo) (h : Hdr) (hp : 0 < g.ensSize) : targetsGen g h = C11.targets g h := by
  unfold targetsGen C11.targets memberGen virtualGen virtTargetsGen
  cases hm : h.member with
  | some k => simp
  | none =>
    cases hc : g.containsEns with
    | false => simp
    | true =>
      simp only [Option.isNone_none, Bool.and_self, if_true]
      exact C11.zero_cons_range' g.ensSize hp

theorem nValuesFullGen_eq_model (g : Geo) (h : Hdr) : nValuesFullGen g h = C11.nValues g h := by
  unfold nValuesFullGen C11.nValues
  cases g.dt with
  | none => first | rfl | (simp only [Option.some.injEq]; omega)
  | some d0 =>
    cases h.step with
    | none => rfl
    | some d => rfl

theorem rawGen_eq_model : rawGen = C11.rawRef := by
  funext binary n evs stream
  unfold rawGen C11.rawRef
  cases binary with
  | true => rfl
  | false =>
    simp only [Bool.false_eq_true, if_false]
    first
      | rw [C11.take_min_pad]
      | (rw [Nat.min_comm, C11.take_min_pad])

theorem missGen_eq_model : missGen = C11.missMap := by
  funext miss v
  unfold missGen C11.missMap
  first | rfl | (by_cases hh : v = miss <;> simp [hh, eq_comm])

theorem padFrontFullGen_eq_model (g : Geo) (h : Hdr) : padFrontFullGen g h = C11.padFront g h := by
  unfold padFrontFullGen C11.padFront
  cases g.dt <;> rfl

theorem padBackFullGen_eq_model (g : Geo) (h : Hdr) : padBackFullGen g h = C11.padBack g h := by
  unfold padBackFullGen C11.padBack
  cases g.dt <;> rfl

theorem asmGen_eq_model : asmGen = C11.asmRef := by
  funext pf pb v
  unfold asmGen C11.asmRef
  first | rfl | simp [List.append_assoc]

theorem readSeriesGen_eq_model (g : Geo) (binary : Bool) (r : Rec) (stream : Option (List XVal)) :
    readSeriesGen g binary r stream = C11.readSeries g binary r stream := by
  have h1 : nValuesFullGen = C11.nValues := by funext g h; exact nValuesFullGen_eq_model g h
  have h2 : padFrontFullGen = C11.padFront := by funext g h; exact padFrontFullGen_eq_model g h
  have h3 : padBackFullGen = C11.padBack := by funext g h; exact padBackFullGen_eq_model g h
  unfold readSeriesGen
  rw [h1, h2, h3, rawGen_eq_model, missGen_eq_model, asmGen_eq_model]
  exact C11.readSeriesRef_eq g binary r stream

/-- the whole second pass (every series: values, padding, slot assignment, units) -/
theorem fillGen_eq_model (g : Geo) (hp : 0 < g.ensSize) (binary : Bool) (rs : List Rec)
    (stream : Option (List XVal)) (slots : List Slot) :
    fillGen g binary rs stream slots = C11.fill g binary rs stream slots := by
  unfold fillGen
  exact C11.fillWith_eq readSeriesGen targetsGen entryGen g binary
    (fun r st => readSeriesGen_eq_model g binary r st) (fun h => targetsGen_eq_model g h hp)
    (fun h v => rfl) rs stream slots

example : targetsGen ⟨some 3600, 0, 7200, [], true, 3⟩ ⟨0, none, some 3600, 0, 3600, none, XVal.fin (-999), "m"⟩ = [0, 1, 2] := by
  decide

def hdrMemberGen (s : Store) (m : Nat) : Option Nat := if s.containsEns then some m else none
def hdrForecastGen (s : Store) : Option Int := if s.forecast ≠ s.start then some s.forecast else none
def hdrStepFullGen (s : Store) : Option Int :=
  match s.dt with
  | some d => some d
  | none => none
def hdrMissGen : XVal := XVal.fin (-999)
def mkHdrGen (s : Store) (m : Nat) (e : Entry) : Hdr :=
  { var := e.var, member := hdrMemberGen s m, step := hdrStepFullGen s, start := s.start, stop := s.stop,
    forecast := hdrForecastGen s, miss := hdrMissGen, unit := e.unit }
def encXmlGen (miss v : XVal) : XVal := if v = XVal.nan then miss else v
def evTimesGen (s : Store) (n : Nat) : List Int :=
  match s.dt with
  | some d => gridTimes s.start d n
  | none => s.times.take n
def keepGen (e : Entry) : Bool := !(e.vals.length == 0)
def binValsGen (r32 : XVal → XVal) (e : Entry) : List XVal := e.vals.map r32
def mkRecGen (s : Store) (binary : Bool) (m : Nat) (e : Entry) : Rec :=
  { hdr := mkHdrGen s m e
    evTimes := if binary then [] else evTimesGen s e.vals.length
    evs := if binary then [] else e.vals.map (encXmlGen (mkHdrGen s m e).miss) }
def recsFromGen (s : Store) (binary : Bool) (k : Nat) (slots : List Slot) : List Rec :=
  C11.recsFromWith (mkRecGen s binary) keepGen k slots

theorem mkHdrGen_eq_model (s : Store) (m : Nat) (e : Entry) : mkHdrGen s m e = C11.mkHdr s m e := by
  unfold mkHdrGen C11.mkHdr hdrMemberGen hdrForecastGen hdrStepFullGen hdrMissGen C11.newMiss
  have h1 : (match s.dt with | some d => some d | none => none) = s.dt := by cases s.dt <;> rfl
  by_cases hf : s.forecast = s.start <;> simp [hf, h1]

theorem encXmlGen_eq_model (v : XVal) : encXmlGen hdrMissGen v = C11.encXml v := by
  unfold encXmlGen C11.encXml hdrMissGen C11.newMiss
  first | rfl | (by_cases hh : v = XVal.nan <;> simp [hh, eq_comm])

theorem mkRecGen_eq_model (s : Store) (binary : Bool) (m : Nat) (e : Entry) :
    mkRecGen s binary m e = C11.mkRec s binary m e := by
  have hm : (mkHdrGen s m e).miss = hdrMissGen := rfl
  have he : encXmlGen hdrMissGen = C11.encXml := funext encXmlGen_eq_model
  have ht : evTimesGen s e.vals.length = C11.evTimesOf s e.vals.length := by
    unfold evTimesGen C11.evTimesOf
    cases s.dt <;> rfl
  unfold mkRecGen C11.mkRec
  rw [hm, he, ht, mkHdrGen_eq_model]

/-- all series records of a new file: one per (member, sorted variable) with values -/
theorem recsFromGen_eq_model (s : Store) (binary : Bool) (k : Nat) (slots : List Slot) :
    recsFromGen s binary k slots = C11.recsFrom s binary k slots := by
  unfold recsFromGen
  exact C11.recsFromWith_eq s binary (mkRecGen s binary) keepGen (mkRecGen_eq_model s binary)
    (fun e => by unfold keepGen; cases e.vals <;> rfl) k slots

def streamGen (r32 : XVal → XVal) (slots : List Slot) : List XVal :=
  C11.streamFromWith keepGen (binValsGen r32) slots

/-- binary stream: every value of every kept series (member by member, sorted variables), converted -/
theorem streamGen_eq_model (r32 : XVal → XVal) (slots : List Slot) :
    streamGen r32 slots = C11.streamFrom r32 slots := by
  unfold streamGen
  exact C11.streamFromWith_eq r32 keepGen (binValsGen r32)
    (fun e => by unfold keepGen; cases e.vals <;> rfl) (fun e => rfl) slots

def writeGen (r32 : XVal → XVal) (binary : Bool) (s : Store) : Option File :=
  C11.writeWith recsFromGen streamGen r32 binary s

/-- **the whole writer of a new file**: the translated header / series / event loops are the model
    function `write` of `C11_pi_roundtrip` -/
theorem writeGen_eq_model (r32 : XVal → XVal) (binary : Bool) (s : Store) :
    writeGen r32 binary s = C11.write r32 binary s := by
  unfold writeGen
  exact C11.writeWith_eq recsFromGen streamGen (fun s b k sl => recsFromGen_eq_model s b k sl)
    streamGen_eq_model r32 binary s

def globInitGen : Glob := { dt := none, start := none, stop := none, forecast := none, containsEns := false, ensSize := 1 }
def timesEqGen' (start d stop : Int) : List Int := (List.range (roundDivP1 (stop - start) d).toNat).map (fun (i : Nat) => start + (i : Int) * d)
def longestGen : List Int → List Rec → List Int
  | cur, [] => cur
  | cur, r :: rs => longestGen (if r.evTimes.length > cur.length then r.evTimes else cur) rs
def fcGen (dt : Option Int) (start x : Int) : Int :=
  match dt with
  | some d => C11.floorDT start d x
  | none => x
def fcIdxGen (x : Int) (ts : List Int) : Int := if x ∈ ts then (ts.idxOf x : Int) else -1
def trimGen (ts : List Int) (start stop : Int) : List Int := (ts.take (bisectLeft ts stop + 1)).drop (bisectLeft ts start)

/-- `pi.Timeseries.__init__` on an existing file: all pieces in the skeleton of Proofs/C11RecRef -/
def readGen (binary : Bool) (f : File) : Option Store :=
  C11.readWith globInitGen scanStepGen timesEqGen' (longestGen []) fcGen fcIdxGen trimGen fillGen binary f

theorem longestGen_eq_model (cur : List Int) (rs : List Rec) : longestGen cur rs = C11.longestTimes cur rs := by
  induction rs generalizing cur with
  | nil => rfl
  | cons r rs ih =>
    unfold longestGen C11.longestTimes
    exact ih _

/-- **the whole reader**: the translated `__init__` is the model function `read` of `C11_pi_roundtrip` -/
theorem readGen_eq_model (binary : Bool) (f : File) : readGen binary f = C11.read binary f := by
  unfold readGen
  exact C11.readWith_eq globInitGen scanStepGen timesEqGen' (longestGen []) fcGen fcIdxGen trimGen fillGen
    rfl scanStepGen_eq_model (fun s d e => rfl) (fun rs => longestGen_eq_model [] rs)
    (fun dt s x => rfl) (fun x ts => rfl) (fun ts s e => rfl)
    (fun g b rs st sl hp => fillGen_eq_model g hp b rs st sl) binary f

end RtcVerif.Gen
