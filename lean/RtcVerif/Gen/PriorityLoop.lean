import RtcVerif.Model.C10Loop
/-!
GENERATED on every run of the C10 check by harness/translate_c10.py from
`GoalProgrammingMixin.optimize` (goal_programming_mixin.py) and
`SinglePassGoalProgrammingMixin.optimize` (single_pass_goal_programming_mixin.py) in /repo
(symbolic execution of the statements that touch the hook / solver / results-cache state; the
statement table is in the header of the translator).  Do not edit.  The theorems tie the source,
read this way, to the statement-level reference `Model/C10Loop.lean`, which `C10_reference_agrees`
(Props/C10.lean) ties to the model of the property theorems.
-/
namespace RtcVerif.Gen
open RtcVerif.C10

/-! ### GoalProgrammingMixin -/

/-- what the priority loop iterates over: `sorted({int(g.priority) for g in goals + path_goals if not g.is_empty})` -/
def loopOrderGenMP (gs : List Goal) : List Int := C10.priorities gs

/-- tracked assignments before the loop -/
def prologueGenMP (st : PSt) : PSt :=
  let st1 : PSt := { st with success := false }
  let st2 : PSt := { st1 with skipFlag := false }
  let st3 : PSt := { st2 with current := false }
  st3

/-- one pass through the body of the priority loop -/
def passGenMP (run : Nat) (skip : Int → Bool) (oracle : Nat → Bool) (st : PSt) (p : Int) : PSt × Flow :=
  let st1 : PSt := { st with events := st.events ++ [.started p], skipFlag := skip p }
  if st1.skipFlag = true then
    (st1, .next)
  else
    let st2 : PSt := { st1 with events := st1.events ++ [.solve p (oracle st1.nsolves)], success := oracle st1.nsolves, lastRaw := some (run, p, oracle st1.nsolves), nsolves := st1.nsolves + 1 }
    if st2.success = false then
      (st2, .stop)
    else
      let st3 : PSt := { st2 with current := false }
      let st4 : PSt := { st3 with results := C10.extractNow st3 }
      let st5 : PSt := { st4 with current := true }
      let st6 : PSt := { st5 with events := st5.events ++ [.completed p], views := st5.views ++ [(p, C10.extractNow st5)] }
      (st6, .next)

/-- after the loop -/
def epilogueGenMP (st : PSt) : PSt := { st with events := st.events ++ [.post] }

def optimizeGenMP (run : Nat) (pst : Persist) (r : RunSpec) : PSt :=
  epilogueGenMP (forLoop (passGenMP run r.skip r.oracle) (prologueGenMP (enter pst)) (loopOrderGenMP r.gs))

theorem prologueGenMP_eq_model (st : PSt) : prologueGenMP st = C10.prologueRef .multiPass st := rfl

theorem passGenMP_eq_model (run : Nat) (skip : Int → Bool) (oracle : Nat → Bool) (st : PSt) (p : Int) :
    passGenMP run skip oracle st p = C10.passRef .multiPass run skip oracle st p := by
  first
    | rfl
    | (unfold passGenMP C10.passRef C10.solveAndStore
       cases hs : skip p <;> cases ho : oracle st.nsolves <;> simp [hs, ho, C10.extractNow])

theorem epilogueGenMP_eq_model (st : PSt) : epilogueGenMP st = C10.epilogueRef st := rfl

theorem optimizeGenMP_eq_model (run : Nat) (pst : Persist) (r : RunSpec) :
    optimizeGenMP run pst r = C10.optimizeRef .multiPass run pst r := by
  have h : passGenMP run r.skip r.oracle = C10.passRef .multiPass run r.skip r.oracle := by
    funext st p; exact passGenMP_eq_model run r.skip r.oracle st p
  have hp : ∀ st, prologueGenMP st = C10.prologueRef .multiPass st := prologueGenMP_eq_model
  have he : ∀ st, epilogueGenMP st = C10.epilogueRef st := epilogueGenMP_eq_model
  unfold optimizeGenMP C10.optimizeRef loopOrderGenMP
  rw [h, hp, he]

/-! ### SinglePassGoalProgrammingMixin -/

/-- what the priority loop iterates over: `sorted({int(g.priority) for g in goals + path_goals if not g.is_empty})` -/
def loopOrderGenSP (gs : List Goal) : List Int := C10.priorities gs

/-- tracked assignments before the loop -/
def prologueGenSP (st : PSt) : PSt :=
  let st1 : PSt := { st with success := false }
  let st2 : PSt := { st1 with current := false }
  st2

/-- one pass through the body of the priority loop -/
def passGenSP (run : Nat) (skip : Int → Bool) (oracle : Nat → Bool) (st : PSt) (p : Int) : PSt × Flow :=
  let st1 : PSt := { st with events := st.events ++ [.started p], skipFlag := skip p }
  let st2 : PSt := { st1 with events := st1.events ++ [.solve p (oracle st1.nsolves)], success := oracle st1.nsolves, lastRaw := some (run, p, oracle st1.nsolves), nsolves := st1.nsolves + 1 }
  if st2.success = false then
    (st2, .stop)
  else
    let st3 : PSt := { st2 with current := false }
    let st4 : PSt := { st3 with results := C10.extractNow st3 }
    let st5 : PSt := { st4 with current := true }
    let st6 : PSt := { st5 with events := st5.events ++ [.completed p], views := st5.views ++ [(p, C10.extractNow st5)] }
    (st6, .next)

/-- after the loop -/
def epilogueGenSP (st : PSt) : PSt := { st with events := st.events ++ [.post] }

def optimizeGenSP (run : Nat) (pst : Persist) (r : RunSpec) : PSt :=
  epilogueGenSP (forLoop (passGenSP run r.skip r.oracle) (prologueGenSP (enter pst)) (loopOrderGenSP r.gs))

theorem prologueGenSP_eq_model (st : PSt) : prologueGenSP st = C10.prologueRef .singlePass st := rfl

theorem passGenSP_eq_model (run : Nat) (skip : Int → Bool) (oracle : Nat → Bool) (st : PSt) (p : Int) :
    passGenSP run skip oracle st p = C10.passRef .singlePass run skip oracle st p := by
  first
    | rfl
    | (unfold passGenSP C10.passRef C10.solveAndStore
       cases hs : skip p <;> cases ho : oracle st.nsolves <;> simp [hs, ho, C10.extractNow])

theorem epilogueGenSP_eq_model (st : PSt) : epilogueGenSP st = C10.epilogueRef st := rfl

theorem optimizeGenSP_eq_model (run : Nat) (pst : Persist) (r : RunSpec) :
    optimizeGenSP run pst r = C10.optimizeRef .singlePass run pst r := by
  have h : passGenSP run r.skip r.oracle = C10.passRef .singlePass run r.skip r.oracle := by
    funext st p; exact passGenSP_eq_model run r.skip r.oracle st p
  have hp : ∀ st, prologueGenSP st = C10.prologueRef .singlePass st := prologueGenSP_eq_model
  have he : ∀ st, epilogueGenSP st = C10.epilogueRef st := epilogueGenSP_eq_model
  unfold optimizeGenSP C10.optimizeRef loopOrderGenSP
  rw [h, hp, he]

/-! ### Goal.is_empty (goal_programming_mixin_base.py) -/

/-- `Goal.is_empty`, read through the table of the translator -/
def isEmptyGenC10 (g : Goal) : Bool :=
  (if ((!(g.targetMin.isSeries || (anyFinite g.targetMin))) && (!(g.targetMax.isSeries || (anyFinite g.targetMax)))) then false else ((!(anyFinite g.targetMin)) && (!(anyFinite g.targetMax))))

theorem isEmptyGen_eq_model (g : Goal) : isEmptyGenC10 g = C10.isEmpty g := by
  unfold isEmptyGenC10 C10.isEmpty
  cases g.targetMin.isSeries <;> cases g.targetMax.isSeries <;>
    cases anyFinite g.targetMin <;> cases anyFinite g.targetMax <;> rfl

end RtcVerif.Gen
