import RtcVerif.Props.C06
/-!
GENERATED on every run of the C06 check by harness/translate_c06.py from the read-back block of
`OptimizationProblem.optimize()` in /repo/src/rtctools/optimization/optimization_problem.py
(solver call .. `return success`).  Do not edit.
-/
namespace RtcVerif.Gen
open RtcVerif.C06

/-- (attribute, source, assigned under a condition?) for every assignment of the block -/
def readbackGen : List RbAssign :=
  [⟨"@success", "solver_success(solver_stats)", false⟩,
   ⟨"lam_g", "results.get(lam_g)", false⟩,
   ⟨"lam_x", "results.get(lam_x)", false⟩,
   ⟨"objective_value", "results[f]", false⟩,
   ⟨"solver_output", "results[x]", false⟩,
   ⟨"solver_stats", "solver.stats()", false⟩,
   ⟨"transcribed_problem", "dict(lbg=lbg,lbx=lbx,nlp=nlp,ubg=ubg,ubx=ubx,x0=x0)", false⟩]

theorem readbackGen_eq_model : readbackGen = readbackModel := rfl

/-- the sequence theorem for the table read from the source: after any calls, successful or not,
    `solver_output` is the last returned point and `objective_value` the objective there -/
theorem readbackGen_current {X : Type} (f : X → Rat) (calls : List (X × Bool)) (st : RbState X)
    (last : X × Bool) :
    (rbRun readbackGen f st (calls ++ [last])).output = some last.1 ∧
    (rbRun readbackGen f st (calls ++ [last])).objective = some (f last.1) := by
  rw [readbackGen_eq_model]
  exact C06_readback_current f calls st last

end RtcVerif.Gen
