import RtcVerif.Model.C20BSpline
/-!
GENERATED on every run of the C20 check by harness/translate_c20.py from the search-domain
fallback of `LookupTable.reverse_call` (src/rtctools/optimization/csv_lookup_table_mixin.py).
Do not edit.
-/
namespace RtcVerif.Gen
open RtcVerif

def revDomainGen (ld ud : Option Rat) (dl du : Rat) : Rat × Rat := (Option.getD ld dl, Option.getD ud du)

theorem revDomainGen_eq_model (c : C20.RevCfg) : revDomainGen c.ld c.ud c.dl c.du = (c.lo, c.hi) := rfl

end RtcVerif.Gen
