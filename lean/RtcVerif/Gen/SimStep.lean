import RtcVerif.Model.C09Sim
import RtcVerif.Proofs.C09Sym
import Mathlib.Tactic.Ring
import Mathlib.Tactic.SplitIfs
import Mathlib.Algebra.Order.Field.Rat
/-!
GENERATED on every run of the C09 check by harness/translate_c09.py from
`SimulationProblem.{get_var, set_var, update, reset, initialize}` (simulation_problem.py) and
`IOMixin.update` (io_mixin.py) in /repo/src/rtctools/simulation/ (path-by-path symbolic execution;
the statement table is in the header of the translator).  Do not edit.
The theorems tie the source, read this way, to the model the property theorems of C09 are about.
Proofs: `rfl` when the source has the model's shape, otherwise unfolding + case split + `ring_nf`.
-/
set_option linter.unreachableTactic false
set_option linter.unusedTactic false
set_option linter.unusedVariables false
namespace RtcVerif.Gen
open RtcVerif.C09

def getVarGen (M : Static) (s : Sim) (i : Nat) (neg : Bool) : Rat :=
  let value1 := s.sv.getD (i) 0
  if neg = true then
    let value2 := (value1 * (-1))
    if i ≤ M.L.nX then
      let nominal3 := nomAt M.nom i
      let value4 := (value2 * nominal3)
      value4
    else
      value2
  else
    if i ≤ M.L.nX then
      let nominal2 := nomAt M.nom i
      let value3 := (value1 * nominal2)
      value3
    else
      value1

theorem getVarGen_eq_model (M : Static) (s : Sim) (i : Nat) (neg : Bool) :
    getVarGen M s i neg = getVar M s i neg := by
  first
    | rfl
    | (unfold getVarGen getVar
       cases neg <;> simp only [] <;> split_ifs <;> first | rfl | ring_nf | simp_all)

def setVarGen (M : Static) (s : Sim) (i : Nat) (neg : Bool) (value : Rat) : Sim :=
  if neg = true then
    let value1 := (value * (-1))
    if i ≤ M.L.nX then
      let nominal2 := nomAt M.nom i
      let value3 := (value1 / nominal2)
      let s4 : Sim := { s with sv := s.sv.set (i) (value3) }
      s4
    else
      let s2 : Sim := { s with sv := s.sv.set (i) (value1) }
      s2
  else
    if i ≤ M.L.nX then
      let nominal1 := nomAt M.nom i
      let value2 := (value / nominal1)
      let s3 : Sim := { s with sv := s.sv.set (i) (value2) }
      s3
    else
      let s1 : Sim := { s with sv := s.sv.set (i) (value) }
      s1

theorem setVarGen_eq_model (M : Static) (s : Sim) (i : Nat) (neg : Bool) (value : Rat) :
    setVarGen M s i neg value = setVar M s i neg value := by
  first
    | rfl
    | (unfold setVarGen setVar
       cases neg <;> simp only [] <;> split_ifs <;> first | rfl | (congr 2; ring_nf) | simp_all)

def updateGen (M : Static) (F G : ResFn) (root : Root) (junk : Vec) (s : Sim) (dt : Rat) : Outcome Sim :=
  if dt > 0 then
    let s1 : Sim := { s with dt := (dt) }
    let dt2 := s1.dt
    let s3 : Sim := setVar M s1 M.L.iT false ((getTime M s1 + dt2))
    let guess4 := s3.sv.take M.L.nX
    if M.L.nP > 0 then
      match root (fun X => stepResidual M F G X (dt2) (s3.sv.take (s3.sv.length - M.L.nP))) (guess4) with
      | none =>
        .raised s3
      | some next =>
        let s5 : Sim := { s3 with sv := next.take M.L.nX ++ s3.sv.drop M.L.nX }
        .returned s5
    else
      match root (fun X => stepResidual M F G X (dt2) (s3.sv)) (guess4) with
      | none =>
        .raised s3
      | some next =>
        let s5 : Sim := { s3 with sv := next.take M.L.nX ++ s3.sv.drop M.L.nX }
        .returned s5
  else
    let dt1 := s.dt
    let s2 : Sim := setVar M s M.L.iT false ((getTime M s + dt1))
    let guess3 := s2.sv.take M.L.nX
    if M.L.nP > 0 then
      match root (fun X => stepResidual M F G X (dt1) (s2.sv.take (s2.sv.length - M.L.nP))) (guess3) with
      | none =>
        .raised s2
      | some next =>
        let s4 : Sim := { s2 with sv := next.take M.L.nX ++ s2.sv.drop M.L.nX }
        .returned s4
    else
      match root (fun X => stepResidual M F G X (dt1) (s2.sv)) (guess3) with
      | none =>
        .raised s2
      | some next =>
        let s4 : Sim := { s2 with sv := next.take M.L.nX ++ s2.sv.drop M.L.nX }
        .returned s4

theorem updateGen_eq_model (M : Static) (F G : ResFn) (root : Root) (junk : Vec) (s : Sim) (dt : Rat) :
    updateGen M F G root junk s dt = update M F G root s dt := by
  first
    | rfl
    | (unfold updateGen update
       simp only []
       split_ifs <;> first | rfl | (simp only [add_comm]; rfl) | (ring_nf; rfl) | simp_all)

def resetGen (o : SimObj) : SimObj :=
  { o with cur := { o.cur with sv := o.init } }

theorem resetGen_eq_model (o : SimObj) : resetGen o = o.reset := rfl

def ioUpdateGen (io : IOStatic) (F G : ResFn) (root : Root) (dtImport : Rat) (st : IOSim) (dt : Rat) :
    Outcome IOSim :=
  if dt < 0 then
    let dt1 := dtImport
    let t2 := getTime io.M st.sim
    let times3 : List Rat := st.times ++ [(t2 + dt1)]
    let t_idx4 := bisectLeft io.timesSec ((t2 + dt1))
    match feed io (t_idx4) st.sim with
    | none =>
      .raised { sim := st.sim, times := times3, out := st.out }
    | some s5 =>
      match update io.M F G root s5 (dt1) with
      | .raised s6 =>
        .raised { sim := s6, times := times3, out := st.out }
      | .returned s6 =>
        let out7 : List (List Rat) := List.zipWith (fun l v => l ++ [v]) st.out (record io s6)
        .returned { sim := s6, times := times3, out := out7 }
  else
    let t1 := getTime io.M st.sim
    let times2 : List Rat := st.times ++ [(t1 + dt)]
    let t_idx3 := bisectLeft io.timesSec ((t1 + dt))
    match feed io (t_idx3) st.sim with
    | none =>
      .raised { sim := st.sim, times := times2, out := st.out }
    | some s4 =>
      match update io.M F G root s4 (dt) with
      | .raised s5 =>
        .raised { sim := s5, times := times2, out := st.out }
      | .returned s5 =>
        let out6 : List (List Rat) := List.zipWith (fun l v => l ++ [v]) st.out (record io s5)
        .returned { sim := s5, times := times2, out := out6 }

theorem ioUpdateGen_eq_model (io : IOStatic) (F G : ResFn) (root : Root) (dtImport : Rat) (st : IOSim)
    (dt : Rat) : ioUpdateGen io F G root dtImport st dt = ioUpdate io F G root dtImport st dt := by
  first
    | rfl
    | (unfold ioUpdateGen ioUpdate
       simp only []
       split_ifs <;> first
         | rfl
         | (simp only [add_comm]; rfl)
         | (split <;> first | rfl | (split <;> first | rfl | simp_all) | simp_all)
         | simp_all)

/-- the (un)scaled symbol loop of `initialize()`: `X[i] ↦ <scaled>` for the entries of the nominal table -/
def scaleGen (L : Layout) (tab : NomTable) (X : Vec) : Vec :=
  (List.range X.length).map fun i =>
    match tab.lookup i with
    | some ν => if i ≤ L.nX then (X.getD i 0 * ν) else X.getD i 0
    | none => X.getD i 0

theorem scaleGen_eq_model (L : Layout) (tab : NomTable) (X : Vec) : scaleGen L tab X = scaleSubst L tab X := by
  first
    | rfl
    | (unfold scaleGen scaleSubst
       apply List.map_congr_left
       intro i _
       cases tab.lookup i <;> simp only [] <;> split_ifs <;> first | rfl | ring_nf | simp_all)

/-- one derivative approximation row as written in the source -/
def rowGen (d x xp dt : Rat) : Rat := (d - ((x - xp) / dt))

theorem rowGen_eq_model (d x xp dt : Rat) : rowGen d x xp dt = modelRow d x xp dt := by
  first
    | rfl
    | (unfold rowGen modelRow; ring_nf)

/-- `equality_constraints` of the initial NLP as assembled by `initialize()` -/
def initConstraintsGen (M : Static) (F Finit G : ResFn) : SymExpr :=
  (SymExpr.substScale (scaleGen M.L M.nom) true (SymExpr.vcat (SymExpr.vcat (symOf M.L F) (symOf M.L Finit)) (symOf M.L G)))

theorem initConstraintsGen_eq_model (M : Static) (F Finit G : ResFn) :
    initConstraintsGen M F Finit G = symInitConstraints M F Finit G := by
  have hs : scaleGen M.L M.nom = scaleSubst M.L M.nom := funext (scaleGen_eq_model M.L M.nom)
  first
    | rfl
    | (unfold initConstraintsGen symInitConstraints; rw [hs])

/-- `dae_residual` handed to `ca.rootfinder` (`__res_vals`) as assembled by `initialize()` -/
def stepResidualGen (M : Static) (F G : ResFn) : SymExpr :=
  (SymExpr.substScale (scaleGen M.L M.nom) true (SymExpr.vcat (SymExpr.vcat (symOf M.L F) (symDerRows M.L rowGen)) (symOf M.L G)))

theorem stepResidualGen_eq_model (M : Static) (F G : ResFn) :
    stepResidualGen M F G = symStepResidual M F G := by
  have hs : scaleGen M.L M.nom = scaleSubst M.L M.nom := funext (scaleGen_eq_model M.L M.nom)
  have hr : rowGen = modelRow := by funext d x xp dt; exact rowGen_eq_model d x xp dt
  first
    | rfl
    | (unfold stepResidualGen symStepResidual; rw [hs, hr])
    | (unfold stepResidualGen symStepResidual; rw [hs])
    | (unfold stepResidualGen symStepResidual; rw [hr])

end RtcVerif.Gen
