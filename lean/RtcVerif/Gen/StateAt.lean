import RtcVerif.Proofs.C15Gen
/-!
GENERATED on every run of the C15 check by harness/translate_c15.py from `state_at`, the first half of
`__states_times_in`, `states_in` and the de-scaling statements of `extract_controls` / `extract_states` in
/repo/src/rtctools/optimization/collocated_integrated_optimization_problem.py
(path-by-path symbolic execution against the second table in the translator).  Do not edit.
-/
set_option linter.unusedVariables false
set_option linter.unusedSimpArgs false
set_option linter.unreachableTactic false
set_option linter.unusedTactic false
namespace RtcVerif.Gen
open RtcVerif RtcVerif.Interp RtcVerif.C15

/-- `state_at(variable, t, m, scaled, extrapolate)` -/
def stateAtGen (p : Prob) (name : String) (t : Rat) (scaled extrap : Bool) : Res :=
  (match p.svars.lookup (p.canon name).1 with
  | some v =>
    (if decide (t < p.t0) then
      (match v.hist with
      | some h =>
        (if extrap then
          (if (scaled && decide (v.nominal ≠ 1)) then
            (if (p.canon name).2 then
              (Res.neg (Res.divBy v.nominal (ofOut (interpScalar v.mode h (finFill (firstVal h)) (finFill (lastVal h)) t))))
            else
              (Res.divBy v.nominal (ofOut (interpScalar v.mode h (finFill (firstVal h)) (finFill (lastVal h)) t))))
          else
            (if (p.canon name).2 then
              (Res.neg (ofOut (interpScalar v.mode h (finFill (firstVal h)) (finFill (lastVal h)) t)))
            else
              (ofOut (interpScalar v.mode h (finFill (firstVal h)) (finFill (lastVal h)) t))))
        else
          (if (scaled && decide (v.nominal ≠ 1)) then
            (if (p.canon name).2 then
              (Res.neg (Res.divBy v.nominal (ofOut (interpScalar v.mode h nanFill nanFill t))))
            else
              (Res.divBy v.nominal (ofOut (interpScalar v.mode h nanFill nanFill t))))
          else
            (if (p.canon name).2 then
              (Res.neg (ofOut (interpScalar v.mode h nanFill nanFill t)))
            else
              (ofOut (interpScalar v.mode h nanFill nanFill t)))))
      | none =>
        (if extrap then
          (if decide (v.nominal ≠ 1) then
            (if (scaled && decide (v.nominal ≠ 1)) then
              (if (p.canon name).2 then
                .num ((((v.xs.headD 0) * v.nominal) / v.nominal) * (-1))
              else
                .num (((v.xs.headD 0) * v.nominal) / v.nominal))
            else
              (if (p.canon name).2 then
                .num (((v.xs.headD 0) * v.nominal) * (-1))
              else
                .num ((v.xs.headD 0) * v.nominal)))
          else
            (if (scaled && decide (v.nominal ≠ 1)) then
              (if (p.canon name).2 then
                .num (((v.xs.headD 0) / v.nominal) * (-1))
              else
                .num ((v.xs.headD 0) / v.nominal))
            else
              (if (p.canon name).2 then
                .num ((v.xs.headD 0) * (-1))
              else
                .num (v.xs.headD 0))))
        else
          (if (scaled && decide (v.nominal ≠ 1)) then
            (if (p.canon name).2 then
              .nan
            else
              .nan)
          else
            (if (p.canon name).2 then
              .nan
            else
              .nan))))
    else
      (if ((!extrap) && (decide (t < (v.times.headD 0)) || decide (t > ((v.times.getLast?).getD 0)))) then
        .raise
      else
        (if ((!scaled) && decide (v.nominal ≠ 1)) then
          (if (p.canon name).2 then
            (Res.neg (Res.scale v.nominal (ofOut (interpSym v.mode (v.times.zip v.xs) t))))
          else
            (Res.scale v.nominal (ofOut (interpSym v.mode (v.times.zip v.xs) t))))
        else
          (if (p.canon name).2 then
            (Res.neg (ofOut (interpSym v.mode (v.times.zip v.xs) t)))
          else
            (ofOut (interpSym v.mode (v.times.zip v.xs) t))))))
  | none =>
    (match p.cins.lookup (p.canon name).1 with
    | some ci =>
      (if extrap then
        (ofOut (interpScalar ci.mode (if (p.canon name).2 then negKnots ci.series else ci.series) (finFill (firstVal (if (p.canon name).2 then negKnots ci.series else ci.series))) (finFill (lastVal (if (p.canon name).2 then negKnots ci.series else ci.series))) t))
      else
        (ofOut (interpScalar ci.mode (if (p.canon name).2 then negKnots ci.series else ci.series) nanFill nanFill t)))
    | none =>
      (match p.pars.lookup (p.canon name).1 with
      | some q =>
        .num (sgn (p.canon name).2 * q)
      | none =>
        .raise)))

theorem stateAtGen_eq_model (p : Prob) (name : String) (t : Rat) (scaled extrap : Bool) :
    stateAtGen p name t scaled extrap = C15.stateAt p name t scaled extrap := by
  unfold stateAtGen C15.stateAt
  generalize p.canon name = c
  obtain ⟨cn, neg⟩ := c
  dsimp only
  cases hs : p.svars.lookup cn with
  | some v =>
    simp only [svStateAt, applySign, SVar.knots]
    by_cases hn : v.nominal = 1 <;> by_cases ht : t < p.t0 <;> cases hh : v.hist <;>
      cases scaled <;> cases extrap <;> cases neg <;>
      simp [hs, hh, hn, ht, res_scale_one, res_divBy_one, res_scale_neg_one, mul_comm] <;>
      (try (split <;> rfl)) <;> (try (intros; simp_all [res_scale_one, res_divBy_one]; done))
  | none =>
    cases hc : p.cins.lookup cn <;> cases hp : p.pars.lookup cn <;> cases extrap <;> cases neg <;>
      simp [hs, hc, hp, ciStateAt, mul_comm]

/-- `__states_times_in` up to the window selection: the window `(a, b)`, the history knots available
    and the signed, unscaled state knots; `none` = the code raises -/
def statesPrefixGen (p : Prob) (name : String) (a? b? : Option Rat) : Option (Rat × Rat × Knots × Knots) :=
  (match a? with
  | some t0_v =>
    (match b? with
    | some tf_v =>
      (match p.svars.lookup (p.canon name).1 with
      | some v =>
        (if (p.canon name).2 then
          (if decide (t0_v < ((p.timesOf name).headD 0)) then
            (match v.hist with
            | some h =>
              (if (p.canon name).2 then
                some (t0_v, tf_v, List.zip ((h.map (·.1)).dropLast) (((h.map (·.2)).dropLast).map (- ·)), List.zip (p.timesOf name) ((v.xs.map (· * v.nominal)).map (· * (-1))))
              else
                some (t0_v, tf_v, List.zip ((h.map (·.1)).dropLast) ((h.map (·.2)).dropLast), List.zip (p.timesOf name) ((v.xs.map (· * v.nominal)).map (· * (-1)))))
            | none =>
              none)
          else
            some (t0_v, tf_v, List.zip ([] : List Rat) ([] : List Rat), List.zip (p.timesOf name) ((v.xs.map (· * v.nominal)).map (· * (-1)))))
        else
          (if decide (t0_v < ((p.timesOf name).headD 0)) then
            (match v.hist with
            | some h =>
              (if (p.canon name).2 then
                some (t0_v, tf_v, List.zip ((h.map (·.1)).dropLast) (((h.map (·.2)).dropLast).map (- ·)), List.zip (p.timesOf name) (v.xs.map (· * v.nominal)))
              else
                some (t0_v, tf_v, List.zip ((h.map (·.1)).dropLast) ((h.map (·.2)).dropLast), List.zip (p.timesOf name) (v.xs.map (· * v.nominal))))
            | none =>
              none)
          else
            some (t0_v, tf_v, List.zip ([] : List Rat) ([] : List Rat), List.zip (p.timesOf name) (v.xs.map (· * v.nominal)))))
      | none =>
        none)
    | none =>
      (match p.svars.lookup (p.canon name).1 with
      | some v =>
        (if (p.canon name).2 then
          (if decide (t0_v < ((p.timesOf name).headD 0)) then
            (match v.hist with
            | some h =>
              (if (p.canon name).2 then
                some (t0_v, (((p.timesOf name).getLast?).getD 0), List.zip ((h.map (·.1)).dropLast) (((h.map (·.2)).dropLast).map (- ·)), List.zip (p.timesOf name) ((v.xs.map (· * v.nominal)).map (· * (-1))))
              else
                some (t0_v, (((p.timesOf name).getLast?).getD 0), List.zip ((h.map (·.1)).dropLast) ((h.map (·.2)).dropLast), List.zip (p.timesOf name) ((v.xs.map (· * v.nominal)).map (· * (-1)))))
            | none =>
              none)
          else
            some (t0_v, (((p.timesOf name).getLast?).getD 0), List.zip ([] : List Rat) ([] : List Rat), List.zip (p.timesOf name) ((v.xs.map (· * v.nominal)).map (· * (-1)))))
        else
          (if decide (t0_v < ((p.timesOf name).headD 0)) then
            (match v.hist with
            | some h =>
              (if (p.canon name).2 then
                some (t0_v, (((p.timesOf name).getLast?).getD 0), List.zip ((h.map (·.1)).dropLast) (((h.map (·.2)).dropLast).map (- ·)), List.zip (p.timesOf name) (v.xs.map (· * v.nominal)))
              else
                some (t0_v, (((p.timesOf name).getLast?).getD 0), List.zip ((h.map (·.1)).dropLast) ((h.map (·.2)).dropLast), List.zip (p.timesOf name) (v.xs.map (· * v.nominal))))
            | none =>
              none)
          else
            some (t0_v, (((p.timesOf name).getLast?).getD 0), List.zip ([] : List Rat) ([] : List Rat), List.zip (p.timesOf name) (v.xs.map (· * v.nominal)))))
      | none =>
        none))
  | none =>
    (match b? with
    | some tf_v =>
      (match p.svars.lookup (p.canon name).1 with
      | some v =>
        (if (p.canon name).2 then
          (if decide (((p.timesOf name).headD 0) < ((p.timesOf name).headD 0)) then
            (match v.hist with
            | some h =>
              (if (p.canon name).2 then
                some (((p.timesOf name).headD 0), tf_v, List.zip ((h.map (·.1)).dropLast) (((h.map (·.2)).dropLast).map (- ·)), List.zip (p.timesOf name) ((v.xs.map (· * v.nominal)).map (· * (-1))))
              else
                some (((p.timesOf name).headD 0), tf_v, List.zip ((h.map (·.1)).dropLast) ((h.map (·.2)).dropLast), List.zip (p.timesOf name) ((v.xs.map (· * v.nominal)).map (· * (-1)))))
            | none =>
              none)
          else
            some (((p.timesOf name).headD 0), tf_v, List.zip ([] : List Rat) ([] : List Rat), List.zip (p.timesOf name) ((v.xs.map (· * v.nominal)).map (· * (-1)))))
        else
          (if decide (((p.timesOf name).headD 0) < ((p.timesOf name).headD 0)) then
            (match v.hist with
            | some h =>
              (if (p.canon name).2 then
                some (((p.timesOf name).headD 0), tf_v, List.zip ((h.map (·.1)).dropLast) (((h.map (·.2)).dropLast).map (- ·)), List.zip (p.timesOf name) (v.xs.map (· * v.nominal)))
              else
                some (((p.timesOf name).headD 0), tf_v, List.zip ((h.map (·.1)).dropLast) ((h.map (·.2)).dropLast), List.zip (p.timesOf name) (v.xs.map (· * v.nominal))))
            | none =>
              none)
          else
            some (((p.timesOf name).headD 0), tf_v, List.zip ([] : List Rat) ([] : List Rat), List.zip (p.timesOf name) (v.xs.map (· * v.nominal)))))
      | none =>
        none)
    | none =>
      (match p.svars.lookup (p.canon name).1 with
      | some v =>
        (if (p.canon name).2 then
          (if decide (((p.timesOf name).headD 0) < ((p.timesOf name).headD 0)) then
            (match v.hist with
            | some h =>
              (if (p.canon name).2 then
                some (((p.timesOf name).headD 0), (((p.timesOf name).getLast?).getD 0), List.zip ((h.map (·.1)).dropLast) (((h.map (·.2)).dropLast).map (- ·)), List.zip (p.timesOf name) ((v.xs.map (· * v.nominal)).map (· * (-1))))
              else
                some (((p.timesOf name).headD 0), (((p.timesOf name).getLast?).getD 0), List.zip ((h.map (·.1)).dropLast) ((h.map (·.2)).dropLast), List.zip (p.timesOf name) ((v.xs.map (· * v.nominal)).map (· * (-1)))))
            | none =>
              none)
          else
            some (((p.timesOf name).headD 0), (((p.timesOf name).getLast?).getD 0), List.zip ([] : List Rat) ([] : List Rat), List.zip (p.timesOf name) ((v.xs.map (· * v.nominal)).map (· * (-1)))))
        else
          (if decide (((p.timesOf name).headD 0) < ((p.timesOf name).headD 0)) then
            (match v.hist with
            | some h =>
              (if (p.canon name).2 then
                some (((p.timesOf name).headD 0), (((p.timesOf name).getLast?).getD 0), List.zip ((h.map (·.1)).dropLast) (((h.map (·.2)).dropLast).map (- ·)), List.zip (p.timesOf name) (v.xs.map (· * v.nominal)))
              else
                some (((p.timesOf name).headD 0), (((p.timesOf name).getLast?).getD 0), List.zip ((h.map (·.1)).dropLast) ((h.map (·.2)).dropLast), List.zip (p.timesOf name) (v.xs.map (· * v.nominal))))
            | none =>
              none)
          else
            some (((p.timesOf name).headD 0), (((p.timesOf name).getLast?).getD 0), List.zip ([] : List Rat) ([] : List Rat), List.zip (p.timesOf name) (v.xs.map (· * v.nominal)))))
      | none =>
        none)))

theorem statesPrefixGen_eq_model (p : Prob) (name : String) (a? b? : Option Rat) :
    (statesPrefixGen p name a? b?).bind (fun r => C15.assemble p name r.1 r.2.1 r.2.2.1 r.2.2.2)
      = C15.statesTimesIn p name a? b? := by
  rw [statesTimesIn_eq_assemble]
  unfold statesPrefixGen windowHist
  simp only [zip_dropLast_split_neg, zip_dropLast_split]
  generalize hc : p.canon name = c
  obtain ⟨cn, neg⟩ := c
  dsimp only
  cases hs : p.svars.lookup cn with
  | none => cases a? <;> cases b? <;> simp [Prob.timesOf, hc, hs]
  | some v =>
    have htm : p.timesOf name = v.times := by simp [Prob.timesOf, hc, hs]
    cases a? <;> cases b? <;> cases hh : v.hist <;> cases neg <;>
      simp [hs, hh, htm, sgn, List.map_map, Function.comp_def] <;>
      split <;> simp_all

/-- `states_in(variable, t0, tf, m)` -/
def statesInGen (p : Prob) (name : String) (a? b? : Option Rat) : Option (List Rat) :=
  (C15.statesTimesIn p name a? b?).map (·.map (·.2))

theorem statesInGen_eq_model (p : Prob) (name : String) (a? b? : Option Rat) :
    statesInGen p name a? b? = C15.statesIn p name a? b? := rfl

/-- `extract_controls`: the value written for a control -/
def extractControlGen (v : SVar) : List Rat := (vscale v.nominal v.xs)
/-- `extract_states`: the value written for a (scalar, collocated) state / algebraic state / path variable -/
def extractStateGen (v : SVar) : List Rat := (vscale v.nominal v.xs)
/-- `extract_states`: the value written for a constant input at the time stamps `ts` of the variable -/
def extractCinGen (c : CIn) (ts : List Rat) : Option (List XVal) := interpArray c.mode c.series (finFill (firstVal c.series)) (finFill (lastVal c.series)) ts

theorem extractGen_eq_model (v : SVar) (c : CIn) (ts : List Rat) :
    extractControlGen v = v.results ∧ extractStateGen v = v.results ∧ extractCinGen c ts = C15.ciResults c ts := by
  unfold extractControlGen extractStateGen extractCinGen SVar.results ciResults vscale
  exact ⟨rfl, rfl, rfl⟩

end RtcVerif.Gen
