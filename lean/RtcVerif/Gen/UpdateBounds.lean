import RtcVerif.Model.C04Store
/-!
GENERATED on every run of the C02 / C04 checks by harness/translate.py from
`_GoalConstraint.update_bounds` in /repo/src/rtctools/optimization/goal_programming_mixin_base.py.
Do not edit.  `updateBoundsGen` is the source, read element-wise; the theorem ties it to the model
the property theorems of C02 / C04 are about.
-/
namespace RtcVerif.Gen

def updateBoundsGen {α : Type} (mx mn : α → α → α) (s o : C04.Ivl α) (enforceSelf : Bool) : C04.Ivl α :=
  ⟨(mn (if enforceSelf then (mn (mx s.lo o.lo) s.hi) else (mn (mx s.lo o.lo) o.hi)) (if enforceSelf then (mx (mn s.hi o.hi) s.lo) else (mx (mn s.hi o.hi) o.lo))),
   (if enforceSelf then (mx (mn s.hi o.hi) s.lo) else (mx (mn s.hi o.hi) o.lo))⟩

theorem updateBoundsGen_eq_model {α : Type} (mx mn : α → α → α) (s o : C04.Ivl α) (enforceSelf : Bool) :
    updateBoundsGen mx mn s o enforceSelf = C04.updateBoundsWith mx mn s o enforceSelf := by
  cases enforceSelf <;> rfl

end RtcVerif.Gen
