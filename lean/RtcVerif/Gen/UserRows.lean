import RtcVerif.Props.C06
import RtcVerif.Proofs.C06Gen
/-!
GENERATED on every run of the C06 check by harness/translate_c06.py (`gen_user_rows`) from
`CollocatedIntegratedOptimizationProblem.transcribe()` in
/repo/src/rtctools/optimization/collocated_integrated_optimization_problem.py: the slices of the
mapped output, the objective assembly, the point-constraint block and the path-constraint block.
Do not edit.  Parameters: `objective m`, `pobj0 m` / `pcon0 m` (path objective / path constraint
functions at the t0 inputs of member `m`), `cols m` (columns of the mapped output of member `m`),
`points m`, `paths m` (what `constraints(m)` / `path_constraints(m)` return), `prob m`.
-/
set_option linter.unusedVariables false
namespace RtcVerif.Gen
open RtcVerif RtcVerif.C06 RtcVerif.Interp

/-! ## slices of the mapped output -/

/-- `collocation_constraints = ca.vec(integrators_and_collocation_and_path_constraints[0 : nd, 0 : (n - 1)])` -/
def slice0Gen (nd nj R n : Nat) (cols : List (List Rat)) : List Rat :=
  vecRange 0 nd 0 (n - 1) cols

/-- `discretized_path_objective = ca.vec(integrators_and_collocation_and_path_constraints[nd : (nd + nj), 0 : (n - 1)])` -/
def slice1Gen (nd nj R n : Nat) (cols : List (List Rat)) : List Rat :=
  vecRange nd (nd + nj) 0 (n - 1) cols

/-- `discretized_path_constraints = ca.vec(integrators_and_collocation_and_path_constraints[(nd + nj) : ((nd + nj) + R), 0 : (n - 1)])` -/
def slice2Gen (nd nj R n : Nat) (cols : List (List Rat)) : List Rat :=
  vecRange (nd + nj) ((nd + nj) + R) 0 (n - 1) cols

/-! ## objective -/

/-- the entry appended to `f` for member `m` -/
def objectiveElemGen (prob : Nat → Rat) (objective pobj0 : Nat → List Rat)
    (cols : Nat → List (List Rat)) (nd nj R n : Nat) (m : Nat) : Rat :=
  (prob m * (if 0 < nj then (objVal (objective m) + ((pobj0 m).getD 0 0 + sumList (slice1Gen nd nj R n (cols m)))) else objVal (objective m)))

/-- `nlp["f"]`: member loop, `f.append`, `ca.sum1(ca.vertcat(*f))` -/
def objectiveGen (E : Nat) (prob : Nat → Rat) (objective pobj0 : Nat → List Rat)
    (cols : Nat → List (List Rat)) (nd nj R n : Nat) : Rat :=
  sumList ((List.range E).map (fun m => objectiveElemGen prob objective pobj0 cols nd nj R n m))

theorem objectiveElemGen_eq_model (prob : Nat → Rat) (objective pobj0 : Nat → List Rat)
    (cols : Nat → List (List Rat)) (nd nj R n m : Nat) (hc : (cols m).length ≤ n - 1) :
    objectiveElemGen prob objective pobj0 cols nd nj R n m
      = prob m * fMember (objVal (objective m)) nd nj (pobj0 m) (cols m) := by
  have hs := vecRange_eq_vecSlice nd (nd + nj) (n - 1) nd nj (cols m) (by omega) (by omega) (by omega)
  unfold objectiveElemGen fMember slice1Gen
  rw [hs]
  all_goals (split_ifs <;> first | ring1 | omega)

theorem objectiveGen_eq_model (E : Nat) (prob : Nat → Rat) (objective pobj0 : Nat → List Rat)
    (cols : Nat → List (List Rat)) (nd nj R n : Nat) (hc : ∀ m, (cols m).length ≤ n - 1) :
    objectiveGen E prob objective pobj0 cols nd nj R n
      = objectiveCode ((List.range E).map prob)
          ((List.range E).map (fun m => fMember (objVal (objective m)) nd nj (pobj0 m) (cols m))) := by
  unfold objectiveGen objectiveCode
  rw [List.zipWith_map, List.zipWith_self]
  congr 1
  apply List.map_congr_left
  intro m _
  exact objectiveElemGen_eq_model prob objective pobj0 cols nd nj R n m (hc m)

/-- the objective assembled by the source is the documented one: every member weighted by its
    probability, the path objective at every collocation time including t0 -/
theorem objectiveGen_documented {Env : Type} (E n nd R : Nat) (hn : 1 ≤ n) (prob J : Nat → Rat)
    (Jpath : Env → Rat) (G : Env → List Rat) (env : Nat → Nat → Env)
    (dae delay : Nat → Nat → List Rat) (hdae : ∀ m i, (dae m i).length = nd) :
    objectiveGen E prob (fun m => [J m]) (fun m => [Jpath (env m 0)])
      (fun m => (List.range (n - 1)).map (fun i =>
        stepColumn (dae m i) [Jpath (env m (i + 1))] (G (env m (i + 1))) (delay m i))) nd 1 R n
      = objectiveSpec E n prob J Jpath env := by
  rw [objectiveGen_eq_model _ _ _ _ _ _ _ _ _ (fun m => by simp)]
  exact C06_objective E n nd hn prob J Jpath G env dae delay hdae

/-! ## point constraints -/

/-- the broadcasting loop for one constraint of `s` rows, per kind of its two bounds -/
def pointBoundsGen (s : Nat) (lb ub : UBound) : Option (List XVal × List XVal) :=
  match lb, ub with
  | .scalar lbv, .scalar ubv =>
    (if s > 1 then
      optPair (npFull s ((UBound.scalar lbv).arr)) (npFull s ((UBound.scalar ubv).arr))
    else
      optPair (npEntries (UBound.scalar lbv).arr) (npEntries (UBound.scalar ubv).arr))
  | .scalar lbv, .vec ubv =>
    (if s > 1 then
      (if ubv.length = 1 then
        optPair (npFull s ((UBound.scalar lbv).arr)) (npFull s ((UBound.vec ubv).arr))
      else
        (if ubv.length ≠ s then
          none
        else
          optPair (npFull s ((UBound.scalar lbv).arr)) (npEntries (UBound.vec ubv).arr)))
    else
      optPair (npEntries (UBound.scalar lbv).arr) (npEntries (UBound.vec ubv).arr))
  | .vec lbv, .scalar ubv =>
    (if s > 1 then
      (if lbv.length = 1 then
        optPair (npFull s ((UBound.vec lbv).arr)) (npFull s ((UBound.scalar ubv).arr))
      else
        (if lbv.length ≠ s then
          none
        else
          optPair (npEntries (UBound.vec lbv).arr) (npFull s ((UBound.scalar ubv).arr))))
    else
      optPair (npEntries (UBound.vec lbv).arr) (npEntries (UBound.scalar ubv).arr))
  | .vec lbv, .vec ubv =>
    (if s > 1 then
      (if lbv.length = 1 then
        (if ubv.length = 1 then
          optPair (npFull s ((UBound.vec lbv).arr)) (npFull s ((UBound.vec ubv).arr))
        else
          (if ubv.length ≠ s then
            none
          else
            optPair (npFull s ((UBound.vec lbv).arr)) (npEntries (UBound.vec ubv).arr)))
      else
        (if lbv.length ≠ s then
          none
        else
          (if ubv.length = 1 then
            optPair (npEntries (UBound.vec lbv).arr) (npFull s ((UBound.vec ubv).arr))
          else
            (if ubv.length ≠ s then
              none
            else
              optPair (npEntries (UBound.vec lbv).arr) (npEntries (UBound.vec ubv).arr)))))
    else
      optPair (npEntries (UBound.vec lbv).arr) (npEntries (UBound.vec ubv).arr))
  | _, _ => none

theorem pointBoundsGen_eq_model (s : Nat) (lb ub : UBound) :
    pointBoundsGen s lb ub = optPair (pointBound s lb) (pointBound s ub) := by
  cases lb <;> cases ub <;>
    simp only [pointBoundsGen, pointBound, npFull, npEntries, UBound.arr] <;>
    (repeat' split) <;> simp_all [optPair] <;> omega

/-- `g.extend(..); lbg.extend(..); ubg.extend(..)` -/
def pointRowsGen (pts : List PointCon) : Option Rows :=
  (mapMOpt (fun p => pointBoundsGen p.g.length p.lb p.ub) pts).map
    (fun bs => ⟨(pts.map (·.g)).flatten, (bs.map (·.1)).flatten, (bs.map (·.2)).flatten⟩)

theorem pointRowsGen_eq_model (pts : List PointCon) : pointRowsGen pts = pointRows pts :=
  pointRows_of_pairs _ (fun p => pointBoundsGen_eq_model p.g.length p.lb p.ub) pts

/-- the point-constraint rows of member `m` -/
def memberPointRowsGen (points : Nat → List PointCon) (m : Nat) : Option Rows :=
  pointRowsGen (points m)

/-- every point constraint of member `m` once, with its own bounds -/
theorem pointRowsGen_documented (points : Nat → List PointCon) (m : Nat)
    (hok : ∀ p ∈ points m, 1 ≤ p.g.length ∧ p.lb.pointOk p.g.length ∧ p.ub.pointOk p.g.length)
    (rows : Rows) (h : memberPointRowsGen points m = some rows) :
    rows.g = (points m).flatMap (·.g) ∧
    rows.lb = (points m).flatMap (fun p => (List.range p.g.length).map (pointBoundAt p.lb)) ∧
    rows.ub = (points m).flatMap (fun p => (List.range p.g.length).map (pointBoundAt p.ub)) := by
  unfold memberPointRowsGen at h
  rw [pointRowsGen_eq_model] at h
  exact C06_point_constraints_once (points m) hok rows h

/-! ## path constraints -/

/-- the block written into the array that is extended into `lbg`, per kind of bound -/
def pathLbBlockGen (s : Nat) (times : List Rat) : UBound → Option (List (List XVal))
  | .scalar lbv => npAssignRows s times.length ((UBound.scalar lbv).arr)
  | .vec lbv => npAssignRows s times.length (npTranspose (npBroadcastTo times.length s ((UBound.vec lbv).arr)))
  | .ts1 lbt lbv => npAssignRows s times.length (npInterpT times XVal.ninf (.ts1 lbt lbv))
  | .ts2 lbt lbv => npAssignRows s times.length (npInterpT times XVal.ninf (.ts2 lbt lbv))

/-- the block written into the array that is extended into `ubg`, per kind of bound -/
def pathUbBlockGen (s : Nat) (times : List Rat) : UBound → Option (List (List XVal))
  | .scalar ubv => npAssignRows s times.length ((UBound.scalar ubv).arr)
  | .vec ubv => npAssignRows s times.length (npTranspose (npBroadcastTo times.length s ((UBound.vec ubv).arr)))
  | .ts1 ubt ubv => npAssignRows s times.length (npInterpT times XVal.pinf (.ts1 ubt ubv))
  | .ts2 ubt ubv => npAssignRows s times.length (npInterpT times XVal.pinf (.ts2 ubt ubv))

theorem pathLbBlockGen_eq_model (s : Nat) (times : List Rat) (b : UBound) :
    pathLbBlockGen s times b = pathBlock s times .ninf b := by
  cases b with
  | scalar v => exact gen_block_scalar s times _ v
  | vec vs => exact gen_block_vec s times _ vs
  | ts1 ts vals => exact gen_block_ts1 s times _ ts vals
  | ts2 ts cs => exact gen_block_ts2 s times _ ts cs

theorem pathUbBlockGen_eq_model (s : Nat) (times : List Rat) (b : UBound) :
    pathUbBlockGen s times b = pathBlock s times .pinf b := by
  cases b with
  | scalar v => exact gen_block_scalar s times _ v
  | vec vs => exact gen_block_vec s times _ vs
  | ts1 ts vals => exact gen_block_ts1 s times _ ts vals
  | ts2 ts cs => exact gen_block_ts2 s times _ ts cs

/-- the path-constraint rows of member `m`: t0 instance and mapped instances, bound arrays
    stacked constraint by constraint and flattened time-major -/
def pathRowsGen (nd nj R n : Nat) (times : List Rat) (pcon0 : Nat → List Rat)
    (paths : Nat → List PathCon) (cols : Nat → List (List Rat)) (m : Nat) : Option Rows :=
  if (paths (if 0 < m then m else 0)).isEmpty then some ⟨[], [], []⟩ else
  match stackRavel n (mapMOpt (fun c => pathLbBlockGen c.size times c.lb) (paths (if 0 < m then m else 0))),
        stackRavel n (mapMOpt (fun c => pathUbBlockGen c.size times c.ub) (paths (if 0 < m then m else 0))) with
  | some l, some u => some ⟨pcon0 m ++ slice2Gen nd nj R n (cols m), l, u⟩
  | _, _ => none

theorem pathRowsGen_eq_model (nd nj R n : Nat) (times : List Rat) (pcon0 : Nat → List Rat)
    (paths : Nat → List PathCon) (cols : Nat → List (List Rat)) (m : Nat)
    (hn : n = times.length) (hc : (cols m).length ≤ n - 1)
    (J : Rat) (init : List Rat) (points : List PointCon) :
    pathRowsGen nd nj R n times pcon0 paths cols m
      = pathRows nd nj R times ⟨J, init, pcon0 m, cols m, points, paths m⟩ := by
  have hm : (if 0 < m then m else 0) = m := by first | rfl | (split <;> omega)
  unfold pathRowsGen
  try simp only [hm]
  exact pathRows_of_blocks nd nj R n times ⟨J, init, pcon0 m, cols m, points, paths m⟩ _ _
    (fun c => pathLbBlockGen_eq_model c.size times c.lb)
    (fun c => pathUbBlockGen_eq_model c.size times c.ub) (pcon0 m ++ slice2Gen nd nj R n (cols m))
    (by
      have hs := vecRange_eq_vecSlice (nd + nj) ((nd + nj) + R) (n - 1) (nd + nj) R (cols m) (by omega) (by omega) (by omega)
      unfold slice2Gen
      rw [hs])
    hn

/-- every path constraint of member `m` at every collocation time including t0, once, in
    time-major order, with the bounds `path_constraints(m)` returned for this member -/
theorem pathRowsGen_documented {Env : Type} (nd nj R : Nat) (times : List Rat) (hn : 1 ≤ times.length)
    (env : Nat → Nat → Env) (G : Env → List Rat) (hG : ∀ e, (G e).length = R)
    (dae jp dl : Nat → Nat → List Rat) (hdae : ∀ m i, (dae m i).length = nd)
    (hjp : ∀ m i, (jp m i).length = nj) (paths : Nat → List PathCon) (m : Nat)
    (hne : paths m ≠ []) (hwf : ∀ c ∈ paths m, c.lb.WF ∧ c.ub.WF) (rows : Rows)
    (h : pathRowsGen nd nj R times.length times (fun m => G (env m 0)) paths
          (fun m => (List.range (times.length - 1)).map (fun i =>
            stepColumn (dae m i) (jp m i) (G (env m (i + 1))) (dl m i))) m = some rows) :
    rows.g = (List.range times.length).flatMap (fun i => G (env m i)) ∧
    rows.lb = (List.range times.length).flatMap (pathBoundCol times true (paths m)) ∧
    rows.ub = (List.range times.length).flatMap (pathBoundCol times false (paths m)) := by
  rw [pathRowsGen_eq_model nd nj R times.length times _ paths _ m rfl (by simp) 0 [] []] at h
  exact C06_path_constraints_everywhere nd nj R times hn (env m) G hG (dae m) (jp m) (dl m) (hdae m)
    (hjp m) 0 [] [] (paths m) hne hwf rows h

/-! ## the user rows of a member, in the order of the source -/

def memberRowsGen (nd nj R n : Nat) (times : List Rat) (pcon0 : Nat → List Rat)
    (points : Nat → List PointCon) (paths : Nat → List PathCon) (cols : Nat → List (List Rat))
    (m : Nat) : Option Rows :=
  match memberPointRowsGen points m, pathRowsGen nd nj R n times pcon0 paths cols m with
  | some a, some b => some (a.append b)
  | _, _ => none

theorem memberRowsGen_eq_model (nd nj R n : Nat) (times : List Rat) (pcon0 : Nat → List Rat)
    (points : Nat → List PointCon) (paths : Nat → List PathCon) (cols : Nat → List (List Rat))
    (m : Nat) (hn : n = times.length) (hc : (cols m).length ≤ n - 1) (J : Rat) (init : List Rat) :
    memberRowsGen nd nj R n times pcon0 points paths cols m
      = memberRows nd nj R times ⟨J, init, pcon0 m, cols m, points m, paths m⟩ := by
  unfold memberRowsGen memberRows memberPointRowsGen
  rw [pointRowsGen_eq_model, pathRowsGen_eq_model nd nj R n times pcon0 paths cols m hn hc J init (points m)]
  all_goals rfl

/-! ## shape mismatch is rejected by the code read from the source -/

/-- a vector point constraint with an array bound of a length that is neither 1 nor its size makes
    the assembled block raise, on either side, wherever the constraint stands -/
theorem pointRowsGen_shape_mismatch_rejected (pts : List PointCon) (p : PointCon) (hp : p ∈ pts)
    (vs : List XVal) (hs : 1 < p.g.length) (h1 : vs.length ≠ 1) (h2 : vs.length ≠ p.g.length)
    (hb : p.lb = .vec vs ∨ p.ub = .vec vs) : pointRowsGen pts = none := by
  rw [pointRowsGen_eq_model]
  exact C06_point_shape_mismatch_rejected pts p hp vs hs h1 h2 hb

/-- a path-constraint array bound that cannot be broadcast over the rows is rejected on both sides -/
theorem pathBlockGen_shape_mismatch_rejected (s : Nat) (times : List Rat) (vs : List XVal)
    (h1 : vs.length ≠ 1) (h2 : vs.length ≠ s) :
    pathLbBlockGen s times (.vec vs) = none ∧ pathUbBlockGen s times (.vec vs) = none := by
  rw [pathLbBlockGen_eq_model, pathUbBlockGen_eq_model]
  exact ⟨C06_path_shape_mismatch_rejected s times _ vs h1 h2,
         C06_path_shape_mismatch_rejected s times _ vs h1 h2⟩

/-! ## non-vacuity: concrete instances of the functions read from the source -/

-- two members, three time stamps, one DAE row per step: f = 1/2 (1 + 10+20+30) + 1/4 (2 + 1+2+3)
example : objectiveGen 2 (fun m => if m = 0 then 1/2 else 1/4) (fun m => if m = 0 then [1] else [2])
    (fun m => if m = 0 then [10] else [1])
    (fun m => if m = 0 then [stepColumn [0] [20] [101, 201] [], stepColumn [0] [30] [102, 202] []]
              else [stepColumn [0] [2] [3, 4] [], stepColumn [0] [3] [5, 6] []]) 1 1 2 3 = 65/2 := by
  decide +kernel

-- member 1 gets its own bounds (member 0 has none): Timeseries upper bound on a sub-range, +inf outside
example : pathRowsGen 1 1 2 3 [0, 1, 2] (fun _ => [100, 200])
    (fun m => if m = 0 then [] else
      [⟨1, .scalar .ninf, .ts1 [0, 1] [1, 3]⟩, ⟨1, .vec [.fin (-1)], .scalar (.fin 5)⟩])
    (fun _ => [stepColumn [0] [20] [101, 201] [], stepColumn [0] [30] [102, 202] []]) 1
    = some ⟨[100, 200, 101, 201, 102, 202],
            [.ninf, .fin (-1), .ninf, .fin (-1), .ninf, .fin (-1)],
            [.fin 1, .fin 5, .fin 3, .fin 5, .pinf, .fin 5]⟩ := by
  decide +kernel

example : memberPointRowsGen (fun m => if m = 2 then
      [⟨[7, 8], .scalar (.fin 0), .vec [.fin 1, .fin 2]⟩, ⟨[9], .vec [.fin 3], .scalar .pinf⟩] else []) 2
    = some ⟨[7, 8, 9], [.fin 0, .fin 0, .fin 3], [.fin 1, .fin 2, .pinf]⟩ := by
  decide +kernel

-- shape mismatch on either side is the exception
example : pointRowsGen [⟨[7, 8], .scalar (.fin 0), .vec [.fin 1, .fin 2, .fin 3]⟩] = none := by
  decide +kernel

example : pathLbBlockGen 2 [0, 1, 2] (.vec [.fin 1, .fin 2, .fin 3]) = none := by decide +kernel

end RtcVerif.Gen
