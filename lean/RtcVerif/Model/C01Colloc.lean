import RtcVerif.Model.Interp
/-!
# C01 — model of the collocation part of `CollocatedIntegratedOptimizationProblem.transcribe()`

Executable, core Lean only.  The model follows the code path at the level where mistakes happen:

* the index lists `var_inds[:-1]` / `var_inds[1:]` extended over all collocated variables
  (`interpolated_states_explicit / _implicit`), `np.tile(np.repeat(nominals, n-1), 2)`, the
  element-wise product and the column-major reshape to `(n-1) × 2k`;
* variables with their own (coarser) time stamps: columns `j` and `k+j` overwritten with the
  symbolic interpolant of the variable's own values at the collocation times, times the nominal;
* the row of the mapped-input matrix `accumulation_U` (states, constant inputs `[0:n-1]` and
  `[1:n]`, collocation times `[0:n-1]` and `[1:n]`, remaining entries) and its slices
  `collocated_states_0/1`, `constant_inputs_0/1`, `collocation_time_0/1`;
* finite differences `(s1 - s0) / (t1 - t0)`, the three-way branch on `theta`, time argument
  `t - t0`, the slice `[:dae_residual_collocated_size]` of the mapped output;
* the initial residual `veccat(F, Finit)` at `t0` with the scattered initial derivatives
  (own decision variable times nominal for differentiated states, a history constant otherwise),
  mapped over the members; `ca.vec` orders; all bounds `0 / 0`;
* the classification of parameters into "constant over the ensemble" (inlined, member 0's
  value) and per-member ones; constant inputs interpolated to the collocation times per member
  (fill value `0.0` outside the series).

The DAE residual `F`, the initial equations `Finit` and everything CasADi evaluates are
*parameters*: arbitrary functions.
-/
namespace RtcVerif.C01
open RtcVerif RtcVerif.Interp

/-- decision vector as a total function (entries beyond the length are never read) -/
abbrev Vec := Nat → Rat

/-- residual function of the model: collocated variables (states, algebraics, controls), their
    derivatives, constant inputs, model time `t - t0`, parameters ↦ one value per equation -/
abbrev Residual := List Rat → List Rat → List Rat → Rat → List Rat → List Rat

def vsub (a b : List Rat) : List Rat := List.zipWith (· - ·) a b
def vscale (c : Rat) (a : List Rat) : List Rat := a.map (c * ·)
def vadd (a b : List Rat) : List Rat := List.zipWith (· + ·) a b

def xvalRat : XVal → Rat
  | .e (.fin q) => q
  | _ => 0

def outRat : Out → Rat
  | .val v => xvalRat v
  | .raise => 0

/-- a variable's own time stamps and interpolation mode (`times(variable)`,
    `interpolation_method(variable)`) when they differ from the collocation times -/
structure Own where
  times : List Rat
  mode : Nat

/-- what is common to all ensemble members -/
structure Sys where
  /-- number of collocated variables: states, then algebraics, then controls -/
  k : Nat
  /-- number of differentiated states (the first `nd` collocated variables) -/
  nd : Nat
  /-- number of constant inputs of the DAE -/
  nc : Nat
  /-- `dae_residual_collocated_size` -/
  ne : Nat
  /-- collocation times `times()` -/
  tsL : List Rat
  theta : Rat
  /-- nominal of collocated variable `v` -/
  nom : Nat → Rat
  /-- nominal of the initial-derivative variable of state `s` -/
  dnom : Nat → Rat
  /-- own time stamps of variable `v` (`none`: the collocation times) -/
  own : Nat → Option Own

/-- `n_collocation_times` -/
def Sys.n (s : Sys) : Nat := s.tsL.length
def Sys.ts (s : Sys) (i : Nat) : Rat := s.tsL.getD i 0
/-- `initial_time = times()[0]` -/
def Sys.t0 (s : Sys) : Rat := s.tsL.getD 0 0

/-- what the code holds for one ensemble member when it assembles that member's rows -/
structure Mem where
  /-- `indices[member][variable][i]` -/
  idx : Nat → Nat → Nat
  /-- `indices[member][initial_der_name]` of state `s` -/
  didx : Nat → Nat
  /-- parameter vector handed to the residual function for this member -/
  par : List Rat
  /-- constant input `j` interpolated at the collocation times -/
  civ : Nat → List Rat
  /-- initial derivative of a non-differentiated variable (history difference or `0`) -/
  dconst : Nat → Rat
  /-- remaining entries of the `accumulation_U` row of step `i` (path variables, extra inputs) -/
  extraU : Nat → List Rat
  /-- remaining outputs of the mapped function at step `i` (path objective / constraints, delays) -/
  other : Nat → List Rat

/-! ## Index lists, tiled nominals, reshape -/

/-- `indices_as_lists[member][variable]` cut / padded to `n` entries -/
def varInds (idx : Nat → Nat → Nat) (n v : Nat) : List Nat := (List.range n).map (idx v)

/-- `interpolated_states_explicit`: `var_inds[:-1]` of every variable -/
def explicitInds (idx : Nat → Nat → Nat) (k n : Nat) : List Nat :=
  (List.range k).flatMap (fun v => (varInds idx n v).dropLast)

/-- `interpolated_states_implicit`: `var_inds[1:]` of every variable -/
def implicitInds (idx : Nat → Nat → Nat) (k n : Nat) : List Nat :=
  (List.range k).flatMap (fun v => (varInds idx n v).tail)

/-- `np.tile(np.repeat(nominals, n-1), 2)` -/
def repeatedNominals (nom : Nat → Rat) (k n : Nat) : List Rat :=
  let r := (List.range k).flatMap (fun v => List.replicate (n - 1) (nom v))
  r ++ r

/-- `vertcat(X[explicit], X[implicit]) * repeated_nominals` -/
def interpolatedFlat (X : Vec) (idx : Nat → Nat → Nat) (nom : Nat → Rat) (k n : Nat) : List Rat :=
  List.zipWith (· * ·) ((explicitInds idx k n ++ implicitInds idx k n).map X)
    (repeatedNominals nom k n)

/-- column-major reshape to `(rows, cols)`: entry `(i, j)` -/
def reshapeAt (flat : List Rat) (rows : Nat) (i j : Nat) : Rat := flat.getD (j * rows + i) 0

/-! ## Variables with their own time stamps -/

/-- `nominal * interpolate(times, state_vector(variable), [t], mode)` -/
def interpOwn (X : Vec) (idxv : Nat → Nat) (nomv : Rat) (o : Own) (t : Rat) : Rat :=
  nomv * outRat (interpSym o.mode
    (o.times.zip ((List.range o.times.length).map (fun q => X (idxv q)))) t)

/-- the interpolant at all collocation times (`interpolated`) -/
def interpOwnAll (X : Vec) (idxv : Nat → Nat) (nomv : Rat) (o : Own) (tsL : List Rat) : List Rat :=
  tsL.map (interpOwn X idxv nomv o)

/-- entry `(i, j)` of `interpolated_states` after the loop that overwrites the columns of
    variables with their own time stamps (`[:, j] = interpolated[:-1]`,
    `[:, k + j] = interpolated[1:]`) -/
def stateEntry (s : Sys) (X : Vec) (idx : Nat → Nat → Nat) (flat : List Rat) (i j : Nat) : Rat :=
  let v := if j < s.k then j else j - s.k
  match s.own v with
  | none => reshapeAt flat (s.n - 1) i j
  | some o =>
      let full := interpOwnAll X (idx v) (s.nom v) o s.tsL
      if j < s.k then full.dropLast.getD i 0 else full.tail.getD i 0

/-- columns of `interpolated_states` that variable `j` with its own time stamps overwrites, with
    the part of its interpolant that goes there (`0`: `interpolated[:-1]`, `1`: `interpolated[1:]`) -/
def ownCols (k j : Nat) : List (Nat × Nat) := [(j, 0), (k + j, 1)]

/-- row `i` of `interpolated_states`: `2k` entries -/
def stateCols (s : Sys) (X : Vec) (idx : Nat → Nat → Nat) (i : Nat) : List Rat :=
  let flat := interpolatedFlat X idx s.nom s.k s.n
  (List.range (2 * s.k)).map (stateEntry s X idx flat i)

/-! ## The mapped input row and its slices -/

/-- column `i` of `accumulation_U` (after the transpose): what step `i` of the map receives -/
def uRow (s : Sys) (c : Mem) (X : Vec) (i : Nat) : List Rat :=
  stateCols s X c.idx i
    ++ (List.range s.nc).map (fun j => ((c.civ j).take (s.n - 1)).getD i 0)
    ++ (List.range s.nc).map (fun j => (((c.civ j).take s.n).drop 1).getD i 0)
    ++ [(s.tsL.take (s.n - 1)).getD i 0, ((s.tsL.take s.n).drop 1).getD i 0]
    ++ c.extraU i

/-- Python slice `l[a:b]` -/
def slice (l : List Rat) (a b : Nat) : List Rat := (l.drop a).take (b - a)

/-- one collocation row block, as the code computes it from the sliced inputs -/
def collocBlock (F : Residual) (theta tinit : Rat) (p s0 s1 c0 c1 : List Rat) (ta tb : Rat) :
    List Rat :=
  let dt := tb - ta
  let fd := (vsub s1 s0).map (· / dt)
  if theta = 0 then F s0 fd c0 (ta - tinit) p
  else if theta = 1 then F s1 fd c1 (tb - tinit) p
  else vadd (vscale (1 - theta) (F s0 fd c0 (ta - tinit) p))
            (vscale theta (F s1 fd c1 (tb - tinit) p))

/-- `[lo, hi)` positions of `collocated_states_0/1` and `constant_inputs_0/1` inside the mapped
    input row (`k` collocated variables, `nc` constant inputs) -/
def sliceIdx (k nc : Nat) : List (Nat × Nat) :=
  [(0, k), (k, 2 * k), (2 * k, 2 * k + nc), (2 * k + nc, 2 * k + 2 * nc)]

/-- positions of `collocation_time_0/1` -/
def timeIdx (k nc : Nat) : Nat × Nat := (2 * (k + nc), 2 * (k + nc) + 1)

/-- the DAE block of the mapped function, from its input row `u` -/
def blockOfRow (F : Residual) (theta tinit : Rat) (par : List Rat) (k nc : Nat) (u : List Rat) : List Rat :=
  let off := 2 * (k + nc)
  collocBlock F theta tinit par
      (slice u 0 k) (slice u k (2 * k))
      (slice u (2 * k) (2 * k + nc)) (slice u (2 * k + nc) (2 * k + 2 * nc))
      (u.getD off 0) (u.getD (off + 1) 0)

/-- output of the mapped function `accumulated` at step `i`: the DAE block followed by the path
    objective, path constraints and delay expressions -/
def mappedOut (F : Residual) (s : Sys) (c : Mem) (X : Vec) (i : Nat) : List Rat :=
  blockOfRow F s.theta s.t0 c.par s.k s.nc (uRow s c X i) ++ c.other i

/-- `collocation_constraints` of step `i`: rows `[:dae_residual_collocated_size]` -/
def collocRowsCode (F : Residual) (s : Sys) (c : Mem) (X : Vec) (i : Nat) : List Rat :=
  (mappedOut F s c X i).take s.ne

/-- `ca.vec(block[:ne, 0:n-1])`: all steps of one member, step-major -/
def collocMemberRows (F : Residual) (s : Sys) (c : Mem) (X : Vec) : List Rat :=
  (List.range (s.n - 1)).flatMap (collocRowsCode F s c X)

/-! ## Initial residual -/

/-- scatter assignment `base[pos] = vals` -/
def scatter (base : List Rat) (pos : List Nat) (vals : List Rat) : List Rat :=
  (pos.zip vals).foldl (fun acc pv => acc.set pv.1 pv.2) base

/-- `X[initial_state_indices] * nominals` -/
def initStateCode (s : Sys) (c : Mem) (X : Vec) : List Rat :=
  List.zipWith (· * ·) ((List.range s.k).map (fun v => X (c.idx v 0))) ((List.range s.k).map s.nom)

/-- `initial_derivatives`: zeros, then `[init_der_variable] = X[indices] * nominals`, then
    `[init_der_constant] = values` -/
def initDersCode (s : Sys) (c : Mem) (X : Vec) : List Rat :=
  let z := List.replicate s.k (0 : Rat)
  let a := scatter z (List.range s.nd)
    (List.zipWith (· * ·) ((List.range s.nd).map (fun v => X (c.didx v))) ((List.range s.nd).map s.dnom))
  scatter a ((List.range (s.k - s.nd)).map (s.nd + ·))
    ((List.range (s.k - s.nd)).map (fun j => c.dconst (s.nd + j)))

/-- first entry of the member's interpolated constant inputs -/
def initInputs (s : Sys) (c : Mem) : List Rat := (List.range s.nc).map (fun j => (c.civ j).getD 0 0)

/-- `veccat(dae_residual, initial_residual)` at `t0` for one member -/
def initRowsCode (F Finit : Residual) (s : Sys) (c : Mem) (X : Vec) : List Rat :=
  let z := initStateCode s c X
  let d := initDersCode s c X
  let u := initInputs s c
  F z d u 0 c.par ++ Finit z d u 0 c.par

/-! ## Parameters and constant inputs per member -/

/-- the repaired test "all members' values equal the first one" (`len(values) == 1 or all(...)`) -/
def isConstPar (E : Nat) (pvals : Nat → List Rat) (j : Nat) : Bool :=
  E == 1 || (List.range (E - 1)).all (fun m => (pvals (m + 1)).getD j 0 == (pvals 0).getD j 0)

/-- value the residual of member `m` sees for parameter `j`: inlined (member 0's value, frozen in
    the cached residual function) for a parameter that is constant over the ensemble and not
    declared dynamic; the member's own column of `ensemble_aggregate["parameters"]` otherwise -/
def effPar (E npar : Nat) (dyn : Nat → Bool) (pvals : Nat → List Rat) (m : Nat) : List Rat :=
  (List.range npar).map (fun j =>
    if isConstPar E pvals j && !dyn j then (pvals 0).getD j 0 else (pvals m).getD j 0)

/-- the test on the unrepaired tree (finding F1): `np.all(values) == values[0]` -/
def isConstParLegacy (E : Nat) (pvals : Nat → List Rat) (j : Nat) : Bool :=
  E == 1 ||
    (let allNonzero := (List.range E).all (fun m => (pvals m).getD j 0 != 0)
     (if allNonzero then (1 : Rat) else 0) == (pvals 0).getD j 0)

def effParLegacy (E npar : Nat) (pvals : Nat → List Rat) (m : Nat) : List Rat :=
  (List.range npar).map (fun j =>
    if isConstParLegacy E pvals j then (pvals 0).getD j 0 else (pvals m).getD j 0)

/-- `self.interpolate(collocation_times, series.times, series.values, 0.0, 0.0, mode)` -/
def ciVals (mode : Nat) (ks : Knots) (tsL : List Rat) : List Rat :=
  match interpArray mode ks (some (XVal.fin 0)) (some (XVal.fin 0)) tsL with
  | some l => l.map xvalRat
  | none => []

/-- history-based initial derivative of a non-differentiated variable -/
def histDer (h : Option Knots) (t0 : Rat) : Rat :=
  match h with
  | none => 0
  | some ks =>
    if firstTime ks = t0 ∨ ks.length = 1 then 0
    else
      let r := ks.reverse
      match r with
      | (t1, f1) :: (t2, f2) :: _ => (f1 - f2) / (t1 - t2)
      | _ => 0

/-! ## The whole instance -/

structure Inst where
  sys : Sys
  /-- ensemble size -/
  E : Nat
  idx : Nat → Nat → Nat → Nat
  didx : Nat → Nat → Nat
  npar : Nat
  /-- the member's own parameter values -/
  pvals : Nat → List Rat
  /-- parameter `j` is declared in `dynamic_parameters()` (never inlined) -/
  dyn : Nat → Bool
  /-- the member's own series of constant input `j` -/
  cin : Nat → Nat → Knots
  /-- interpolation mode of constant input `j` -/
  cmode : Nat → Nat
  /-- the member's history of collocated variable `v` (only used for non-differentiated ones) -/
  hist : Nat → Nat → Option Knots
  extraU : Nat → Nat → List Rat
  other : Nat → Nat → List Rat

/-- what the data of a valid problem satisfy: every member supplies a value for every parameter,
    every constant input series is non-empty with increasing stamps and a known interpolation
    mode, the differentiated states are among the collocated variables -/
structure Inst.WF (I : Inst) : Prop where
  par_len : ∀ m, m < I.E → (I.pvals m).length = I.npar
  cin_sorted : ∀ m j, m < I.E → j < I.sys.nc → Sorted (I.cin m j)
  cin_ne : ∀ m j, m < I.E → j < I.sys.nc → I.cin m j ≠ []
  cmode_ok : ∀ j, j < I.sys.nc → I.cmode j ≤ 2
  nd_le : I.sys.nd ≤ I.sys.k

/-- executable form of `Inst.WF` (the driver refuses instances outside it) -/
def Inst.wfb (I : Inst) : Bool :=
  (List.range I.E).all (fun m =>
      (I.pvals m).length == I.npar
      && (List.range I.sys.nc).all (fun j => decide (Sorted (I.cin m j)) && !(I.cin m j).isEmpty))
    && (List.range I.sys.nc).all (fun j => decide (I.cmode j ≤ 2))
    && decide (I.sys.nd ≤ I.sys.k)

/-- the per-member data the code derives -/
def Inst.mem (I : Inst) (m : Nat) : Mem where
  idx := I.idx m
  didx := I.didx m
  par := effPar I.E I.npar I.dyn I.pvals m
  civ := fun j => ciVals (I.cmode j) (I.cin m j) I.sys.tsL
  dconst := fun v => histDer (I.hist m v) I.sys.t0
  extraU := I.extraU m
  other := I.other m

/-- `g`: the initial rows of all members (member-major: `ca.vec` of the map over the ensemble),
    then the collocation rows member by member -/
def gRows (F Finit : Residual) (I : Inst) (X : Vec) : List Rat :=
  (List.range I.E).flatMap (fun m => initRowsCode F Finit I.sys (I.mem m) X)
    ++ (List.range I.E).flatMap (fun m => collocMemberRows F I.sys (I.mem m) X)

/-- `lbg` / `ubg` of these rows: zeros -/
def gBounds (F Finit : Residual) (I : Inst) (X : Vec) : List Rat :=
  List.replicate (gRows F Finit I X).length 0

/-! ## Specification side -/

/-- physical value of collocated variable `v` of a member at collocation time `i` (what
    `extract_results` reports on the collocation grid; for a variable with its own time stamps the
    interpolant of its physical values) -/
def decodeVar (s : Sys) (X : Vec) (idx : Nat → Nat → Nat) (v i : Nat) : Rat :=
  match s.own v with
  | none => s.nom v * X (idx v i)
  | some o => interpOwn X (idx v) (s.nom v) o (s.ts i)

def decode (s : Sys) (X : Vec) (idx : Nat → Nat → Nat) (i : Nat) : List Rat :=
  (List.range s.k).map (fun v => decodeVar s X idx v i)

/-- the theta-method residual of a trajectory `z` with inputs `ci`, parameters `p`, on the grid `ts` -/
def thetaSpec (F : Residual) (theta t0 : Rat) (p : List Rat) (z : Nat → List Rat)
    (ci : Nat → List Rat) (ts : Nat → Rat) (i : Nat) : List Rat :=
  let zd := (vsub (z (i + 1)) (z i)).map (· / (ts (i + 1) - ts i))
  vadd (vscale (1 - theta) (F (z i) zd (ci i) (ts i - t0) p))
       (vscale theta (F (z (i + 1)) zd (ci (i + 1)) (ts (i + 1) - t0) p))

/-- the member's constant inputs at collocation time `i` -/
def inputsAt (s : Sys) (c : Mem) (i : Nat) : List Rat :=
  (List.range s.nc).map (fun j => (c.civ j).getD i 0)

/-- the initial derivatives: the decoded initial-derivative variables for differentiated
    states, the history constant otherwise -/
def initDers (s : Sys) (c : Mem) (X : Vec) : List Rat :=
  (List.range s.k).map (fun v => if v < s.nd then s.dnom v * X (c.didx v) else c.dconst v)

/-- the member's own constant input `j` at time `t` (scalar interpolation, fill `0`) -/
def inputOwn (I : Inst) (m j : Nat) (t : Rat) : Rat :=
  outRat (interpCore (I.cmode j) (I.cin m j) (some (XVal.fin 0)) (some (XVal.fin 0)) t)

end RtcVerif.C01
