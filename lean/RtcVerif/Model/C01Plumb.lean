import RtcVerif.Model.C01Colloc
/-!
# C01 — NumPy / Python-list level of the plumbing of `transcribe()`

Code-level reference definitions for the statements that `harness/translate_c01.py` translates into
`lean/RtcVerif/Gen/CollocPlumbing.lean` on every run:

* the loop that fills `interpolated_states_explicit / _implicit` from
  `self.__indices_as_lists[member][variable]` (copy, `extend(place_holder)`, `[:n]`, `[:-1]`, `[1:]`);
* `np.tile(np.repeat(nominals, n - 1), 2)`, the element-wise product with
  `ca.vertcat(X[explicit], X[implicit])` and the shape handed to `reshape`;
* the history block producing the initial derivative of a non-differentiated variable
  (`h.times[0] == t0 or len(h.values) == 1`, backward difference with negative indices,
  `except KeyError`);
* `reduce_matvec` on one entry of an affine expression (finding F36).

Core Lean only.  `Proofs/C01Plumb.lean` proves each equal to the model function the C01 property
theorems are about (`explicitInds`, `implicitInds`, `repeatedNominals`, `interpolatedFlat`,
`histDer`, `initDersCode`).
-/
namespace RtcVerif.C01
open RtcVerif RtcVerif.Interp

/-- `np.repeat(a, r)` -/
def npRepeat {α} (a : List α) (r : Nat) : List α := a.flatMap (fun x => List.replicate r x)

/-- `np.tile(a, c)` -/
def npTile {α} (a : List α) (c : Nat) : List α := (List.replicate c a).flatten

/-- `if len(l) != n: l = l.copy(); l.extend([p] * n); l = l[:n]` -/
def padCut {α} (l : List α) (n : Nat) (p : α) : List α :=
  if l.length ≠ n then (l ++ List.replicate n p).take n else l

/-- the index table read off the raw lists `indices_as_lists[member][variable]`: entry `i` of
    variable `v`, the place holder beyond the list (only variables with their own, shorter list of
    time stamps have such entries; their columns are overwritten) -/
def idxOf (raw : Nat → List Nat) (ph : Nat) (v i : Nat) : Nat := (raw v).getD i ph

/-- `interpolated_states_explicit` as the loop builds it -/
def explicitIndsCode (raw : Nat → List Nat) (k n ph : Nat) : List Nat :=
  (List.range k).flatMap (fun v => (padCut (raw v) n ph).dropLast)

/-- `interpolated_states_implicit` as the loop builds it -/
def implicitIndsCode (raw : Nat → List Nat) (k n ph : Nat) : List Nat :=
  (List.range k).flatMap (fun v => (padCut (raw v) n ph).tail)

/-- `np.tile(np.repeat(collocated_variable_nominals, n - 1), 2)` -/
def repeatedNominalsCode (nom : Nat → Rat) (k n : Nat) : List Rat :=
  npTile (npRepeat ((List.range k).map nom) (n - 1)) 2

/-- `ca.vertcat(X[explicit], X[implicit]) * repeated_nominals` -/
def interpolatedFlatCode (X : Vec) (raw : Nat → List Nat) (nom : Nat → Rat) (k n ph : Nat) : List Rat :=
  List.zipWith (· * ·) ((explicitIndsCode raw k n ph).map X ++ (implicitIndsCode raw k n ph).map X)
    (repeatedNominalsCode nom k n)

/-- Python `l[i]` for an integer literal `i` (negative: from the end); `0` where Python raises
    `IndexError` -/
def pyAt (l : List Rat) (i : Int) : Rat :=
  if 0 ≤ i then l.getD i.toNat 0
  else if (-i).toNat ≤ l.length then l.getD (l.length - (-i).toNat) 0 else 0

/-- the history block of the initial-derivative loop, statement by statement: `none` is the
    `except KeyError` branch; `h.times` / `h.values` are the two columns of the series -/
def histDerCode (h : Option Knots) (t0 : Rat) : Rat :=
  Option.elim h 0 (fun ks =>
    if pyAt (ks.map (·.1)) 0 = t0 ∨ ks.length = 1 then 0
    else (pyAt (ks.map (·.2)) (-1) - pyAt (ks.map (·.2)) (-2))
           / (pyAt (ks.map (·.1)) (-1) - pyAt (ks.map (·.1)) (-2)))

/-- value of one entry of an affine expression `e(v) = (∂e/∂v · v) + e(0)` -/
def affVal (lin const : Rat) : Rat := lin + const

/-- `reduce_matvec` on the unrepaired tree (finding F36): the part of `e` that does not depend on
    `v` is dropped -/
def affValLegacy (lin _const : Rat) : Rat := lin

/-- linear part of `initial_derivatives` (what `jacobian(e, X) · X` reproduces) -/
def initDersLin (s : Sys) (c : Mem) (X : Vec) : List Rat :=
  (List.range s.k).map (fun v => if v < s.nd then s.dnom v * X (c.didx v) else 0)

/-- constant part of `initial_derivatives` (`e` at `X = 0`): the history constants -/
def initDersConst (s : Sys) (c : Mem) : List Rat :=
  (List.range s.k).map (fun v => if v < s.nd then 0 else c.dconst v)

/-! ## Cached functions of `transcribe()` and `clear_transcription_cache()`

`transcribe()` builds a CasADi function for a slot only when the slot is empty (`if self.__slot is None`),
freezing the values that are inlined at that moment (ensemble-constant parameters); otherwise it reuses the
cached one.  `build d s`: the function transcribe builds for slot `s` from the current data `d`. -/

abbrev Cache (β : Type) := String → Option β

/-- the function transcribe uses for slot `s`: the cached one, else one built from the current data -/
def useSlot {α β : Type} (build : α → String → β) (d : α) (cache : Cache β) (s : String) : β :=
  (cache s).getD (build d s)

/-- `clear_transcription_cache()`: the listed slots are set to `None` -/
def clearSlots {β : Type} (cl : List String) (cache : Cache β) : Cache β :=
  fun s => if s ∈ cl then none else cache s

/-- what a transcription is made of: the functions of all slots it reads -/
def transcribeWith {α β : Type} (slots : List String) (build : α → String → β) (d : α) (cache : Cache β) : List β :=
  slots.map (useSlot build d cache)

end RtcVerif.C01
