import RtcVerif.Model.C02Loop
import RtcVerif.Model.C04Elem
/-!
# C02 — statement-level reference of the constraint bookkeeping of the priority loop

`Model/C02Loop.lean` states the loop functionally (`insertCriticals`, `convertAll`, `runLoopM`).  This
file re-states, at the granularity of the Python statements, the bookkeeping of
`GoalProgrammingMixin` (goal_programming_mixin.py) that the loop model abstracts:

* `softToHardRef` — `__soft_to_hard_constraints(goals, sym_index, is_path_goal)`: member loop, goal loop
  with index, `if goal.critical: continue`, where `epsilon` is read from (`self.__results[m][name]` plus
  `violation_relaxation`, or the goal's function value), `existing = store[m].get(fk)`,
  `store[m][fk] = self.__goal_hard_constraint(goal, epsilon, existing, m, options, is_path_goal)`;
* `resetRef`, `beforeSolveRef`, `afterSolveRef`, `addObjectiveRef` — the statements of `optimize()` and
  `__add_subproblem_objective_constraint` that touch the stores / the retained row lists;
* `constraintsRef` / `pathConstraintsRef` — what `constraints(m)` / `path_constraints(m)` hand to the
  transcription.

The source is translated statement by statement (`harness/translate_c02.py` → `Gen/GpBookkeeping.lean`)
and compared with these definitions; `Proofs/C02Book.lean` proves them equal to the loop model.
The per-member attributes (`[... for ensemble_member in range(self.ensemble_size)]`) are functions of
the member index; a `_GoalConstraint` with vector bounds is read element-wise (flat store, as in
`Model/C02Loop.lean`).  Core Lean only.
-/
namespace RtcVerif.C02
open RtcVerif RtcVerif.C04

/-- `for k in range(n): s = f(s, k)` -/
def forRange {σ : Type} (n : Nat) (f : σ → Nat → σ) (s : σ) : σ := (List.range n).foldl f s

/-- `for j, a in enumerate(l): s = f(s, j, a)` (counting from `j`) -/
def forEnum {σ α : Type} (f : σ → Nat → α → σ) : σ → Nat → List α → σ
  | s, _, [] => s
  | s, j, a :: rest => forEnum f (f s j a) (j + 1) rest

/-- item assignment on a per-member attribute: `attr[m] = v` -/
def upd {α : Type} (f : Nat → α) (m : Nat) (v : α) : Nat → α := fun k => if k = m then v else f k

/-- `"…{}…{}…".format(a, b)` -/
def fmt2 (s : String) (a b : Nat) : String :=
  match s.splitOn "{}" with
  | [p0, p1, p2] => p0 ++ toString a ++ p1 ++ toString b ++ p2
  | _ => s

/-- what the bookkeeping reads after the solve of a priority: `self.__results[member][name]` (a vector
    over the steps) and the value at `solver_output` of `goal.function(self, member)` (path goals: mapped
    over the time steps) -/
structure Reads where
  results : Nat → String → Nat → Rat
  fvalue : Nat → Bool → Goal → Nat → Rat

/-- the attributes of the mixin the bookkeeping writes; `ρ` = retained / soft row objects -/
structure Book (ρ : Type) where
  point : Nat → Store        -- `__constraint_store[m]`
  path : Nat → Store         -- `__path_constraint_store[m]`
  prob : Nat → List ρ        -- `__problem_constraints[m]`
  probPath : Nat → List ρ    -- `__problem_path_constraints[m]`
  sub : Nat → List ρ         -- `__subproblem_soft_constraints[m]`
  subPath : Nat → List ρ     -- `__subproblem_path_soft_constraints[m]`

/-- `self.__path_constraint_store if is_path_goal else self.__constraint_store` -/
def Book.sel {ρ : Type} (B : Book ρ) (isPath : Bool) : Nat → Store := if isPath then B.path else B.point

/-- `store[m] = st` on the selected store -/
def Book.put {ρ : Type} (B : Book ρ) (isPath : Bool) (m : Nat) (st : Store) : Book ρ :=
  if isPath then { B with path := upd B.path m st } else { B with point := upd B.point m st }

/-- number of entries of a bound vector: `epsilon[:1]` for point goals, `len(times())` for path goals -/
def nSteps (isPath : Bool) (nT : Nat) : Nat := if isPath then nT else 1

/-- one element of the bounds `__goal_hard_constraint(goal, epsilon, …, member, …)` builds before the
    merge: `epsilon` as passed by the caller (relaxed violation, or achieved value of a minimisation goal),
    `fv` = the value of `goal.function(self, member)` the method evaluates itself for violated steps -/
def hardCallStep (o : HOpts) (g : Goal) (epsilon fv : Nat → Rat) (i : Nat) : EIvl :=
  if g.hasTargetBounds then
    if vtFires o (epsilon i) then fixedStep o g (fv i) else hardTargetStep o g (epsilon i) i
  else hardMinStep o g (epsilon i)

/-- `existing = src.get(fkGet)` … `dst[fkSet] = self.__goal_hard_constraint(goal, epsilon, existing, …)`,
    element-wise (the merge at the end of the method is `C04.mergeNew`, `Gen/HardConstraint.lean`) -/
def hardWrite (o : HOpts) (nT : Nat) (isPath : Bool) (g : Goal) (epsilon fv : Nat → Rat)
    (fkGet fkSet : String) (src dst : Store) : Store :=
  (List.range (nSteps isPath nT)).foldl
    (fun st i => st.set (fkSet, i)
      (mergeNew EVal.max EVal.min (hardCallStep o g epsilon fv i) (src.get (fkGet, i)))) dst

/-- name of the violation variable of goal `j` of the priority with index `sym` in the results -/
def epsName (isPath : Bool) (sym j : Nat) : String :=
  fmt2 (if isPath then "path_eps_{}_{}" else "eps_{}_{}") sym j

/-- body of the goal loop of `__soft_to_hard_constraints` for member `m`, goal `goal` with index `j` -/
def softToHardBody {ρ : Type} (o : HOpts) (nT : Nat) (R : Reads) (sym : Nat) (isPath : Bool) (m : Nat)
    (B : Book ρ) (j : Nat) (goal : Goal) : Book ρ :=
  if goal.critical then B
  else
    let epsilon : Nat → Rat :=
      if goal.hasTargetBounds then
        (fun i => R.results m (fmt2 (if isPath then "path_eps_{}_{}" else "eps_{}_{}") sym j) i
                    + o.violationRelaxation)
      else R.fvalue m isPath goal
    B.put isPath m
      (hardWrite o nT isPath goal epsilon (R.fvalue m isPath goal) goal.fk goal.fk
        (B.sel isPath m) (B.sel isPath m))

/-- `__soft_to_hard_constraints(goals, sym_index, is_path_goal)` -/
def softToHardRef {ρ : Type} (o : HOpts) (E nT : Nat) (R : Reads) (sym : Nat) (isPath : Bool)
    (goals : List Goal) (B : Book ρ) : Book ρ :=
  forRange E (fun B m => forEnum (softToHardBody o nT R sym isPath m) B 0 goals) B

/-- `store = g` on the selected per-member attribute as a whole -/
def Book.putAll {ρ : Type} (B : Book ρ) (isPath : Bool) (g : Nat → Store) : Book ρ :=
  if isPath then { B with path := g } else { B with point := g }

/-- `_gp_update_constraint_store(store, hard_constraints)` with the hard constraints that
    `_gp_goal_constraints(goals, …, is_path_goal)` returned (the critical goals of `goals`): for every
    member, every critical goal enters through `storeSelf` -/
def insertHard {ρ : Type} (o : HOpts) (E nT : Nat) (toPath : Bool) (fromPath : Bool) (goals : List Goal)
    (B : Book ρ) : Book ρ :=
  forRange E (fun B m => B.put toPath m (insertCriticals o (nSteps fromPath nT) (B.sel toPath m) goals)) B

/-- the store / row-list resets of `optimize()` before the priority loop -/
def resetRef {ρ : Type} (B : Book ρ) : Book ρ :=
  { B with point := fun _ => [], path := fun _ => [], prob := fun _ => [], probPath := fun _ => [] }

/-- the bookkeeping of one pass before the solve: this priority's soft rows (`softOf goals is_path_goal` =
    the soft constraints `_gp_goal_constraints` returns per member), critical goals into the stores -/
def beforeSolveRef {ρ : Type} (o : HOpts) (E nT : Nat) (softOf : List Goal → Bool → Nat → List ρ)
    (goals pathGoals : List Goal) (B : Book ρ) : Book ρ :=
  insertHard o E nT true true pathGoals
    (insertHard o E nT false false goals
      { B with sub := softOf goals false, subPath := softOf pathGoals true })

/-- `__add_subproblem_objective_constraint()`: this priority's soft rows are retained for every member,
    the objective row goes to the last member -/
def addObjectiveRef {ρ : Type} (E : Nat) (row : ρ) (B : Book ρ) : Book ρ :=
  let B1 := forRange E (fun B m =>
    { B with prob := upd B.prob m (B.prob m ++ B.sub m),
             probPath := upd B.probPath m (B.probPath m ++ B.subPath m) }) B
  { B1 with prob := upd B1.prob (E - 1) (B1.prob (E - 1) ++ [row]) }

/-- the bookkeeping of one pass after `priority_completed` -/
def afterSolveRef {ρ : Type} (o : HOpts) (E nT : Nat) (R : Reads) (i : Nat) (keepSoft : Bool)
    (goals pathGoals : List Goal) (row : ρ) (B : Book ρ) : Book ρ :=
  if keepSoft then addObjectiveRef E row B
  else softToHardRef o E nT R i true pathGoals (softToHardRef o E nT R i false goals B)

/-- a piece of what `constraints()` / `path_constraints()` append after the user's own rows -/
inductive Seg (ρ : Type) where
  | store (s : Store)      -- every entry of a constraint store, in insertion order
  | rows (l : List ρ)      -- retained or current soft rows

/-- `constraints(ensemble_member)`: the member's store, the retained rows, this priority's soft rows -/
def constraintsRef {ρ : Type} (B : Book ρ) (m : Nat) : List (Seg ρ) :=
  [.store (B.point m), .rows (B.prob m), .rows (B.sub m)]

/-- `path_constraints(ensemble_member)` -/
def pathConstraintsRef {ρ : Type} (B : Book ρ) (m : Nat) : List (Seg ρ) :=
  [.store (B.path m), .rows (B.probPath m), .rows (B.subPath m)]

end RtcVerif.C02
