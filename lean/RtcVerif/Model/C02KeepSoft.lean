import RtcVerif.Model.Num
/-!
# keep_soft_constraints / single pass: retained objective rows (C02)

With `keep_soft_constraints` (`__add_subproblem_objective_constraint`) and in
`SinglePassGoalProgrammingMixin.transcribe` the soft rows and epsilons of a solved priority stay in
the problem and one row on that priority's goal objective is retained:
`obj_k(x) = obj_k(x_k)` under `fix_minimized_values`, else `obj_k(x) ≤ obj_k(x_k) + constraint_relaxation`.

* `appendLoop` — GoalProgrammingMixin with keep_soft and single pass `APPEND_CONSTRAINTS_OBJECTIVE`:
  the row of priority index `k` is appended after priority `k` is solved;
* `updateLoop` — single pass `UPDATE_OBJECTIVE_CONSTRAINT_BOUNDS`: all rows exist from the start with
  bounds `(-inf, inf)`; after priority `k` the bounds of row `k` are overwritten.

A solution is seen through the values of all priorities' objectives; the solver is an oracle.
Core Lean only.
-/
namespace RtcVerif.C02

/-- bounds on the goal objective of priority index `k` -/
structure ObjRow where
  k : Nat
  lo : EVal
  hi : EVal
deriving Repr, DecidableEq

/-- value of the goal objective of every priority index at a solution -/
abbrev ObjSol := Nat → Rat

def objRow (fix : Bool) (cr : Rat) (k : Nat) (v : Rat) : ObjRow :=
  if fix then ⟨k, .fin v, .fin v⟩ else ⟨k, .ninf, .fin (v + cr)⟩

/-- `m` priorities left, next priority index `k` -/
def appendLoop (fix : Bool) (cr : Rat) (oracle : List ObjRow → Nat → Option ObjSol) :
    Nat → Nat → List ObjRow → List ObjSol → List ObjSol × Bool
  | 0, _, _, done => (done, true)
  | m + 1, k, rows, done =>
      match oracle rows k with
      | none => (done, false)
      | some s => appendLoop fix cr oracle m (k + 1) (rows ++ [objRow fix cr k (s k)]) (done ++ [s])

def freeRows (K : Nat) : List ObjRow := (List.range K).map fun k => ⟨k, .ninf, .pinf⟩

def updateLoop (fix : Bool) (cr : Rat) (oracle : List ObjRow → Nat → Option ObjSol) :
    Nat → Nat → List ObjRow → List ObjSol → List ObjSol × Bool
  | 0, _, _, done => (done, true)
  | m + 1, k, rows, done =>
      match oracle rows k with
      | none => (done, false)
      | some s => updateLoop fix cr oracle m (k + 1) (rows.set k (objRow fix cr k (s k))) (done ++ [s])

end RtcVerif.C02
