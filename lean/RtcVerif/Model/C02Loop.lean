import RtcVerif.Model.C04Store
/-!
# The multi-pass priority loop of `GoalProgrammingMixin.optimize` (C02)

* the constraint store of one ensemble member: `(function key, step) ↦ [lo, hi]`.  The code keeps
  one `_GoalConstraint` per function key whose bounds are floats (point goals: one step) or
  `Timeseries` over `times()` (path goals); every store operation works element-wise, so the
  store is modelled flat, keyed by `(key, step)`.
* `storeOther` — `__soft_to_hard_constraints`: `store[fk] = new.update_bounds(existing, "other")`;
  `storeSelf` — `_gp_update_constraint_store` for critical goals: `store[fk].update_bounds(new)`.
* `hardStep` — the bounds `__goal_hard_constraint` derives for one goal at one step from the
  solution of its priority (achieved epsilon + `violation_relaxation`, or achieved function value;
  steps violated beyond `violation_tolerance` are fixed at the achieved function value).
* `runLoop` — the loop: insert the priority's critical goals, ask the solver oracle for *any*
  point feasible for (store, this priority's soft rows), convert the priority's goals, continue;
  stop at the first failure.

Core Lean only.
-/
namespace RtcVerif.C02
open RtcVerif RtcVerif.C04

abbrev Key := String × Nat
abbrev Store := List (Key × EIvl)

def Store.get (s : Store) (k : Key) : Option EIvl := s.lookup k

/-- replace the entry of `k` keeping its position (`OrderedDict` assignment), or append -/
def Store.set : Store → Key → EIvl → Store
  | [], k, v => [(k, v)]
  | (k', w) :: rest, k, v => if k' == k then (k', v) :: rest else (k', w) :: Store.set rest k v

/-- `StateGoal.__init__`: the function key of a goal on a state is the canonical name of the state,
    prefixed with `"-"` when the state is a negated alias of it (`canonical_signed` gives sign -1) -/
def stateGoalKey (canonical : String) (positive : Bool) : String :=
  if positive then canonical else "-" ++ canonical

/-- soft-to-hard conversion of one entry: `store[k] = new.update_bounds(existing, enforce="other")` -/
def storeOther (s : Store) (k : Key) (new : EIvl) : Store :=
  match s.get k with
  | none => s.set k new
  | some ex => s.set k (updateBounds new ex false)

/-- a critical goal's entry: `store[k].update_bounds(new)` (`enforce="self"`), or insertion -/
def storeSelf (s : Store) (k : Key) (new : EIvl) : Store :=
  match s.get k with
  | none => s.set k new
  | some ex => s.set k (updateBounds ex new true)

/-- what the loop reads from a solution (one ensemble member): the goal function per function
    key and step, and the violation variable per goal index (within its priority) and step -/
structure Sol where
  fval : String → Nat → Rat
  eps : Nat → Nat → Rat

/-- `epsilon > violation_tolerance` (with `epsilon` already relaxed) -/
def vtFires (o : HOpts) (eps : Rat) : Bool :=
  match o.violationTolerance with
  | some vt => decide (vt < eps)
  | none => false

/-- a violated step: the achieved function value `v` is fixed,
    `[(v - relaxation)/nom - cr, (v + relaxation)/nom + cr]` -/
def fixedStep (o : HOpts) (g : Goal) (v : Rat) : EIvl :=
  ⟨.fin ((v - g.relaxation) / g.nomAt 0 - o.constraintRelaxation),
   .fin ((v + g.relaxation) / g.nomAt 0 + o.constraintRelaxation)⟩

/-- bounds retained for goal `g` (index `gj` in its priority) at step `i` from solution `s` -/
def hardStep (o : HOpts) (g : Goal) (s : Sol) (gj i : Nat) : EIvl :=
  if g.hasTargetBounds then
    if vtFires o (s.eps gj i + o.violationRelaxation) then fixedStep o g (s.fval g.fk i)
    else hardTargetStep o g (s.eps gj i + o.violationRelaxation) i
  else hardMinStep o g (s.fval g.fk i)

/-- `__soft_to_hard_constraints` for one goal: all `n` steps -/
def convertGoal (o : HOpts) (n : Nat) (s : Sol) (st : Store) (gj : Nat) (g : Goal) : Store :=
  if g.critical then st
  else (List.range n).foldl (fun st i => storeOther st (g.fk, i) (hardStep o g s gj i)) st

/-- all goals of a priority, in order -/
def convertFrom (o : HOpts) (n : Nat) (s : Sol) : Store → Nat → List Goal → Store
  | st, _, [] => st
  | st, gj, g :: rest => convertFrom o n s (convertGoal o n s st gj g) (gj + 1) rest

def convertAll (o : HOpts) (n : Nat) (s : Sol) (st : Store) (gs : List Goal) : Store :=
  convertFrom o n s st 0 gs

/-- one critical goal into the store (all steps) -/
def insertCritical (o : HOpts) (n : Nat) (st : Store) (g : Goal) : Store :=
  if g.critical then
    (List.range n).foldl (fun st i => storeSelf st (g.fk, i) (hardTargetStep o g 0 i)) st
  else st

def insertCriticals (o : HOpts) (n : Nat) (st : Store) (gs : List Goal) : Store :=
  gs.foldl (insertCritical o n) st

/-- The loop.  `oracle store goals` is the solver: it returns some solution (any point feasible
    for the problem it is given — the contract is a hypothesis of the theorems) or fails.
    Returns the completed priorities with their solutions, and the success flag. -/
def runLoop (o : HOpts) (n : Nat) (oracle : Store → List Goal → Option Sol) :
    List (List Goal) → Store → List (List Goal × Sol) → List (List Goal × Sol) × Bool
  | [], _, done => (done, true)
  | gs :: rest, st, done =>
      let st1 := insertCriticals o n st gs
      match oracle st1 gs with
      | none => (done, false)
      | some s => runLoop o n oracle rest (convertAll o n s st1 gs) (done ++ [(gs, s)])

/-- The loop over a family of independent stores — one per ensemble member and per kind of
    goal (point goals: one step; path goals: `len(times())` steps) — solved together: one solver
    call per priority sees all stores and all goals and returns a solution for every index. -/
def runLoopM {ι : Type} (o : HOpts) (n : ι → Nat)
    (oracle : (ι → Store) → (ι → List Goal) → Option (ι → Sol)) :
    List (ι → List Goal) → (ι → Store) → List ((ι → List Goal) × (ι → Sol)) →
      List ((ι → List Goal) × (ι → Sol)) × Bool
  | [], _, done => (done, true)
  | gs :: rest, st, done =>
      match oracle (fun j => insertCriticals o (n j) (st j) (gs j)) gs with
      | none => (done, false)
      | some s =>
          runLoopM o n oracle rest
            (fun j => convertAll o (n j) (s j) (insertCriticals o (n j) (st j) (gs j)) (gs j))
            (done ++ [(gs, s)])

/-- the stores handed to the solver along a run (for `store_monotone`) -/
def runStores (o : HOpts) (n : Nat) (oracle : Store → List Goal → Option Sol) :
    List (List Goal) → Store → List Store
  | [], _ => []
  | gs :: rest, st =>
      let st1 := insertCriticals o n st gs
      match oracle st1 gs with
      | none => [st1]
      | some s => st1 :: runStores o n oracle rest (convertAll o n s st1 gs)

/-- entries of one function key, steps `0 … n-1` (driver output) -/
def Store.ofKey (s : Store) (fk : String) (n : Nat) : List (Option EIvl) :=
  (List.range n).map fun i => s.get (fk, i)

/-- function keys in first-insertion order -/
def Store.keys (s : Store) : List String :=
  s.foldl (fun acc (kv : Key × EIvl) => if acc.contains kv.1.1 then acc else acc ++ [kv.1.1]) []

end RtcVerif.C02
