import RtcVerif.Model.Num
/-!
# C03 — optimality certificate: Lagrangian lower bound of a boxed LP / convex QP

Executable, list based, exact rationals.  The problem is

    minimise   c·x + c0 + Σ_k κ_k (a_k·x + d_k)²
    subject to lo_i ≤ A_i·x + b0_i ≤ hi_i     (rows, sparse)
               lb_j ≤ x_j ≤ ub_j               (columns; bounds may be infinite)

`lagrangianBound` evaluates, for ANY multipliers `y⁺, y⁻`, the value

    L(y) = c0 + Σ_i (y⁺_i (lo_i - b0_i) - y⁻_i (hi_i - b0_i)) + Σ_j (r_j⁺ lb_j - r_j⁻ ub_j),
    r = c - Aᵀ(y⁺ - y⁻),

and returns `none` when that value is not a valid finite bound (negative multiplier, multiplier
on an infinite side, non-zero reduced cost towards an infinite column bound, malformed input).
`Props/C03.lean` proves `L(y) ≤ objective x` for every feasible `x`.  Core Lean only.
-/
namespace RtcVerif.C03

/-- sparse row: (column index, coefficient) -/
abbrev SRow := List (Nat × Rat)

def dot : List Rat → List Rat → Rat
  | a :: as, b :: bs => a * b + dot as bs
  | _, _ => 0

def rowDot : SRow → List Rat → Rat
  | [], _ => 0
  | (j, v) :: rest, x => v * x.getD j 0 + rowDot rest x

/-- `r[j] += d` (no-op when `j` is out of range; callers check the range) -/
def addAt : List Rat → Nat → Rat → List Rat
  | [], _, _ => []
  | a :: as, 0, d => (a + d) :: as
  | a :: as, j + 1, d => a :: addAt as j d

/-- `r + k • row` -/
def axpy (r : List Rat) (k : Rat) : SRow → List Rat
  | [] => r
  | (j, v) :: rest => axpy (addAt r j (k * v)) k rest

def rowInRange (n : Nat) (row : SRow) : Bool := row.all fun jv => decide (jv.1 < n)

structure Row where
  coefs : SRow
  b0 : Rat          -- g_i(x) = coefs·x + b0
  lo : EVal
  hi : EVal
deriving Repr, DecidableEq

structure Col where
  lb : EVal
  ub : EVal
deriving Repr

/-- a squared affine form `kappa * (coefs·x + d)^2` of the objective -/
structure Sq where
  kappa : Rat
  coefs : SRow
  d : Rat
deriving Repr

structure LP where
  c : List Rat
  c0 : Rat
  rows : List Row
  cols : List Col
deriving Repr

structure QP extends LP where
  sqs : List Sq
deriving Repr

def inBnd (lo hi : EVal) (v : Rat) : Bool := EVal.le lo (.fin v) && EVal.le (.fin v) hi

def rowsFeasible : List Row → List Rat → Bool
  | [], _ => true
  | r :: rest, x => inBnd r.lo r.hi (rowDot r.coefs x + r.b0) && rowsFeasible rest x

def boxFeasible : List Col → List Rat → Bool
  | [], [] => true
  | cl :: cs, v :: xs => inBnd cl.lb cl.ub v && boxFeasible cs xs
  | _, _ => false

/-- `x` satisfies every row and every column bound (and has the right length) -/
def LP.feasible (P : LP) (x : List Rat) : Bool := boxFeasible P.cols x && rowsFeasible P.rows x

def LP.objective (P : LP) (x : List Rat) : Rat := dot P.c x + P.c0

def sqValue (x : List Rat) (s : Sq) : Rat := s.kappa * (rowDot s.coefs x + s.d) ^ 2

def QP.objective (P : QP) (x : List Rat) : Rat := P.toLP.objective x + (P.sqs.map (sqValue x)).sum

/-- well-formedness: one column per cost entry, all row indices in range -/
def LP.wf (P : LP) : Bool :=
  decide (P.cols.length = P.c.length) && P.rows.all fun r => rowInRange P.c.length r.coefs

/-- reduced costs `c - Aᵀ(y⁺ - y⁻)`, one sparse update per row -/
def reduced : List Rat → List Row → List (Rat × Rat) → List Rat
  | r, row :: rows, y :: ys => reduced (axpy r (-(y.1 - y.2)) row.coefs) rows ys
  | r, _, _ => r

/-- contribution of one side: `y * bound`, `0` for `y = 0`, invalid for `y < 0` or an infinite bound -/
def sideTerm (y : Rat) (bnd : EVal) (b0 : Rat) : Option Rat :=
  if y < 0 then none
  else if y = 0 then some 0
  else match bnd with
    | .fin q => some (y * (q - b0))
    | _ => none

/-- `Σ_i (y⁺_i (lo_i - b0_i) - y⁻_i (hi_i - b0_i))`; the lists must have equal length -/
def rowPart : List Row → List (Rat × Rat) → Option Rat
  | [], [] => some 0
  | row :: rows, y :: ys => do
      let a ← sideTerm y.1 row.lo row.b0
      let b ← sideTerm y.2 row.hi row.b0
      let rest ← rowPart rows ys
      pure (a - b + rest)
  | _, _ => none

/-- `min over lb ≤ v ≤ ub of r * v`, when finite -/
def colTerm (r : Rat) (cl : Col) : Option Rat :=
  if r = 0 then some 0
  else if 0 < r then
    match cl.lb with
    | .fin q => some (r * q)
    | _ => none
  else
    match cl.ub with
    | .fin q => some (r * q)
    | _ => none

def boxPart : List Rat → List Col → Option Rat
  | [], [] => some 0
  | r :: rs, cl :: cs => do
      let a ← colTerm r cl
      let rest ← boxPart rs cs
      pure (a + rest)
  | _, _ => none

/-- the Lagrangian lower bound `L(y)` of the LP for the multiplier pairs `ys = (y⁺_i, y⁻_i)` -/
def lagrangianBound (P : LP) (ys : List (Rat × Rat)) : Option Rat :=
  if P.wf then do
    let R ← rowPart P.rows ys
    let B ← boxPart (reduced P.c P.rows ys) P.cols
    pure (P.c0 + R + B)
  else none

/-! ## Order-2 objectives: tangent (linearisation) of the convex quadratic at a point -/

/-- linear part of the tangent at `xt`: `c + Σ_k 2 κ_k (a_k·xt + d_k) a_k` -/
def tangentC : List Rat → List Sq → List Rat → List Rat
  | c, [], _ => c
  | c, s :: rest, xt => tangentC (axpy c (2 * s.kappa * (rowDot s.coefs xt + s.d)) s.coefs) rest xt

/-- constant part: `c0 + Σ_k κ_k (2 s̃_k d_k - s̃_k²)`, `s̃_k = a_k·xt + d_k` -/
def tangentC0 (c0 : Rat) (sqs : List Sq) (xt : List Rat) : Rat :=
  c0 + (sqs.map fun s =>
          let st := rowDot s.coefs xt + s.d
          s.kappa * (2 * st * s.d - st ^ 2)).sum

def QP.wf (P : QP) : Bool :=
  P.toLP.wf && P.sqs.all fun s => decide (0 ≤ s.kappa) && rowInRange P.c.length s.coefs

/-- the LP whose objective is the tangent of the QP objective at `xt` (same constraints) -/
def QP.tangentLP (P : QP) (xt : List Rat) : LP :=
  { c := tangentC P.c P.sqs xt, c0 := tangentC0 P.c0 P.sqs xt, rows := P.rows, cols := P.cols }

/-- lower bound of the convex QP: Lagrangian bound of its tangent LP at `xt` -/
def qpBound (P : QP) (xt : List Rat) (ys : List (Rat × Rat)) : Option Rat :=
  if P.wf && decide (xt.length = P.c.length) then lagrangianBound (P.tangentLP xt) ys else none

end RtcVerif.C03
