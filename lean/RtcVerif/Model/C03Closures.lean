import RtcVerif.Model.C03Subproblem
/-!
# C03 — the `_objective_func` closures of `_gp_goal_constraints`

Reference (model side) for the generated module `Gen/GpObjectiveFunc.lean`: an objective function of a
priority is a *closure* `o(problem, ensemble_member)`; evaluated on the transcribed problem it gives one
vector per (ensemble member `m`, time step `i`) — `i` is only meaningful for path goals.

The reads a closure can make of the problem are the three below; all of them end in the valuation
`val isPath j c m i` of `Model/C03Subproblem.lean` (`j` = position of the goal in the list handed to
`_gp_goal_constraints`, which is also the `j` in the name of its epsilon symbol).  Core Lean only.
-/
namespace RtcVerif.C03

/-- an objective function after `o(self, ensemble_member)`: member → time step → vector -/
abbrev Closure := Nat → Nat → List Rat

/-- the symbol `ca.MX.sym(eps_format.format(sym_index, j), goal.size)`: `path` = the name carries the
    `path_` prefix, `idx` = `sym_index` (priority position), `j` = position of the goal, `size` = rows -/
structure EpsSym where
  path : Bool
  idx : Nat
  j : Nat
  size : Nat
deriving Repr, DecidableEq

/-- `problem.variable(sym.name())` (a path variable: one value per time step) -/
def readVariable (val : Val) (s : EpsSym) (m i c : Nat) : Rat := val s.path s.j c m i

/-- `problem.extra_variable(sym.name(), ensemble_member)` (no time axis) -/
def readExtra (val : Val) (s : EpsSym) (m c : Nat) : Rat := val s.path s.j c m 0

/-- `goal.function(problem, ensemble_member)` of the goal at position `gj.2` of the (path) goal list:
    evaluated per time step for path goals, once (step 0 by convention) for point goals -/
def readFunction (val : Val) (isPath : Bool) (gj : Goal × Nat) (m i c : Nat) : Rat :=
  val isPath gj.2 c m (if isPath then i else 0)

/-- the objective function the model attributes to goal `gj` -/
def closureOf (sbs isPath : Bool) (T : Nat) (val : Val) (gj : Goal × Nat) : Closure :=
  fun m i => objVec sbs isPath T val m (if isPath then i else 0) gj

/-- loop body of `_gp_goal_constraints` (objective part): critical goals append nothing -/
def goalClosure (sbs isPath : Bool) (T : Nat) (val : Val) (gj : Goal × Nat) : Option Closure :=
  if !gj.1.critical then some (closureOf sbs isPath T val gj) else none

/-- the list `objectives` returned by `_gp_goal_constraints(goals, sym_index, options, is_path_goal)` -/
def closures (sbs isPath : Bool) (T : Nat) (val : Val) (goals : List Goal) : List Closure :=
  (indexed goals).filterMap (goalClosure sbs isPath T val)

/-- a goal whose order-`r` penalty has been replaced by the linear majorant variable
    (LinearizedOrderGoalProgrammingMixin): weight and divisor unchanged, exponent 1 -/
def Goal.linearized (g : Goal) : Goal := { g with order := 1 }

/-- `_linearize_goal(goal)` of LinearizedOrderGoalProgrammingMixin: `gl` = `goal.linearize_order` of a
    `LinearizedOrderGoal` (`none`: a plain `Goal`, or the attribute left at `None`), `optLin` = the option
    `linearize_goal_order`.  The goal's own setting wins over the option; only non-critical goals of order > 1 are
    linearised. -/
def isLinearized (optLin : Bool) (gl : Option Bool) (g : Goal) : Bool :=
  (match gl with
    | some b => b
    | none => optLin) && decide (1 < g.order) && !g.critical

end RtcVerif.C03
