import RtcVerif.Model.Num
/-!
# C03 — per-priority objective assembly of the goal-programming mixins

Model of `_gp_goal_constraints` (objective part), `_gp_n_objectives`, `_gp_objective`,
`_gp_path_objective` (goal_programming_mixin_base.py), `GoalProgrammingMixin.objective /
path_objective`, and the probability-weighted sum over ensemble members and time steps of
`CollocatedIntegratedOptimizationProblem.transcribe`.

The goal functions and the epsilon variables are *parameters*: a valuation
`val isPath j c m i` gives the value of component `c` of the `j`-th (path) goal's epsilon
(target goal) or goal function (minimisation goal) for ensemble member `m` at time step `i`
(`i = 0` for point goals).  Core Lean only.
-/
namespace RtcVerif.C03

/-- shapes in which `target_min` / `target_max` of a goal can be given -/
inductive Target where
  | scalar (v : XVal)                   -- a float (NaN = not set)
  | vec (vs : List XVal)                -- ndarray, one entry per component of a vector goal
  | ts1 (vs : List XVal)                -- Timeseries on the problem's time stamps, 1-D values
  | ts2 (rows : List (List XVal))       -- Timeseries, `rows[i]` = component values at time stamp `i`
deriving Repr, Inhabited

namespace Target

/-- `Goal.has_target_min/max`: a Timeseries always counts as set -/
def isSet : Target → Bool
  | scalar v => v.isFinite
  | vec vs => vs.any XVal.isFinite
  | ts1 _ => true
  | ts2 _ => true

/-- entry `[c][i]` of the array `_gp_min_max_arrays` broadcasts the target to
    (`size x T` for path goals, `size x 1` for point goals) -/
def entry (t : Target) (c i : Nat) : XVal :=
  match t with
  | scalar v => v
  | vec vs => match vs with
      | [v] => v                          -- NumPy broadcasting of a length-1 array
      | _ => vs.getD c XVal.nan
  | ts1 vs => vs.getD i XVal.nan
  | ts2 rows => (rows.getD i []).getD c XVal.nan

end Target

structure Goal where
  size : Nat
  weight : Rat
  order : Nat
  nominal : List Rat          -- one entry (scalar nominal) or one per component
  tmin : Target
  tmax : Target
  critical : Bool
deriving Repr, Inhabited

namespace Goal

def hasBounds (g : Goal) : Bool := g.tmin.isSet || g.tmax.isSet

def nominalAt (g : Goal) (c : Nat) : Rat :=
  match g.nominal with
  | [v] => v
  | vs => vs.getD c 1

/-- is time step `i` of component `c` *active* (a finite target on either side)? -/
def activeAt (g : Goal) (c i : Nat) : Bool :=
  (g.tmin.entry c i).isFinite || (g.tmax.entry c i).isFinite

/-- `np.sum(goal_active, axis=-1)` for component `c` -/
def activeCount (g : Goal) (T c : Nat) : Nat :=
  ((List.range T).filter (fun i => g.activeAt c i)).length

/-- the divisor `n_active` of component `c` chosen in `_gp_goal_constraints` -/
def nActive (g : Goal) (sbs isPath : Bool) (T c : Nat) : Rat :=
  if isPath && sbs then
    if g.hasBounds then ((max (g.activeCount T c) 1 : Nat) : Rat)   -- np.maximum(n_active, 1)
    else (T : Rat)                                                   -- len(self.times())
  else 1

end Goal

/-- value of epsilon / goal function: `val isPath j c m i` -/
abbrev Val := Bool → Nat → Nat → Nat → Nat → Rat

/-- the quantity raised to the goal's order: epsilon for target goals, `f / nominal` otherwise -/
def base (g : Goal) (isPath : Bool) (j : Nat) (val : Val) (m i c : Nat) : Rat :=
  if g.hasBounds then val isPath j c m i else val isPath j c m i / g.nominalAt c

/-- the vector returned by one `_objective_func` (empty for critical goals, which have none) -/
def objVec (sbs isPath : Bool) (T : Nat) (val : Val) (m i : Nat) (gj : Goal × Nat) : List Rat :=
  if gj.1.critical then []
  else (List.range gj.1.size).map fun c =>
    gj.1.weight * (base gj.1 isPath gj.2 val m i c) ^ gj.1.order / gj.1.nActive sbs isPath T c

/-- goals paired with their index (`enumerate(goals)`) in the list handed to `_gp_goal_constraints` -/
def indexFrom : Nat → List Goal → List (Goal × Nat)
  | _, [] => []
  | k, g :: gs => (g, k) :: indexFrom (k + 1) gs

def indexed (gs : List Goal) : List (Goal × Nat) := indexFrom 0 gs

/-- the list `objectives` built by `_gp_goal_constraints`: one objective function per non-critical goal -/
def objectiveFns (gs : List Goal) : List (Goal × Nat) := (indexed gs).filter fun gj => !gj.1.critical

/-- `_gp_objective` / `_gp_path_objective` in the shape of the source, over an abstract list of objective
    functions `objs` with evaluation `ev` (`o(self, ensemble_member)`) -/
def gpObjectiveCode {α : Type} (sbs : Bool) (ev : α → List Rat) (objs : List α) (nObj : Nat) : Rat :=
  if 0 < objs.length then
    (if sbs then (objs.flatMap ev).sum / (nObj : Rat) else (objs.flatMap ev).sum)
  else 0

/-- `ca.vertcat(*[o(self, m) for o in objectives])` -/
def vertcat (sbs isPath : Bool) (T : Nat) (val : Val) (m i : Nat) (gs : List Goal) : List Rat :=
  (indexed gs).flatMap (objVec sbs isPath T val m i)

/-- `_gp_n_objectives`: number of rows of the two concatenated objective vectors -/
def nObjectives (sbs : Bool) (T : Nat) (val : Val) (m : Nat) (goals pathGoals : List Goal) : Nat :=
  (vertcat sbs false T val m 0 goals).length + (vertcat sbs true T val m 0 pathGoals).length

/-- `_gp_objective` / `_gp_path_objective`: `sum1(vertcat(...))`, divided by `n_objectives` when
    `scale_by_problem_size`; `0` when the priority has no objective function of that kind -/
def gpObjective (sbs isPath : Bool) (T : Nat) (val : Val) (m i : Nat) (gs : List Goal) (nObj : Nat) : Rat :=
  if (gs.filter (fun g => !g.critical)).isEmpty then 0
  else
    let acc := (vertcat sbs isPath T val m i gs).sum
    if sbs then acc / (nObj : Rat) else acc

/-- objective of one ensemble member: `objective(m)` plus the path objective at every time stamp
    (`initial_path_objective + sum1(discretized_path_objective)`) -/
def memberObjective (sbs : Bool) (T : Nat) (val : Val) (goals pathGoals : List Goal) (m : Nat) : Rat :=
  let n := nObjectives sbs T val m goals pathGoals
  gpObjective sbs false T val m 0 goals n
    + ((List.range T).map fun i => gpObjective sbs true T val m i pathGoals n).sum

/-- the objective handed to the solver: probability-weighted sum over the ensemble members -/
def objective (sbs : Bool) (T : Nat) (probs : List Rat) (val : Val) (goals pathGoals : List Goal) : Rat :=
  (probs.zipIdx.map fun pm => pm.1 * memberObjective sbs T val goals pathGoals pm.2).sum

/-! ## The documented formula (specification side) -/

/-- number of objective entries of a priority: the sizes of its non-critical goals -/
def nGoalsDoc (goals pathGoals : List Goal) : Nat :=
  ((goals.filter (fun g => !g.critical)).map (·.size)).sum
    + ((pathGoals.filter (fun g => !g.critical)).map (·.size)).sum

/-- documented divisor of component `c` of a path goal under `scale_by_problem_size`: number of
    time steps with a finite target (at least one) for a target goal, number of time steps for a
    minimisation goal; `1` without the option and for point goals -/
def nActiveDoc (g : Goal) (sbs isPath : Bool) (T c : Nat) : Rat :=
  if sbs && isPath then
    (if g.hasBounds then ((max 1 (g.activeCount T c) : Nat) : Rat) else (T : Rat))
  else 1

/-- `Σ_c  w · base^order` (point goal) -/
def docPoint (val : Val) (m : Nat) (gj : Goal × Nat) : Rat :=
  ((List.range gj.1.size).map fun c => gj.1.weight * (base gj.1 false gj.2 val m 0 c) ^ gj.1.order).sum

/-- `Σ_c (Σ_i w · base^order) / n_active_c` (path goal, summed over the time steps) -/
def docPath (sbs : Bool) (T : Nat) (val : Val) (m : Nat) (gj : Goal × Nat) : Rat :=
  ((List.range gj.1.size).map fun c =>
      ((List.range T).map fun i => gj.1.weight * (base gj.1 true gj.2 val m i c) ^ gj.1.order).sum
        / nActiveDoc gj.1 sbs true T c).sum

/-- the documented objective of a priority:
    `Σ_m p_m · ( Σ_{goals} Σ_c w ε^r  +  Σ_{path goals} Σ_c Σ_t w ε^r / n_active ) / n_objectives` -/
def documented (sbs : Bool) (T : Nat) (probs : List Rat) (val : Val) (goals pathGoals : List Goal) : Rat :=
  (probs.zipIdx.map fun pm =>
    pm.1 * ((((indexed goals).filter (fun gj => !gj.1.critical)).map (docPoint val pm.2)).sum
            + (((indexed pathGoals).filter (fun gj => !gj.1.critical)).map (docPath sbs T val pm.2)).sum)
      / (if sbs then (nGoalsDoc goals pathGoals : Rat) else 1)).sum

/-! ## Coefficient table (what the driver prints and the harness compares with the real `f`) -/

structure Term where
  isPath : Bool
  j : Nat          -- index of the goal in its list
  c : Nat          -- component
  m : Nat          -- ensemble member
  i : Nat          -- time step (0 for point goals)
  coef : Rat
  nominal : Rat    -- the variable is divided by this before the power (1 for epsilons)
  order : Nat
deriving Repr

def Term.eval (val : Val) (t : Term) : Rat :=
  t.coef * (val t.isPath t.j t.c t.m t.i / t.nominal) ^ t.order

/-- terms of one goal at one (member, step), with the divisors applied in the code's order -/
def goalTerms (sbs isPath : Bool) (T : Nat) (p : Rat) (nObj : Nat) (m i : Nat) (gj : Goal × Nat) : List Term :=
  if gj.1.critical then []
  else (List.range gj.1.size).map fun c =>
    let k := gj.1.weight / gj.1.nActive sbs isPath T c
    let k := if sbs then k / (nObj : Rat) else k
    { isPath := isPath, j := gj.2, c := c, m := m, i := i, coef := p * k,
      nominal := if gj.1.hasBounds then 1 else gj.1.nominalAt c, order := gj.1.order }

def memberTerms (sbs : Bool) (T : Nat) (goals pathGoals : List Goal) (pm : Rat × Nat) : List Term :=
  let n := nObjectives sbs T (fun _ _ _ _ _ => 0) pm.2 goals pathGoals
  (indexed goals).flatMap (goalTerms sbs false T pm.1 n pm.2 0)
    ++ (List.range T).flatMap fun i => (indexed pathGoals).flatMap (goalTerms sbs true T pm.1 n pm.2 i)

def terms (sbs : Bool) (T : Nat) (probs : List Rat) (goals pathGoals : List Goal) : List Term :=
  probs.zipIdx.flatMap (memberTerms sbs T goals pathGoals)

def evalTerms (val : Val) (ts : List Term) : Rat := (ts.map (Term.eval val)).sum

end RtcVerif.C03
