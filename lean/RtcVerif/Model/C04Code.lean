import RtcVerif.Model.C04Goals
/-!
# Code-level reference of the goal validation, target broadcasting and soft-constraint construction (C04)

`harness/translate_c04.py` (`gen_goal_code`) re-generates `Gen/GoalCode.lean` from the Python source on every
run and proves every generated definition equal to the `…Ref` definition below (same vocabulary: the
NumPy-level primitives of this file).  `Proofs/C04Code.lean` proves the references equal to the model of the
property theorems: `checkDef`, `checkMono`, `checkTargets`, `validate`, `Target.at`, `Goal.minSym` /
`Goal.maxSym`, `Goal.keepMin` / `Goal.keepMax`, `softRow`, `softRows`.

The reference keeps what the code has and the model has simplified away: the NaN masks
(`indices = np.where(~(isnan(a) | isnan(b)))`) in front of the comparisons, the nesting of the `if`
statements, the per-kind construction of the sentinel constants and slice indices, the `if_else` of
`_soft_constraint_func`, the `(shape, element)` outcome of `_gp_min_max_arrays` per target kind.

Core Lean only.
-/
set_option linter.unusedVariables false
namespace RtcVerif.C04

/-! ## NumPy-level primitives -/

/-- `np.any(<Boolean array over the (component, step) cells of a goal>)` -/
def anyCell (size n : Nat) (p : Nat → Nat → Bool) : Bool := (cells size n).any (fun x => p x.1 x.2)

/-- `np.isneginf`, `np.isposinf` -/
def xIsNinf (v : XVal) : Bool := v == XVal.ninf
def xIsPinf (v : XVal) : Bool := v == XVal.pinf

/-- `ca.if_else(ca.fabs(target) < c, a(target), b)`: the comparison is false for NaN and ±inf -/
def ifAbsLt (target : XVal) (c : Rat) (a : Rat → Rat) (b : Rat) : Rat :=
  match target with
  | .e (.fin t) => if qabs t < c then a t else b
  | _ => b

/-- one `_GoalConstraint(goal, partial(_soft_constraint_func, bound=…), lb, ub, False)` row; the bound is
    an entry of `function_range` (finite for every validated non-critical target goal; the row is
    totalised to the constant `0` otherwise, as in `softRows`) -/
def rowWith (bound : XVal) (k : Rat → Rat) (lb ub : EVal) : Row :=
  match bound with
  | .e (.fin b) => ⟨k b, lb, ub⟩
  | _ => ⟨0, lb, ub⟩

/-- the `fk_goal_map` walk of the monotonicity block with the body of `if prev is not None:` as a parameter -/
def monoWalkWith (chk : Goal → Goal → Option Err) : List (String × Goal) → List Goal → Option Err
  | _, [] => none
  | seen, g :: rest =>
      let next := (g.fk, g) :: seen
      match seen.lookup g.fk with
      | none => monoWalkWith chk next rest
      | some prev =>
          match chk g prev with
          | some e => some e
          | none => monoWalkWith chk next rest

/-- the Python float of a scalar target / the entries of an ndarray target / the value columns of a
    Timeseries target -/
def Target.sv : Target → XVal
  | .scalar v => v
  | _ => .nan
def Target.vec : Target → List XVal
  | .vector vs => vs
  | _ => []
def Target.cols : Target → List (List XVal)
  | .series cols => cols
  | _ => []
/-! ## `_gp_validate_goals` -/

def checkDefRef (o : Opts) (isPath : Bool) (g : Goal) : Option Err :=
  (firstErr [(if (g.nominal.any (fun n => decide (n ≤ 0))) then (some Err.nominal) else none),
      (if (g.critical && (!g.hasTargetBounds)) then (some Err.criticalMin) else none),
      (if g.critical then none else (if g.hasTargetBounds then (firstErr [(if ((!(g.rangeLo.all XVal.isFinite)) || (!(g.rangeHi.all XVal.isFinite))) then (some Err.noRange) else none),
      (if ((List.range g.size).any (fun c => (xle (g.hiAt c) (g.loAt c)))) then (some Err.badRange) else none),
      (if decide (g.weight ≤ 0) then (some Err.weight) else none)]) else (if (!g.rangeDefault) then (some Err.rangeOnMin) else none))),
      (if (!isPath) then (firstErr [(if g.tmin.isSeries then (some Err.tsMin) else none),
      (if g.tmax.isSeries then (some Err.tsMax) else none)]) else none),
      (if o.keepSoft then (firstErr [(if decide (g.relaxation ≠ 0) then (some Err.relaxKeepSoft) else none),
      (if g.violationId then (some Err.violIdKeepSoft) else none)]) else (if decide (g.size > 1) then (some Err.vectorNeedsKeepSoft) else none)),
      (if (g.critical && decide (g.size > 1)) then (some Err.vectorCritical) else none)])

def checkMonoRef (nSteps : Nat) (g prev : Goal) : Option Err :=
  (firstErr [(if g.hasMin then (if (anyCell g.size nSteps (fun c i => ((!((xIsNan (g.mAt c i)) || (xIsNan (prev.mAt c i)))) && xlt (g.mAt c i) (prev.mAt c i)))) then (some Err.monoMin) else none) else none),
      (if g.hasMax then (if (anyCell g.size nSteps (fun c i => ((!((xIsNan (g.MAt c i)) || (xIsNan (prev.MAt c i)))) && xlt (prev.MAt c i) (g.MAt c i)))) then (some Err.monoMax) else none) else none)])

def checkTargetsRef (nSteps : Nat) (g : Goal) : Option Err :=
  (firstErr [(if (g.hasMin && g.hasMax) then (if (anyCell g.size nSteps (fun c i => ((!((xIsNan (g.mAt c i)) || (xIsNan (g.MAt c i)))) && xlt (g.MAt c i) (g.mAt c i)))) then (some Err.minGtMax) else none) else none),
      (if (g.hasMin && (!g.critical)) then (firstErr [(if (anyCell g.size nSteps (fun c i => ((XVal.isFinite (g.mAt c i)) && xle (g.mAt c i) (g.loAt c)))) then (some Err.tminLeLb) else none),
      (if (anyCell g.size nSteps (fun c i => ((XVal.isFinite (g.mAt c i)) && xlt (g.hiAt c) (g.mAt c i)))) then (some Err.tminGtUb) else none)]) else none),
      (if (g.hasMax && (!g.critical)) then (firstErr [(if (anyCell g.size nSteps (fun c i => ((XVal.isFinite (g.MAt c i)) && xle (g.hiAt c) (g.MAt c i)))) then (some Err.tmaxGeUb) else none),
      (if (anyCell g.size nSteps (fun c i => ((XVal.isFinite (g.MAt c i)) && xlt (g.MAt c i) (g.loAt c)))) then (some Err.tmaxLtLb) else none)]) else none),
      (if decide (g.relaxation < 0) then (some Err.relaxNeg) else none)])

/-- the whole method: stable priority sort, then the checks in source order -/
def validateRef (o : Opts) (isPath : Bool) (nTimes : Nat) (goals : List Goal) : Option Err :=
  let gs := sortByPriority goals
  let nSteps := if isPath then nTimes else 1
  firstErr [firstOf (checkDefRef o isPath) gs,
    (if o.checkMonotonicity then monoWalkWith (checkMonoRef nSteps) [] gs else none),
    firstOf (checkTargetsRef nSteps) gs]

/-! ## `_gp_min_max_arrays`  (`none` = the shape assertion of the method fails for this combination;
hypotheses on the goal recorded by the translator: columns of the Timeseries values = goal.size; len(ndarray target) = goal.size) -/

def minArrRef (path gt1 : Bool) (tmin tmax : Target) (c i : Nat) : Option XVal :=
  match tmin with
  | .scalar _ => if path then (if gt1 then some tmin.sv else some tmin.sv) else (if gt1 then some tmin.sv else some tmin.sv)
  | .vector _ => if path then (if gt1 then some (getB tmin.vec c .nan) else none) else (if gt1 then some (tmin.vec.getD c .nan) else none)
  | .series [_] => if path then (if gt1 then some ((tmin.cols.getD 0 []).getD i .nan) else some ((tmin.cols.getD 0 []).getD i .nan)) else (if gt1 then none else none)
  | .series _ => if path then (if gt1 then some ((tmin.cols.getD c []).getD i .nan) else none) else (if gt1 then none else none)

/-- left / right fill of the interpolation of a Timeseries target onto the grid -/
def minFillRef : XVal × XVal := (XVal.ninf, XVal.ninf)

def maxArrRef (path gt1 : Bool) (tmin tmax : Target) (c i : Nat) : Option XVal :=
  match tmax with
  | .scalar _ => if path then (if gt1 then some tmax.sv else some tmax.sv) else (if gt1 then some tmax.sv else some tmax.sv)
  | .vector _ => if path then (if gt1 then some (getB tmax.vec c .nan) else none) else (if gt1 then some (tmax.vec.getD c .nan) else none)
  | .series [_] => if path then (if gt1 then some ((tmax.cols.getD 0 []).getD i .nan) else some ((tmax.cols.getD 0 []).getD i .nan)) else (if gt1 then none else none)
  | .series _ => if path then (if gt1 then some ((tmax.cols.getD c []).getD i .nan) else none) else (if gt1 then none else none)

/-- left / right fill of the interpolation of a Timeseries target onto the grid -/
def maxFillRef : XVal × XVal := (XVal.pinf, XVal.pinf)

/-! ## soft constraints of `_gp_goal_constraints` -/

/-- the constant registered for the target (parameter / constant input) at (component, step) -/
def minConstRef (g : Goal) (c i : Nat) : XVal :=
  match g.tmin with
  | .series _ => (if ((xIsNan (g.mAt c i)) || (xIsNinf (g.mAt c i))) then (XVal.fin (-floatMax)) else (g.mAt c i))
  | .vector _ => (if ((xIsNan (g.mAt c 0)) || (xIsNinf (g.mAt c 0))) then (XVal.fin (-floatMax)) else (g.mAt c 0))
  | .scalar _ => (g.mAt c i)

/-- slice indices: is component `c` kept in the soft constraint of this side? -/
def keepMinRef (g : Goal) (n c : Nat) : Bool :=
  match g.tmin with
  | .series _ => (!((List.range n).all (fun i => ((xIsNan (g.mAt c i)) || (xIsNinf (g.mAt c i))))))
  | .vector _ => (!((xIsNan (g.mAt c 0)) || (xIsNinf (g.mAt c 0))))
  | .scalar _ => true

/-- the constant registered for the target (parameter / constant input) at (component, step) -/
def maxConstRef (g : Goal) (c i : Nat) : XVal :=
  match g.tmax with
  | .series _ => (if ((xIsNan (g.MAt c i)) || (xIsPinf (g.MAt c i))) then (XVal.fin floatMax) else (g.MAt c i))
  | .vector _ => (if ((xIsNan (g.MAt c 0)) || (xIsPinf (g.MAt c 0))) then (XVal.fin floatMax) else (g.MAt c 0))
  | .scalar _ => (g.MAt c i)

/-- slice indices: is component `c` kept in the soft constraint of this side? -/
def keepMaxRef (g : Goal) (n c : Nat) : Bool :=
  match g.tmax with
  | .series _ => (!((List.range n).all (fun i => ((xIsNan (g.MAt c i)) || (xIsPinf (g.MAt c i))))))
  | .vector _ => (!((xIsNan (g.MAt c 0)) || (xIsPinf (g.MAt c 0))))
  | .scalar _ => true

/-- `_soft_constraint_func`: the expression of one component at one step -/
def softExprRef (target : XVal) (f eps bound nom : Rat) : Rat :=
  ifAbsLt target floatMax (fun t => (((f - (eps * (bound - t))) - t) / nom)) 0

/-- the soft-constraint rows of one non-critical target goal for one member, in source order -/
def softRowsRef (g : Goal) (n : Nat) (fs eps : List (List Rat)) : List Row :=
  (if g.hasMin && (List.range g.size).any (keepMinRef g n) then
      ((List.range g.size).filter (keepMinRef g n)).flatMap fun c => (List.range n).map fun i =>
        rowWith (g.loAt c) (fun bound => softExprRef (minConstRef g c i) (getF fs c i) (getF eps c i) bound (g.nomAt c)) (EVal.fin 0) EVal.pinf
    else []) ++
  (if g.hasMax && (List.range g.size).any (keepMaxRef g n) then
      ((List.range g.size).filter (keepMaxRef g n)).flatMap fun c => (List.range n).map fun i =>
        rowWith (g.hiAt c) (fun bound => softExprRef (maxConstRef g c i) (getF fs c i) (getF eps c i) bound (g.nomAt c)) EVal.ninf (EVal.fin 0)
    else [])

/-- `n_active` of a target goal (divisor of its objective term), component `c` -/
def nActiveRef (g : Goal) (isPath scale : Bool) (n c : Nat) : Nat :=
  (if (isPath && scale) then (max (((List.range n).filter (fun i => ((XVal.isFinite (g.mAt c i)) || (XVal.isFinite (g.MAt c i))))).length) 1) else 1)

/-- number of entries of the violation variable `ca.MX.sym(eps_..., goal.size)` -/
def epsSizeRef (g : Goal) : Nat := g.size

/-! ## critical goals in `_gp_goal_constraints`; the `Goal` properties the mixin branches on -/

/-- per member: (slot in `hard_constraints`, member handed to `_gp_goal_hard_constraint`, entry of `epsilon`,
    length of `epsilon`, the existing constraint handed over is `None`) -/
def critCallsRef (E : Nat) (isPath : Bool) (nTimes : Nat) : List (Nat × Nat × Rat × Nat × Bool) :=
  (List.range E).map fun m => (m, m, (0 : Rat), (if isPath then nTimes else 1), true)

/-- `Goal.has_target_min` -/
def hasMinRef (g : Goal) : Bool :=
  (if g.tmin.isSeries then true else g.tmin.anyFinite)

/-- `Goal.has_target_max` -/
def hasMaxRef (g : Goal) : Bool :=
  (if g.tmax.isSeries then true else g.tmax.anyFinite)

/-- `Goal.has_target_bounds` -/
def hasTargetBoundsRef (g : Goal) : Bool :=
  (g.hasMin || g.hasMax)

/-- `Goal.is_empty` -/
def isEmptyRef (g : Goal) : Bool :=
  (if ((!(g.tmin.isSeries || g.tmin.anyFinite)) && (!(g.tmax.isSeries || g.tmax.anyFinite))) then false else ((!g.tmin.anyFinite) && (!g.tmax.anyFinite)))

end RtcVerif.C04
