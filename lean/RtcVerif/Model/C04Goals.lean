import RtcVerif.Model.Num
/-!
# Goals as data, validation, soft-constraint rows (C04; also used by C02)

Executable model of `goal_programming_mixin_base.py`:

* `Goal` — the attributes of a `Goal` object that the mixin reads;
* `minMaxAt` — `_gp_min_max_arrays` (broadcast of scalar / array / Timeseries targets; Timeseries
  targets are given on the problem's time grid, so `interpolate` is the identity);
* `validate` — `_gp_validate_goals` with the order in which the code raises;
* `softRow` — the soft-constraint expression
  `if_else(|target| < float_max, (f - eps*(bound - target) - target)/nominal, 0)` including the
  replacement of NaN / ∓inf targets by the `∓float_max` sentinel;
* `epsBounds` — the bounds `(0, 1)` of every violation variable.

Core Lean only.
-/
namespace RtcVerif.C04

/-- `sys.float_info.max` = (2 - 2^-52)·2^1023 -/
def floatMax : Rat :=
  179769313486231570814527423731704356798070567525844996598917476803157260780028538760589558632766878171540458953514382464234321326889464182768467546703537516986049910576551282076245490090389328944075868508455133942304583236903222948165808559332123348274797826204144723168738177180919299881250404026184124858368

/-! ## NumPy comparisons on extended values (`nan` compares false) -/

def xle : XVal → XVal → Bool
  | .e a, .e b => EVal.le a b
  | _, _ => false

def xlt : XVal → XVal → Bool
  | .e a, .e b => EVal.lt a b
  | _, _ => false

def xIsNan : XVal → Bool
  | .nan => true
  | _ => false

/-- `l[c]` with NumPy broadcasting of a length-one list -/
def getB {α : Type} (l : List α) (c : Nat) (d : α) : α :=
  match l with
  | [x] => x
  | _ => l.getD c d

/-- a `target_min` / `target_max` attribute -/
inductive Target where
  /-- a Python float (`nan` = not set) -/
  | scalar (v : XVal)
  /-- a NumPy array with one entry per component of a vector goal -/
  | vector (vs : List XVal)
  /-- a `Timeseries` on the problem's time grid: one column (1-D values) or one column per
      component; every column has one entry per time step -/
  | series (cols : List (List XVal))
deriving Repr, DecidableEq

/-- `isinstance(target, Timeseries)` -/
def Target.isSeries : Target → Bool
  | .series _ => true
  | _ => false

/-- `has_target_min` / `has_target_max` -/
def Target.has : Target → Bool
  | .series _ => true
  | .scalar v => v.isFinite
  | .vector vs => vs.any XVal.isFinite

/-- entry (component `c`, step `i`) of the array `_gp_min_max_arrays` builds from a target -/
def Target.at (t : Target) (c i : Nat) : XVal :=
  match t with
  | .scalar v => v
  | .vector vs => getB vs c .nan
  | .series cols => (getB cols c []).getD i .nan

structure Goal where
  size : Nat := 1
  fk : String
  tmin : Target := .scalar .nan
  tmax : Target := .scalar .nan
  /-- `function_range[0]`, `function_range[1]`: one entry, or one per component -/
  rangeLo : List XVal := [.nan]
  rangeHi : List XVal := [.nan]
  /-- `function_range` is the class default `(nan, nan)` object -/
  rangeDefault : Bool := true
  /-- `function_nominal`: one entry, or one per component -/
  nominal : List Rat := [1]
  weight : Rat := 1
  order : Nat := 2
  priority : Int := 1
  critical : Bool := false
  relaxation : Rat := 0
  /-- `violation_timeseries_id is not None` -/
  violationId : Bool := false
deriving Repr, DecidableEq

def Goal.hasMin (g : Goal) : Bool := g.tmin.has
def Goal.hasMax (g : Goal) : Bool := g.tmax.has
def Goal.hasTargetBounds (g : Goal) : Bool := g.hasMin || g.hasMax

/-- `(goal_m, goal_M)[c, i]` -/
def Goal.mAt (g : Goal) (c i : Nat) : XVal := g.tmin.at c i
def Goal.MAt (g : Goal) (c i : Nat) : XVal := g.tmax.at c i
def Goal.loAt (g : Goal) (c : Nat) : XVal := getB g.rangeLo c .nan
def Goal.hiAt (g : Goal) (c : Nat) : XVal := getB g.rangeHi c .nan
def Goal.nomAt (g : Goal) (c : Nat) : Rat := getB g.nominal c 1

/-- `Goal.is_empty`: a target goal none of whose target entries is finite -/
def Target.anyFinite : Target → Bool
  | .scalar v => v.isFinite
  | .vector vs => vs.any XVal.isFinite
  | .series cols => cols.any (fun col => col.any XVal.isFinite)

def Goal.isEmpty (g : Goal) : Bool :=
  g.hasTargetBounds && !(g.tmin.anyFinite) && !(g.tmax.anyFinite)

structure Opts where
  keepSoft : Bool := false
  checkMonotonicity : Bool := true
deriving Repr

/-- the exceptions of `_gp_validate_goals`, one constructor per `raise` -/
inductive Err where
  | nominal | criticalMin | noRange | badRange | weight | rangeOnMin | tsMin | tsMax
  | relaxKeepSoft | violIdKeepSoft | vectorNeedsKeepSoft | vectorCritical
  | monoMin | monoMax | minGtMax | tminLeLb | tminGtUb | tmaxGeUb | tmaxLtLb | relaxNeg
deriving Repr, DecidableEq

def Err.name : Err → String
  | .nominal => "nominal" | .criticalMin => "critical-min" | .noRange => "no-range"
  | .badRange => "bad-range" | .weight => "weight" | .rangeOnMin => "range-on-min"
  | .tsMin => "ts-min" | .tsMax => "ts-max" | .relaxKeepSoft => "relax-keepsoft"
  | .violIdKeepSoft => "violid-keepsoft" | .vectorNeedsKeepSoft => "vector-needs-keepsoft"
  | .vectorCritical => "vector-critical" | .monoMin => "mono-min" | .monoMax => "mono-max"
  | .minGtMax => "min-gt-max" | .tminLeLb => "tmin-le-lb" | .tminGtUb => "tmin-gt-ub"
  | .tmaxGeUb => "tmax-ge-ub" | .tmaxLtLb => "tmax-lt-lb" | .relaxNeg => "relax-neg"

/-- all (component, step) index pairs of a goal's target arrays -/
def cells (size nSteps : Nat) : List (Nat × Nat) :=
  (List.range size).flatMap fun c => (List.range nSteps).map fun i => (c, i)

/-- first `some` of a list of checks (`none` = this check passes) -/
def firstErr : List (Option Err) → Option Err
  | [] => none
  | some e :: _ => some e
  | none :: rest => firstErr rest

/-- the first loop of `_gp_validate_goals`: checks on one goal that do not look at targets -/
def checkDef (o : Opts) (isPath : Bool) (g : Goal) : Option Err :=
  let comps := List.range g.size
  firstErr [
    if g.nominal.any (fun n => decide (n ≤ 0)) then some .nominal else none,
    if g.critical && !g.hasTargetBounds then some .criticalMin else none,
    if g.critical then none
    else if g.hasTargetBounds then
      if !(g.rangeLo.all XVal.isFinite) || !(g.rangeHi.all XVal.isFinite) then some .noRange
      else if comps.any (fun c => xle (g.hiAt c) (g.loAt c)) then some .badRange
      else if g.weight ≤ 0 then some .weight
      else none
    else if !g.rangeDefault then some .rangeOnMin else none,
    if !isPath && g.tmin.isSeries then some .tsMin else none,
    if !isPath && g.tmax.isSeries then some .tsMax else none,
    if o.keepSoft then
      if g.relaxation ≠ 0 then some .relaxKeepSoft
      else if g.violationId then some .violIdKeepSoft else none
    else if g.size > 1 then some .vectorNeedsKeepSoft else none,
    if g.critical && g.size > 1 then some .vectorCritical else none ]

/-- monotonicity of `g` against the previous goal `prev` with the same function key -/
def checkMono (nSteps : Nat) (g prev : Goal) : Option Err :=
  let cs := cells g.size nSteps
  firstErr [
    if g.hasMin && cs.any (fun (c, i) => xlt (g.mAt c i) (prev.mAt c i)) then some .monoMin else none,
    if g.hasMax && cs.any (fun (c, i) => xlt (prev.MAt c i) (g.MAt c i)) then some .monoMax else none ]

/-- the `fk_goal_map` walk: every goal is compared with the latest earlier goal of its key -/
def monoWalk (nSteps : Nat) : List (String × Goal) → List Goal → Option Err
  | _, [] => none
  | seen, g :: rest =>
      let next := (g.fk, g) :: seen
      match seen.lookup g.fk with
      | none => monoWalk nSteps next rest
      | some prev =>
          match checkMono nSteps g prev with
          | some e => some e
          | none => monoWalk nSteps next rest

/-- the last loop of `_gp_validate_goals`: targets against each other and against the range -/
def checkTargets (nSteps : Nat) (g : Goal) : Option Err :=
  let cs := cells g.size nSteps
  firstErr [
    if g.hasMin && g.hasMax && cs.any (fun (c, i) => xlt (g.MAt c i) (g.mAt c i)) then some .minGtMax else none,
    if g.hasMin && !g.critical then
      if cs.any (fun (c, i) => (g.mAt c i).isFinite && xle (g.mAt c i) (g.loAt c)) then some .tminLeLb
      else if cs.any (fun (c, i) => (g.mAt c i).isFinite && xlt (g.hiAt c) (g.mAt c i)) then some .tminGtUb
      else none
    else none,
    if g.hasMax && !g.critical then
      if cs.any (fun (c, i) => (g.MAt c i).isFinite && xle (g.hiAt c) (g.MAt c i)) then some .tmaxGeUb
      else if cs.any (fun (c, i) => (g.MAt c i).isFinite && xlt (g.MAt c i) (g.loAt c)) then some .tmaxLtLb
      else none
    else none,
    if g.relaxation < 0 then some .relaxNeg else none ]

/-- stable insertion into a priority-sorted list (`sorted(goals, key=priority)`) -/
def insertByPriority (g : Goal) : List Goal → List Goal
  | [] => [g]
  | h :: t => if g.priority ≤ h.priority then g :: h :: t else h :: insertByPriority g t

def sortByPriority : List Goal → List Goal
  | [] => []
  | g :: rest => insertByPriority g (sortByPriority rest)

def firstOf {α : Type} (f : α → Option Err) : List α → Option Err
  | [] => none
  | a :: rest => match f a with
    | some e => some e
    | none => firstOf f rest

/-- `_gp_validate_goals(goals, is_path_goal)`; `nSteps = len(times())` for path goals, 1 otherwise -/
def validate (o : Opts) (isPath : Bool) (nTimes : Nat) (goals : List Goal) : Option Err :=
  let gs := sortByPriority goals
  let nSteps := if isPath then nTimes else 1
  firstErr [
    firstOf (checkDef o isPath) gs,
    if o.checkMonotonicity then monoWalk nSteps [] gs else none,
    firstOf (checkTargets nSteps) gs ]

/-- the two validation calls of `optimize()` -/
def validateAll (o : Opts) (nTimes : Nat) (goals pathGoals : List Goal) : Option Err :=
  firstErr [validate o false nTimes goals, validate o true nTimes pathGoals]

/-! ## The run: validation precedes everything that can solve -/

inductive Event where
  | started (p : Int)
  | solve (p : Int)
  | completed (p : Int)
deriving Repr, DecidableEq

/-- `optimize()` seen from outside: either the exception of the validation, or the event log the
    priority loop `loop` produces (the loop itself is the model of C02/C10). -/
def optimize (o : Opts) (nTimes : Nat) (goals pathGoals : List Goal)
    (loop : Unit → List Event × Bool) : Except Err (List Event × Bool) :=
  match validateAll o nTimes goals pathGoals with
  | some e => .error e
  | none => .ok (loop ())

/-! ## Soft rows -/

def qabs (q : Rat) : Rat := if q < 0 then -q else q

/-- `target_min` as it is handed to the problem (parameter / constant input): array and
    Timeseries entries that are NaN or -inf become `-float_max` -/
def sentinelMin (isArr : Bool) : XVal → XVal
  | .nan => if isArr then .fin (-floatMax) else .nan
  | .e .ninf => if isArr then .fin (-floatMax) else .ninf
  | v => v

def sentinelMax (isArr : Bool) : XVal → XVal
  | .nan => if isArr then .fin floatMax else .nan
  | .e .pinf => if isArr then .fin floatMax else .pinf
  | v => v

/-- `fabs(target) < float_max` -/
def activeT : XVal → Bool
  | .e (.fin t) => decide (qabs t < floatMax)
  | _ => false

/-- the soft-constraint expression for one component at one step:
    `if_else(fabs(target) < float_max, (f - eps*(bound - target) - target)/nominal, 0.0)` -/
def softRow (target : XVal) (f eps bound nom : Rat) : Rat :=
  match target with
  | .e (.fin t) => if qabs t < floatMax then (f - eps * (bound - t) - t) / nom else 0
  | _ => 0

def Target.isArr : Target → Bool
  | .scalar _ => false
  | _ => true

/-- the value of the `min_*` symbol at (component, step) -/
def Goal.minSym (g : Goal) (c i : Nat) : XVal := sentinelMin g.tmin.isArr (g.mAt c i)
def Goal.maxSym (g : Goal) (c i : Nat) : XVal := sentinelMax g.tmax.isArr (g.MAt c i)

/-- `target_min_slice_inds[c]`: is component `c` kept in the lower soft constraint? -/
def Goal.keepMin (g : Goal) (nSteps : Nat) (c : Nat) : Bool :=
  match g.tmin with
  | .scalar _ => true
  | .vector _ => !(xIsNan (g.mAt c 0) || g.mAt c 0 == .ninf)
  | .series _ => !((List.range nSteps).all fun i => xIsNan (g.mAt c i) || g.mAt c i == .ninf)

def Goal.keepMax (g : Goal) (nSteps : Nat) (c : Nat) : Bool :=
  match g.tmax with
  | .scalar _ => true
  | .vector _ => !(xIsNan (g.MAt c 0) || g.MAt c 0 == .pinf)
  | .series _ => !((List.range nSteps).all fun i => xIsNan (g.MAt c i) || g.MAt c i == .pinf)

/-- one soft-constraint row: value and bounds `lbg ≤ value ≤ ubg` -/
structure Row where
  val : Rat
  lb : EVal
  ub : EVal
deriving Repr

def getF (fs : List (List Rat)) (c i : Nat) : Rat := (fs.getD c []).getD i 0

/-- the rows a non-critical target goal contributes for one member: `fs[c][i]` the goal function,
    `eps[c][i]` the violation variable; component-major within a step is irrelevant here (rows
    are compared as a multiset) -/
def softRows (g : Goal) (nSteps : Nat) (fs eps : List (List Rat)) : List Row :=
  let comps := List.range g.size
  let steps := List.range nSteps
  let lower :=
    if g.hasMin && comps.any (g.keepMin nSteps) then
      (comps.filter (g.keepMin nSteps)).flatMap fun c => steps.map fun i =>
        match g.loAt c with
        | .e (.fin lo) => ⟨softRow (g.minSym c i) (getF fs c i) (getF eps c i) lo (g.nomAt c), .fin 0, .pinf⟩
        | _ => ⟨0, .fin 0, .pinf⟩
    else []
  let upper :=
    if g.hasMax && comps.any (g.keepMax nSteps) then
      (comps.filter (g.keepMax nSteps)).flatMap fun c => steps.map fun i =>
        match g.hiAt c with
        | .e (.fin hi) => ⟨softRow (g.maxSym c i) (getF fs c i) (getF eps c i) hi (g.nomAt c), .ninf, .fin 0⟩
        | _ => ⟨0, .ninf, .fin 0⟩
    else []
  lower ++ upper

/-- bounds of every violation variable -/
def epsBounds : Rat × Rat := (0, 1)

end RtcVerif.C04
