import RtcVerif.Model.C04Code
/-!
# How the target constants reach the problem: `constant_inputs()` / `parameters()` of the goal-programming mixins (C04)

`_gp_goal_constraints` registers `(name, target)` pairs (`extra_constants`); `optimize()` files them under
`__subproblem_path_timeseries` / `__subproblem_parameters` (and the `__problem_*` lists when soft constraints
are kept).  The soft rows read them back through `problem.variable(name)` / `problem.parameters(m)[name]`, i.e.
through the dictionaries the overridden `constant_inputs()` / `parameters()` return.  The parent's dictionary
may be ONE cached object per member (IOMixin): entries written by an earlier call are still in it.

Code-level reference of these methods over association lists (Python `dict`), generic in the value type.
Core Lean only.
-/
set_option linter.unusedVariables false
namespace RtcVerif.C04

abbrev Dict (V : Type) := List (String × V)

def dictGet {V : Type} (d : Dict V) (k : String) : Option V := (d.find? (fun kv => kv.1 == k)).map Prod.snd
def dictHas {V : Type} (d : Dict V) (k : String) : Bool := d.any (fun kv => kv.1 == k)

/-- `d[k] = v` -/
def dictSet {V : Type} : Dict V → String → V → Dict V
  | [], k, v => [(k, v)]
  | (k', v') :: rest, k, v => if k' == k then (k, v) :: rest else (k', v') :: dictSet rest k v

/-- `for k in set(d.keys()): if k not in orig: del d[k]` -/
def dictKeepOnly {V : Type} (d : Dict V) (orig : List String) : Dict V := d.filter (fun kv => decide (kv.1 ∈ orig))

/-- the value written for a registered target: `Timeseries(times, broadcast_to(ndarray, (n, len)))`,
    `Timeseries(times, np.full(n, float))`, or the Timeseries itself -/
def constConv (n : Nat) : Target → Target
  | .vector vs => .series (vs.map fun v => List.replicate n v)
  | .scalar v => .series [List.replicate n v]
  | .series cols => .series cols

/-- one call of the overridden method: `origKeys` = this member's entry of `__original_…_keys` (if any),
    `d` = what `super()` returns (possibly the cached object, still holding earlier writes), `pending` = the
    registered pairs in the order the code walks them; returns the remembered keys and the dictionary -/
def inputsCallRef {V : Type} (conv : V → V) (remember : Bool) (origKeys : Option (List String)) (d : Dict V)
    (pending : List (String × V)) : List String × Dict V :=
  let orig := match origKeys with
    | some o => o
    | none => d.map Prod.fst
  let d1 := if remember then dictKeepOnly d orig else d
  (orig, pending.foldl (fun acc kv => dictSet acc kv.1 (conv kv.2)) d1)

end RtcVerif.C04
