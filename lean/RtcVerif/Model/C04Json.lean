import RtcVerif.Model.C04Store
/-! JSON codec of goals / intervals / options for the C04 and C02 drivers (core Lean only). -/
open Lean RtcVerif RtcVerif.Wire

namespace RtcVerif.C04

def targetOfJson (j : Json) : Option Target := do
  let k ← getStr j "k"
  match k with
  | "s" => (getXVal j "v").map Target.scalar
  | "v" => (getXValList j "v").map Target.vector
  | "ts" => do
      let cols ← getArr j "v"
      let cols ← cols.mapM asXValList
      pure (Target.series cols)
  | _ => none

def goalOfJson (j : Json) : Option Goal := do
  let size ← getNat j "size"
  let fk ← getStr j "fk"
  let tmin ← (getObj j "tmin").bind targetOfJson
  let tmax ← (getObj j "tmax").bind targetOfJson
  let lo ← getXValList j "lo"
  let hi ← getXValList j "hi"
  let rdef ← getBool j "rdef"
  let nom ← getRatList j "nom"
  let w ← getRat j "w"
  let ord ← getNat j "ord"
  let prio ← getInt j "prio"
  let crit ← getBool j "crit"
  let relax ← getRat j "relax"
  let vid ← getBool j "vid"
  pure { size := size, fk := fk, tmin := tmin, tmax := tmax, rangeLo := lo, rangeHi := hi,
         rangeDefault := rdef, nominal := nom, weight := w, order := ord, priority := prio,
         critical := crit, relaxation := relax, violationId := vid }

def goalsOfJson (j : Json) (k : String) : Option (List Goal) := do
  let a ← getArr j k
  a.mapM goalOfJson

def hoptsOfJson (j : Json) : Option HOpts := do
  let vr ← getRat j "vr"
  let cr ← getRat j "cr"
  let thr ← getRat j "thr"
  let fix ← getBool j "fix"
  let vt : Option Rat := getRat j "vt"
  pure { violationRelaxation := vr, constraintRelaxation := cr, equalityThreshold := thr,
         fixMinimizedValues := fix, violationTolerance := vt }

def ivlJ (v : EIvl) : Json := Json.arr #[v.lo.toJson, v.hi.toJson]
def ivlsJ (l : List EIvl) : Json := Json.arr (l.map ivlJ).toArray

def ivlOfJson : Json → Option EIvl
  | Json.arr a =>
      match a.toList with
      | [lo, hi] => do
          let l ← EVal.ofJson? lo
          let h ← EVal.ofJson? hi
          pure ⟨l, h⟩
      | _ => none
  | _ => none

def ivlsOfJson : Json → Option (List EIvl)
  | Json.arr a => a.toList.mapM ivlOfJson
  | _ => none

def getIvls (j : Json) (k : String) : Option (List EIvl) := (getObj j k).bind ivlsOfJson

end RtcVerif.C04
