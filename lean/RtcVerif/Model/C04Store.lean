import RtcVerif.Model.C04Goals
/-!
# Constraint store: `_GoalConstraint.update_bounds`, soft-to-hard conversion, critical goals

* `updateBoundsWith mx mn self other enforceSelf` — `_GoalConstraint.update_bounds` on one entry
  (the code works element-wise on scalars / time series); generic in the order operations so that
  the lemmas can be proved for every linear order.  `updateBoundsLegacy` is the code before the
  repair c555684 (finding F4).
* `hardFromEps` — `_gp_goal_hard_constraint` / `__goal_hard_constraint`: bounds per step of the
  retained constraint `goal.function/nominal` from the achieved violation (target goals) or
  the achieved function value (minimisation goals); critical goals with `eps = 0`.
  (the `violation_tolerance` branch of the multi-pass conversion is in `Model/C02Loop.lean`:
  `hardStep`; critical goals have `eps = 0` and never take it for a tolerance ≥ 0.)
* the store itself (function key ↦ bounds) and the priority loop are in `Model/C02Loop.lean`.

Core Lean only.
-/
namespace RtcVerif.C04

structure Ivl (α : Type) where
  lo : α
  hi : α
deriving Repr, DecidableEq

/-- `a.update_bounds(b, enforce)` for one element; `enforceSelf = true` is the default
    `enforce="self"` (keep the stored `self`), `false` is `enforce="other"` -/
def updateBoundsWith {α : Type} (mx mn : α → α → α) (self other : Ivl α) (enforceSelf : Bool) : Ivl α :=
  let min0 := mx self.lo other.lo
  let max0 := mn self.hi other.hi
  let min1 := if enforceSelf then mn min0 self.hi else mn min0 other.hi
  let max1 := if enforceSelf then mx max0 self.lo else mx max0 other.lo
  ⟨mn min1 max1, max1⟩

/-- the code before commit c555684 (finding F4): in the `self` branch the clamp used the other
    constraint's bounds, sequentially -/
def updateBoundsLegacyWith {α : Type} (mx mn : α → α → α) (self other : Ivl α) (enforceSelf : Bool) : Ivl α :=
  let min0 := mx self.lo other.lo
  let max0 := mn self.hi other.hi
  let min1 := if enforceSelf then mn max0 other.lo else mn min0 other.hi
  let max1 := if enforceSelf then mx min1 other.hi else mx max0 other.lo
  ⟨mn min1 max1, max1⟩

abbrev EIvl := Ivl EVal

def updateBounds (self other : EIvl) (enforceSelf : Bool) : EIvl :=
  updateBoundsWith EVal.max EVal.min self other enforceSelf

def updateBoundsLegacy (self other : EIvl) (enforceSelf : Bool) : EIvl :=
  updateBoundsLegacyWith EVal.max EVal.min self other enforceSelf

/-- element-wise on time series -/
def updateBoundsTS (self other : List EIvl) (enforceSelf : Bool) : List EIvl :=
  List.zipWith (fun s o => updateBounds s o enforceSelf) self other

structure HOpts where
  /-- added to the achieved epsilons before the conversion -/
  violationRelaxation : Rat := 0
  constraintRelaxation : Rat := 0
  equalityThreshold : Rat := 1 / 100000000
  fixMinimizedValues : Bool := false
  /-- `violation_tolerance` (`none` = the default `inf`): a target goal whose achieved violation
      exceeds it has its achieved function value fixed (multi-pass loop, `Model/C02Loop.lean`) -/
  violationTolerance : Option Rat := none
deriving Repr

/-- the number an extended value holds (`0` when it holds none) -/
def finVal (v : XVal) : Rat :=
  match v with
  | .e (.fin q) => q
  | _ => 0

def finOr (v : XVal) (d : EVal) (f : Rat → Rat) : EVal :=
  match v with
  | .e (.fin t) => .fin (f t)
  | _ => d

/-- scaled lower bound of a target goal at step `i` before folding / relaxation:
    `(eps*(m - m_t) + m_t - relaxation)/nominal` (critical goals: without the `eps` term);
    `-inf` where the goal has no (finite) lower target -/
def targetLo (g : Goal) (eps : Rat) (i : Nat) : EVal :=
  let nom := g.nomAt 0
  let lo : Rat := finVal (g.loAt 0)
  if g.hasMin then
    finOr (g.mAt 0 i) .ninf fun t => ((if g.critical then 0 else eps * (lo - t)) + t - g.relaxation) / nom
  else .ninf

def targetHi (g : Goal) (eps : Rat) (i : Nat) : EVal :=
  let nom := g.nomAt 0
  let hi : Rat := finVal (g.hiAt 0)
  if g.hasMax then
    finOr (g.MAt 0 i) .pinf fun t => ((if g.critical then 0 else eps * (hi - t)) + t + g.relaxation) / nom
  else .pinf

/-- equality folding: two finite bounds closer than `equality_threshold` become their mean -/
def foldEq (thr : Rat) (both : Bool) (m0 M0 : EVal) : EVal × EVal :=
  match m0, M0 with
  | .fin a, .fin b =>
      if both && decide (qabs (a - b) < thr) then (.fin ((a + b) / 2), .fin ((a + b) / 2)) else (m0, M0)
  | _, _ => (m0, M0)

def subFin (v : EVal) (c : Rat) : EVal := match v with | .fin a => .fin (a - c) | x => x
def addFin (v : EVal) (c : Rat) : EVal := match v with | .fin a => .fin (a + c) | x => x

/-- one step of a (scalar) target goal: `eps` already includes `violation_relaxation`; for a
    critical goal the `eps`-term is absent.  Follows the code: scaled bounds, equality folding,
    inactive steps to ∓inf, `constraint_relaxation`. -/
def hardTargetStep (o : HOpts) (g : Goal) (eps : Rat) (i : Nat) : EIvl :=
  let p := foldEq o.equalityThreshold (g.hasMin && g.hasMax) (targetLo g eps i) (targetHi g eps i)
  ⟨subFin p.1 o.constraintRelaxation, addFin p.2 o.constraintRelaxation⟩

/-- one step of a minimisation goal: `v` = achieved function value at that step -/
def hardMinStep (o : HOpts) (g : Goal) (v : Rat) : EIvl :=
  let nom := g.nomAt 0
  if o.fixMinimizedValues && g.relaxation == 0 then ⟨.fin (v / nom), .fin (v / nom)⟩
  else ⟨.ninf, .fin ((v + g.relaxation) / nom + o.constraintRelaxation)⟩

/-- `__goal_hard_constraint(goal, epsilon, None, …)` without the merge: bounds per step.
    `ach[i]` is the achieved epsilon (target goal; the caller has added `violation_relaxation`)
    or the achieved function value (minimisation goal). -/
def hardFromEps (o : HOpts) (g : Goal) (ach : List Rat) : List EIvl :=
  (List.range ach.length).map fun i =>
    if g.hasTargetBounds then hardTargetStep o g (ach.getD i 0) i
    else hardMinStep o g (ach.getD i 0)

/-- the entry a critical goal contributes (`epsilon = zeros`) -/
def hardCritical (o : HOpts) (g : Goal) (nSteps : Nat) : List EIvl :=
  hardFromEps o g (List.replicate nSteps 0)

end RtcVerif.C04
