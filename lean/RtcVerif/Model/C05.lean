import RtcVerif.Model.Num
import RtcVerif.Model.Interp
/-!
# C05 — model of the bound vectors `lbx/ubx` built by `transcribe()`

Mirrors, at the level where mistakes happen,

* `discretize_controls` / `discretize_states` (running offsets, one shared slice per control, one
  block of `ensemble_member_size` entries per member; order states, algebraics, path variables,
  extra variables, initial derivatives),
* `_collint_get_lbx_ubx` (fill with ∓inf, per (member, variable): scalar / vector / Timeseries
  bound → flat component-major array, divided by the nominal tiled component-major, slice
  assignment with NumPy's 1-D broadcasting rule, `None` side = no write),
* the assembly `lbx[:len(lbx_control)] = lbx_control; lbx[len(lbx_control):] = lbx_state`,
* the history pins `lbx[idx] = ubx[idx] = interp(t0, history)/nominal` and the initial-derivative
  pins (backward difference of the last two history points over the derivative nominal).

Bound values are `EVal` (±inf allowed, e.g. inside a Timeseries), history values may be NaN
(`Option Rat`), results are `XVal` (`np.interp` yields NaN between a −inf and a +inf knot).
Core Lean only.
-/
namespace RtcVerif.C05
open RtcVerif

/-! ## extended values -/

def xdivPos (a : XVal) (c : Rat) : XVal :=
  match a with
  | .nan => .nan
  | .e v => .e (v.divPos c)

def xmulPos (a : XVal) (c : Rat) : XVal :=
  match a with
  | .nan => .nan
  | .e v => .e (v.mulPos c)

/-! ## interpolation of series whose values may be ±inf or NaN

Same recursion as `RtcVerif.Interp` (C19), values in `XVal`, fills always given (the callers
modelled here pass `∓inf` or NaN, never `None`).  `Proofs/C05Interp.lean` shows that on finite
values it *is* the C19 interpolant. -/

abbrev XKnots := List (Rat × XVal)

/-- what `np.interp` returns strictly between two neighbouring knots `(t0, f0)`, `(t1, f1)`:
    the chord for finite values; NaN next to a NaN and between −inf and +inf; otherwise the
    infinite neighbour -/
def seg (f0 f1 : XVal) (t0 t1 t : Rat) : XVal :=
  match f0, f1 with
  | .e (.fin a), .e (.fin b) => XVal.fin (a + (b - a) / (t1 - t0) * (t - t0))
  | .nan, _ => .nan
  | _, .nan => .nan
  | .e .pinf, .e .ninf => .nan
  | .e .ninf, .e .pinf => .nan
  | .e .pinf, _ => XVal.pinf
  | _, .e .pinf => XVal.pinf
  | .e .ninf, _ => XVal.ninf
  | _, .e .ninf => XVal.ninf

/-- `np.interp(t, ts, fs, left, right)` for `ts[0] ≤ t` -/
def linFromX : XKnots → XVal → Rat → XVal
  | [], right, _ => right
  | [(t0, f0)], right, t => if t0 < t then right else f0
  | (t0, f0) :: (t1, f1) :: rest, right, t =>
      if t < t1 then (if t = t0 then f0 else seg f0 f1 t0 t1 t)
      else linFromX ((t1, f1) :: rest) right t

/-- `fs[max(searchsorted(ts, t, 'right') - 1, 0)]` for `ts[0] ≤ t` -/
def prevFromX : XKnots → XVal → Rat → XVal
  | [], cur, _ => cur
  | (t0, f0) :: rest, cur, t => if t0 ≤ t then prevFromX rest f0 t else cur

/-- `fs[min(searchsorted(ts, t, 'left'), n - 1)]` -/
def nextFromX : XKnots → XVal → Rat → XVal
  | [], last, _ => last
  | (t0, f0) :: rest, _, t => if t ≤ t0 then f0 else nextFromX rest f0 t

def lastTimeX (ks : XKnots) : Rat := (ks.getLast?.map (·.1)).getD 0
def lastValX (ks : XKnots) : XVal := (ks.getLast?.map (·.2)).getD .nan

/-- `__interpolate` for a scalar query; `none` = the code raises (no knots, unknown mode) -/
def interpCoreX (mode : Nat) (ks : XKnots) (fl fr : XVal) (t : Rat) : Option XVal :=
  match ks with
  | [] => none
  | (t0, f0) :: rest =>
    if 2 < mode then none
    else if t < t0 then some fl
    else if lastTimeX ks < t then some fr
    else
      match mode with
      | 0 => some (linFromX ks fr t)
      | 1 => some (prevFromX rest f0 t)
      | _ => some (nextFromX ks (lastValX ks) t)

/-- `interpolate` for a scalar query (early exit `ts[0] == t`) -/
def interpScalarX (mode : Nat) (ks : XKnots) (fl fr : XVal) (t : Rat) : Option XVal :=
  match ks with
  | [] => none
  | (t0, f0) :: _ => if t0 = t then some f0 else interpCoreX mode ks fl fr t

/-- `interpolate` for an array query (early exit when the query equals the knot times) -/
def interpArrayX (mode : Nat) (ks : XKnots) (fl fr : XVal) (ts : List Rat) : Option (List XVal) :=
  if ks = [] then none
  else if ts = ks.map (·.1) then some (ks.map (·.2))
  else ts.mapM (interpCoreX mode ks fl fr)

/-! ## variables, bounds, histories -/

/-- one side of a bound pair as the user returns it from `bounds()` -/
inductive Side where
  | none
  | sc (v : EVal)
  | vec (vs : List EVal)
  | ts1 (times : List Rat) (vals : List EVal)
  | ts2 (times : List Rat) (rows : List (List EVal))   -- `rows[j]` = component values at `times[j]`
deriving Repr, DecidableEq

/-- `variable_nominal`: a number or one number per component -/
inductive Nom where
  | sc (q : Rat)
  | vec (qs : List Rat)
deriving Repr, DecidableEq

def Nom.at : Nom → Nat → Rat
  | .sc q, _ => q
  | .vec qs, c => qs.getD c 1

/-- a variable as the bound pass sees it.  `times` are the stamps the bound is evaluated at: the
    variable's own time stamps, or `[initial_time]` with `scalarT = true` for extra variables and
    initial derivatives (single entry per component, scalar query). -/
structure Blk where
  size : Nat
  times : List Rat
  scalarT : Bool
  nom : Nom
  lo : Side
  hi : Side
  mode : Nat
deriving Repr

def Blk.n (b : Blk) : Nat := b.times.length
def Blk.len (b : Blk) : Nat := b.n * b.size

/-- history of one variable of one member; `none` value = NaN -/
structure Hist where
  times : List Rat
  vals : List (Option Rat)
deriving Repr

def Hist.knots (h : Hist) : XKnots :=
  h.times.zip (h.vals.map fun v => match v with | some q => XVal.fin q | none => .nan)

/-! ## one side of a bound → flat array (component-major) -/

def toKnots (ts : List Rat) (vs : List EVal) : XKnots := ts.zip (vs.map XVal.e)

/-- column `c` of a 2-D value array given by rows -/
def column (rows : List (List EVal)) (c : Nat) : List EVal := rows.map (fun r => r.getD c .pinf)

/-- the array the code computes from one side before dividing by the nominal
    (outer `none`: an exception; inner `none`: the side is `None`, nothing is written) -/
def sideVals (b : Blk) (s : Side) (fill : XVal) : Option (Option (List XVal)) :=
  match s with
  | .none => some none
  | .sc x => some (some [.e x])
  | .vec xs =>
      -- np.broadcast_to(bound, (n_times, size)).transpose().ravel()
      if xs.length = b.size then some (some (xs.flatMap fun x => List.replicate b.n (.e x)))
      else match xs with
        | [x] => some (some (List.replicate (b.n * b.size) (.e x)))
        | _ => none
  | .ts1 t vals =>
      if t.length ≠ vals.length then none
      else if b.scalarT then
        (interpScalarX b.mode (toKnots t vals) fill fill (b.times.headD 0)).map fun x => some [x]
      else (interpArrayX b.mode (toKnots t vals) fill fill b.times).map some
  | .ts2 t rows =>
      let k := (rows.head?.map List.length).getD 0
      if rows.length ≠ t.length ∨ !(rows.all fun r => r.length == k) then none
      else
        let cols := (List.range k).map fun c => toKnots t (column rows c)
        if b.scalarT then
          (cols.mapM fun ks => interpScalarX b.mode ks fill fill (b.times.headD 0)).map some
        else
          -- interpolate column by column, `.transpose().ravel()`: component after component
          (cols.mapM fun ks => interpArrayX b.mode ks fill fill b.times).map fun cs => some cs.flatten

/-- `np.broadcast_to(nominal, (n_times, size)).transpose().ravel()` (a scalar nominal divides
    every entry: the same array with equal entries) -/
def nomTiled (b : Blk) : List Rat :=
  (List.range b.size).flatMap fun c => List.replicate b.n (b.nom.at c)

/-- `lbx[inds] = bound / nominal`: NumPy broadcasting of a flat array against the slice -/
def blockWrite (b : Blk) (s : Side) (fill : XVal) : Option (Option (List XVal)) :=
  match sideVals b s fill with
  | none => none
  | some none => some none
  | some (some vals) =>
      if vals.length = b.len then some (some (List.zipWith xdivPos vals (nomTiled b)))
      else match vals with
        | [x] => some (some ((nomTiled b).map fun q => xdivPos x q))
        | _ => none

/-! ## slice writes and the two passes -/

/-- `l[start : start + len(vals)] = vals` -/
def setSlice {α} (l : List α) (start : Nat) (vals : List α) : List α :=
  l.take start ++ vals ++ l.drop (start + vals.length)

def sideOf (lower : Bool) (b : Blk) : Side := if lower then b.lo else b.hi
def fillOf (lower : Bool) : XVal := if lower then XVal.ninf else XVal.pinf

/-- one member's sweep of `_collint_get_lbx_ubx` over consecutive slots starting at `off` -/
def writeBlocks (lower : Bool) : List Blk → Nat → List XVal → Option (List XVal)
  | [], _, arr => some arr
  | b :: bs, off, arr =>
      match blockWrite b (sideOf lower b) (fillOf lower) with
      | none => none
      | some none => writeBlocks lower bs (off + b.len) arr
      | some (some vs) => writeBlocks lower bs (off + b.len) (setSlice arr off vs)

def totalLen (bs : List Blk) : Nat := (bs.map Blk.len).sum

/-- all members, each at `member * stride + base` (`stride = 0`: one shared set of slots, the
    default control discretisation; `stride = ensemble_member_size`: states) -/
def sweepMembers (lower : Bool) (bs : List Blk) (stride : Nat) : Nat → Nat → List XVal → Option (List XVal)
  | 0, _, arr => some arr
  | e + 1, m, arr =>
      match writeBlocks lower bs (m * stride) arr with
      | none => none
      | some arr' => sweepMembers lower bs stride e (m + 1) arr'

/-! ## the instance -/

structure Inst where
  t0 : Rat
  E : Nat
  states : List Blk
  algs : List Blk
  controls : List Blk
  paths : List Blk
  extras : List Blk
  /-- per member, one entry per variable of `states ++ algs ++ controls` -/
  hist : List (List (Option Hist))
deriving Repr

/-- the block of an initial derivative: one free entry -/
def initDerBlk (t0 : Rat) : Blk :=
  { size := 1, times := [t0], scalarT := true, nom := .sc 1, lo := .none, hi := .none, mode := 0 }

/-- the slots of one member in `discretize_states` order -/
def stateBlocks (I : Inst) : List Blk :=
  I.states ++ I.algs ++ I.paths ++ I.extras ++ I.states.map (fun _ => initDerBlk I.t0)

def ctrlSize (I : Inst) : Nat := totalLen I.controls
def memberSize (I : Inst) : Nat := totalLen (stateBlocks I)
def totalSize (I : Inst) : Nat := ctrlSize I + I.E * memberSize I

/-- offset of slot `j` inside a run of consecutive slots -/
def offsetOf (bs : List Blk) (j : Nat) : Nat := totalLen (bs.take j)

/-- `lbx` / `ubx` before the history pins -/
def boxArr (lower : Bool) (I : Inst) : Option (List XVal) := do
  let c ← sweepMembers lower I.controls 0 I.E 0 (List.replicate (ctrlSize I) (fillOf lower))
  let s ← sweepMembers lower (stateBlocks I) (memberSize I) I.E 0
            (List.replicate (I.E * memberSize I) (fillOf lower))
  pure (c ++ s)

/-! ## history pins -/

/-- first decision-vector index of pin variable `j` (position in `states ++ algs ++ controls`) of
    member `m` -/
def pinIndex (I : Inst) (m j : Nat) : Nat :=
  let ns := I.states.length + I.algs.length
  if j < ns then ctrlSize I + m * memberSize I + offsetOf (stateBlocks I) j
  else offsetOf I.controls (j - ns)

def pinVars (I : Inst) : List Blk := I.states ++ I.algs ++ I.controls

/-- the value pinned at `t0`, `some none` when there is nothing to pin, `none` = exception -/
def pinValue (t0 : Rat) (b : Blk) (h : Option Hist) : Option (Option XVal) :=
  match h with
  | none => some none
  | some h =>
    match interpScalarX b.mode h.knots .nan .nan t0 with
    | none => none
    | some .nan => some none
    | some v => some (some (xdivPos v (b.nom.at 0)))

def applyPins (I : Inst) (m : Nat) : List (Blk × Option Hist) → Nat → (List XVal × List XVal) →
    Option (List XVal × List XVal)
  | [], _, a => some a
  | (b, h) :: rest, j, (lo, hi) =>
      match pinValue I.t0 b h with
      | none => none
      | some none => applyPins I m rest (j + 1) (lo, hi)
      | some (some v) =>
          applyPins I m rest (j + 1) ((lo.set (pinIndex I m j) v), (hi.set (pinIndex I m j) v))

/-- nominal of `initial_der(x)`: the state's nominal over the history step of member 0 (or the
    first optimisation step); `none` = the assertion `h.times[-1] == times[0]` fails -/
def derNominal (b : Blk) (h0 : Option Hist) : Option Rat :=
  let nomv := b.nom.at 0
  let dflt : Rat := match b.times with
    | a :: c :: _ => c - a
    | _ => 0
  let dt : Option Rat := match h0 with
    | none => some dflt
    | some h =>
        if h.times.head? = b.times.head? ∨ h.vals.length = 1 then some dflt
        else if h.times.getLast? = b.times.head? then
          some ((h.times.getLast?.getD 0) - (h.times.dropLast.getLast?.getD 0))
        else none
  dt.map fun dt => if 0 < dt then nomv / dt else nomv

inductive DerPin where
  | free                -- no usable history: the initial derivative stays free
  | pin (v : Rat)       -- lbx = ubx = v
  | symbolic            -- NaN at t0: an equality row is added instead
  | raise
deriving Repr, DecidableEq

def derPin (t0 : Rat) (b : Blk) (h : Option Hist) (nomDer : Rat) : DerPin :=
  match h with
  | none => .free
  | some h =>
    if h.times.length ≤ 1 then .free
    else match h.vals.dropLast.getLast? with
      | none => .free
      | some none => .free                       -- values[-2] is NaN
      | some (some prev) =>
        if h.times.getLast? ≠ some t0 then .raise
        else match h.vals.getLast? with
          | some (some _) =>
              match interpScalarX b.mode h.knots .nan .nan t0 with
              | some (.e (.fin v0)) =>
                  .pin ((v0 - prev) / (t0 - (h.times.dropLast.getLast?.getD 0)) / nomDer)
              | _ => .raise
          | _ => .symbolic

/-- index of `initial_der` of state `i` of member `m` -/
def derIndex (I : Inst) (m i : Nat) : Nat :=
  ctrlSize I + m * memberSize I
    + offsetOf (stateBlocks I) (I.states.length + I.algs.length + I.paths.length + I.extras.length + i)

def applyDerPins (I : Inst) (m : Nat) (noms : List Rat) :
    List (Blk × Option Hist) → Nat → (List XVal × List XVal × List Nat) →
    Option (List XVal × List XVal × List Nat)
  | [], _, a => some a
  | (b, h) :: rest, i, (lo, hi, sym) =>
      match derPin I.t0 b h (noms.getD i 1) with
      | .raise => none
      | .free => applyDerPins I m noms rest (i + 1) (lo, hi, sym)
      | .symbolic => applyDerPins I m noms rest (i + 1) (lo, hi, sym ++ [derIndex I m i])
      | .pin v =>
          applyDerPins I m noms rest (i + 1)
            (lo.set (derIndex I m i) (XVal.fin v), hi.set (derIndex I m i) (XVal.fin v), sym)

def histOf (I : Inst) (m : Nat) : List (Option Hist) := I.hist.getD m []

def pinMembers (I : Inst) (noms : List Rat) : Nat → Nat → (List XVal × List XVal × List Nat) →
    Option (List XVal × List XVal × List Nat)
  | 0, _, a => some a
  | e + 1, m, (lo, hi, sym) =>
      let hs := histOf I m
      match applyPins I m ((pinVars I).zip (hs ++ List.replicate (pinVars I).length none)) 0 (lo, hi) with
      | none => none
      | some (lo', hi') =>
        match applyDerPins I m noms (I.states.zip (hs ++ List.replicate I.states.length none)) 0 (lo', hi', sym) with
        | none => none
        | some a => pinMembers I noms e (m + 1) a

structure Result where
  lbx : List XVal
  ubx : List XVal
  /-- indices of initial derivatives constrained by a symbolic row instead of a pin -/
  symbolic : List Nat
  derNoms : List Rat
deriving Repr

/-- `lbx`, `ubx` as `transcribe()` returns them; `none` = an exception is raised -/
def transcribeBounds (I : Inst) : Option Result := do
  let h0 := histOf I 0
  let noms ← (I.states.zip (h0 ++ List.replicate I.states.length none)).mapM
      (fun p => derNominal p.1 p.2)
  let lo ← boxArr true I
  let hi ← boxArr false I
  let (lo, hi, sym) ← pinMembers I noms I.E 0 (lo, hi, [])
  pure { lbx := lo, ubx := hi, symbolic := sym, derNoms := noms }

/-! ## specification side: the user's bound of (component, time index) -/

/-- value of one bound side for component `c` at the `i`-th time stamp of the variable -/
def sideAt (b : Blk) (s : Side) (fill : XVal) (c i : Nat) : Option XVal :=
  match s with
  | .none => some fill
  | .sc x => some (.e x)
  | .vec xs => match xs with
      | [x] => some (.e x)
      | _ => (xs[c]?).map XVal.e
  | .ts1 t vals =>
      if b.scalarT then interpScalarX b.mode (toKnots t vals) fill fill (b.times.headD 0)
      else (interpArrayX b.mode (toKnots t vals) fill fill b.times).bind (·[i]?)
  | .ts2 t rows =>
      -- a single column is broadcast over the components (NumPy), otherwise column `c`
      let cc := if (rows.head?.map List.length).getD 0 = 1 then 0 else c
      if b.scalarT then
        interpScalarX b.mode (toKnots t (column rows cc)) fill fill (b.times.headD 0)
      else (interpArrayX b.mode (toKnots t (column rows cc)) fill fill b.times).bind (·[i]?)

/-- decision-vector index of (member, slot `j` of the state pass, component, time index) -/
def stateIndex (I : Inst) (m j c i : Nat) : Nat :=
  ctrlSize I + m * memberSize I + offsetOf (stateBlocks I) j + (c * ((stateBlocks I).getD j (initDerBlk 0)).n + i)

/-- decision-vector index of (control `j`, time index); the same for every member -/
def ctrlIndex (I : Inst) (j i : Nat) : Nat := offsetOf I.controls j + i

/-- slots are well formed: a scalar-time slot (extra variable, initial derivative) has one stamp -/
def WF (b : Blk) : Prop := b.scalarT = true → b.n = 1

/-- scaled bound written into the decision vector for (component, stamp) of slot `b` -/
def scaledBound (lower : Bool) (b : Blk) (c i : Nat) : Option XVal :=
  (sideAt b (sideOf lower b) (fillOf lower) c i).map fun x => xdivPos x (b.nom.at c)

/-- a history whose last stamp is `t0`: earlier stamps `pt` (all before `t0`) with values `pv`
    (`none` = NaN), then the entry at `t0` -/
def histEndingAt (pt : List Rat) (pv : List (Option Rat)) (t0 : Rat) (v0 : Option Rat) : Hist :=
  { times := pt ++ [t0], vals := pv ++ [v0] }

/-- what member `m`'s history sweep does to its `k`-th pin variable (position in
    `states ++ algs ++ controls`): `some (some v)` writes `v`, `some none` writes nothing,
    `none` raises -/
def memberPin (I : Inst) (m k : Nat) : Option (Option XVal) :=
  match ((pinVars I).zip (histOf I m ++ List.replicate (pinVars I).length none))[k]? with
  | some (b, hh) => pinValue I.t0 b hh
  | none => some none

/-! ## bounds keyed by an alias of the variable -/

def Side.neg : Side → Side
  | .none => .none
  | .sc x => .sc x.neg
  | .vec xs => .vec (xs.map EVal.neg)
  | .ts1 t vs => .ts1 t (vs.map EVal.neg)
  | .ts2 t rows => .ts2 t (rows.map fun r => r.map EVal.neg)

/-- the pair stored for the canonical variable when the user's `bounds()` entry `(lo, hi)` is keyed
    by an alias (`AliasDict.__setitem__`): unchanged for a plain alias, swapped and negated for a
    negated alias `a = -x` (`lo ≤ -x ≤ hi` is `-hi ≤ x ≤ -lo`).  A `None` (missing) side stays
    missing and changes places like the others (`(None, 5)` under `a = -x` is `(-5, None)`; since
    the repair F56 the code does the same instead of raising on `-None`). -/
def aliasSides (negated : Bool) (lo hi : Side) : Side × Side :=
  if negated then (hi.neg, lo.neg) else (lo, hi)

/-- a slot whose bound pair was given under an alias -/
def Blk.underAlias (b : Blk) (negated : Bool) : Blk :=
  { b with lo := (aliasSides negated b.lo b.hi).1, hi := (aliasSides negated b.lo b.hi).2 }

/-! ## several sources of scalar bounds (user `bounds()`, Modelica `min`/`max` attributes) -/

/-- `m = max(m, m_)` over all sources, starting from −inf -/
def intersectLo (los : List EVal) : EVal := los.foldl EVal.max .ninf
/-- `M = min(M, M_)` over all sources, starting from +inf -/
def intersectHi (his : List EVal) : EVal := his.foldl EVal.min .pinf

/-- the box `ModelicaMixin.bounds()` starts from when the classes below it give no entry for the
    variable: `(0, 1)` for a variable declared `Boolean`, unbounded for every other type (a
    discrete `Integer` has no default box) -/
def defaultBox (isBoolean : Bool) : EVal × EVal :=
  if isBoolean then (.fin 0, .fin 1) else (.ninf, .pinf)

/-- `ModelicaMixin.bounds()[v]`: the user's pair (or the default box) intersected with the declared
    `min` / `max` attributes (`∓inf` when not declared) -/
def modelicaBox (isBoolean : Bool) (user : Option (EVal × EVal)) (mn mx : EVal) : EVal × EVal :=
  let base := user.getD (defaultBox isBoolean)
  (EVal.max base.1 mn, EVal.min base.2 mx)

end RtcVerif.C05
