import RtcVerif.Model.C05
/-!
# C05 / C08 — the NumPy idioms of `_collint_get_lbx_ubx` and `_collint_get_x0` as named operations

Reference definitions for the source-to-Lean translation (`harness/translate_c05.py`,
`lean/RtcVerif/Gen/BoundsKernel.lean`).  Every operation is one NumPy / rtc-tools idiom of the
translated code; `blockWriteK` / `seedWriteK` compose them in the shape of the source.
`Proofs/C05Kernel.lean` proves `blockWriteK = C05.blockWrite` (the function the C05 / C08 theorems
are about).  2-D arrays `(n_times, size)` are kept as their list of columns (one per component).
Core Lean only.
-/
namespace RtcVerif.C05.K
open RtcVerif RtcVerif.C05

abbrev Mat (α : Type) := List (List α)

/-- `M.transpose().ravel()`: component after component -/
def cm {α} (m : Mat α) : List α := m.flatten
/-- `M.ravel()` without transpose: stamp after stamp (time-major) -/
def tm {α} (n : Nat) (m : Mat α) : List α := (List.range n).flatMap fun i => m.filterMap (·[i]?)

/-! ### the nominal -/

/-- `np.broadcast_to(nominal, (n_times, variable_size))` for an array nominal (one per component) -/
def broadcastNom (b : Blk) (qs : List Rat) : Mat Rat :=
  (List.range b.size).map fun c => List.replicate b.n (qs.getD c 1)
/-- `np.tile(nominal, n_times)` -/
def tileNom (b : Blk) (qs : List Rat) : List Rat := (List.replicate b.n qs).flatten
/-- a scalar nominal divides every entry: read as the array with equal entries -/
def scalarNom (b : Blk) (q : Rat) : List Rat :=
  cm ((List.range b.size).map fun _ => List.replicate b.n q)

/-- `nominal = self.variable_nominal(v); if isinstance(nominal, np.ndarray): nominal =
    np.broadcast_to(nominal, (n_times, variable_size)).transpose().ravel()` -/
def nominalK (b : Blk) : List Rat :=
  match b.nom with
  | .sc q => scalarNom b q
  | .vec qs => cm (broadcastNom b qs)

/-! ### values of one bound side / seed -/

inductive Val where
  | num (x : XVal)
  | arr (xs : List XVal)
  | mat (cols : Mat XVal)

/-- `np.asarray(v).transpose().ravel()` -/
def Val.cm : Val → List XVal
  | .num x => [x]
  | .arr xs => xs
  | .mat cols => K.cm cols
/-- `np.asarray(v).ravel()` -/
def Val.tm (n : Nat) : Val → List XVal
  | .num x => [x]
  | .arr xs => xs
  | .mat cols => K.tm n cols

/-- a Python scalar in NumPy broadcasting: a one-element array -/
def scalar (x : EVal) : List XVal := [.e x]

/-- `np.broadcast_to(bound, (n_times, variable_size))` for an array bound -/
def broadcastVec (b : Blk) (xs : List EVal) : Option Val :=
  if xs.length = b.size then some (.mat (xs.map fun x => List.replicate b.n (.e x)))
  else match xs with
    | [x] => some (.mat (List.replicate b.size (List.replicate b.n (.e x))))
    | _ => none

/-- `self.interpolate(times, series.times, series.values, f_left, f_right, interpolation_method)`
    with `times` the variable's stamps (the scalar `initial_time` for extra variables) -/
def interpolate (b : Blk) (s : Side) (fl fr : XVal) : Option Val :=
  match s with
  | .ts1 t vals =>
      if t.length ≠ vals.length then none
      else if b.scalarT then (interpScalarX b.mode (toKnots t vals) fl fr (b.times.headD 0)).map .num
      else (interpArrayX b.mode (toKnots t vals) fl fr b.times).map .arr
  | .ts2 t rows =>
      let k := (rows.head?.map List.length).getD 0
      if rows.length ≠ t.length ∨ !(rows.all fun r => r.length == k) then none
      else
        let cols := (List.range k).map fun c => toKnots t (column rows c)
        if b.scalarT then (cols.mapM fun ks => interpScalarX b.mode ks fl fr (b.times.headD 0)).map .arr
        else (cols.mapM fun ks => interpArrayX b.mode ks fl fr b.times).map .mat
  | _ => none

/-- `target[inds] = values / nominal` (also `target[inds] = values; target[inds] /= nominal`):
    NumPy broadcasting of a flat array against the slice of `n_times * size` entries -/
def divAssign (b : Blk) (vals : List XVal) (nominal : List Rat) : Option (Option (List XVal)) :=
  if vals.length = b.len then some (some (List.zipWith xdivPos vals nominal))
  else match vals with
    | [x] => some (some (nominal.map fun q => xdivPos x q))
    | _ => none

def bindAssign (b : Blk) (vals : Option (List XVal)) (nominal : List Rat) : Option (Option (List XVal)) :=
  match vals with
  | none => none
  | some v => divAssign b v nominal

/-- one side of `_collint_get_lbx_ubx` for one (member, variable), in the shape of the source -/
def blockWriteK (b : Blk) (s : Side) (fill : XVal) : Option (Option (List XVal)) :=
  match s with
  | .none => some none
  | .sc x => divAssign b (scalar x) (nominalK b)
  | .vec xs => bindAssign b ((broadcastVec b xs).map Val.cm) (nominalK b)
  | .ts1 t vals => bindAssign b ((interpolate b (.ts1 t vals) fill fill).map Val.cm) (nominalK b)
  | .ts2 t rows => bindAssign b ((interpolate b (.ts2 t rows) fill fill).map Val.cm) (nominalK b)

/-- `_collint_get_x0` for one (member, variable): a Timeseries seed is interpolated (fill 0) and
    flattened component-major, anything else is assigned as it is -/
def seedWriteK (b : Blk) (s : Side) : Option (Option (List XVal)) :=
  match s with
  | .none => some none
  | .sc x => divAssign b (scalar x) (nominalK b)
  | .vec xs => divAssign b (xs.map XVal.e) (nominalK b)
  | .ts1 t vals => bindAssign b ((interpolate b (.ts1 t vals) (XVal.fin 0) (XVal.fin 0)).map Val.cm) (nominalK b)
  | .ts2 t rows => bindAssign b ((interpolate b (.ts2 t rows) (XVal.fin 0) (XVal.fin 0)).map Val.cm) (nominalK b)

end RtcVerif.C05.K
