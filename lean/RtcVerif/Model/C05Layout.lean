import RtcVerif.Model.C05
/-!
# C05 — the index allocation and the history-pin block in the shape of the source

Reference definitions (`RtcVerif.C05.L`) that follow the statements of

* `discretize_states` (size count, running `offset`, one `slice` / `int` per variable and member),
* `discretize_control` / `discretize_controls` (cache keyed by the variable, `count = max(count, stop)`),
* the merge of the two index dictionaries in `transcribe()` (shift by `control_size`),
* the history-pin block and the initial-derivative block of `transcribe()`,
* the initial-derivative nominals computed at the start of `transcribe()`.

`harness/translate_c05.py` regenerates `Gen/LayoutPins.lean` from the source on every run and proves
the generated definitions equal to these; `Proofs/C05Layout.lean` proves these equal to the model of
the property theorems (`stateIndex`, `ctrlIndex`, `pinIndex`, `derIndex`, `pinValue`, `applyPins`,
`derPin`, `applyDerPins`, `derNominal`).  Core Lean only.
-/
namespace RtcVerif.C05.L
open RtcVerif RtcVerif.C05

/-- the value of `indices[ensemble_member][variable]` -/
inductive Slot where
  | slice (start stop : Nat)
  | int (i : Nat)
deriving Repr, DecidableEq

/-- `self.__indices_as_lists[m][v][0]` / the `int` itself -/
def Slot.first : Slot → Nat
  | .slice s _ => s
  | .int i => i

/-- `.stop` of a slice; one past an `int` entry -/
def Slot.stop : Slot → Nat
  | .slice _ e => e
  | .int i => i + 1

/-- `for v in vs: acc += term(v)` -/
def accum (vs : List Blk) (term : Blk → Nat) (acc : Nat) : Nat :=
  vs.foldl (fun a b => a + term b) acc

/-- `for v in vs: indices[m][v] = slot(v, offset); offset += width(v)`: the slots in insertion
    order and the final offset -/
def alloc (slot : Blk → Nat → Slot) (width : Blk → Nat) : List Blk → Nat → List Slot × Nat
  | [], off => ([], off)
  | b :: bs, off =>
      let r := alloc slot width bs (off + width b)
      (slot b off :: r.1, r.2)

/-- the names of `self.__initial_derivative_names`: one single-entry slot per differentiated state -/
def derBlocks (I : Inst) : List Blk := I.states.map (fun _ => initDerBlk I.t0)

/-! ## `discretize_states` -/

/-- `ensemble_member_size` -/
def memberSizeK (I : Inst) : Nat :=
  let s := 0
  let s := accum (I.states ++ I.algs) (fun b => b.n * b.size) s
  let s := accum I.paths (fun b => b.n * b.size) s
  let s := accum I.extras (fun b => b.size) s
  let s := s + I.states.length
  s

/-- `count` -/
def stateCountK (I : Inst) : Nat := I.E * memberSizeK I

/-- `indices[m]` of `discretize_states` in insertion order (= iteration order of
    `_collint_get_lbx_ubx`) -/
def stateSlotsK (I : Inst) (m : Nat) : List Slot :=
  let offset := m * memberSizeK I
  let r1 := alloc (fun b offset => Slot.slice offset (offset + b.n * b.size)) (fun b => b.n * b.size)
    (I.states ++ I.algs) offset
  let r2 := alloc (fun b offset => Slot.slice offset (offset + b.n * b.size)) (fun b => b.n * b.size)
    I.paths r1.2
  let r3 := alloc (fun b offset => Slot.slice offset (offset + b.size)) (fun b => b.size) I.extras r2.2
  let r4 := alloc (fun _ offset => Slot.int offset) (fun _ => 1) (derBlocks I) r3.2
  r1.1 ++ r2.1 ++ r3.1 ++ r4.1

/-- the merge in `transcribe()`: state indices are moved behind the controls -/
def shiftK (controlSize : Nat) : Slot → Slot
  | .slice s e => .slice (s + controlSize) (e + controlSize)
  | .int i => .int (i + controlSize)

/-! ## `discretize_control` / `discretize_controls` -/

/-- `self.__discretize_control_cache`: keyed by the variable (its position in `self.controls`) -/
abbrev Cache := List (Nat × Slot)

structure CSt where
  cache : Cache
  count : Nat
deriving Repr

/-- `discretize_control(variable, ensemble_member, times, offset)` with `ntimes = len(times)`:
    the cached slice, otherwise a new one at `offset` which is cached -/
def discretizeControlK (cache : Cache) (var ntimes offset : Nat) : Slot × Cache :=
  match cache.lookup var with
  | some s => (s, cache)
  | none => (Slot.slice offset (offset + ntimes), (var, Slot.slice offset (offset + ntimes)) :: cache)

/-- body of `for ensemble_member in range(self.ensemble_size)` in `discretize_controls` -/
def ctrlStepK (b : Blk) (var : Nat) (st : CSt) : Slot × CSt :=
  let r := discretizeControlK st.cache var b.n st.count
  (r.1, { cache := r.2, count := max st.count r.1.stop })

/-- `for ensemble_member in range(E)`: the slot of every member in order -/
def memberLoop (step : CSt → Slot × CSt) : Nat → CSt → List Slot × CSt
  | 0, st => ([], st)
  | e + 1, st =>
      let r := step st
      let r' := memberLoop step e r.2
      (r.1 :: r'.1, r'.2)

/-- `for variable in self.controls: for ensemble_member in range(E)`: `result[j][m]` -/
def ctrlNest (E : Nat) (step : Blk → Nat → CSt → Slot × CSt) : List Blk → Nat → CSt → List (List Slot) × CSt
  | [], _, st => ([], st)
  | b :: bs, j, st =>
      let r := memberLoop (step b j) E st
      let r' := ctrlNest E step bs (j + 1) r.2
      (r.1 :: r'.1, r'.2)

/-- `indices[m][variable]` for every control and member, and `count`, of `discretize_controls` -/
def ctrlSlotsK (I : Inst) : List (List Slot) × Nat :=
  let r := ctrlNest I.E ctrlStepK I.controls 0 { cache := [], count := 0 }
  (r.1, r.2.count)

/-! ## the complete index table `self.__indices` -/

/-- `self.__indices[m][v]` for the `k`-th variable of `states ++ algs ++ controls` -/
def pinSlot (I : Inst) (m k : Nat) : Option Slot :=
  let ns := I.states.length + I.algs.length
  if k < ns then ((stateSlotsK I m)[k]?).map (shiftK (ctrlSlotsK I).2)
  else ((ctrlSlotsK I).1[k - ns]?).bind (·[m]?)

/-- `self.__indices[m][initial_der_name]` of the `i`-th differentiated state -/
def derSlot (I : Inst) (m i : Nat) : Option Slot :=
  ((stateSlotsK I m)[I.states.length + I.algs.length + I.paths.length + I.extras.length + i]?).map
    (shiftK (ctrlSlotsK I).2)

/-! ## history pins: float-level primitives -/

/-- a history value as a float: `none` = NaN -/
def ofHist : Option Rat → XVal
  | some q => XVal.fin q
  | none => .nan

def isnan : XVal → Bool
  | .nan => true
  | _ => false

/-- `self.interpolate(t0, h.times, h.values, fl, fr, self.interpolation_method(variable))`
    (scalar query; `none` = an exception) -/
def interpolate (b : Blk) (h : Hist) (fl fr : XVal) (t0 : Rat) : Option XVal :=
  interpScalarX b.mode h.knots fl fr t0

/-- `self.variable_nominal(variable)` of a state / algebraic state / control (one component) -/
def nominal (b : Blk) : Rat := b.nom.at 0

/-- `a[-1]`, `a[-2]` (`none` = IndexError) -/
def last1 {α} (l : List α) : Option α := l.getLast?
def last2 {α} (l : List α) : Option α := l.dropLast.getLast?

/-- `h.values[-1]`, `h.values[-2]` as floats (a missing entry reads as NaN: the branch taken is the
    one of the model) -/
def valAt1 (h : Hist) : XVal := match last1 h.vals with | some v => ofHist v | none => .nan
def valAt2 (h : Hist) : XVal := match last2 h.vals with | some v => ofHist v | none => .nan
/-- `h.times[-1]`, `h.times[-2]` -/
def timeAt1 (h : Hist) : Option Rat := last1 h.times
def timeAt2 (h : Hist) : Option Rat := last2 h.times

/-- `(a - prev) / (t0 - tp)` on floats: finite operands give the quotient, anything else NaN -/
def backDiff (a prev : XVal) (tp : Option Rat) (t0 : Rat) : XVal :=
  match a, prev with
  | .e (.fin v0), .e (.fin p) => XVal.fin ((v0 - p) / (t0 - tp.getD 0))
  | _, _ => .nan

/-- `val /= nominal` for a float and a plain number -/
def divNom (a : XVal) (q : Rat) : XVal :=
  match a with
  | .e (.fin v) => XVal.fin (v / q)
  | x => x

/-- `lbx[idx] = ubx[idx] = val` for an initial derivative: a non-finite value is outside the model -/
def pinOf (a : XVal) : DerPin :=
  match a with
  | .e (.fin v) => .pin v
  | _ => .raise

/-! ## the history-pin block of `transcribe()` in the shape of the source -/

/-- body of `for variable in chain(differentiated_states, algebraic_states, controls)`;
    `idx` = `self.__indices_as_lists[ensemble_member][variable][0]` -/
def pinStepK (t0 : Rat) (b : Blk) (h : Option Hist) (idx : Nat) (lbx ubx : List XVal) :
    Option (List XVal × List XVal) :=
  match h with
  | none => some (lbx, ubx)
  | some h =>
    match interpolate b h XVal.nan XVal.nan t0 with
    | none => none
    | some val =>
      let val := xdivPos val (nominal b)
      if ¬ (isnan val = true) then some (lbx.set idx val, ubx.set idx val) else some (lbx, ubx)

/-- body of `for i, variable in enumerate(self.differentiated_states)`; `nomDer` =
    `self.variable_nominal(initial_der_name)` -/
def derStepK (t0 : Rat) (b : Blk) (h : Option Hist) (nomDer : Rat) : DerPin :=
  match h with
  | none => DerPin.free
  | some h =>
    if h.times.length ≤ 1 ∨ isnan (valAt2 h) = true then DerPin.free
    else if ¬ (timeAt1 h = some t0) then DerPin.raise
    else if isnan (valAt1 h) = true then DerPin.symbolic
    else
      match interpolate b h XVal.nan XVal.nan t0 with
      | none => DerPin.raise
      | some t0_val =>
        let val := backDiff t0_val (valAt2 h) (timeAt2 h) t0
        let val := divNom val nomDer
        pinOf val

/-- the nominal of `initial_der(x)`: body of the loop at the start of `transcribe()` that fills
    `self.__initial_derivative_nominals`, every path written out (`none` = the assertion fails);
    `h0` = the state's entry in `self.history(0)` -/
def derNominalK (b : Blk) (h0 : Option Hist) : Option Rat :=
  if b.times.length > 1 then
    match h0 with
    | none =>
      if ((b.times[1]?).getD 0 - (b.times[0]?).getD 0) > 0 then
        some ((L.nominal b / ((b.times[1]?).getD 0 - (b.times[0]?).getD 0)))
      else
        some (L.nominal b)
    | some h =>
      if h.times[0]? = b.times[0]? ∨ h.vals.length = 1 then
        if ((b.times[1]?).getD 0 - (b.times[0]?).getD 0) > 0 then
          some ((L.nominal b / ((b.times[1]?).getD 0 - (b.times[0]?).getD 0)))
        else
          some (L.nominal b)
      else
        if ¬ (L.last1 h.times = b.times[0]?) then none
        else
          if ((L.last1 h.times).getD 0 - (L.last2 h.times).getD 0) > 0 then
            some ((L.nominal b / ((L.last1 h.times).getD 0 - (L.last2 h.times).getD 0)))
          else
            some (L.nominal b)
  else
    match h0 with
    | none =>
      if (0 : Rat) > 0 then
        some ((L.nominal b / (0 : Rat)))
      else
        some (L.nominal b)
    | some h =>
      if h.times[0]? = b.times[0]? ∨ h.vals.length = 1 then
        if (0 : Rat) > 0 then
          some ((L.nominal b / (0 : Rat)))
        else
          some (L.nominal b)
      else
        if ¬ (L.last1 h.times = b.times[0]?) then none
        else
          if ((L.last1 h.times).getD 0 - (L.last2 h.times).getD 0) > 0 then
            some ((L.nominal b / ((L.last1 h.times).getD 0 - (L.last2 h.times).getD 0)))
          else
            some (L.nominal b)

end RtcVerif.C05.L
