import RtcVerif.Model.C05
/-! JSON decoding of C05 instances (shared by the C05 and C08 drivers).  Core Lean only. -/
open Lean RtcVerif RtcVerif.Wire

namespace RtcVerif.C05

def sideOfJson (j : Json) : Option Side :=
  match j with
  | Json.null => some Side.none
  | _ => do
    let k ← getStr j "k"
    match k with
    | "sc" => (getEVal j "v").map Side.sc
    | "vec" => (getEValList j "v").map Side.vec
    | "ts" => do
        let t ← getRatList j "t"
        let v ← getEValList j "v"
        pure (Side.ts1 t v)
    | "ts2" => do
        let t ← getRatList j "t"
        let rows ← getArr j "v"
        let rows ← rows.mapM asEValList
        pure (Side.ts2 t rows)
    | _ => none

def nomOfJson (j : Json) : Option Nom :=
  match getRat j "sc" with
  | some q => some (Nom.sc q)
  | none => (getRatList j "vec").map Nom.vec

def blkOfJson (j : Json) : Option Blk := do
  let size ← getNat j "size"
  let times ← getRatList j "times"
  let scalarT ← getBool j "scalarT"
  let nom ← (getObj j "nom").bind nomOfJson
  let lo ← (getObj j "lo").bind sideOfJson
  let hi ← (getObj j "hi").bind sideOfJson
  let mode ← getNat j "mode"
  -- optional: the pair (lo, hi) is what the user gave under an alias; "negAlias" = the alias is negated
  let b : Blk := { size, times, scalarT, nom, lo, hi, mode }
  pure (match getBool j "negAlias" with
    | some neg => b.underAlias neg
    | none => b)

def optRat (j : Json) : Option (Option Rat) :=
  match j with
  | Json.str "nan" => some none
  | _ => (asRat j).map some

def histOfJson (j : Json) : Option (Option Hist) :=
  match j with
  | Json.null => some none
  | _ => do
    let t ← getRatList j "t"
    let v ← getArr j "v"
    let v ← v.mapM optRat
    pure (some { times := t, vals := v })

def blks (j : Json) (k : String) : Option (List Blk) := (getArr j k).bind (·.mapM blkOfJson)

def instOfJson (j : Json) : Option Inst := do
  let t0 ← getRat j "t0"
  let E ← getNat j "E"
  let states ← blks j "states"
  let algs ← blks j "algs"
  let controls ← blks j "controls"
  let paths ← blks j "paths"
  let extras ← blks j "extras"
  let hist ← getArr j "hist"
  let hist ← hist.mapM fun hm => match hm with
    | Json.arr a => a.toList.mapM histOfJson
    | _ => none
  pure { t0, E, states, algs, controls, paths, extras, hist }

def slotIdx (I : Inst) (m j : Nat) : List Nat :=
  let b := (stateBlocks I).getD j (initDerBlk 0)
  (List.range b.size).flatMap fun c => (List.range b.n).map fun i => stateIndex I m j c i

end RtcVerif.C05
