import RtcVerif.Model.Num
import RtcVerif.Model.Interp
/-!
# C06 — model of how `transcribe()` assembles the objective and the user constraints

Core Lean only.  The user functions are parameters: at a fixed decision vector the code has, per
ensemble member `m`,

* `J m`               the value of `objective(m)`,
* per collocation step `i = 1 … n-1` one output column of the mapped function `accumulated`:
  `dae rows ++ path objective ++ path constraint rows ++ delayed feedback rows`
  (`collocated…py:1138-1146`), and the same functions evaluated at `t0`
  (`__func_initial_inputs`, lines 1863-1867 and 1926-1933),
* the values of the point constraints `constraints(m)`.

The model mirrors what the code does with them: row slices of the mapped output and `ca.vec`
(lines 1529-1555), `f_member` and the probability weighting (1859-1869, 1985), broadcasting of
point-constraint bounds (1885-1919), the bound arrays of the path constraints with their
`transpose().ravel()` (1935-1980).
-/
namespace RtcVerif.C06
open RtcVerif RtcVerif.Interp

/-! ## mapped output and its slices -/

/-- one column of the mapped function for a step: the code's `accumulated_Y` -/
def stepColumn (dae jpath gpath delay : List Rat) : List Rat := dae ++ jpath ++ gpath ++ delay

/-- `ca.vec(M[a : a + len, :])` for a matrix given by its columns -/
def vecSlice (a len : Nat) (cols : List (List Rat)) : List Rat :=
  cols.flatMap (fun col => (col.drop a).take len)

def sumList : List Rat → Rat
  | [] => 0
  | x :: xs => x + sumList xs

/-! ## objective -/

/-- `f_member`: `objective(m)`, plus — when the path objective has a row — its `t0` instance and
    the sum of the mapped instances (`initial_path_objective[0] + ca.sum1(discretized)`) -/
def fMember (J : Rat) (nd nj : Nat) (init : List Rat) (cols : List (List Rat)) : Rat :=
  if 0 < nj then J + (init.getD 0 0 + sumList (vecSlice nd nj cols)) else J

/-- `nlp["f"] = sum1(vertcat(*[prob(m) * f_member(m)]))` -/
def objectiveCode (probs : List Rat) (fMembers : List Rat) : Rat :=
  sumList (List.zipWith (fun p f => p * f) probs fMembers)

/-! ## bounds of user constraints -/

/-- a bound as the user hands it over -/
inductive UBound where
  | scalar (v : XVal)
  | vec (vs : List XVal)
  | ts1 (times vals : List Rat)            -- Timeseries with 1-D values
  | ts2 (times : List Rat) (cols : List (List Rat))   -- Timeseries with 2-D values, per column
deriving Repr

/-- point constraints (lines 1891-1915): a bound of a vector constraint (`s > 1`) that is not an
    array, or an array with one entry, is broadcast; an array of another length than `s` is a
    shape mismatch (exception).  Bounds of scalar constraints are taken as they are. -/
def pointBound (s : Nat) : UBound → Option (List XVal)
  | .scalar v => some (if 1 < s then List.replicate s v else [v])
  | .vec vs =>
    if 1 < s then
      (if vs.length = 1 then some (List.replicate s (vs.getD 0 .nan))
       else if vs.length ≠ s then none else some vs)
    else some vs
  | _ => none

/-- one block `lbg_path_constraints[j : j+s, :]` (lines 1950-1975), `s` rows of `n` entries:
    scalars broadcast, arrays broadcast along time (`np.broadcast_to(lb, (n, s)).transpose()`),
    Timeseries interpolated at the collocation times with the fill of the side (−inf for lower,
    +inf for upper bounds).  `none`: NumPy refuses the broadcast. -/
def pathBlock (s : Nat) (times : List Rat) (fill : XVal) : UBound → Option (List (List XVal))
  | .scalar v => some (List.replicate s (List.replicate times.length v))
  | .vec vs =>
    if vs.length = s then some (vs.map (fun v => List.replicate times.length v))
    else if vs.length = 1 then some (List.replicate s (List.replicate times.length (vs.getD 0 .nan)))
    else none
  | .ts1 ts vals =>
    (interpArray 0 (ts.zip vals) (some fill) (some fill) times).map (fun row => List.replicate s row)
  | .ts2 ts cols =>
    match interpColumns 0 (cols.map (fun c => ts.zip c)) (some fill) (some fill) times with
    | none => none
    | some rows =>
      if rows.length = s then some rows
      else if rows.length = 1 then some (List.replicate s (rows.getD 0 []))
      else none

/-- a path constraint as seen by the bound assembly: its number of rows and its two bounds -/
structure PathCon where
  size : Nat
  lb : UBound
  ub : UBound

def mapMOpt {α β : Type} (f : α → Option β) : List α → Option (List β)
  | [] => some []
  | a :: l =>
    match f a, mapMOpt f l with
    | some b, some bs => some (b :: bs)
    | _, _ => none

/-- the `R x n` bound matrix (rows of all constraints stacked) -/
def pathBoundMatrix (times : List Rat) (lower : Bool) (cs : List PathCon) :
    Option (List (List XVal)) :=
  (mapMOpt (fun c => pathBlock c.size times (if lower then .ninf else .pinf)
      (if lower then c.lb else c.ub)) cs).map List.flatten

/-- `M.transpose().ravel()` of an `R x n` matrix given by rows: time-major -/
def ravelT (n : Nat) (M : List (List XVal)) : List XVal :=
  (List.range n).flatMap (fun i => M.map (fun row => row.getD i .nan))

/-! ## the user rows of one ensemble member -/

structure PointCon where
  g : List Rat          -- the values of the (vector) constraint expression
  lb : UBound
  ub : UBound

/-- everything the code has for one member at a fixed decision vector -/
structure MemberEval where
  J : Rat
  init : List Rat                 -- `path_objective_function` at t0 (length nj)
  initG : List Rat                -- `path_constraints_function` at t0 (length R)
  cols : List (List Rat)          -- mapped output columns for steps 1 … n-1
  points : List PointCon
  paths : List PathCon            -- from `path_constraints(m)`: sizes and this member's bounds

structure Rows where
  g : List Rat
  lb : List XVal
  ub : List XVal
deriving DecidableEq, Repr

def Rows.append (a b : Rows) : Rows := ⟨a.g ++ b.g, a.lb ++ b.lb, a.ub ++ b.ub⟩

/-- `g.extend(g_constraint); lbg.extend(...); ubg.extend(...)` after the broadcasting loop -/
def pointRows (pts : List PointCon) : Option Rows :=
  match mapMOpt (fun p => pointBound p.g.length p.lb) pts,
        mapMOpt (fun p => pointBound p.g.length p.ub) pts with
  | some lbs, some ubs => some ⟨(pts.map (·.g)).flatten, lbs.flatten, ubs.flatten⟩
  | _, _ => none

/-- path-constraint rows of a member: the `t0` instance, then `ca.vec` of the mapped slice; the
    bounds from the time-major ravel of the bound matrices.  Nothing is added when the member has
    no path constraints (`if len(path_constraints) > 0`). -/
def pathRows (nd nj R : Nat) (times : List Rat) (me : MemberEval) : Option Rows :=
  if me.paths.isEmpty then some ⟨[], [], []⟩ else
  match pathBoundMatrix times true me.paths, pathBoundMatrix times false me.paths with
  | some L, some U =>
    some ⟨me.initG ++ vecSlice (nd + nj) R me.cols, ravelT times.length L, ravelT times.length U⟩
  | _, _ => none

/-- the user rows of a member in the order of the code: point constraints, then path constraints -/
def memberRows (nd nj R : Nat) (times : List Rat) (me : MemberEval) : Option Rows :=
  match pointRows me.points, pathRows nd nj R times me with
  | some a, some b => some (a.append b)
  | _, _ => none

/-! ## the documented problem (specification side) -/

/-- bound of row `r` of a constraint at time index `i` -/
def boundAt (times : List Rat) (fill : XVal) (b : UBound) (r i : Nat) : XVal :=
  match b with
  | .scalar v => v
  | .vec vs => if vs.length = 1 then vs.getD 0 .nan else vs.getD r .nan
  | .ts1 ts vals =>
    match interpCore 0 (ts.zip vals) (some fill) (some fill) (times.getD i 0) with
    | .val v => v
    | .raise => .nan
  | .ts2 ts cols =>
    match interpCore 0 (ts.zip ((if cols.length = 1 then cols.getD 0 [] else cols.getD r []))) (some fill) (some fill)
        (times.getD i 0) with
    | .val v => v
    | .raise => .nan

/-- the documented objective: probability times [objective + path objective at every collocation
    time including t0], summed over the ensemble -/
def objectiveSpec {Env : Type} (E n : Nat) (prob J : Nat → Rat) (Jpath : Env → Rat)
    (env : Nat → Nat → Env) : Rat :=
  sumList ((List.range E).map (fun m =>
    prob m * (J m + sumList ((List.range n).map (fun i => Jpath (env m i))))))

/-- the documented bound column of the path constraints at time index `i` -/
def pathBoundCol (times : List Rat) (lower : Bool) (cs : List PathCon) (i : Nat) : List XVal :=
  cs.flatMap (fun c => (List.range c.size).map (fun r =>
    boundAt times (if lower then .ninf else .pinf) (if lower then c.lb else c.ub) r i))

/-- bound of row `r` of a point constraint -/
def pointBoundAt (b : UBound) (r : Nat) : XVal :=
  match b with
  | .scalar v => v
  | .vec vs => if vs.length = 1 then vs.getD 0 .nan else vs.getD r .nan
  | _ => .nan

/-- a point constraint the transcription can align: at least one row; the bound of a scalar
    constraint is a scalar or a one-element array (longer arrays are not checked by
    `transcribe()` and make the solver call fail on the length of `lbg`) -/
def UBound.pointOk (s : Nat) : UBound → Prop
  | .scalar _ => True
  | .vec vs => 1 < s ∨ vs.length = 1
  | _ => False

/-! ## repeated transcriptions of one instance

`transcribe()` is called again on the same object by goal programming, homotopy and user code.
The only thing it keeps between calls that concerns the user functions is the list of values of
the ensemble-constant parameters that are inlined into the path objective and the path
constraints (`collocated…py:660-700`). -/

/-- what an instance remembers between two calls -/
structure TState where
  inlined : Option (List Rat)
deriving DecidableEq, Repr

/-- the code: the values inlined by a call are the current ones, whatever was remembered -/
def transcribeStep (_st : TState) (current : List Rat) : TState × List Rat :=
  (⟨some current⟩, current)

/-- a variant that refreshes the remembered values only when nothing is remembered yet -/
def transcribeStepStale (st : TState) (current : List Rat) : TState × List Rat :=
  match st.inlined with
  | some old => (st, old)
  | none => (⟨some current⟩, current)

/-- the values inlined by each of a sequence of calls -/
def runCalls (step : TState → List Rat → TState × List Rat) : TState → List (List Rat) → List (List Rat)
  | _, [] => []
  | st, cur :: rest => (step st cur).2 :: runCalls step (step st cur).1 rest

/-! ## the read-back block of `OptimizationProblem.optimize()`

From the solver call to `return success` (`optimization_problem.py:153-219`): which attribute is
assigned from which solver result, and whether the assignment sits under a condition.  The table
is re-derived from the source on every run (`harness/translate_c06.py`, `Gen/Readback.lean`). -/

/-- one assignment of the block: attribute, where its value comes from, under a condition? -/
structure RbAssign where
  attr : String
  source : String
  guarded : Bool
deriving DecidableEq, Repr

/-- the block as it is (sorted by attribute): everything is assigned on every call, whatever the
    solver reports -/
def readbackModel : List RbAssign :=
  [⟨"@success", "solver_success(solver_stats)", false⟩,
   ⟨"lam_g", "results.get(lam_g)", false⟩,
   ⟨"lam_x", "results.get(lam_x)", false⟩,
   ⟨"objective_value", "results[f]", false⟩,
   ⟨"solver_output", "results[x]", false⟩,
   ⟨"solver_stats", "solver.stats()", false⟩,
   ⟨"transcribed_problem", "dict(lbg=lbg,lbx=lbx,nlp=nlp,ubg=ubg,ubx=ubx,x0=x0)", false⟩]

/-- what `objective_value` and `solver_output` expose -/
structure RbState (X : Type) where
  objective : Option Rat
  output : Option X

/-- does a call with outcome `success` assign `attr` from `results[key]` according to the table? -/
def rbUpdates (tbl : List RbAssign) (attr key : String) (success : Bool) : Bool :=
  tbl.any (fun a => a.attr == attr && a.source == "results[" ++ key ++ "]" && (!a.guarded || success))

/-- one call of `optimize()` seen through a table: the solver returns the point `x` with
    `results["f"] = f x` (solver contract) and reports `success` -/
def rbStep {X : Type} (tbl : List RbAssign) (f : X → Rat) (st : RbState X) (x : X) (success : Bool) :
    RbState X :=
  ⟨if rbUpdates tbl "objective_value" "f" success then some (f x) else st.objective,
   if rbUpdates tbl "solver_output" "x" success then some x else st.output⟩

/-- a sequence of calls on one object -/
def rbRun {X : Type} (tbl : List RbAssign) (f : X → Rat) : RbState X → List (X × Bool) → RbState X
  | st, [] => st
  | st, c :: rest => rbRun tbl f (rbStep tbl f st c.1 c.2) rest

/-! ## NumPy / CasADi-level primitives of the kernels re-translated from the source

`harness/translate_c06.py` (`gen_user_rows`) walks the objective assembly, the point-constraint
broadcasting loop and the path-constraint bound block of `transcribe()` and emits
`Gen/UserRows.lean` in terms of the primitives below; the generated theorems state that the
emitted functions are the model functions above (`fMember`, `objectiveCode`, `pointBound`,
`pointRows`, `pathBlock`, `pathRows`). -/

/-- `ca.vec(M[lo : hi, c0 : c1])` for a matrix given by its columns -/
def vecRange (lo hi c0 c1 : Nat) (cols : List (List Rat)) : List Rat :=
  ((cols.drop c0).take (c1 - c0)).flatMap (fun col => (col.drop lo).take (hi - lo))

/-- the value of `objective(m)`: a column vector with one entry; an empty one reads as 0
    (`if f_member.size1() == 0: f_member = 0`) -/
def objVal : List Rat → Rat
  | [] => 0
  | x :: _ => x

/-- a NumPy value in the bound code: scalar, 1-D array, 2-D array (`r x c`, by rows) -/
inductive NArr where
  | sc (v : XVal)
  | d1 (vs : List XVal)
  | d2 (r c : Nat) (rows : List (List XVal))
deriving Repr

/-- a bound handed over by the user as a NumPy value (Timeseries have no such reading) -/
def UBound.arr : UBound → Option NArr
  | .scalar v => some (.sc v)
  | .vec vs => some (.d1 vs)
  | _ => none

/-- `np.full(s, b)` with a scalar or one-element fill value -/
def npFull (s : Nat) : Option NArr → Option (List XVal)
  | some (.sc v) => some (List.replicate s v)
  | some (.d1 vs) => if vs.length = 1 then some (List.replicate s (vs.getD 0 .nan)) else none
  | _ => none

/-- the entries a list element contributes to `lbg.extend(...)`: a scalar one entry, an array
    its entries -/
def npEntries : Option NArr → Option (List XVal)
  | some (.sc v) => some [v]
  | some (.d1 vs) => some vs
  | _ => none

/-- `np.broadcast_to(b, (r, c))` -/
def npBroadcastTo (r c : Nat) : Option NArr → Option NArr
  | some (.sc v) => some (.d2 r c (List.replicate r (List.replicate c v)))
  | some (.d1 vs) =>
    if vs.length = c then some (.d2 r c (List.replicate r vs))
    else if vs.length = 1 then some (.d2 r c (List.replicate r (List.replicate c (vs.getD 0 .nan))))
    else none
  | _ => none

/-- `a.transpose()`: a no-op below two dimensions -/
def npTranspose : Option NArr → Option NArr
  | some (.d2 r c rows) =>
    some (.d2 c r ((List.range c).map (fun j => rows.map (fun row => row.getD j .nan))))
  | a => a

/-- `self.interpolate(collocation_times, b.times, b.values, fill, fill).transpose()` of a
    Timeseries bound: 1-D values give the `n` interpolated values, 2-D values one row of `n`
    values per component (the interior of `interpolate` is C19's; its 2-D branch is read as
    column-wise 1-D interpolation) -/
def npInterpT (times : List Rat) (fill : XVal) : UBound → Option NArr
  | .ts1 ts vals => (interpArray 0 (ts.zip vals) (some fill) (some fill) times).map .d1
  | .ts2 ts cols =>
    (interpColumns 0 (cols.map (fun c => ts.zip c)) (some fill) (some fill) times).map
      (fun rows => .d2 rows.length times.length rows)
  | _ => none

/-- `A[j : j + s, :] = b` for a block of `s` rows and `n` columns (NumPy assignment broadcast);
    `none`: NumPy refuses -/
def npAssignRows (s n : Nat) : Option NArr → Option (List (List XVal))
  | some (.sc v) => some (List.replicate s (List.replicate n v))
  | some (.d1 vs) =>
    if vs.length = n then some (List.replicate s vs)
    else if vs.length = 1 then some (List.replicate s (List.replicate n (vs.getD 0 .nan)))
    else none
  | some (.d2 r c rows) =>
    if c ≠ n then none
    else if r = s then some rows
    else if r = 1 then some (List.replicate s (rows.getD 0 []))
    else none
  | none => none

/-- blocks written one below the other (`j = 0; for …: A[j : j + s, :] = …; j += s`), then
    `A.transpose().ravel()` -/
def stackRavel (n : Nat) (blocks : Option (List (List (List XVal)))) : Option (List XVal) :=
  blocks.map (fun bl => ravelT n bl.flatten)

end RtcVerif.C06
