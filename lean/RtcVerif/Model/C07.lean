import RtcVerif.Model.Wire
/-!
# C07 — model of ensemble handling in rtc-tools

Core Lean only.  Three parts:

1. **Control tree** (`control_tree_mixin.py:70-206`): the recursive k-ary clustering of ensemble
   members with an arbitrary distance table per branching level handed in as data
   (`dist L r c` = `distances[r, c]` of the code on the segment `[BT[L+1], BT[L+2])`,
   indexed by member ids), and the branch-wise allocation of control indices
   (`discretize_control`, lines 52-68) on top of the base loop
   (`collocated_integrated_optimization_problem.py:2203-2227`).
2. **Default sharing / planning** (`discretize_control` of the base class, `planning_mixin.py`):
   the same memoising fresh-index allocator with other keys.
3. **Parameter classification** (`collocated…py:660-682`, repaired in 1c868dc) and the routing of
   per-member data into a member's NLP segment.

Conventions: members are `0 … E-1`; a branch is identified by its *reversed* path (`i :: p` is
child `i` of branch `p`), so that the code's tuple `current_branch + (i,)` is `i :: p`.
-/
namespace RtcVerif.C07

/-- `d r c` = `distances[r, c]` (row, column) in terms of member ids -/
abbrev Dist := Nat → Nat → Rat

/-! ## clustering of one branch (`branch()` in `discretize_controls`) -/

/-- `np.argmax`: first element with the largest score -/
def argmaxFirst (f : Nat → Rat) : List Nat → Option Nat
  | [] => none
  | a :: l =>
    match argmaxFirst f l with
    | none => some a
    | some b => if f b ≤ f a then some a else some b

/-- the `if distance < min_distance` scan: first element with the smallest score -/
def argminFirst (f : Nat → Rat) : List Nat → Option Nat
  | [] => none
  | a :: l =>
    match argminFirst f l with
    | none => some a
    | some b => if f a ≤ f b then some a else some b

/-- maximum of `f` over a list (`none` for the empty list) -/
def maxOver (f : Nat → Rat) : List Nat → Option Rat
  | [] => none
  | a :: l =>
    match maxOver f l with
    | none => some (f a)
    | some v => some (max (f a) v)

/-- minimum of `f` over a list; `none` stands for the `[np.inf]` seed of the code -/
def minOver (f : Nat → Rat) : List Nat → Option Rat
  | [] => none
  | a :: l =>
    match minOver f l with
    | none => some (f a)
    | some v => some (min (f a) v)

/-- `np.amax(distances, axis=0)[c]` restricted to the members of the branch -/
def colMax (d : Dist) (ms : List Nat) (c : Nat) : Rat := (maxOver (fun r => d r c) ms).getD 0

/-- `min([np.inf] + [distances[j, c] for j in reps])` for an available member `c` -/
def minTo (d : Dist) (reps : List Nat) (c : Nat) : Rat := (minOver (fun j => d j c) reps).getD 0

/-- the loop `for i in range(k)` after the first representative: pick the available member with
    the largest minimal distance to the representatives chosen so far (first on ties); stop as soon
    as that distance is `<= 0` (then `idx = -1` for the remaining iterations). -/
def moreReps (d : Dist) (ms : List Nat) : Nat → List Nat → List Nat
  | 0, reps => reps
  | n + 1, reps =>
    match argmaxFirst (minTo d reps) (ms.filter (fun a => !reps.contains a)) with
    | none => reps
    | some c => if 0 < minTo d reps c then moreReps d ms n (reps ++ [c]) else reps

/-- the representatives (first members of the non-empty children), in child order -/
def selectReps (d : Dist) (ms : List Nat) : Nat → List Nat
  | 0 => []
  | k + 1 =>
    match argmaxFirst (colMax d ms) ms with
    | none => []
    | some r => moreReps d ms k [r]

/-- child index of a non-representative: nearest representative, lowest child index on ties
    (`distances[reverse[member_i], reverse[branch2[0]]]`, strict `<`) -/
def nearestRep (d : Dist) (reps : List Nat) (a : Nat) : Nat :=
  match argminFirst (fun r => d a r) reps with
  | some r => reps.idxOf r
  | none => 0

/-- index of the child that receives member `a` -/
def childIdx (d : Dist) (reps : List Nat) (a : Nat) : Nat :=
  if reps.contains a then reps.idxOf a else nearestRep d reps a

/-- the `k` children of a branch with members `ms` (a representative first, then the other
    members in ascending order — the iteration order of a CPython `set` of small ints). -/
def children (d : Dist) (k E : Nat) (ms : List Nat) : List (List Nat) :=
  let reps := selectReps d ms k
  let rest := (List.range E).filter (fun a => ms.contains a && !reps.contains a)
  (List.range k).map (fun i =>
    match reps[i]? with
    | none => []
    | some r => r :: rest.filter (fun a => nearestRep d reps a == i))

/-! ## the tree -/

/-- members of the branch with reversed path `p`; `dist L` is the table used by a branch of
    depth `L` to form its children -/
def membersOf (dist : Nat → Dist) (k E : Nat) : List Nat → List Nat
  | [] => List.range E
  | i :: p => ((children (dist p.length) k E (membersOf dist k E p))[i]?).getD []

/-- reversed path of the depth-`L` branch that contains member `m` -/
def pathOf (dist : Nat → Dist) (k E : Nat) (m : Nat) : Nat → List Nat
  | 0 => []
  | L + 1 =>
    let p := pathOf dist k E m L
    childIdx (dist L) (selectReps (dist L) (membersOf dist k E p) k) m :: p

/-- all branches of depth `L` that the code creates (children of non-empty parents), in
    dictionary (insertion) order within the level -/
def levelPaths (dist : Nat → Dist) (k E : Nat) : Nat → List (List Nat)
  | 0 => [[]]
  | L + 1 =>
    ((levelPaths dist k E L).filter (fun p => !(membersOf dist k E p).isEmpty)).flatMap
      (fun p => (List.range k).map (fun i => i :: p))

/-- the code raises: `k = 0` with something to cluster (KeyError on the first child), or more
    branching times than collocation steps ("Too many branching points specified") -/
def treeRejected (k E nb ntimes : Nat) : Bool :=
  decide (ntimes < nb + 1) || (k == 0 && decide (0 < nb) && decide (0 < E))

/-- the branch dictionary of one run: every branch the code creates, level by level, with its members -/
def treeBranches (dist : Nat → Dist) (k E nb : Nat) : List (List Nat × List Nat) :=
  (List.range (nb + 1)).flatMap (fun L =>
    (levelPaths dist k E L).map (fun p => (p, membersOf dist k E p)))

/-- the data of one run that the tree depends on (the distance tables come from the forecasts) -/
structure TreeRun where
  dist : Nat → Dist
  k : Nat
  E : Nat
  nb : Nat

/-- `discretize_controls` starts from a fresh dictionary (`branches = {}`): the result of a run does
    not depend on what an earlier run on the same object left behind -/
def treeStep (_old : List (List Nat × List Nat)) (r : TreeRun) : List (List Nat × List Nat) :=
  treeBranches r.dist r.k r.E r.nb

/-- a variant that fills the dictionary of the previous run in place: keys that the new run does not
    write survive -/
def treeStepInPlace (old : List (List Nat × List Nat)) (r : TreeRun) : List (List Nat × List Nat) :=
  let new := treeBranches r.dist r.k r.E r.nb
  new ++ old.filter (fun e => !(new.any (fun n => n.1 == e.1)))

/-- the dictionaries after each of a sequence of runs on one object -/
def treeRuns (step : List (List Nat × List Nat) → TreeRun → List (List Nat × List Nat)) :
    List (List Nat × List Nat) → List TreeRun → List (List (List Nat × List Nat))
  | _, [] => []
  | st, r :: rest => step st r :: treeRuns step (step st r) rest

/-! ## time segments of the branching levels -/

/-- lower end of segment `L`: `BT[L]` with `BT = [t0] ++ branching_times ++ [inf]` -/
def segLo (t0 : Rat) (bts : List Rat) (L : Nat) : Rat :=
  match L with
  | 0 => t0
  | L + 1 => bts.getD L 0

/-- `times >= BT[L] and times < BT[L+1]` -/
def inSeg (t0 : Rat) (bts : List Rat) (L : Nat) (t : Rat) : Bool :=
  decide (segLo t0 bts L ≤ t) &&
    (match bts[L]? with
     | some h => decide (t < h)
     | none => true)

/-- largest `L < n` with `p L` (the loop over the branches of a member runs in increasing depth
    and later boolean-mask writes win) -/
def lastLevel (p : Nat → Bool) : Nat → Option Nat
  | 0 => none
  | n + 1 => if p n then some n else lastLevel p n

/-- the level whose segment is written last at time `t`; `none`: no segment covers `t`, the entry
    keeps its initial value 0 -/
def levelAt (t0 : Rat) (bts : List Rat) (t : Rat) : Option Nat :=
  lastLevel (fun L => inSeg t0 bts L t) (bts.length + 1)

/-- number of earlier time stamps of the same variable in segment `L` (position inside the
    boolean-mask assignment `control_indices[els] = …`) -/
def rankIn (t0 : Rat) (bts : List Rat) (L : Nat) (ts : List Rat) (i : Nat) : Nat :=
  ((ts.take i).filter (inSeg t0 bts L)).length

/-- `np.count_nonzero(els)` -/
def segCount (t0 : Rat) (bts : List Rat) (L : Nat) (ts : List Rat) : Nat :=
  (ts.filter (inSeg t0 bts L)).length

/-! ## the memoising fresh-index allocator

`discretize_control` (all three variants) either returns the index block cached for a key or
takes a fresh block `offset … offset+n-1`; the base loop keeps `count = max(count, stop)`, which
under this discipline is the running offset. -/

structure Alloc (κ : Type) where
  count : Nat
  cache : List (κ × Nat)

def lookup {κ : Type} [DecidableEq κ] (c : List (κ × Nat)) (key : κ) : Option Nat :=
  (c.find? (fun e => e.1 == key)).map (·.2)

/-- one request: start of the block for `key` (size `n`) -/
def req {κ : Type} [DecidableEq κ] (st : Alloc κ) (key : κ) (n : Nat) : Alloc κ × Nat :=
  match lookup st.cache key with
  | some s => (st, s)
  | none => (⟨st.count + n, (key, st.count) :: st.cache⟩, st.count)

/-- a sequence of requests, returning the starts in order -/
def reqAll {κ : Type} [DecidableEq κ] (st : Alloc κ) : List (κ × Nat) → Alloc κ × List Nat
  | [] => (st, [])
  | (key, n) :: rest =>
    let (st1, s) := req st key n
    let (st2, ss) := reqAll st1 rest
    (st2, s :: ss)

/-! ### control tree: requests of one control variable

For member `m`: one request per depth `L = 0 … nb` with key = branch of `m` at depth `L`. -/

structure TreeCfg where
  dist : Nat → Dist
  k : Nat
  E : Nat
  t0 : Rat
  bts : List Rat

def TreeCfg.nb (c : TreeCfg) : Nat := c.bts.length
def TreeCfg.path (c : TreeCfg) (m L : Nat) : List Nat := pathOf c.dist c.k c.E m L

def memberReqs (c : TreeCfg) (ts : List Rat) (m : Nat) : List (List Nat × Nat) :=
  (List.range (c.nb + 1)).map (fun L => (c.path m L, segCount c.t0 c.bts L ts))

def treeReqs (c : TreeCfg) (ts : List Rat) : List (List Nat × Nat) :=
  (List.range c.E).flatMap (memberReqs c ts)

/-- final allocator state after the whole variable has been processed, starting at `count0` -/
def treeAlloc (c : TreeCfg) (ts : List Rat) (count0 : Nat) : Alloc (List Nat) :=
  (reqAll ⟨count0, []⟩ (treeReqs c ts)).1

/-- entry `i` of `state_vector(variable, m)`'s index array under the control tree -/
def treeIdx (c : TreeCfg) (ts : List Rat) (count0 : Nat) (m i : Nat) : Nat :=
  match levelAt c.t0 c.bts (ts.getD i 0) with
  | none => 0
  | some L =>
    (lookup (treeAlloc c ts count0).cache (c.path m L)).getD 0 + rankIn c.t0 c.bts L ts i

/-- NumPy stores the indices in an `int16` array: assigning a value above 32767 raises
    `OverflowError` (finding F10: an input that is rejected, not silently wrapped) -/
def int16Ok (count : Nat) : Bool := decide (count ≤ 32768)

/-! ### default sharing and planning: requests of one control variable -/

inductive Policy where
  | shared        -- base class: one block per variable
  | perMember     -- PlanningMixin, non-planning variable: a block per member
deriving DecidableEq, Repr

/-- keys: `none` = the variable's shared block, `some m` = member `m`'s own block -/
def flatReqs (pol : Policy) (E n : Nat) : List (Option Nat × Nat) :=
  (List.range E).map (fun m =>
    match pol with
    | .shared => (none, n)
    | .perMember => (some m, n))

def flatAlloc (pol : Policy) (E n count0 : Nat) : Alloc (Option Nat) :=
  (reqAll ⟨count0, []⟩ (flatReqs pol E n)).1

def flatIdx (pol : Policy) (E n count0 : Nat) (m i : Nat) : Nat :=
  (lookup (flatAlloc pol E n count0).cache
    (match pol with
     | .shared => none
     | .perMember => some m)).getD 0 + i

/-! ## parameter classification and per-member data routing -/

/-- repaired classification (1c868dc): a parameter is inlined as a constant iff every member has
    the value of member 0 (and it is not a dynamic parameter) -/
def isConstParam (P : List (List Rat)) (dyn : List Bool) (i : Nat) : Bool :=
  (P.length == 1 || (P.drop 1).all (fun row => row.getD i 0 == (P.headD []).getD i 0))
    && !(dyn.getD i false)

/-- the classification on the unchanged tree before the repair (finding F1):
    `np.all(values) == values[0]` compares a truth value with the first value -/
def isConstParamLegacy (P : List (List Rat)) (dyn : List Bool) (i : Nat) : Bool :=
  (let allTrue : Rat := if P.all (fun row => row.getD i 0 != 0) then 1 else 0
   allTrue == (P.headD []).getD i 0)
    && !(dyn.getD i false)

/-- the value of parameter `i` that member `m`'s rows are evaluated with: the inlined value of
    member 0 for a constant parameter, column `m` of the aggregated parameter matrix otherwise -/
def effParam (isC : List (List Rat) → List Bool → Nat → Bool)
    (P : List (List Rat)) (dyn : List Bool) (m i : Nat) : Rat :=
  if isC P dyn i then (P.headD []).getD i 0 else (P.getD m []).getD i 0

/-- everything member-specific that enters member `m`'s NLP segment -/
structure MemberData where
  params : List Rat
  inputs : List (List Rat)       -- constant inputs interpolated at the collocation times
  history : List (Option Rat)    -- value pinned at t0 per variable (none: no pin)
  prob : Rat
  pcLb : List (List Rat)         -- path-constraint bounds per row, per time
  pcUb : List (List Rat)
deriving DecidableEq, Repr

/-- an ensemble instance: per-member data (the list index is the member) -/
structure Inst where
  members : List MemberData
  dyn : List Bool

def Inst.E (I : Inst) : Nat := I.members.length
def Inst.P (I : Inst) : List (List Rat) := I.members.map (·.params)

/-- what the transcription feeds into member `m`'s segment -/
def routed (I : Inst) (m : Nat) : Option MemberData :=
  match I.members[m]? with
  | none => none
  | some md =>
    some { md with params := (List.range md.params.length).map (effParam isConstParam I.P I.dyn m) }

/-- the member segment of the NLP (rows with bounds, objective term) as an arbitrary function of
    the data routed to it and of the member's decoded trajectory `traj` -/
def memberSegment {Traj Seg : Type} (build : MemberData → Traj → Seg) (I : Inst) (m : Nat)
    (traj : Traj) : Option Seg :=
  (routed I m).map (fun md => build md traj)

end RtcVerif.C07
