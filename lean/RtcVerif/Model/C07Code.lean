import RtcVerif.Model.C07
/-!
# C07 — reference definitions for the source-to-Lean translation of the distance fill and of the
control-index allocation

`harness/translate_c07.py` (`gen_alloc`) reads on every run

* the distance fill of `branch()` in `ControlTreeMixin.discretize_controls`,
* `ControlTreeMixin.discretize_control`,
* the base `discretize_control` / `discretize_controls` of
  `CollocatedIntegratedOptimizationProblem`

and emits `Gen/ControlTreeAlloc.lean`, whose definitions are these reference definitions when the
source is unchanged.  They mirror the Python statements (boolean-mask writes into the index array,
the `(variable, branch)` cache of index blocks, the running `count = max(count, stop)`); they are
proved equal to the functions the property theorems are about in `Proofs/C07Code.lean`.
Core Lean only.
-/
namespace RtcVerif.C07

/-! ## branching times: `BT = [t0] ++ branching_times ++ [inf]` -/

/-- `BT[i]`; `none` is `np.inf` (an index beyond the array raises in the code; it is not reached:
    `branch()` returns when `len(current_branch) >= n_branching_times`) -/
def btAt (t0 : Rat) (bts : List Rat) : Nat → Option Rat
  | 0 => some t0
  | i + 1 => bts[i]?

/-- `times >= BT[i]` -/
def geBT (t : Rat) : Option Rat → Bool
  | none => false
  | some b => decide (b ≤ t)

/-- `times > BT[i]` (not what the code has; for the translation of edited sources) -/
def gtBT (t : Rat) : Option Rat → Bool
  | none => false
  | some b => decide (b < t)

/-- `times < BT[j]` -/
def ltBT (t : Rat) : Option Rat → Bool
  | none => true
  | some b => decide (t < b)

/-- `times <= BT[j]` (not what the code has) -/
def leBT (t : Rat) : Option Rat → Bool
  | none => true
  | some b => decide (t ≤ b)

/-- `np.logical_and(times >= BT[i], times < BT[j])` at one time stamp -/
def winRef (t0 : Rat) (bts : List Rat) (i j : Nat) (t : Rat) : Bool :=
  geBT t (btAt t0 bts i) && ltBT t (btAt t0 bts j)

/-! ## the distance fill of `branch()` -/

/-- the forecast data the fill reads: `T v e` = time stamps of forecast variable `v` as member `e`
    has them, `F v e` = its values; `norm2` = `np.linalg.norm` (external numerics: a parameter) -/
structure Forecasts where
  norm2 : List Rat → Rat
  T : Nat → Nat → List Rat
  F : Nat → Nat → List Rat

/-- `values[els]` -/
def selMask : List Rat → List Bool → List Rat
  | x :: xs, true :: ms => x :: selMask xs ms
  | _ :: xs, false :: ms => selMask xs ms
  | _, _ => []

def subVec : List Rat → List Rat → List Rat
  | x :: xs, y :: ys => (x - y) :: subVec xs ys
  | _, _ => []

/-- `np.linalg.norm(timeseries_i.values[els] - timeseries_j.values[els])` for forecast variable `v`,
    members `a`, `b`, with `els` = the window `[BT[i], BT[j])` on the time stamps of member `e0` -/
def pairNorm (fc : Forecasts) (t0 : Rat) (bts : List Rat) (e0 i j v a b : Nat) : Rat :=
  let els := (fc.T v e0).map (winRef t0 bts i j)
  fc.norm2 (subVec (selMask (fc.F v a) els) (selMask (fc.F v b) els))

/-- `distances[p, q]` after the fill, for a branch of depth `L` with member list `ms` (positions
    `p`, `q`): sum over the forecast variables, window `[BT[L+1], BT[L+2])`, member 0's stamps -/
def fillEntryRef (fc : Forecasts) (t0 : Rat) (bts : List Rat) (nv L : Nat) (ms : List Nat)
    (p q : Nat) : Rat :=
  (List.range nv).foldl
    (fun acc v => acc + pairNorm fc t0 bts 0 (L + 1) (L + 2) v (ms.getD p 0) (ms.getD q 0)) 0

/-- the table of depth `L` in terms of member ids, as the model's `dist L` has it -/
def distSpec (fc : Forecasts) (t0 : Rat) (bts : List Rat) (nv : Nat) (L : Nat) : Dist :=
  fun a b => ((List.range nv).map (fun v => pairNorm fc t0 bts 0 (L + 1) (L + 2) v a b)).sum

/-! ## `ControlTreeMixin.discretize_control` -/

/-- `control_indices[els] = vals` (shapes agree in the code: `len(vals) = count_nonzero(els)`) -/
def writeMask : List Nat → List Bool → List Nat → List Nat
  | _ :: as, true :: ms, v :: vs => v :: writeMask as ms vs
  | a :: as, false :: ms, vs => a :: writeMask as ms vs
  | as, _, _ => as

/-- `control_indices[els]` -/
def readMask : List Nat → List Bool → List Nat
  | a :: as, true :: ms => a :: readMask as ms
  | _ :: as, false :: ms => readMask as ms
  | _, _ => []

/-- the `(variable, branch)` cache of one variable: branch ↦ block of indices -/
abbrev BlockCache := List (List Nat × List Nat)

def lookupB (c : BlockCache) (key : List Nat) : Option (List Nat) :=
  (c.find? (fun e => e.1 == key)).map (·.2)

/-- local state of one call -/
structure DC where
  arr : List Nat
  offset : Nat
  cache : BlockCache

/-- body of `for branch, members in self.__branches.items()` -/
def dcStepRef (t0 : Rat) (bts : List Rat) (ts : List Rat) (m : Nat) (st : DC)
    (br : List Nat × List Nat) : DC :=
  if !(br.2.contains m) then st
  else
    let els := ts.map (winRef t0 bts (br.1.length + 0) (br.1.length + 1))
    let nnz := els.count true
    match lookupB st.cache br.1 with
    | some blk => { st with arr := writeMask st.arr els blk }
    | none =>
      let arr' := writeMask st.arr els (List.range' st.offset nnz)
      ⟨arr', st.offset + nnz, (br.1, readMask arr' els) :: st.cache⟩

/-- one call `discretize_control(variable, m, times, offset)`: the index array and the cache -/
def discretizeControlRef (brs : List (List Nat × List Nat)) (t0 : Rat) (bts : List Rat)
    (ts : List Rat) (m offset : Nat) (cache : BlockCache) : List Nat × BlockCache :=
  let st := brs.foldl (dcStepRef t0 bts ts m) ⟨List.replicate ts.length 0, offset, cache⟩
  (st.arr, st.cache)

/-- `int(np.max(control_indices)) + 1` -/
def stopArr (arr : List Nat) : Nat := arr.foldl max 0 + 1

/-- `control_indices.stop` of `slice(start, stop)` -/
def stopSlice (s : Nat × Nat) : Nat := s.2

/-! ## the base class: `discretize_control` and the member loop of `discretize_controls` -/

/-- base `discretize_control` for a variable with `n` time stamps: the cached slice, else a fresh
    one at `offset` (cache of one variable: `none` = KeyError) -/
def defaultControlRef (n : Nat) (_m : Nat) (offset : Nat) (cache : Option (Nat × Nat)) :
    (Nat × Nat) × Option (Nat × Nat) :=
  match cache with
  | some s => (s, some s)
  | none => ((offset, offset + n), some (offset, offset + n))

/-- `for ensemble_member in range(E)` of `discretize_controls` for one variable:
    state `(count, cache, indices[0..][variable])` -/
def ctrlLoopRef {R C : Type} (dc : Nat → Nat → C → R × C) (stop : R → Nat) :
    List Nat → Nat × C × List R → Nat × C × List R
  | [], st => st
  | m :: ms, (count, cache, out) =>
    let rc := dc m count cache
    ctrlLoopRef dc stop ms (max count (stop rc.1), rc.2, out ++ [rc.1])

/-- body of that loop as one step on the state `(count, cache, indices so far)` -/
def ctrlStepRef {R C : Type} (dc : Nat → Nat → C → R × C) (stop : R → Nat)
    (st : Nat × C × List R) (m : Nat) : Nat × C × List R :=
  let rc := dc m st.1 st.2.1
  (max st.1 (stop rc.1), rc.2, st.2.2 ++ [rc.1])

/-- NumPy index dtype of the tree's index array: `np.int16` holds values up to `2^15 - 1` -/
def indexBitsRef : Nat := 15

/-- entry `i` of a slice `(start, stop)` used as an index set -/
def sliceIdx (s : Nat × Nat) (i : Nat) : Nat := s.1 + i

/-! ## the symbol cache of `state_at` (memoisation per transcription) -/

/-- the arguments of one `state_at(variable, t, ensemble_member, scaled, extrapolate)` call
    (`dt` = `t - self.initial_time`) -/
structure SymArgs where
  var : String
  member : Nat
  dt : Rat
  scaled : Bool
  extrapolate : Bool
deriving DecidableEq

/-- the cache key as the code builds it: the arguments of `"{}[{},{}]{}".format(...)` and the
    `"E"` suffix (the rendering of distinct tuples as distinct strings is trusted) -/
def symbolKeyRef (a : SymArgs) : String × Nat × Rat × Bool × Bool :=
  (a.var, a.member, a.dt, a.scaled, a.extrapolate)

/-- `try: return cache[name]  except KeyError: sym = build(...); cache[name] = sym; return sym` -/
def memoGet {K V : Type} [DecidableEq K] (key : SymArgs → K) (build : SymArgs → V)
    (cache : List (K × V)) (a : SymArgs) : V × List (K × V) :=
  match cache.find? (fun e => e.1 == key a) with
  | some e => (e.2, cache)
  | none => (build a, (key a, build a) :: cache)

/-- the results of a sequence of calls on one object -/
def memoRun {K V : Type} [DecidableEq K] (key : SymArgs → K) (build : SymArgs → V) :
    List SymArgs → List (K × V) → List V
  | [], _ => []
  | a :: rest, cache => (memoGet key build cache a).1 :: memoRun key build rest (memoGet key build cache a).2

end RtcVerif.C07
