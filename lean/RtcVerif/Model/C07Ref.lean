import RtcVerif.Model.C07
/-!
# C07 — reference definitions for the source-to-Lean translation of the clustering kernels

`harness/translate_c07.py` reads the nested function `branch()` of
`ControlTreeMixin.discretize_controls` on every run and emits `Gen/ControlTreeCluster.lean`, whose
definitions are these reference definitions when the source is unchanged.  They mirror the Python
statements (scores as an array over ALL members of the branch with `-inf` for the unavailable
ones, `np.argmax`, the `<= 0` stop; the left-to-right scan with a strict `<`), and are proved equal
to the functions the property theorems are about in `Proofs/C07Ref.lean`.  Core Lean only.
-/
namespace RtcVerif.C07

/-- order of the scores after `min_distances[np.where(min_distances == np.inf)] = -np.inf`:
    `none` is `-inf` -/
def leNI : Option Rat → Option Rat → Bool
  | none, _ => true
  | some _, none => false
  | some a, some b => decide (a ≤ b)

def ltNI : Option Rat → Option Rat → Bool
  | _, none => false
  | none, some _ => true
  | some a, some b => decide (a < b)

/-- `np.argmax` over an array with `-inf` entries: first maximal position -/
def argmaxNI (g : Nat → Option Rat) : List Nat → Option Nat
  | [] => none
  | a :: l =>
    match argmaxNI g l with
    | none => some a
    | some b => if leNI (g b) (g a) then some a else some b

/-- `min([np.inf] + [distances[j, k] for j, member_j in enumerate(ms) if member_j not in available
    and member_k in available])` for member `c` (= `member_k`); the `+inf` of an empty list becomes
    `-inf` by the next statement, both are `none` here -/
def seedScoreRef (d : Dist) (ms avail : List Nat) (c : Nat) : Option Rat :=
  minOver (fun j => d j c) (ms.filter (fun j => !avail.contains j && avail.contains c))

/-- `idx = np.argmax(min_distances); if min_distances[idx] <= 0: idx = -1` (`none` = -1) -/
def nextSeedRef (d : Dist) (ms avail : List Nat) : Option Nat :=
  match argmaxNI (seedScoreRef d ms avail) ms with
  | none => none
  | some c => if leNI (seedScoreRef d ms avail c) (some 0) then none else some c

/-- `idx = np.argmax(np.amax(distances, axis=0))` -/
def firstSeedRef (d : Dist) (ms : List Nat) : Option Nat := argmaxFirst (colMax d ms) ms

/-- `distance < min_distance` with `min_distance = np.inf` initially (`none` = +inf) -/
def ltInf (x : Rat) : Option Rat → Bool
  | none => true
  | some m => decide (x < m)

/-- `distance <= min_distance` (not what the code has; for the translation of edited sources) -/
def leInf (x : Rat) : Option Rat → Bool
  | none => true
  | some m => decide (x ≤ m)

/-- one pass of the body of `for i in range(k)` for child `i` with head `h` -/
def scanStep (d : Dist) (a : Nat) (i : Nat) (h : Option Nat) (st : Nat × Option Rat) : Nat × Option Rat :=
  match h with
  | none => st
  | some r => if ltInf (d a r) st.2 then (i, some (d a r)) else st

/-- the scan `for i in range(k)` over the children for member `a`: `heads[i]` is `branch2[0]` of
    child `i` (`none`: `len(branch2) > 0` fails); state `(min_i, min_distance)` -/
def scanFrom (d : Dist) (a : Nat) : List (Option Nat) → Nat → Nat × Option Rat → Nat × Option Rat
  | [], _, st => st
  | none :: t, i, st => scanFrom d a t (i + 1) st
  | some r :: t, i, st =>
    scanFrom d a t (i + 1) (if ltInf (d a r) st.2 then (i, some (d a r)) else st)

/-- `min_i` after the scan, starting from `min_i = 0`, `min_distance = np.inf` -/
def scanRef (d : Dist) (a : Nat) (heads : List (Option Nat)) : Nat := (scanFrom d a heads 0 (0, none)).1

/-- one continuation step of the seed selection as the model has it -/
def nextSeed (d : Dist) (ms reps : List Nat) : Option Nat :=
  match argmaxFirst (minTo d reps) (ms.filter (fun a => !reps.contains a)) with
  | none => none
  | some c => if 0 < minTo d reps c then some c else none

end RtcVerif.C07
