import RtcVerif.Model.Num
import RtcVerif.Model.C05
/-!
# C08 — model of nominal scaling

The transcription replaces every decision variable `x` by `nominal · x̃` wherever it enters an
expression (`decode`), divides bounds, seeds and history pins by the nominal (`encode`), divides
some rows (delay rows, goal rows) by a positive constant, and divides goal functions by
`function_nominal` in the objective.  The simulation stores `value / nominal` (with the alias
sign) and multiplies when reading.  Core Lean only.
-/
namespace RtcVerif.C08
open RtcVerif

/-- values of the decision-vector entries (physical `z` or scaled `x̃`), by entry index -/
abbrev Vec := Nat → Rat

/-- physical → scaled: what the code does to bounds, seeds, pins -/
def encode (ν : Vec) (z : Vec) : Vec := fun k => z k / ν k

/-- scaled → physical: what the code does when a variable enters an expression, and in
    `extract_results` -/
def decode (ν : Vec) (x : Vec) : Vec := fun k => ν k * x k

/-- A transcribed problem in physical terms.  `rows`, `obj` are *arbitrary* functions of the
    physical trajectory (model equations, path / point constraints, objective — linear or not);
    `lb/ub` the user's bounds per entry (history pins included as `lb = ub`), `lbg/ubg` the row
    bounds; `n` entries. -/
structure Problem where
  n : Nat
  rows : Vec → List Rat
  lbg : List EVal
  ubg : List EVal
  obj : Vec → Rat
  lb : Nat → EVal
  ub : Nat → EVal

/-- what the solver is handed for nominals `ν` -/
def g (P : Problem) (ν : Vec) (x : Vec) : List Rat := P.rows (decode ν x)
def f (P : Problem) (ν : Vec) (x : Vec) : Rat := P.obj (decode ν x)
def lbx (P : Problem) (ν : Vec) (k : Nat) : EVal := (P.lb k).divPos (ν k)
def ubx (P : Problem) (ν : Vec) (k : Nat) : EVal := (P.ub k).divPos (ν k)

def within (lo : EVal) (v : Rat) (hi : EVal) : Bool := EVal.le lo (.fin v) && EVal.le (.fin v) hi

def rowsWithin : List EVal → List Rat → List EVal → Bool
  | [], [], [] => true
  | l :: ls, v :: vs, u :: us => within l v u && rowsWithin ls vs us
  | _, _, _ => false

/-- feasibility of a scaled point for the problem handed to the solver with nominals `ν` -/
def feasible (P : Problem) (ν : Vec) (x : Vec) : Prop :=
  (∀ k, k < P.n → within (lbx P ν k) (x k) (ubx P ν k) = true) ∧
  rowsWithin P.lbg (g P ν x) P.ubg = true

/-- feasibility of a physical trajectory for the user's problem -/
def feasiblePhys (P : Problem) (z : Vec) : Prop :=
  (∀ k, k < P.n → within (P.lb k) (z k) (P.ub k) = true) ∧
  rowsWithin P.lbg (P.rows z) P.ubg = true

/-! ## rows divided by a positive constant (delay rows, goal rows) -/

/-- row `r / c` with bounds `lb, ub` -/
def scaledRowOk (lb : EVal) (r c : Rat) (ub : EVal) : Bool := within lb (r / c) ub

/-! ## goal programming: function nominal -/

/-- objective term of a minimisation goal: `weight · (f / function_nominal) ^ order` -/
def goalObj (w ν : Rat) (order : Nat) (fv : Rat) : Rat := w * (fv / ν) ^ order

/-- soft constraint row of a target goal (lower side): `(f − ε·(m − m_t) − m_t) / nominal ≥ 0` -/
def softMinRow (fv eps m mt ν : Rat) : Rat := (fv - eps * (m - mt) - mt) / ν
/-- upper side: `(f − ε·(M − M_t) − M_t) / nominal ≤ 0` -/
def softMaxRow (fv eps M Mt ν : Rat) : Rat := (fv - eps * (M - Mt) - Mt) / ν

/-- retained hard constraint after the priority: `m ≤ f / nominal ≤ M` with
    `m = (ε·(m_r − m_t) + m_t − relax) / nominal`, `M` alike -/
def hardMin (eps mr mt relax ν : Rat) : Rat := (eps * (mr - mt) + mt - relax) / ν
def hardMax (eps Mr Mt relax ν : Rat) : Rat := (eps * (Mr - Mt) + Mt + relax) / ν

/-! ## simulation: get_var / set_var -/

structure SimVar where
  index : Nat
  sign : Int          -- +1 or −1 (alias sign)
  nominal : Rat       -- unsigned (F2 repaired)
deriving Repr

/-- `set_var`: `value *= sign` (negative sign), `value /= nominal` for state entries, store -/
def simSet (nStates : Nat) (s : Vec) (a : SimVar) (v : Rat) : Vec :=
  let v1 := if a.sign < 0 then v * a.sign else v
  let v2 := if a.index ≤ nStates then v1 / a.nominal else v1
  fun k => if k = a.index then v2 else s k

/-- `get_var`: read, `value *= sign` (negative sign), `value *= nominal` for state entries -/
def simGet (nStates : Nat) (s : Vec) (a : SimVar) : Rat :=
  let v := s a.index
  let v1 := if a.sign < 0 then v * a.sign else v
  if a.index ≤ nStates then v1 * a.nominal else v1

/-! ## two instances of the C05 model that differ only in nominals -/

def SameButNom (b b' : C05.Blk) : Prop :=
  b.size = b'.size ∧ b.times = b'.times ∧ b.scalarT = b'.scalarT ∧ b.lo = b'.lo ∧ b.hi = b'.hi ∧
  b.mode = b'.mode

end RtcVerif.C08
