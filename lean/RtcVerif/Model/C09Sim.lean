/-!
# C09 — executable model of `SimulationProblem` stepping and the simulation IO loop

Core Lean only.  Mirrors `src/rtctools/simulation/simulation_problem.py` (state vector, nominal
scaling substitution, step residual, `update`, `get_var`/`set_var`, initial-state NLP interface)
and `src/rtctools/simulation/io_mixin.py` (`initialize`, `__set_input_variables`, `update`).

External numerics are *parameters*:
* `F`, `Finit`, `G : Env → Vec` — the DAE residual, the initial residual and the user's extra
  equations (arbitrary functions of all model symbols),
* `Root` — the root finder (`ca.rootfinder`): returns some vector or fails,
* `InitSolver` — the initial-state NLP (`ipopt`): returns some vector or fails.
Their contracts ("a returned vector is a root / is feasible") are explicit hypotheses of the
theorems in `Props/C09.lean`, never axioms.

Delay equations (`delay(...)`) are the subject of property C16 and are not part of this model
(a model without `delay` contributes no such rows).
-/
namespace RtcVerif.C09

abbrev Vec := List Rat

/-- sizes of the symbol groups of `__sym_list`:
    `states ++ algebraics ++ derivatives ++ extra variables | time ++ constant inputs ++ parameters` -/
structure Layout where
  nS : Nat
  nA : Nat
  nE : Nat
  nU : Nat
  nP : Nat
deriving Repr

/-- `self.__n_states` : number of entries that are unknowns of a step -/
def Layout.nX (L : Layout) : Nat := L.nS + L.nA + L.nS + L.nE
/-- length of `self.__state_vector` -/
def Layout.len (L : Layout) : Nat := L.nX + 1 + L.nU + L.nP
/-- index of `time` -/
def Layout.iT (L : Layout) : Nat := L.nX
/-- index of the `k`-th derivative symbol -/
def Layout.iD (L : Layout) (k : Nat) : Nat := L.nS + L.nA + k
/-- index of the `k`-th constant input -/
def Layout.iU (L : Layout) (k : Nat) : Nat := L.nX + 1 + k

/-- the arguments of the model functions, in physical units -/
structure Env where
  x : Vec
  a : Vec
  d : Vec
  e : Vec
  t : Rat
  u : Vec
  p : Vec
deriving Repr, DecidableEq

abbrev ResFn := Env → Vec

/-- `self.__nominals` restricted to what the scaling loop uses: (index in the state vector, nominal).
    Keys of the dictionary are canonical names, hence the indices are pairwise distinct. -/
abbrev NomTable := List (Nat × Rat)

/-- `get_variable_nominal` by state-vector index (default 1.0) -/
def nomAt (tab : NomTable) (i : Nat) : Rat :=
  match tab.lookup i with
  | some ν => ν
  | none => 1

/-- the substitution `X[index] ↦ X[index] * nominal` of `initialize()`:
    loop over the nominal dictionary, guarded by `index <= n_states` (as written in the code) -/
def scaleSubst (L : Layout) (tab : NomTable) (X : Vec) : Vec :=
  (List.range X.length).map fun i =>
    match tab.lookup i with
    | some ν => if i ≤ L.nX then X.getD i 0 * ν else X.getD i 0
    | none => X.getD i 0

def slice (v : Vec) (start n : Nat) : Vec := (v.drop start).take n

/-- split a (physical) vector of unknowns and the constants `[time] ++ inputs` into an `Env` -/
def mkEnv (L : Layout) (Xph : Vec) (t : Rat) (u p : Vec) : Env :=
  { x := slice Xph 0 L.nS
    a := slice Xph L.nS L.nA
    d := slice Xph (L.nS + L.nA) L.nS
    e := slice Xph (L.nS + L.nA + L.nS) L.nE
    t := t, u := u, p := p }

/-- static data of an initialised simulation -/
structure Static where
  L : Layout
  nom : NomTable
  /-- parameter values frozen into the residual by `initialize()` -/
  p : Vec
deriving Repr

/-- `self.__res_vals (X, dt, constants)` with `constants = X_prev ++ [time] ++ inputs`:
    `dae_residual ++ derivative approximations ++ extra equations`, after the scaling substitution -/
def stepResidual (M : Static) (F G : ResFn) (X : Vec) (dt : Rat) (consts : Vec) : Vec :=
  let L := M.L
  let Xs := scaleSubst L M.nom X
  let Xp := scaleSubst L M.nom (consts.take L.nX)
  let env := mkEnv L Xs (consts.getD L.iT 0) (consts.drop (L.nX + 1)) M.p
  F env
    ++ (List.range L.nS).map (fun k => Xs.getD (L.iD k) 0 - (Xs.getD k 0 - Xp.getD k 0) / dt)
    ++ G env

/-- the root finder: residual function and initial guess to some vector, or failure -/
abbrev Root := (Vec → Vec) → Vec → Option Vec

/-- the mutable part of a `SimulationProblem` -/
structure Sim where
  sv : Vec
  dt : Rat
deriving Repr, DecidableEq

/-- result of a method call on the object: it returned, or an exception propagated; in both
    cases the (mutated) object is carried along -/
inductive Outcome (α : Type) where
  | returned (s : α)
  | raised (s : α)
deriving Repr

def Outcome.obj {α : Type} : Outcome α → α
  | .returned s => s
  | .raised s => s

def Outcome.isReturned {α : Type} : Outcome α → Bool
  | .returned _ => true
  | .raised _ => false

/-- `get_var` by (index, negated alias?) -/
def getVar (M : Static) (s : Sim) (i : Nat) (neg : Bool) : Rat :=
  let v := s.sv.getD i 0
  let v := if neg then v * (-1) else v
  if i ≤ M.L.nX then v * nomAt M.nom i else v

/-- `set_var` by (index, negated alias?) -/
def setVar (M : Static) (s : Sim) (i : Nat) (neg : Bool) (value : Rat) : Sim :=
  let v := if neg then value * (-1) else value
  let v := if i ≤ M.L.nX then v / nomAt M.nom i else v
  { s with sv := s.sv.set i v }

def getTime (M : Static) (s : Sim) : Rat := getVar M s M.L.iT false

/-- `SimulationProblem.update(dt)` -/
def update (M : Static) (F G : ResFn) (root : Root) (s : Sim) (dtArg : Rat) : Outcome Sim :=
  -- `if dt > 0: self.set_time_step(dt)` ; `dt = self.get_time_step()`
  let s1 : Sim := if dtArg > 0 then { s with dt := dtArg } else s
  let dt := s1.dt
  -- increment time
  let s2 := setVar M s1 M.L.iT false (getTime M s1 + dt)
  let guess := s2.sv.take M.L.nX
  let consts := if M.L.nP > 0 then s2.sv.take (s2.sv.length - M.L.nP) else s2.sv
  match root (fun X => stepResidual M F G X dt consts) guess with
  | none => .raised s2
  | some next => .returned { s2 with sv := next.take M.L.nX ++ s2.sv.drop M.L.nX }

/-! ### initial-state NLP (interface only: the choice among consistent states is the solver's) -/

/-- bounds per unknown in physical units: `none` = unbounded side -/
structure VarBound where
  lo : Option Rat
  hi : Option Rat
deriving Repr

/-- equality constraints of the initial NLP: `dae_residual ++ initial_residual ++ extra equations`,
    scaled substitution applied, constants/parameters taken from the state vector -/
def initConstraints (M : Static) (F Finit G : ResFn) (sv : Vec) (X : Vec) : Vec :=
  let L := M.L
  let Xs := scaleSubst L M.nom X
  let rest := sv.drop L.nX
  let env := mkEnv L Xs (rest.getD 0 0) ((rest.drop 1).take L.nU) M.p
  F env ++ Finit env ++ G env

/-- `lbx/ubx`: physical bounds (for a `fixed` variable both are its start value) divided by the
    nominal of the entry (`evaluated_bounds / nominals`) -/
def scaledBounds (M : Static) (bnds : List VarBound) : List VarBound :=
  (List.range bnds.length).map fun i =>
    let b := bnds.getD i { lo := none, hi := none }
    { lo := b.lo.map (· / nomAt M.nom i), hi := b.hi.map (· / nomAt M.nom i) }

def withinBounds (bs : List VarBound) (X : Vec) : Prop :=
  ∀ i (b : VarBound), bs[i]? = some b →
    (∀ lo, b.lo = some lo → lo ≤ X.getD i 0) ∧ (∀ hi, b.hi = some hi → X.getD i 0 ≤ hi)

/-- the NLP solver: constraint function, variable bounds and guess to some vector, or failure -/
abbrev InitSolver := (Vec → Vec) → List VarBound → Vec → Option Vec

/-- `SimulationProblem.initialize()` after the start values have been put into the state vector -/
def simInitialize (M : Static) (F Finit G : ResFn) (bnds : List VarBound) (solver : InitSolver)
    (s : Sim) : Outcome Sim :=
  match solver (initConstraints M F Finit G s.sv) (scaledBounds M bnds) (s.sv.take M.L.nX) with
  | none => .raised s
  | some X0 => .returned { s with sv := X0.take M.L.nX ++ s.sv.drop M.L.nX }

/-! ### the IO loop (`simulation/io_mixin.py`) -/

/-- `bisect.bisect_left` on a sorted list -/
def bisectLeft : List Rat → Rat → Nat
  | [], _ => 0
  | a :: rest, t => if a < t then bisectLeft rest t + 1 else 0

/-- one imported series that matches a model variable: target (index, sign) and its values
    (`none` = not finite: skipped) -/
structure Series where
  idx : Nat
  neg : Bool
  vals : List (Option Rat)
deriving Repr

structure IOStatic where
  M : Static
  timesSec : List Rat
  series : List Series
  /-- output variables as (index, negated?) -/
  outs : List (Nat × Bool)
deriving Repr

structure IOSim where
  sim : Sim
  /-- `_simulation_times` -/
  times : List Rat
  /-- `_io_output`, one list per output variable -/
  out : List (List Rat)
deriving Repr

/-- `__set_input_variables(t_idx)`; `none` = `IndexError` (index past the end of the series) -/
def feed (io : IOStatic) (tIdx : Nat) (s : Sim) : Option Sim :=
  io.series.foldlM (fun s ser =>
    match ser.vals[tIdx]? with
    | none => none
    | some none => some s
    | some (some v) => some (setVar io.M s ser.idx ser.neg v)) s

def record (io : IOStatic) (s : Sim) : List Rat := io.outs.map fun o => getVar io.M s o.1 o.2

/-- `IOMixin.initialize` : experiment set up at t = 0 with `dt = times[1] - times[0]`, inputs at
    `bisect_left(times, 0)`, then the model initialisation, then the t0 outputs.
    (`sv0` already carries the start values and the parameters) -/
def ioInitialize (io : IOStatic) (F Finit G : ResFn) (bnds : List VarBound) (solver : InitSolver)
    (sv0 : Vec) :
    Outcome IOSim :=
  let dt := io.timesSec.getD 1 0 - io.timesSec.getD 0 0
  let s0 : Sim := setVar io.M { sv := sv0, dt := dt } io.M.L.iT false 0
  match feed io (bisectLeft io.timesSec 0) s0 with
  | none => .raised { sim := s0, times := [], out := [] }
  | some s1 =>
    let times := [getTime io.M s1]
    match simInitialize io.M F Finit G bnds solver s1 with
    | .raised s2 => .raised { sim := s2, times := times, out := [] }
    | .returned s2 => .returned { sim := s2, times := times, out := (record io s2).map fun v => [v] }

/-- `IOMixin.update(dt)`; `dtImport` is `self.__dt` of the mixin (import time step) -/
def ioUpdate (io : IOStatic) (F G : ResFn) (root : Root) (dtImport : Rat) (st : IOSim) (dtArg : Rat) :
    Outcome IOSim :=
  let dt := if dtArg < 0 then dtImport else dtArg
  let t := getTime io.M st.sim
  let times := st.times ++ [t + dt]
  match feed io (bisectLeft io.timesSec (t + dt)) st.sim with
  | none => .raised { st with times := times }
  | some s1 =>
    match update io.M F G root s1 dt with
    | .raised s2 => .raised { sim := s2, times := times, out := st.out }
    | .returned s2 =>
      .returned { sim := s2, times := times,
                  out := List.zipWith (fun l v => l ++ [v]) st.out (record io s2) }

/-- a run: `k` updates with the given `dt` arguments, stopping at the first exception -/
def ioRun (io : IOStatic) (F G : ResFn) (root : Root) (dtImport : Rat) :
    IOSim → List Rat → Outcome IOSim
  | st, [] => .returned st
  | st, dt :: rest =>
    match ioUpdate io F G root dtImport st dt with
    | .raised st' => .raised st'
    | .returned st' => ioRun io F G root dtImport st' rest

/-! ### spec side: the theta-method row of property C01 -/

/-- C01 collocation row for one step `[t0', t1']` (time arguments relative to the optimisation's
    t0), state/algebraic trajectories `(x0,a0) → (x1,a1)`, constant inputs `c0, c1`:
    `(1-θ)·F(z_i, ż_i, c_i, p, t_i) + θ·F(z_{i+1}, ż_i, c_{i+1}, p, t_{i+1})`,
    `ż_i = (x_{i+1} - x_i)/(t_{i+1} - t_i)` -/
def thetaRow (F : ResFn) (θ : Rat) (x0 a0 x1 a1 e : Vec) (c0 c1 p : Vec) (t0' t1' : Rat) : Vec :=
  let zd := List.zipWith (fun b a => (b - a) / (t1' - t0')) x1 x0
  List.zipWith (fun r0 r1 => (1 - θ) * r0 + θ * r1)
    (F { x := x0, a := a0, d := zd, e := e, t := t0', u := c0, p := p })
    (F { x := x1, a := a1, d := zd, e := e, t := t1', u := c1, p := p })

/-! ### concrete instances for the driver: polynomial residuals and an exact affine root finder -/

inductive Slot where
  | x (i : Nat) | a (i : Nat) | d (i : Nat) | e (i : Nat) | u (i : Nat) | p (i : Nat) | t
deriving Repr, DecidableEq

def Slot.val (env : Env) : Slot → Rat
  | .x i => env.x.getD i 0
  | .a i => env.a.getD i 0
  | .d i => env.d.getD i 0
  | .e i => env.e.getD i 0
  | .u i => env.u.getD i 0
  | .p i => env.p.getD i 0
  | .t => env.t

/-- an equation as a list of terms `coef * prod slots` -/
abbrev Poly := List (Rat × List Slot)

def Poly.eval (q : Poly) (env : Env) : Rat :=
  q.foldl (fun acc t => acc + t.2.foldl (fun v s => v * s.val env) t.1) 0

def polyRes (qs : List Poly) : ResFn := fun env => qs.map (·.eval env)

/-- Gauss-Jordan elimination on an augmented matrix (rows `n × (n+1)`); `none` when singular -/
def gaussStep (rows : List (List Rat)) (col : Nat) : Option (List (List Rat)) :=
  match rows.drop col |>.findIdx? (fun r => r.getD col 0 != 0) with
  | none => none
  | some off =>
    let pi := col + off
    let prow := rows.getD pi []
    let pv := prow.getD col 0
    let prow := prow.map (· / pv)
    -- swap pivot row into place
    let rows := (rows.set pi (rows.getD col [])).set col prow
    some <| (List.range rows.length).map fun i =>
      let r := rows.getD i []
      if i == col then r else
        let f := r.getD col 0
        List.zipWith (fun a b => a - f * b) r prow

def gaussSolve (rows : List (List Rat)) : Option Vec :=
  let n := rows.length
  (List.range n).foldlM (fun rs c => gaussStep rs c) rows |>.map fun rs => rs.map (·.getD n 0)

def unitVec (n i : Nat) : Vec := (List.range n).map fun j => if j = i then 1 else 0

/-- exact root of an *affine* residual `r` in `n` unknowns (one Newton step from 0) -/
def affineRoot : Root := fun r guess =>
  let n := guess.length
  let r0 := r (unitVec n n)          -- r(0)
  if r0.length != n then none else
  let cols := (List.range n).map fun i => List.zipWith (· - ·) (r (unitVec n i)) r0
  -- augmented rows: J x = -r0
  let rows := (List.range n).map fun e =>
    (cols.map (·.getD e 0)) ++ [-(r0.getD e 0)]
  gaussSolve rows

/-! ### `reset()` : the object with its saved initial state vector -/

/-- a `SimulationProblem` after `initialize()`: the live state and `__initialized_state_vector`
    (a deep copy taken at the end of `initialize()`) -/
structure SimObj where
  cur : Sim
  init : Vec
deriving Repr

/-- the public calls that may follow `initialize()` -/
inductive Op where
  | update (dtArg : Rat)
  | setVar (i : Nat) (neg : Bool) (v : Rat)
  | reset
deriving Repr

/-- `reset()` : the live state vector becomes a fresh copy of the saved one (`dt` is kept) -/
def SimObj.reset (o : SimObj) : SimObj := { o with cur := { o.cur with sv := o.init } }

/-- one call; an `update` that raises leaves the mutated object behind (see `update`) -/
def applyOp (M : Static) (F G : ResFn) (root : Root) (o : SimObj) : Op → SimObj
  | .update dtArg => { o with cur := (update M F G root o.cur dtArg).obj }
  | .setVar i neg v => { o with cur := setVar M o.cur i neg v }
  | .reset => o.reset

def applyOps (M : Static) (F G : ResFn) (root : Root) (o : SimObj) (ops : List Op) : SimObj :=
  ops.foldl (applyOp M F G root) o

/-- a root finder that tries a list of candidates and answers with the first that is a root -/
def checkedRoots (cands : List Vec) : Root := fun r g =>
  cands.find? fun c => decide (c.length = g.length) && (r c).all (fun v => v == 0)

/-- the driver's root finder: exact affine solve, the answer re-checked against the residual
    (so it never answers with a non-root, whatever the residual function is) -/
def soundAffineRoot : Root := fun r g =>
  match affineRoot r g with
  | none => none
  | some x => checkedRoots [x] r g

/-- the `update` calls of a history: object state right before the call, the `dt` argument, the outcome;
    a call that raised leaves the mutated object behind and the history goes on from there -/
def updateLog (M : Static) (F G : ResFn) (root : Root) (o : SimObj) : List Op → List (Sim × Rat × Outcome Sim)
  | [] => []
  | op :: rest =>
    (match op with
     | .update dtArg => [(o.cur, dtArg, update M F G root o.cur dtArg)]
     | _ => []) ++ updateLog M F G root (applyOp M F G root o op) rest

end RtcVerif.C09
