import RtcVerif.Model.C10Priority
/-!
# C10 — statement-level reference of the priority loop (target of the source translation)

`Model/C10Priority.lean` states the loop functionally (`loop`, `optimize`, `runOnce`).  This file
re-states one `optimize()` call at the granularity of the Python statements, with the attributes
the code really has (`__results_are_current`, `__results`, `skip_priority`, the local `success`,
the base-class solver output), so that the source can be translated statement by statement
(`harness/translate_c10.py` → `Gen/PriorityLoop.lean`) and compared with it.
`Proofs/C10Loop.lean` proves that this reference and the functional model agree.
Core Lean only.
-/
namespace RtcVerif.C10

/-- identity of a result set: (number of the `optimize()` call, priority) of the solve that produced it -/
abbrev ResId := Nat × Int

/-- state of one `optimize()` call while it runs -/
structure PSt where
  events : List Event                   -- what happened so far in this call, oldest first
  success : Bool                        -- the local `success`
  current : Bool                        -- `self.__results_are_current`
  results : Option ResId                -- `self.__results`
  lastRaw : Option (Nat × Int × Bool)   -- base class: (call, priority, outcome) of the latest solver call
  nsolves : Nat                         -- solver calls made in this call
  skipFlag : Bool                       -- `self.skip_priority`
  views : List (Int × Option ResId)     -- what `extract_results()` returns inside each `priority_completed(p)`
deriving Repr, DecidableEq

/-- `continue` with the next priority / `break` -/
inductive Flow where
  | next
  | stop
deriving Repr, DecidableEq

/-- `self.extract_results(m)` evaluated on the mixin itself: the cache when it is marked current,
    otherwise the base class (the output of the latest solver call) -/
def extractNow (st : PSt) : Option ResId :=
  if st.current then st.results else st.lastRaw.map (fun x => (x.1, x.2.1))

/-- state in which the body of `optimize()` starts: attributes carried over from earlier calls -/
def enter (pst : Persist) : PSt :=
  { events := [], success := false, current := pst.current, results := pst.results,
    lastRaw := pst.lastRaw, nsolves := 0, skipFlag := false, views := [] }

/-- the assignments before the priority loop (`success = False`, `self.skip_priority = False`
    (multi-pass only; the single-pass loop never reads the flag), `self.__results_are_current = False`) -/
def prologueRef (v : Variant) (st : PSt) : PSt :=
  match v with
  | .multiPass => { st with success := false, skipFlag := false, current := false }
  | .singlePass => { st with success := false, current := false }

/-- the part of the loop body after the hook (and, multi-pass, after the skip test) -/
def solveAndStore (run : Nat) (oracle : Nat → Bool) (st1 : PSt) (p : Int) : PSt × Flow :=
  -- success = super().optimize(...)
  let st2 : PSt := { st1 with events := st1.events ++ [.solve p (oracle st1.nsolves)],
                              success := oracle st1.nsolves,
                              lastRaw := some (run, p, oracle st1.nsolves),
                              nsolves := st1.nsolves + 1 }
  -- if not success: break
  if st2.success = false then (st2, .stop)
  else
    -- self.__results_are_current = False
    let st3 : PSt := { st2 with current := false }
    -- self.__results = [self.extract_results(m) for m in range(self.ensemble_size)]
    let st4 : PSt := { st3 with results := extractNow st3 }
    -- self.__results_are_current = True
    let st5 : PSt := { st4 with current := true }
    -- self.priority_completed(priority)
    let st6 : PSt := { st5 with events := st5.events ++ [.completed p],
                                views := st5.views ++ [(p, extractNow st5)] }
    (st6, .next)

/-- one pass through the body of the priority loop -/
def passRef (v : Variant) (run : Nat) (skip : Int → Bool) (oracle : Nat → Bool) (st : PSt) (p : Int) :
    PSt × Flow :=
  -- self.priority_started(priority)
  let st1 : PSt := { st with events := st.events ++ [.started p], skipFlag := skip p }
  match v with
  | .multiPass =>
    -- if self.skip_priority: continue
    if st1.skipFlag = true then (st1, .next) else solveAndStore run oracle st1 p
  | .singlePass => solveAndStore run oracle st1 p

/-- `for priority in ...:` with `break` -/
def forLoop (f : PSt → Int → PSt × Flow) : PSt → List Int → PSt
  | st, [] => st
  | st, p :: ps =>
    match f st p with
    | (st', .next) => forLoop f st' ps
    | (st', .stop) => st'

/-- `if postprocessing: self.post()` -/
def epilogueRef (st : PSt) : PSt := { st with events := st.events ++ [.post] }

/-- one whole `optimize()` call (number `run`) on an instance in state `pst` -/
def optimizeRef (v : Variant) (run : Nat) (pst : Persist) (r : RunSpec) : PSt :=
  epilogueRef (forLoop (passRef v run r.skip r.oracle) (prologueRef v (enter pst)) (priorities r.gs))

/-- what the instance carries on afterwards -/
def PSt.persist (st : PSt) : Persist := ⟨st.results, st.current, st.lastRaw⟩

end RtcVerif.C10
