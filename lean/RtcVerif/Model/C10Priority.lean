import RtcVerif.Model.Num
/-!
# C10 — model of the goal-programming priority loop

`GoalProgrammingMixin.optimize` (goal_programming_mixin.py 621-768) and
`SinglePassGoalProgrammingMixin.optimize` (single_pass_goal_programming_mixin.py 283-434), as far
as the sequencing of priorities, hooks, solver calls and the results cache is concerned.  Core
Lean only.  The solver is an arbitrary outcome oracle `Nat → Bool` (outcome of the k-th solver
call of the run); the user's `priority_started` hook is an arbitrary function `skip : Int → Bool`
(value of `self.skip_priority` when the hook returns; multi-pass only).

Python (both variants)                                        model
------------------------------------------------------------  -----------------------------------
priorities = sorted({int(g.priority) for g in goals+path      `priorities` (`pyInt`, `isEmpty`,
              if not g.is_empty})                              `sortU`)
subproblems: goals with int(g.priority) == p, not empty       `goalsAt`
success = False ; __results_are_current = False               `optimize`: initial arguments of `loop`
for priority in priorities:                                   `loop`
    self.priority_started(priority)                           event `started p`
    if self.skip_priority: continue      (multi-pass only)    `skip p` branch: no solve, nothing changes
    success = super().optimize(...)                           `oracle k`, event `solve p ok`
    if not success: break                                     failure branch: stop, cache untouched
    __results_are_current = False
    __results = [extract_results(m) ...]   (base class)       cache := results of this solve
    __results_are_current = True
    self.priority_completed(priority)                         event `completed p`
if postprocessing: self.post()                                event `post`
return success                                                `Out.success`

extract_results(): cached results if __results_are_current    `exposed`
                   else the base class (last solver output)
-/
namespace RtcVerif.C10

/-- a target bound as `Goal.is_empty` sees it: a `Timeseries` (values per time step) or a plain
    scalar / vector -/
structure Target where
  isSeries : Bool
  vals : List XVal
deriving Repr

structure Goal where
  priority : Rat          -- `goal.priority` (any number; `int()` is applied by the loop)
  targetMin : Target
  targetMax : Target
deriving Repr

/-- `np.any(np.isfinite(values))` -/
def anyFinite (t : Target) : Bool := t.vals.any XVal.isFinite

/-- `np.all(np.isfinite(values))` -/
def allFinite (t : Target) : Bool := t.vals.all XVal.isFinite

/-- the side is a target at all: given as a `Timeseries`, or holding at least one finite number
    (an unset side is the scalar NaN) -/
def hasSide (t : Target) : Bool := t.isSeries || anyFinite t

/-- `Goal.is_empty` (goal_programming_mixin_base.py 296-320) -/
def isEmpty (g : Goal) : Bool :=
  let minSet := g.targetMin.isSeries || anyFinite g.targetMin
  let maxSet := g.targetMax.isSeries || anyFinite g.targetMax
  if !minSet && !maxSet then false      -- a minimisation goal
  else !(anyFinite g.targetMin) && !(anyFinite g.targetMax)

/-- Python `int(x)` on a finite number: truncation toward zero -/
def pyInt (q : Rat) : Int := Int.tdiv q.num q.den

/-- insertion into a strictly increasing list, dropping duplicates -/
def insertU (x : Int) : List Int → List Int
  | [] => [x]
  | y :: ys => if x < y then x :: y :: ys else if x = y then y :: ys else y :: insertU x ys

/-- `sorted(set(l))` -/
def sortU (l : List Int) : List Int := l.foldr insertU []

/-- `sorted({int(goal.priority) for goal in chain(goals, path_goals) if not goal.is_empty})` -/
def priorities (gs : List Goal) : List Int :=
  sortU ((gs.filter (fun g => !isEmpty g)).map (fun g => pyInt g.priority))

/-- goals of the subproblem at priority `p` -/
def goalsAt (gs : List Goal) (p : Int) : List Goal :=
  gs.filter (fun g => pyInt g.priority == p && !isEmpty g)

inductive Event where
  | started (p : Int)
  | solve (p : Int) (ok : Bool)
  | completed (p : Int)
  | post
deriving Repr, DecidableEq

/-- what `extract_results()` returns -/
inductive Exposed where
  | cached (p : Int)             -- `self.__results`, captured right after the successful solve at `p`
  | raw (p : Int) (ok : Bool)    -- base class: output of the most recent solver call
  | nothing                      -- no solver call yet (the base class has no output)
deriving Repr, DecidableEq

structure Out where
  events : List Event            -- oldest first
  success : Bool                 -- the Python variable `success`
  cache : Option Int             -- `__results_are_current` and whose results `__results` holds
  lastRaw : Option (Int × Bool)  -- most recent solver call
  nsolves : Nat                  -- solver calls made
deriving Repr, DecidableEq

/-- the `for priority in priorities` loop.  `k`: index of the next solver call; `succ`, `cache`,
    `raw`: current values of `success`, the results cache, the base-class output. -/
def loop (skip : Int → Bool) (oracle : Nat → Bool) :
    List Int → Nat → Bool → Option Int → Option (Int × Bool) → Out
  | [], k, succ, cache, raw => ⟨[], succ, cache, raw, k⟩
  | p :: ps, k, succ, cache, raw =>
    if skip p then
      let r := loop skip oracle ps k succ cache raw
      { r with events := .started p :: r.events }
    else if oracle k then
      let r := loop skip oracle ps (k + 1) true (some p) (some (p, true))
      { r with events := .started p :: .solve p true :: .completed p :: r.events }
    else
      ⟨[.started p, .solve p false], false, cache, some (p, false), k + 1⟩

inductive Variant where
  | multiPass     -- GoalProgrammingMixin
  | singlePass    -- SinglePassGoalProgrammingMixin (no `skip_priority`)
deriving Repr, DecidableEq

def effSkip (v : Variant) (skip : Int → Bool) : Int → Bool :=
  match v with
  | .multiPass => skip
  | .singlePass => fun _ => false

/-- the part of `optimize` before post-processing -/
def core (v : Variant) (gs : List Goal) (skip : Int → Bool) (oracle : Nat → Bool) : Out :=
  loop (effSkip v skip) oracle (priorities gs) 0 false none none

/-- `optimize(preprocessing, postprocessing=True)` -/
def optimize (v : Variant) (gs : List Goal) (skip : Int → Bool) (oracle : Nat → Bool) : Out :=
  let r := core v gs skip oracle
  { r with events := r.events ++ [.post] }

/-- `extract_results()` after (or during post-processing of) a run -/
def exposed (r : Out) : Exposed :=
  match r.cache with
  | some p => .cached p
  | none =>
    match r.lastRaw with
    | some (p, ok) => .raw p ok
    | none => .nothing

/-- priorities whose hook `priority_started` fired, in order -/
def startedOf : List Event → List Int
  | [] => []
  | .started p :: es => p :: startedOf es
  | _ :: es => startedOf es

/-- priorities at which the solver was called, with the outcome, in order -/
def solvesOf : List Event → List (Int × Bool)
  | [] => []
  | .solve p ok :: es => (p, ok) :: solvesOf es
  | _ :: es => solvesOf es

def completedOf : List Event → List Int
  | [] => []
  | .completed p :: es => p :: completedOf es
  | _ :: es => completedOf es

/-! ### several `optimize()` calls on one instance

Attributes that survive from one call to the next, and what the start of `optimize()` does to them
(goal_programming_mixin.py 670-689, single_pass_goal_programming_mixin.py 326-349):

* `self.__results`               NOT reset (the old list stays until a priority of the new run succeeds)
* `self.__results_are_current`   reset to `False` before the priority loop
* `self._gp_first_run`, `self.skip_priority` (multi-pass), constraint stores, epsilon/parameter lists:
  reset (they do not influence which results are exposed)
* the base class's solver output  NOT reset (overwritten by the next solver call only)
-/

/-- what one instance carries from one `optimize()` call to the next -/
structure Persist where
  results : Option (Nat × Int)          -- `self.__results`: (run, priority) of the solve it was captured from
  current : Bool                        -- `self.__results_are_current`
  lastRaw : Option (Nat × Int × Bool)   -- base class: (run, priority, outcome) of the most recent solver call
deriving Repr, DecidableEq

/-- right after `__init__` -/
def Persist.init : Persist := ⟨none, false, none⟩

/-- one `optimize()` call: goals as `goals()/path_goals()` return them now, the hook, the solver -/
structure RunSpec where
  gs : List Goal
  skip : Int → Bool
  oracle : Nat → Bool    -- outcome of the k-th solver call of THIS run

/-- what `extract_results()` returns on an instance that has been optimized several times -/
inductive ExposedS where
  | cached (run : Nat) (p : Int)
  | raw (run : Nat) (p : Int) (ok : Bool)
  | nothing
  | broken      -- `__results_are_current` set although `__results` was never assigned (AttributeError)
deriving Repr, DecidableEq

def exposedS (st : Persist) : ExposedS :=
  if st.current then
    match st.results with
    | some (r, p) => .cached r p
    | none => .broken
  else
    match st.lastRaw with
    | some (r, p, ok) => .raw r p ok
    | none => .nothing

/-- the `k`-th call of `optimize()` on an instance in state `st`.  `reset = true` is the code
    (`self.__results_are_current = False` before the loop); `reset = false` is the variant without
    that line, kept for the witness that the line is not redundant.  Inside the run the flag only
    changes when a priority succeeds, so the run itself is `optimize`. -/
def runOnce (v : Variant) (reset : Bool) (k : Nat) (st : Persist) (r : RunSpec) : Persist × Out :=
  let cur0 := if reset then false else st.current
  let o := optimize v r.gs r.skip r.oracle
  let st' : Persist :=
    { results := match o.cache with
        | some p => some (k, p)
        | none => st.results
      current := match o.cache with
        | some _ => true
        | none => cur0
      lastRaw := match o.lastRaw with
        | some (p, ok) => some (k, p, ok)
        | none => st.lastRaw }
  (st', o)

/-- consecutive calls; for every call its own log/return value and what is exposed after it -/
def seqFrom (v : Variant) (reset : Bool) : Nat → Persist → List RunSpec → List (Out × ExposedS)
  | _, _, [] => []
  | k, st, r :: rs =>
    let x := runOnce v reset k st r
    (x.2, exposedS x.1) :: seqFrom v reset (k + 1) x.1 rs

/-- `optimize()` called once per element of `rs` on a fresh instance -/
def optimizeSeq (v : Variant) (rs : List RunSpec) : List (Out × ExposedS) :=
  seqFrom v true 0 Persist.init rs

/-- outcome oracle from a finite script; calls beyond the script succeed -/
def scriptOracle (script : List Bool) (k : Nat) : Bool := script.getD k true

end RtcVerif.C10
