import RtcVerif.Model.Num
/-!
# C11 — record-level model of the time-series file back-ends

`rtctools.data.pi.Timeseries` (parse / write / resize / `__floor_date_time`), the CSV six-decimal
printing, the abstract float32 rounding of the PI binary format and `pi.ParameterConfig`.

Record level, not bytes: a PI file is a list of `<series>` records (header + events) plus an
optional binary value stream; date-times are integer seconds (`Int`), variables are numbered
(`Nat`, the rank of the internal id in Python's `sorted` order), values are `XVal` (binary64 values
incl. NaN/±inf, carried as exact rationals).  ElementTree, `str(float)`/`float(str)` (exact
round trip by `repr`), `np.tofile/fromfile`, `%f` printing are trusted libraries tied by the
correspondence run.

Core Lean only.
-/
namespace RtcVerif.C11

/-! ## numbers -/

/-- Python's `round` (half to even) on an exact rational -/
def pyRound (q : Rat) : Int :=
  let f := q.floor
  let r := q - (f : Rat)
  if r < 1 / 2 then f else if 1 / 2 < r then f + 1 else if f % 2 = 0 then f else f + 1

/-- `int(round(a.total_seconds() / b.total_seconds()))` -/
def roundDiv (a b : Int) : Int := pyRound ((a : Rat) / (b : Rat))

/-- `int(round(a.total_seconds() / b.total_seconds() + 1))` -/
def roundDivP1 (a b : Int) : Int := pyRound ((a : Rat) / (b : Rat) + 1)

/-- `bisect.bisect_left` on an increasing list: number of entries `< x` -/
def bisectLeft : List Int → Int → Nat
  | [], _ => 0
  | y :: l, x => if y < x then bisectLeft l x + 1 else 0

def nans (n : Nat) : List XVal := List.replicate n XVal.nan

/-! ## `__floor_date_time` -/

/-- repaired code (`delta.days * 86400 + delta.seconds`): the forecast date is moved to the
    nearest point of the grid `gstart + k·d` (half a step rounds up).  `d` = step in seconds. -/
def floorDT (gstart d f : Int) : Int :=
  let s := f - gstart
  f + ((2 * s + d) / (2 * d) * d - s)

/-- the code before commit 658d814: `delta.seconds` drops the whole days of the offset -/
def floorDTLegacy (gstart d f : Int) : Int :=
  let s := (f - gstart) % 86400
  f + ((2 * s + d) / (2 * d) * d - s)

/-! ## PI records -/

structure Hdr where
  var : Nat
  member : Option Nat        -- `ensembleMemberIndex`
  step : Option Int          -- `timeStep`: seconds, `none` = nonequidistant
  start : Int
  stop : Int
  forecast : Option Int      -- `forecastDate`
  miss : XVal                -- `missVal`
  unit : String
deriving DecidableEq, Repr

structure Rec where
  hdr : Hdr
  evTimes : List Int         -- date/time of the `<event>`s
  evs : List XVal            -- `value` of the `<event>`s
deriving DecidableEq, Repr

structure File where
  tz : Option Rat
  recs : List Rec
  bin : Option (List XVal)   -- the `.bin` stream (float32 values), `none` = no such file
deriving DecidableEq, Repr

structure Entry where
  var : Nat
  unit : String
  vals : List XVal
deriving DecidableEq, Repr

abbrev Slot := List Entry    -- `values[member]` / `units[member]`, in insertion order

/-- the in-memory `pi.Timeseries` object -/
structure Store where
  dt : Option Int
  start : Int
  stop : Int
  times : List Int
  forecast : Int
  fcIndex : Int
  tz : Option Rat
  containsEns : Bool
  ensSize : Nat
  slots : List Slot
deriving DecidableEq, Repr

/-- `d[key] = value` on an insertion-ordered dict -/
def upsert (e : Entry) : Slot → Slot
  | [] => [e]
  | x :: l => if x.var = e.var then e :: l else x :: upsert e l

def lookup (v : Nat) : Slot → Option Entry
  | [] => none
  | x :: l => if x.var = v then some x else lookup v l

/-- `values[member][var]` -/
def Store.get (s : Store) (m v : Nat) : Option (List XVal) :=
  (lookup v (s.slots.getD m [])).map (·.vals)

/-! ### first pass over the headers -/

structure Glob where
  dt : Option Int := none
  start : Option Int := none
  stop : Option Int := none
  forecast : Option Int := none
  containsEns : Bool := false
  ensSize : Nat := 1
deriving DecidableEq, Repr

/-- one iteration of the consistency loop (pi.py 411-478); `none` = the code raises.
    Note `if self.__dt is None: self.__dt = dt`: a nonequidistant *first* series does not fix the
    step (the quirk is modelled, not repaired). -/
def scanStep (g : Glob) (h : Hdr) : Option Glob :=
  let dt? : Option (Option Int) :=
    match g.dt with
    | none => some h.step
    | some d => if h.step = some d then some (some d) else none
  match dt? with
  | none => none
  | some dt =>
    let start := match g.start with
      | none => h.start
      | some x => if h.start < x then h.start else x
    let stop := match g.stop with
      | none => h.stop
      | some x => if x < h.stop then h.stop else x
    let fc := h.forecast.getD h.start
    let fc? : Option Int :=
      match g.forecast with
      | none => some fc
      | some x => if h.forecast.isSome && fc != x then none else some x
    match fc? with
    | none => none
    | some fc =>
      let ens := match h.member with
        | some k => if g.ensSize - 1 < k then k + 1 else g.ensSize
        | none => g.ensSize
      some { dt := dt, start := some start, stop := some stop, forecast := some fc,
             containsEns := g.containsEns || h.member.isSome, ensSize := ens }

def scan : Glob → List Hdr → Option Glob
  | g, [] => some g
  | g, h :: hs =>
    match scanStep g h with
    | none => none
    | some g' => scan g' hs

/-- the longest event list (first one on ties) provides the nonequidistant stamps -/
def longestTimes : List Int → List Rec → List Int
  | cur, [] => cur
  | cur, r :: rs => longestTimes (if cur.length < r.evTimes.length then r.evTimes else cur) rs

def gridTimes (start d : Int) (n : Nat) : List Int :=
  (List.range n).map (fun (i : Nat) => start + (i : Int) * d)

/-! ### second pass: one series -/

/-- geometry shared by the second pass -/
structure Geo where
  dt : Option Int
  start : Int
  stop : Int
  times : List Int           -- for nonequidistant files: the untrimmed stamps
  containsEns : Bool
  ensSize : Nat

/-- number of values the header announces -/
def nValues (g : Geo) (h : Hdr) : Option Int :=
  match g.dt with
  | some _ =>
    match h.step with
    | none => none          -- `dt.total_seconds()` on `None`
    | some d => if d = 0 then none else some (roundDivP1 (h.stop - h.start) d)
  | none => some ((bisectLeft g.times h.stop : Int) - (bisectLeft g.times h.start : Int) + 1)

def padFront (g : Geo) (h : Hdr) : Int :=
  if g.start < h.start then
    match g.dt with
    | some _ => roundDiv (h.start - g.start) (h.step.getD 1)
    | none => (bisectLeft g.times h.start : Int) - (bisectLeft g.times g.start : Int)
  else 0

def padBack (g : Geo) (h : Hdr) : Int :=
  if h.stop < g.stop then
    match g.dt with
    | some _ => roundDiv (g.stop - h.stop) (h.step.getD 1)
    | none => (bisectLeft g.times g.stop : Int) - (bisectLeft g.times h.stop : Int)
  else 0

/-- `values[values == miss_val] = nan` -/
def missMap (miss v : XVal) : XVal := if v = miss then XVal.nan else v

/-- first `n` event values, NaN where there is no event -/
def takePad (n : Nat) (evs : List XVal) : List XVal :=
  evs.take n ++ nans (n - evs.length)

/-- one `<series>`: raw values (XML events or the next `n` values of the binary stream),
    missing-value replacement, NaN padding at the front / back up to the global range.
    Returns the padded values and the rest of the binary stream. -/
def readSeries (g : Geo) (binary : Bool) (r : Rec) (stream : Option (List XVal)) :
    Option (List XVal × Option (List XVal)) :=
  match nValues g r.hdr with
  | none => none
  | some n =>
    if n < 0 then none else
    let n := n.toNat
    let pf := padFront g r.hdr
    let pb := padBack g r.hdr
    if pf < 0 ∨ pb < 0 then none else
    let (raw, stream') : List XVal × Option (List XVal) :=
      if binary then
        match stream with
        | some st => (st.take n, some (st.drop n))
        | none => (nans n, none)
      else (takePad n r.evs, stream)
    some (nans pf.toNat ++ raw.map (missMap r.hdr.miss) ++ nans pb.toNat, stream')

/-- slot indices a series is stored in: its own member, or all of them for a series without
    member index in an ensemble file ("virtual ensemble") -/
def targets (g : Geo) (h : Hdr) : List Nat :=
  match h.member with
  | some k => [k]
  | none => if g.containsEns then List.range g.ensSize else [0]

def placeAt (e : Entry) : List Nat → List Slot → List Slot
  | [], slots => slots
  | m :: ms, slots => placeAt e ms (slots.modify m (upsert e))

/-- second pass over all series.  The slot list is created with its final length `ensSize`
    (the code appends empty dicts on demand up to exactly that length). -/
def fill (g : Geo) (binary : Bool) :
    List Rec → Option (List XVal) → List Slot → Option (List Slot)
  | [], _, slots => some slots
  | r :: rs, stream, slots =>
    match readSeries g binary r stream with
    | none => none
    | some (vals, stream') =>
      fill g binary rs stream' (placeAt ⟨r.hdr.var, r.hdr.unit, vals⟩ (targets g r.hdr) slots)

/-- `pi.Timeseries.__init__` on an existing file; `none` = an exception -/
def read (binary : Bool) (f : File) : Option Store :=
  match scan {} (f.recs.map (·.hdr)) with
  | none => none
  | some gl =>
    match gl.start, gl.stop, gl.forecast with
    | some start, some stop, some fc0 =>
      let ok : Bool := match gl.dt with
        | some d => decide (0 < d)
        | none => true
      if !ok then none else
      let times0 : List Int := match gl.dt with
        | some d => gridTimes start d (roundDivP1 (stop - start) d).toNat
        | none => longestTimes [] f.recs
      let fc : Int := match gl.dt with
        | some d => floorDT start d fc0
        | none => fc0
      let fcIndex : Int := if fc ∈ times0 then (times0.idxOf fc : Int) else -1
      let g : Geo := ⟨gl.dt, start, stop, times0, gl.containsEns, gl.ensSize⟩
      match fill g binary f.recs f.bin (List.replicate gl.ensSize []) with
      | none => none
      | some slots =>
        let times : List Int := match gl.dt with
          | some _ => times0
          | none => (times0.take (bisectLeft times0 stop + 1)).drop (bisectLeft times0 start)
        some { dt := gl.dt, start := start, stop := stop, times := times, forecast := fc,
               fcIndex := fcIndex, tz := f.tz, containsEns := gl.containsEns,
               ensSize := gl.ensSize, slots := slots }
    | _, _, _ => none        -- no series at all

/-! ### writing a new file (`make_new_file=True`) -/

/-- insertion into a list sorted by variable (Python `sorted(keys)`) -/
def insertSorted (e : Entry) : Slot → Slot
  | [] => [e]
  | x :: l => if e.var ≤ x.var then e :: x :: l else x :: insertSorted e l

def sortSlot : Slot → Slot
  | [] => []
  | e :: l => insertSorted e (sortSlot l)

/-- the `missVal` the writer announces in new headers -/
def newMiss : XVal := XVal.fin (-999)

/-- text of one value in an `<event>`: NaN becomes the missing value -/
def encXml (v : XVal) : XVal := if v = XVal.nan then newMiss else v

def mkHdr (s : Store) (m : Nat) (e : Entry) : Hdr :=
  { var := e.var
    member := if s.containsEns then some m else none
    step := s.dt
    start := s.start
    stop := s.stop
    forecast := if s.forecast = s.start then none else some s.forecast
    miss := newMiss
    unit := e.unit }

def evTimesOf (s : Store) (n : Nat) : List Int :=
  match s.dt with
  | some d => gridTimes s.start d n
  | none => s.times.take n

def mkRec (s : Store) (binary : Bool) (m : Nat) (e : Entry) : Rec :=
  { hdr := mkHdr s m e
    evTimes := if binary then [] else evTimesOf s e.vals.length
    evs := if binary then [] else e.vals.map encXml }

/-- series of member `k`, `k+1`, … in writing order; entries without values are dropped -/
def recsFrom (s : Store) (binary : Bool) : Nat → List Slot → List Rec
  | _, [] => []
  | k, sl :: rest =>
    ((sortSlot sl).filter (fun e => !e.vals.isEmpty)).map (mkRec s binary k)
      ++ recsFrom s binary (k + 1) rest

def streamFrom (r32 : XVal → XVal) : List Slot → List XVal
  | [] => []
  | sl :: rest =>
    ((sortSlot sl).filter (fun e => !e.vals.isEmpty)).flatMap (fun e => e.vals.map r32)
      ++ streamFrom r32 rest

/-- `write()` of an object made with `make_new_file=True`.  `r32` is the float32 conversion of
    the binary format (a parameter).  `none`: the code raises (nonequidistant series longer than
    the stamp list; several slots without ensemble headers). -/
def write (r32 : XVal → XVal) (binary : Bool) (s : Store) : Option File :=
  let tooLong : Bool := s.dt.isNone && !binary &&
    s.slots.any (fun sl => sl.any (fun e => decide (s.times.length < e.vals.length)))
  let noEns : Bool := !s.containsEns && decide (1 < s.slots.length)
  if tooLong || noEns then none else
  some { tz := s.tz
         recs := recsFrom s binary 0 s.slots
         bin := if binary then some (streamFrom r32 s.slots) else none }

/-! ### resize -/

/-- Python slice `v[n:]` / `v[:n]` for `n ≠ 0`, and the NaN fillers of `resize` -/
def shiftStart (n : Int) (v : List XVal) : List XVal :=
  if 0 < n then v.drop n.toNat else if n < 0 then nans (-n).toNat ++ v else v

def shiftEnd (n : Int) (v : List XVal) : List XVal :=
  if 0 < n then v ++ nans n.toNat else if n < 0 then v.take (v.length - (-n).toNat) else v

def mapVals (f : List XVal → List XVal) (slots : List Slot) : List Slot :=
  slots.map (fun sl => sl.map (fun e => { e with vals := f e.vals }))

/-- `v[i]` for an integer index, NaN outside the list -/
def getZ (v : List XVal) (i : Int) : XVal := if 0 ≤ i then v.getD i.toNat XVal.nan else XVal.nan

/-- value of an equidistant series with first stamp `start` at the stamp `t` (NaN off the grid and
    outside the series) — the observation `C11_resize_keeps_values` is about -/
def valueAt (start d : Int) (v : List XVal) (t : Int) : XVal :=
  if (t - start) % d = 0 then getZ v ((t - start) / d) else XVal.nan

/-- what `resize` does to one series of an equidistant store (repaired code, commit f5e4157): the
    start is moved by `round((ns - start)/d)` steps, then the array is brought to the number of
    stamps of the new window, `round((ne - ns)/d) + 1` -/
def resize1 (d start ns ne : Int) (v : List XVal) : List XVal :=
  let v1 := shiftStart (roundDiv (ns - start) d) v
  shiftEnd (roundDiv (ne - ns) d + 1 - (v1.length : Int)) v1

/-- the code before f5e4157 (finding F26): the end adjustment was taken relative to the old end -/
def resize1Legacy (d start stop ns ne : Int) (v : List XVal) : List XVal :=
  shiftEnd (roundDiv (ne - stop) d) (shiftStart (roundDiv (ns - start) d) v)

/-- `resize(start, stop)` as coded (pi.py, after the repairs f5e4157 / c8258f8); `none` =
    `ValueError` (nonequidistant series cannot grow).  The time stamps follow the values;
    `fcIndex` is left untouched by the code. -/
def resize (ns ne : Int) (s : Store) : Option Store :=
  match s.dt with
  | some d =>
    some { s with start := ns, stop := ne,
                  times := gridTimes ns d (roundDiv (ne - ns) d + 1).toNat,
                  slots := mapVals (resize1 d s.start ns ne) s.slots }
  | none =>
    if ns < s.start ∨ s.stop < ne then none else
    let a : Int := (bisectLeft s.times ns : Int) - (bisectLeft s.times s.start : Int)
    let b : Int := (bisectLeft s.times ne : Int) - (bisectLeft s.times s.stop : Int)
    some { s with start := ns, stop := ne,
                  times := (s.times.take (bisectLeft s.times ne + 1)).drop (bisectLeft s.times ns),
                  slots := mapVals (fun v => shiftEnd b (shiftStart a v)) s.slots }

/-- `set(variable, values, unit, ensemble_member)`: the member's dict must exist (`IndexError`
    otherwise); the array is stored as given, whatever its length -/
def setSeries (m : Nat) (e : Entry) (s : Store) : Option Store :=
  if m < s.slots.length then some { s with slots := s.slots.modify m (upsert e) } else none

/-- a sequence of `resize` calls -/
def resizeSeq : List (Int × Int) → Store → Option Store
  | [], s => some s
  | w :: ws, s =>
    match resize w.1 w.2 s with
    | none => none
    | some s' => resizeSeq ws s'

/-! ## CSV: `%f` printing and parsing -/

/-- the decimal with six digits after the point nearest to `x`: what `"%f" % x` prints (correctly
    rounded, ties to even — e.g. `1/128 = 0.0078125` prints as `0.007812`) and `float()` parses -/
def round6 (x : Rat) : Rat := (pyRound (x * 1000000) : Rat) / 1000000

/-! ## NetCDF time axis (`ExportDataset.write_times` / `ImportDataset.read_import_times`) -/

def minList : List Int → Option Int
  | [] => none
  | x :: l => match minList l with
    | none => some x
    | some m => some (if x < m then x else m)

/-- values written to the `time` variable and the reference date of its unit string
    (`seconds since <reference>`); `none`: `np.min` of an empty array raises.
    `ft` = forecast time in seconds, `fd` = forecast date (repaired code, commit 2e78bfd). -/
def ncWriteTimes (times : List Int) (ft fd : Int) : Option (List Int × Int) :=
  match minList times with
  | none => none
  | some m => if m < 0 then some (times.map (· - m), fd - ft + m) else some (times, fd - ft)

/-- the code before 2e78bfd (finding F40): without a negative time the forecast time was ignored -/
def ncWriteTimesLegacy (times : List Int) (ft fd : Int) : Option (List Int × Int) :=
  match minList times with
  | none => none
  | some m => if m < 0 then some (times.map (· - m), fd - (ft - m)) else some (times, fd)

/-- the date-times `num2date` makes of the written axis -/
def ncReadTimes (w : List Int × Int) : List Int := w.1.map (· + w.2)

/-! ## ParameterConfig -/

inductive PVal where
  | bool (b : Bool)
  | int (i : Int)
  | dbl (x : XVal)
  | str (s : String)
deriving DecidableEq, Repr

structure PKey where
  group : Nat
  loc : Option Nat
  model : Option Nat
  par : Nat
deriving DecidableEq, Repr

/-- what the user hands to `set` -/
inductive PArg where
  | bool (b : Bool)
  | int (i : Int)
  | dbl (x : Rat)          -- a finite float
deriving DecidableEq, Repr

structure PGroup where
  id : Nat
  loc : Option Nat
  model : Option Nat
  pars : List (Nat × PVal)
deriving DecidableEq, Repr

abbrev PConf := List PGroup

/-- does the group pass the optional location / model filter of `get`/`set`? -/
def PGroup.passes (g : PGroup) (gid : Nat) (loc model : Option Nat) : Bool :=
  g.id == gid &&
  (match loc, g.loc with
   | some l, some gl => l == gl
   | _, _ => true) &&
  (match model, g.model with
   | some m, some gm => m == gm
   | _, _ => true)

def findPar (p : Nat) : List (Nat × PVal) → Option PVal
  | [] => none
  | (k, v) :: l => if k = p then some v else findPar p l

/-- `ParameterConfig.get`: the first group passing the filters decides (KeyError if it lacks the
    parameter) -/
def pget (c : PConf) (gid : Nat) (p : Nat) (loc model : Option Nat) : Option PVal :=
  match c with
  | [] => none
  | g :: rest => if g.passes gid loc model then findPar p g.pars else pget rest gid p loc model

/-- value stored by `set` into an element of the given type: `boolValue` accepts only
    `True`/`False`; `intValue` stores `int(new_value)` (truncation toward zero);
    `dblValue` stores `str(new_value)`; `stringValue` is not supported by `set`. -/
def coerce (old : PVal) (a : PArg) : Option PVal :=
  match old, a with
  | .bool _, .bool b => some (.bool b)
  | .bool _, _ => none
  | .int _, .bool b => some (.int (if b then 1 else 0))
  | .int _, .int i => some (.int i)
  | .int _, .dbl x => some (.int (if 0 ≤ x then x.floor else -((-x).floor)))
  | .dbl _, .bool _ => none      -- the code stores `str(True)`, which `get` cannot parse: not modelled
  | .dbl _, .int i => some (.dbl (XVal.fin i))
  | .dbl _, .dbl x => some (.dbl (XVal.fin x))
  | .str _, _ => none

def setPar (p : Nat) (v : PVal) : List (Nat × PVal) → List (Nat × PVal)
  | [] => []
  | (k, w) :: l => if k = p then (k, v) :: l else (k, w) :: setPar p v l

/-- `ParameterConfig.set`; `none` = KeyError / unsupported -/
def pset (c : PConf) (gid : Nat) (p : Nat) (a : PArg) (loc model : Option Nat) : Option PConf :=
  match c with
  | [] => none
  | g :: rest =>
    if g.passes gid loc model then
      match findPar p g.pars with
      | none => none
      | some old =>
        match coerce old a with
        | none => none
        | some v => some ({ g with pars := setPar p v g.pars } :: rest)
    else (pset rest gid p a loc model).map (g :: ·)

/-! ## DataConfig id mapping -/

structure ExtId where
  loc : Nat
  par : Nat
  quals : List Nat          -- in file order
deriving DecidableEq, Repr

def insertNat (x : Nat) : List Nat → List Nat
  | [] => [x]
  | y :: l => if x ≤ y then x :: y :: l else y :: insertNat x l

def sortNat : List Nat → List Nat
  | [] => []
  | x :: l => insertNat x (sortNat l)

/-- `location:parameter[:sorted qualifiers]` -/
def ExtId.key (e : ExtId) : Nat × Nat × List Nat := (e.loc, e.par, sortNat e.quals)

/-- rtcDataConfig: `(internal id, external id)` pairs in file order -/
abbrev DataConfig := List (Nat × ExtId)

/-- the constructor rejects a second mapping of an internal id or of an external key -/
def dcValid : DataConfig → Bool
  | [] => true
  | (i, e) :: l => !(l.any (fun p => p.1 == i)) && !(l.any (fun p => p.2.key == e.key)) && dcValid l

/-- `DataConfig.variable(header)`: internal id of a header, `none` = unmapped (the code then uses
    the external key itself) -/
def dcVariable (c : DataConfig) (h : ExtId) : Option Nat :=
  (c.find? (fun p => p.2.key == h.key)).map (·.1)

/-- `DataConfig.pi_variable_ids(variable)` -/
def dcIds (c : DataConfig) (v : Nat) : Option ExtId :=
  (c.find? (fun p => p.1 == v)).map (·.2)

end RtcVerif.C11
