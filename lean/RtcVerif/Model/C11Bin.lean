import RtcVerif.Model.C11
/-!
# C11 — third-party PI binary files: how missing samples are stored and recognised

A tool such as FEWS writes a missing sample of a binary series as the header's `missVal` converted
to the storage type (float32, the abstract conversion `r32`).  The reader compares the float32
array with the Python float `missVal`; numpy performs that comparison in the array's type, i.e.
against `r32 missVal`.  At record level `Hdr.miss` therefore is the missVal *in the storage type of
the array it is compared with* (`r32 missVal` for binary files, `missVal` itself for XML events).
Core Lean only.
-/
namespace RtcVerif.C11

/-- the float32 samples a third-party writer stores for a series: `none` = missing -/
def encodeBin (r32 : XVal → XVal) (miss : XVal) (xs : List (Option XVal)) : List XVal :=
  xs.map (fun o => match o with
    | none => r32 miss
    | some x => r32 x)

/-- what the caller of the reader must see: missing samples are NaN, the others the stored values -/
def decodedBin (r32 : XVal → XVal) (xs : List (Option XVal)) : List XVal :=
  xs.map (fun o => match o with
    | none => XVal.nan
    | some x => r32 x)

/-- the missVal as the reader compares it -/
def missStored (r32 : XVal → XVal) (binary : Bool) (miss : XVal) : XVal := if binary then r32 miss else miss

/-- a conversion that, like float32, does not represent -999.9 exactly (float32(-999.9) = -8191181/8192);
    used by the witness theorem only -/
def r32Witness (x : XVal) : XVal := if x = XVal.fin (-9999 / 10) then XVal.fin (-8191181 / 8192) else x

end RtcVerif.C11
