import RtcVerif.Model.C11
/-!
# C11 — record-level model of `rtctools.data.csv` (`save` / `load`)

Record level: a file is a header (column names) and rows of cells; a cell is empty, a time stamp
or the text of a number (decimal point or decimal comma).  `np.savetxt` / `np.genfromtxt` apply the
format list / the converter table per column (trusted libraries, tied by the correspondence run);
what `csv.py` itself decides is modelled here: the format list, which column gets which converter
(delimiter and decimal-comma detection), the NaN filling values of the float-converted columns
(finding F50), the comma replacement of `_string_to_float`.  Core Lean only.
-/
namespace RtcVerif.C11

inductive Fmt where
  | s      -- `%s`
  | f      -- `%f`
deriving DecidableEq, Repr

inductive Conv where
  | time   -- `_string_to_datetime`
  | flt    -- `_string_to_float`
deriving DecidableEq, Repr

inductive Cell where
  | empty
  | time (t : Int)
  | num (x : XVal) (comma : Bool)    -- number text; `comma`: written with a decimal comma
deriving DecidableEq, Repr

/-- `save`: the `fmt` list handed to `np.savetxt` for `ncols` columns -/
def fmtList (withTime : Bool) (ncols : Nat) : List Fmt :=
  if withTime then [Fmt.s] ++ List.replicate (ncols - 1) Fmt.f else List.replicate ncols Fmt.f

/-- `"%f" % x`: six decimals for finite values, `nan` / `inf` texts otherwise -/
def print6X : XVal → XVal
  | .e (EVal.fin q) => XVal.fin (round6 q)
  | v => v

/-- one cell through its column format -/
def saveCell : Fmt → Cell → Cell
  | .f, .num x _ => .num (print6X x) false
  | _, c => c

/-- `load`: the converter table `c` (column index ↦ converter).  `nSemi` = number of `;` in the
    header line, `nComma` = number of `,` in the 1024 bytes after it. -/
def convTable (withTime semicolon : Bool) (nSemi nComma : Nat) : List (Nat × Conv) :=
  let c0 : List (Nat × Conv) := if withTime then [(0, Conv.time)] else []
  if semicolon && nComma != 0 then
    c0 ++ (List.range (1 + nSemi - c0.length)).map (fun i => (i + c0.length, Conv.flt))
  else c0

/-- keys of `filling_values` (repaired code, commit 3e65d4f): the float-converted columns -/
def fillKeys (c : List (Nat × Conv)) : List Nat := (c.filter (fun kv => kv.2 == Conv.flt)).map (·.1)

/-- `_string_to_float`: `,` ↦ `.`, then `float()` (`none`: not a number text) -/
def strToFloat : Cell → Option XVal
  | .num x _ => some x
  | _ => none

/-- a cell of a float-converted column as `genfromtxt` loads it: an empty cell gives the filling
    value (NaN when the column is among the filling keys; numpy's default for a converter column,
    0.0, otherwise — finding F50), other cells go through the converter -/
def loadFltCell (filled : Bool) : Cell → Option XVal
  | .empty => some (if filled then XVal.nan else XVal.fin 0)
  | c => strToFloat c

end RtcVerif.C11
