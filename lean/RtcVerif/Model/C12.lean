import RtcVerif.Model.Num
/-!
# C12 — one time axis relative to t0; exports at the right times

Model of `data/storage.py` (`DataStore`: datetimes ↔ seconds fixed by the reference datetime,
per-member series), `optimization/io_mixin.py` (`times()`, `history`, `set_timeseries`
alignment, bounds from `<var>_Min/_Max`) and the time axes of the three export writers.

Date-times and offsets are integer seconds.  Values are `XVal`.  Core Lean only.
-/
namespace RtcVerif.C12

def nans (n : Nat) : List XVal := List.replicate n XVal.nan

/-- `bisect.bisect_left` on an increasing list: number of entries `< x` -/
def bisectLeft : List Int → Int → Nat
  | [], _ => 0
  | y :: l, x => if y < x then bisectLeft l x + 1 else 0

/-! ## DataStore -/

/-- `DataStore.times_sec`: `(t - reference).total_seconds()` for every import datetime; the
    reference datetime must be one of them (otherwise the code raises) -/
def timesSec (dts : List Int) (ref : Int) : Option (List Int) :=
  if ref ∈ dts then some (dts.map (· - ref)) else none

/-- per-member association lists `variable ↦ values` -/
abbrev Series := List (Nat × List XVal)
abbrev Store := List Series

def sget (v : Nat) : Series → Option (List XVal)
  | [] => none
  | (k, x) :: l => if k = v then some x else sget v l

def sset (v : Nat) (x : List XVal) : Series → Series
  | [] => [(v, x)]
  | (k, y) :: l => if k = v then (k, x) :: l else (k, y) :: sset v x l

/-- `io.set_timeseries(variable, datetimes, values, ensemble_member)` on a store whose datetimes
    are `dts`: the length must match; the store grows to `member + 1` members -/
def ioSet (n : Nat) (st : Store) (m v : Nat) (x : List XVal) : Option Store :=
  if x.length ≠ n then none else
  let st' := st ++ List.replicate (m + 1 - st.length) []
  some (st'.modify m (sset v x))

/-- `io.get_timeseries_sec(variable, ensemble_member)`: `KeyError` for a missing member/variable -/
def ioGet (st : Store) (m v : Nat) : Option (List XVal) :=
  match st[m]? with
  | none => none
  | some s => sget v s

/-- value of a series given as parallel lists at stamp `t` (`none` if `t` is not a stamp) -/
def lookupAt : List Int → List XVal → Int → Option XVal
  | t0 :: ts, v0 :: vs, t => if t0 = t then some v0 else lookupAt ts vs t
  | _, _, _ => none

/-! ## IOMixin: horizon and history -/

/-- `times()`: the stamps from the reference datetime on -/
def horizon (ts : List Int) : List Int := ts.drop (bisectLeft ts 0)

/-- `history`: stamps and values up to and including t0 (`initial_time = 0`) -/
def histLen (ts : List Int) : Nat := bisectLeft ts 0 + 1

def history (ts : List Int) (vals : List XVal) : List Int × List XVal :=
  (ts.take (histLen ts), vals.take (histLen ts))

/-- bounds from a `<var>_Min` / `<var>_Max` series: the part from t0 on, NaN replaced by ∓float-max
    (`big` stands for `np.finfo(float).max`) -/
def boundSeries (ts : List Int) (vals : List XVal) (lower : Bool) (big : Rat) : List Int × List XVal :=
  let k := bisectLeft ts 0
  (ts.drop k, (vals.drop k).map (fun v => if v = XVal.nan then XVal.fin (if lower then -big else big) else v))

/-! ## IOMixin.set_timeseries -/

inductive Arg where
  | ts (times : List Int) (values : List XVal)   -- a `Timeseries` with its own stamps
  | arr (values : List XVal)                     -- a bare array
deriving DecidableEq, Repr

/-- `new_values[t_pos : t_pos + len(values)] = values` on an all-NaN array of length `n`;
    NumPy rejects the assignment when the slice is shorter than `values` — except for a single
    value, which broadcasts into the (then empty) slice and changes nothing -/
def stretch (n : Nat) (tpos : Nat) (values : List XVal) : Option (List XVal) :=
  if tpos + values.length ≤ n then some (nans tpos ++ values ++ nans (n - tpos - values.length))
  else if values.length = 1 then some (nans n) else none

/-- `values[np.searchsorted(ts, times)] = vals` on an all-NaN array (later duplicates win) -/
def scatter (ts : List Int) : List Int → List XVal → List XVal → List XVal
  | t :: times, v :: vals, acc => scatter ts times vals (acc.set (bisectLeft ts t) v)
  | _, _, acc => acc

/-- the values stored by `set_timeseries` (repaired code, commit 614ae95: every value goes to the
    index of its own stamp); `none` = `ValueError`/`IndexError` -/
def setTs (ts : List Int) (arg : Arg) (check : Bool) : Option (List XVal) :=
  match arg with
  | .ts times values =>
    if values.length ≠ times.length then none
    else if times = ts then some values
    else
      let subset := times.all (fun t => ts.contains t)
      if check && !subset then none
      else
        match times with
        | [] => none                      -- `timeseries.times[0]`
        | t0 :: _ =>
          if subset then some (scatter ts times values (nans ts.length))
          else stretch ts.length (bisectLeft ts t0) values
  | .arr values =>
    if check && (horizon ts).length != values.length then none
    else stretch ts.length (bisectLeft ts 0) values

/-- the code before 614ae95 (finding F15): values of a Timeseries were placed contiguously from
    the position of its first stamp -/
def setTsLegacy (ts : List Int) (arg : Arg) (check : Bool) : Option (List XVal) :=
  match arg with
  | .ts times values =>
    if values.length ≠ times.length then none
    else if times = ts then some values
    else
      let subset := times.all (fun t => ts.contains t)
      if check && !subset then none
      else
        match times with
        | [] => none
        | t0 :: _ => stretch ts.length (bisectLeft ts t0) values
  | .arr values =>
    if check && (horizon ts).length != values.length then none
    else stretch ts.length (bisectLeft ts 0) values

/-! ## export time axes -/

/-- CSV and PI writers: one row per stamp of `times()`, labelled `reference + seconds` -/
def exportStamps (ref : Int) (ts : List Int) : List Int := (horizon ts).map (· + ref)

def exportRows (ref : Int) (ts : List Int) (results : List XVal) : List (Int × XVal) :=
  (exportStamps ref ts).zip results

/-- NetCDF writer (`netcdf_mixin.write` + `ExportDataset.write_times`): seconds of *all* import
    stamps relative to the first one, labelled relative to `reference - initial_time`
    (`initial_time = 0`); the axis values are shifted when negative (never here) -/
def ncExportStamps (dts : List Int) (ref : Int) : List Int :=
  match dts with
  | [] => []
  | d0 :: _ => dts.map (fun d => ref + (d - d0))

/-! ## simulation IOMixin -/

/-- index of the input row fed to the model at time `t` -/
def simInputIndex (ts : List Int) (t : Int) : Nat := bisectLeft ts t

/-- times recorded by `initialize` + `k` calls of `update(dt)`: `0, dt, 2dt, …` -/
def simTimes (dt : Int) (k : Nat) : List Int := (List.range (k + 1)).map (fun (i : Nat) => (i : Int) * dt)

end RtcVerif.C12
