import RtcVerif.Model.C12
/-!
# C12 — which slice of the data store each `IOMixin` accessor hands out, and on which stamps

Model of the per-variable bodies of optimisation `IOMixin.bounds / history / seed / constant_inputs /
parameters`, of `DataStore.set_timeseries / get_timeseries_sec`, and of the feed / record order of
simulation `IOMixin.initialize / update`.  These are the functions the generated module
`Gen/IoSlices.lean` (harness/translate_c12.py, `gen_io_slices`) is proved equal to.  Core Lean only.
-/
namespace RtcVerif.C12

/-- name of a stored series relative to a model variable `v`: `v`, `v_Min`, `v_Max` -/
inductive Key where
  | var | min | max
deriving DecidableEq, Repr

/-- a series with its stamps (`Timeseries(times, values)`; the constructor copies the values) -/
abbrev Ser := List Int × List XVal

/-- `self.io.get_timeseries_sec(<name>, member)[1]` for the variable at hand; `none` = `KeyError` -/
abbrev Getter := Nat → Key → Option (List XVal)

/-- entry of the returned dictionary for one variable: the parent's entry (possibly absent) is kept,
    or it is REPLACED by what was built from the import series -/
inductive Entry (β σ : Type) where
  | inherited (b : Option β)
  | io (s : σ)
deriving DecidableEq, Repr

/-- role lists of `dae_variables` a loop runs over -/
inductive Role where
  | states | algebraics | controlInputs | constantInputs | freeVariables
deriving DecidableEq, Repr

def replNan (r : Rat) (v : XVal) : XVal := if v = XVal.nan then XVal.fin r else v

/-! ## optimisation IOMixin -/

/-- one side of `bounds()[v]`: the series `v_Min` / `v_Max` of member 0 from t0 on, NaN ↦ ∓big -/
def boundSide (ts : List Int) (get : Getter) (lower : Bool) (big : Rat) : Option Ser :=
  (get 0 (if lower then Key.min else Key.max)).map (fun vals => boundSeries ts vals lower big)

/-- `bounds()[v]`: replaced by the pair `(m, M)` as soon as one of the two series exists (finding F5:
    replaced, not intersected with the parent's entry) -/
def boundsEntry {β : Type} (ts : List Int) (get : Getter) (big : Rat) (parent : Option β) :
    Entry β (Option Ser × Option Ser) :=
  if ((boundSide ts get true big).isSome || (boundSide ts get false big).isSome) = true then
    Entry.io (boundSide ts get true big, boundSide ts get false big)
  else Entry.inherited parent

/-- the stored `v_Min` / `v_Max` values after `bounds()` ran: untouched (repair b3e6111, finding F46) -/
def boundsStoreAfter (_ts : List Int) (vals : List XVal) (_lower : Bool) (_big : Rat) : List XVal := vals

def boundsRoles : List Role := [Role.freeVariables]

/-- `history(m)[v]`: the stored series of member `m` up to and including t0 -/
def historyEntry {β : Type} (ts : List Int) (get : Getter) (m : Nat) (parent : Option β) : Entry β Ser :=
  match get m Key.var with
  | none => Entry.inherited parent
  | some vals => Entry.io (history ts vals)

def historyRoles : List Role := [Role.states, Role.algebraics, Role.controlInputs, Role.constantInputs]

/-- `seed(m)[v]`: the whole stored series of member `m` on ALL import stamps, NaN ↦ 0 -/
def seedEntry {β : Type} (ts : List Int) (get : Getter) (m : Nat) (parent : Option β) : Entry β Ser :=
  match get m Key.var with
  | none => Entry.inherited parent
  | some vals => Entry.io (ts, vals.map (replNan 0))

def seedRoles : List Role := [Role.freeVariables]

/-- `values[mask]` -/
def maskSel : List Bool → List XVal → List XVal
  | b :: bs, v :: vs => if b then v :: maskSel bs vs else maskSel bs vs
  | _, _ => []

/-- `constant_inputs(m)[v]`: the whole stored series of member `m` on all import stamps; a NaN at or
    after t0 raises (`none`) -/
def constInputEntry {β : Type} (ts : List Int) (get : Getter) (m : Nat) (parent : Option β) :
    Option (Entry β Ser) :=
  match get m Key.var with
  | none => some (Entry.inherited parent)
  | some vals =>
    if ((maskSel (ts.map (fun t => decide (0 ≤ t))) vals).any (fun v => decide (v = XVal.nan))) = true then none
    else some (Entry.io (ts, vals))

def constInputRoles : List Role := [Role.constantInputs]

/-- association lists for parameter dictionaries -/
def aget {α : Type} (k : Nat) : List (Nat × α) → Option α
  | [] => none
  | (k', x) :: l => if k' = k then some x else aget k l

def aset {α : Type} (k : Nat) (x : α) : List (Nat × α) → List (Nat × α)
  | [] => [(k, x)]
  | (k', y) :: l => if k' = k then (k', x) :: l else (k', y) :: aset k x l

/-- `parameters(m)`: the parent's dictionary, every parameter of the data store (member `m`) written over it -/
def parametersMerge {α : Type} (parent : List (Nat × α)) (io : List (Nat × α)) : List (Nat × α) :=
  io.foldl (fun acc kv => aset kv.1 kv.2 acc) parent

/-! ## DataStore -/

/-- `DataStore.set_timeseries` statement by statement (`self.__ensemble_size` = number of per-member
    stores; `grow` = `__update_ensemble_size`) -/
def grow' (st : Store) (n : Nat) : Store := st ++ List.replicate (n - st.length) []

def ioSetRef (n : Nat) (st : Store) (m v : Nat) (x : List XVal) : Option Store :=
  if n ≠ x.length then none
  else some ((if m ≥ st.length then grow' st (m + 1) else st).modify m (sset v x))

/-- `DataStore.get_timeseries_sec` statement by statement -/
def ioGetRef (st : Store) (m v : Nat) : Option (List XVal) :=
  if m ≥ st.length then none else (st[m]?).bind (sget v)

/-! ## simulation IOMixin: what is fed before a step and which stamp a recorded row belongs to -/

structure SimSt where
  dtImport : Int
  time : Int                   -- `get_current_time()`
  stamps : List Int            -- `_simulation_times`
  fed : List (Nat × Int)       -- (import row fed to the model, model time at that moment), one per solve
  recorded : List Int          -- model time at which each row of the output was read
deriving DecidableEq, Repr

/-- `initialize()`: import step from the first two stamps (`IndexError` on a shorter axis), experiment
    from 0, row of stamp 0 fed, stamp 0 listed, model initialised, outputs read -/
def simInit (ts : List Int) : Option SimSt :=
  match ts with
  | a :: b :: _ =>
    some { dtImport := b - a, time := 0, stamps := [0], fed := [(bisectLeft ts 0, 0)], recorded := [0] }
  | _ => none

/-- `update(dt)`: default step for `dt < 0`; stamp `t + dt` listed; the row of stamp `t + dt` fed;
    the model stepped by `dt`; outputs read -/
def simUpdate (ts : List Int) (s : SimSt) (dtArg : Int) : SimSt :=
  let dt := if dtArg < 0 then s.dtImport else dtArg
  { s with
    time := s.time + dt
    stamps := s.stamps ++ [s.time + dt]
    fed := s.fed ++ [(bisectLeft ts (s.time + dt), s.time)]
    recorded := s.recorded ++ [s.time + dt] }

def simRun (ts : List Int) (dts : List Int) : Option SimSt :=
  (simInit ts).map (fun s => dts.foldl (simUpdate ts) s)

/-- `__set_input_variables`: the value of row `idx` is set on the model when finite, skipped otherwise;
    `none` = `IndexError` (a step past the last import stamp) -/
def feedValue (vals : List XVal) (idx : Nat) : Option (Option XVal) :=
  match vals[idx]? with
  | none => none
  | some v => some (if v.isFinite then some v else none)

/-! ## binary PI export: header order against record order -/

/-- a series of the export: (ensemble member, variable) -/
abbrev SKey := Nat × Nat

/-- `<series>` headers of a NEW export file in document order: member by member, the (sorted) variables
    of the member inside (`vars m`) -/
def headerOrder (vars : Nat → List Nat) (E : Nat) : List SKey :=
  (List.range E).flatMap (fun m => (vars m).map (fun v => (m, v)))

/-- order in which the blocks of float32 records are appended to the `.bin`: member by member; for one
    member the series in document order whose `ensembleMemberIndex` is that member -/
def recordOrder (hs : List SKey) (E : Nat) : List SKey :=
  (List.range E).flatMap (fun m => hs.filter (fun h => decide (h.1 = m)))

/-- the blocks of the `.bin` in file order (`val k` = the values of series `k`) -/
def binBlocks {α : Type} (hs : List SKey) (E : Nat) (val : SKey → α) : List α := (recordOrder hs E).map val

/-- how the format is read: the `j`-th header owns the `j`-th block -/
def binDecode {α : Type} : List SKey → List α → SKey → Option α
  | h :: hs, b :: bs, k => if h = k then some b else binDecode hs bs k
  | _, _, _ => none

end RtcVerif.C12
