import RtcVerif.Model.Num
/-!
# Model for C13 — aliases are transparent

Mirrors `rtctools/_internal/alias_tools.py` (`AliasDict`) and the alias handling of
`SimulationProblem.get_var / set_var` (simulation_problem.py: index map with signs, nominal
dictionary).

* `Rel`      — pymoca's `AliasRelation.canonical_signed`, abstractly: `VName → VName × Sign`.
* `NegVal`   — a value type with Python's unary minus as `AliasDict` applies it (`neg`) and the
               acceptance test of `__setitem__` (`ok`: tuples must have length 2).
* `PyDict`   — an insertion-ordered Python `dict` keyed by (canonical) names.
* `ADict`    — `AliasDict`: `signedValues` flag + the private dict `__d`.
* `step/run` — an operation machine over two dictionaries (`cur`, the one operated on, and `alt`,
               the last copy taken) covering `set, get, del, contains, len, iter/keys, values,
               items, update, setdefault, get(default), copy`.
* `Sim`      — the scaled state vector with its signed index map and unsigned nominal dictionary.

Core Lean only.
-/
namespace RtcVerif.C13

abbrev VName := String

inductive Sign where
  | pos
  | neg
deriving DecidableEq, Repr, Inhabited

namespace Sign
def mul : Sign → Sign → Sign
  | pos, s => s
  | neg, pos => neg
  | neg, neg => pos
instance : Mul Sign := ⟨mul⟩
def toInt : Sign → Int
  | pos => 1
  | neg => -1
end Sign

/-- `AliasRelation.canonical_signed` -/
abbrev Rel := VName → VName × Sign

/-- the canonical name of the canonical name is itself, with sign `+` -/
def Rel.Idem (r : Rel) : Prop := ∀ n, r (r n).1 = ((r n).1, Sign.pos)

/-- Values as `AliasDict` treats them: `neg` is what `__setitem__/__getitem__` do under a negative
    sign (tuple: swap and negate; list: element-wise; anything else: unary minus); `ok` is the
    `assert len(val) == 2` of `__setitem__`. -/
class NegVal (V : Type) where
  neg : V → V
  ok : V → Bool

export NegVal (neg ok)

def signed {V : Type} [NegVal V] : Sign → V → V
  | .pos, v => v
  | .neg, v => neg v

/-! ## Python dict (insertion ordered) -/

abbrev PyDict (V : Type) := List (VName × V)

namespace PyDict
variable {V : Type}

def get : PyDict V → VName → Option V
  | [], _ => none
  | (k', v) :: rest, k => if k' = k then some v else get rest k

/-- `d[k] = v`: an existing key keeps its position, a new key is appended -/
def set : PyDict V → VName → V → PyDict V
  | [], k, v => [(k, v)]
  | (k', v') :: rest, k, v => if k' = k then (k', v) :: rest else (k', v') :: set rest k v

def del : PyDict V → VName → PyDict V
  | [], _ => []
  | (k', v') :: rest, k => if k' = k then rest else (k', v') :: del rest k

def has (d : PyDict V) (k : VName) : Bool := (get d k).isSome

def keys (d : PyDict V) : List VName := d.map Prod.fst
def values (d : PyDict V) : List V := d.map Prod.snd

end PyDict

/-! ## AliasDict -/

structure ADict (V : Type) where
  signedValues : Bool
  d : PyDict V
deriving Repr

inductive Err where
  | keyError
  | assertion
deriving DecidableEq, Repr

variable {V : Type} [NegVal V]

/-- `AliasDict.__canonical_signed` -/
def csigned (r : Rel) (sv : Bool) (k : VName) : VName × Sign :=
  if sv then r k else ((r k).1, Sign.pos)

namespace ADict

def empty (sv : Bool) : ADict V := ⟨sv, []⟩

/-- `__setitem__` -/
def set (r : Rel) (a : ADict V) (k : VName) (v : V) : Except Err (ADict V) :=
  if ok v then
    .ok { a with d := a.d.set (csigned r a.signedValues k).1 (signed (csigned r a.signedValues k).2 v) }
  else .error .assertion

/-- `__getitem__` -/
def get (r : Rel) (a : ADict V) (k : VName) : Except Err V :=
  match a.d.get (csigned r a.signedValues k).1 with
  | some v => .ok (signed (csigned r a.signedValues k).2 v)
  | none => .error .keyError

/-- `__delitem__` -/
def del (r : Rel) (a : ADict V) (k : VName) : Except Err (ADict V) :=
  if a.d.has (csigned r a.signedValues k).1 then
    .ok { a with d := a.d.del (csigned r a.signedValues k).1 }
  else .error .keyError

/-- `__contains__` -/
def contains (r : Rel) (a : ADict V) (k : VName) : Bool :=
  a.d.has (csigned r a.signedValues k).1

def len (a : ADict V) : Nat := a.d.length
def keys (a : ADict V) : List VName := a.d.keys
def values (a : ADict V) : List V := a.d.values
def items (a : ADict V) : List (VName × V) := a.d

/-- `update(other)`: item by item; an `AssertionError` leaves the items already stored -/
def update (r : Rel) : ADict V → List (VName × V) → ADict V × Option Err
  | a, [] => (a, none)
  | a, (k, v) :: rest =>
    match set r a k v with
    | .ok a' => update r a' rest
    | .error e => (a, some e)

/-- `get(key, default)` -/
def getD (r : Rel) (a : ADict V) (k : VName) (dflt : V) : V :=
  if contains r a k then
    match get r a k with
    | .ok v => v
    | .error _ => dflt
  else dflt

/-- `setdefault(key, default)` -/
def setdefault (r : Rel) (a : ADict V) (k : VName) (dflt : V) : Except Err (ADict V × V) :=
  if contains r a k then
    match get r a k with
    | .ok v => .ok (a, v)
    | .error e => .error e
  else
    match set r a k dflt with
    | .ok a' => .ok (a', dflt)
    | .error e => .error e

/-- `copy()` -/
def copy (a : ADict V) : ADict V := ⟨a.signedValues, a.d⟩

end ADict

/-! ## Operation machine -/

inductive Op (V : Type) where
  | set (k : VName) (v : V)
  | get (k : VName)
  | del (k : VName)
  | contains (k : VName)
  | len
  | keys
  | values
  | items
  | update (kvs : List (VName × V))
  | setdefault (k : VName) (v : V)
  | getD (k : VName) (v : V)
  | copy
  | swap
deriving Repr

inductive Out (V : Type) where
  | unit
  | val (v : V)
  | err (e : Err)
  | bool (b : Bool)
  | nat (n : Nat)
  | names (l : List VName)
  | vals (l : List V)
  | items (l : List (VName × V))
deriving Repr

/-- the dictionary operated on and the last copy taken of it -/
structure St (V : Type) where
  cur : ADict V
  alt : ADict V

def step (r : Rel) (s : St V) : Op V → St V × Out V
  | .set k v =>
    match s.cur.set r k v with
    | .ok a => ({ s with cur := a }, .unit)
    | .error e => (s, .err e)
  | .get k =>
    match s.cur.get r k with
    | .ok v => (s, .val v)
    | .error e => (s, .err e)
  | .del k =>
    match s.cur.del r k with
    | .ok a => ({ s with cur := a }, .unit)
    | .error e => (s, .err e)
  | .contains k => (s, .bool (s.cur.contains r k))
  | .len => (s, .nat s.cur.len)
  | .keys => (s, .names s.cur.keys)
  | .values => (s, .vals s.cur.values)
  | .items => (s, .items s.cur.items)
  | .update kvs =>
    match s.cur.update r kvs with
    | (a, none) => ({ s with cur := a }, .unit)
    | (a, some e) => ({ s with cur := a }, .err e)
  | .setdefault k v =>
    match s.cur.setdefault r k v with
    | .ok (a, w) => ({ s with cur := a }, .val w)
    | .error e => (s, .err e)
  | .getD k v => (s, .val (s.cur.getD r k v))
  | .copy => ({ s with alt := s.cur.copy }, .items s.cur.copy.items)
  | .swap => (⟨s.alt, s.cur⟩, .unit)

def run (r : Rel) : St V → List (Op V) → St V × List (Out V)
  | s, [] => (s, [])
  | s, op :: ops =>
    let (s1, o) := step r s op
    let (s2, os) := run r s1 ops
    (s2, o :: os)

/-! ## Concrete values: numbers, Timeseries, bound tuples, lists -/

def xneg : XVal → XVal
  | .nan => .nan
  | .e v => .e v.neg

/-- things with a unary minus: a float (incl. nan/inf) or a `Timeseries` -/
inductive Atom where
  | num (x : XVal)
  | ts (times : List Rat) (vals : List XVal)
deriving DecidableEq, Repr

def Atom.neg : Atom → Atom
  | .num x => .num (xneg x)
  | .ts t v => .ts t (v.map xneg)

/-- a tuple side is optional: `none` is Python's `None`, a missing (unbounded) side of a bound pair -/
inductive Val where
  | atom (a : Atom)
  | tup (xs : List (Option Atom))
  | list (xs : List Atom)
deriving DecidableEq, Repr

/-- a tuple is `(-val[1] if val[1] is not None else None, -val[0] if val[0] is not None else None)`
    (stated for every length as reverse-and-negate, a missing side staying missing; only 2-tuples are
    ever stored), a list `[-x for x in val]`, anything else `-val` -/
def Val.neg : Val → Val
  | .atom a => .atom a.neg
  | .tup xs => .tup (xs.reverse.map (Option.map Atom.neg))
  | .list xs => .list (xs.map Atom.neg)

/-- the value map of `__setitem__` / `__getitem__` under a negative sign BEFORE the repair of F56:
    `(-val[1], -val[0])` applies unary minus to `None`; `none` = `TypeError` -/
def Val.negLegacy : Val → Option Val
  | .tup xs => if xs.all Option.isSome then some (Val.neg (.tup xs)) else none
  | v => some v.neg

def Val.ok : Val → Bool
  | .tup xs => xs.length == 2
  | _ => true

instance : NegVal Val := ⟨Val.neg, Val.ok⟩

/-- plain rationals (nominals, state-vector entries) -/
instance : NegVal Rat := ⟨fun q => -q, fun _ => true⟩

/-! ## Simulation state vector (`get_var` / `set_var`) -/

/-- `slot c` is the position of the model symbol `c` in the state vector (`__sym_dict` order);
    entries with position `≤ nStates` are stored divided by their nominal. -/
structure Sim where
  vec : List Rat
  nStates : Nat
  slot : VName → Option Nat
  nominals : ADict Rat

/-- `__indices[name]`: position of the symbol the name is an alias of, with the relative sign -/
def Sim.index (r : Rel) (s : Sim) (name : VName) : Option (Nat × Sign) :=
  match s.slot (r name).1 with
  | some i => some (i, (r name).2)
  | none => none

/-- `get_variable_nominal(name)` = `__nominals.get(name, 1.0)` -/
def Sim.nominal (r : Rel) (s : Sim) (name : VName) : Rat := s.nominals.getD r name 1

def sgnMul : Sign → Rat → Rat
  | .pos, q => q
  | .neg, q => q * (-1)

def Sim.getVar (r : Rel) (s : Sim) (name : VName) : Option Rat :=
  match s.index r name with
  | none => none
  | some (i, sg) =>
    match s.vec[i]? with
    | none => none
    | some x =>
      let value := sgnMul sg x
      some (if i ≤ s.nStates then value * s.nominal r name else value)

def Sim.setVar (r : Rel) (s : Sim) (name : VName) (value : Rat) : Option Sim :=
  match s.index r name with
  | none => none
  | some (i, sg) =>
    if i < s.vec.length then
      let value := sgnMul sg value
      let value := if i ≤ s.nStates then value / s.nominal r name else value
      some { s with vec := s.vec.set i value }
    else none

end RtcVerif.C13
