import RtcVerif.Model.C13
/-!
C13, data read from files under alias names.  The IO mixins (`CSVMixin.read/history`,
`IOMixin.history / seed / constant_inputs / bounds`, `PIMixin.read`) keep what they read in an
alias-keyed store -- `AliasDict(self.alias_relation, columns)` -- and then, for every *listed*
variable name of the model, copy what the store gives into the result dictionary, swallowing
`KeyError`.  `readListed` is that loop.
-/
namespace RtcVerif.C13

variable {V : Type} [NegVal V]

/-- `for variable in listed: try: result[variable] = store[variable] except KeyError: pass`
    (an `AssertionError` of `__setitem__` propagates) -/
def readListed (r : Rel) (store : ADict V) : ADict V → List VName → Except Err (ADict V)
  | h, [] => .ok h
  | h, v :: vs =>
    match store.get r v with
    | .ok x =>
      match h.set r v x with
      | .ok h' => readListed r store h' vs
      | .error e => .error e
    | .error _ => readListed r store h vs

end RtcVerif.C13
