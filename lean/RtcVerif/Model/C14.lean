import RtcVerif.Model.Num
/-!
# Model for C14 — Modelica declarations are honoured

Decision logic of `ModelicaMixin` (roles, `bounds`, `history`, `seed`, nominals, discreteness,
`parameters`, `output_variables`), of the parameter override chain (model < file < code) and of
`SimulationProblem` (roles, start / fixed / initial_state / seed precedence in `initialize`),
over the variable records pymoca delivers.

An attribute (`min`, `max`, `nominal`, `start`) is a literal number or an expression in one
parameter (`a * p + b`, an `MX` that is resolved by substituting parameter values).
Core Lean only.
-/
namespace RtcVerif.C14

inductive PType where
  | real
  | int
  | bool
deriving DecidableEq, Repr, Inhabited

/-- value of a parameter: `none` is NaN (declared without value) -/
abbrev PVal := Option Rat

/-- parameter values visible to the substitution (`parameters(m).get(name, symbol)`):
    outer `none` = the name has no entry, the symbol stays -/
abbrev Env := String → Option PVal

/-- an attribute as pymoca hands it over: a literal (`mx`: wrapped in a constant `MX`) or an
    expression `a * p + b` in the parameter `p` -/
inductive Attr where
  | lit (x : EVal) (mx : Bool)
  | sym (a : Rat) (p : String) (b : Rat)
deriving DecidableEq, Repr, Inhabited

/-- result of `substitute_in_external` + `is_constant` + `isnan` -/
inductive Res where
  | val (x : EVal)
  | nan
  | unresolved
deriving DecidableEq, Repr

def Attr.resolve (env : Env) : Attr → Res
  | .lit x _ => .val x
  | .sym a p b =>
    match env p with
    | none => .unresolved
    | some none => .nan
    | some (some q) => .val (.fin (a * q + b))

def Attr.isSym : Attr → Bool
  | .lit _ mx => mx
  | .sym _ _ _ => true

/-- a declared variable (element of `states`, `alg_states` or `inputs`) -/
structure Decl where
  name : String
  ptype : PType
  min : Attr
  max : Attr
  nominal : Attr
  start : Attr
  fixed : Bool
deriving Repr, Inhabited

/-! ## roles -/

inductive Role where
  | algebraic
  | lookup
  | constantInput
  | control
deriving DecidableEq, Repr

/-- optimisation (`ModelicaMixin.__init__`): a delay state is an algebraic, a name listed in the
    `lookup_tables` keyword a lookup table, a fixed input a constant input, any other a control -/
def inputRoleOpt (isDelay isLookup fixed : Bool) : Role :=
  if isDelay then .algebraic else if isLookup then .lookup else if fixed then .constantInput else .control

/-- simulation: all (non-delay, non-lookup) inputs are constant inputs -/
def inputRoleSim (isDelay isLookup : Bool) : Role :=
  if isDelay then .algebraic else if isLookup then .lookup else .constantInput

/-! ## bounds -/

def defaultBounds : PType → EVal × EVal
  | .bool => (.fin 0, .fin 1)
  | _ => (.ninf, .pinf)

/-- `ModelicaMixin.bounds` for one variable; `none` = the code raises ("Could not resolve …") -/
def boundsOf (env : Env) (inherited : Option (EVal × EVal)) (d : Decl) : Option (EVal × EVal) :=
  let mM := inherited.getD (defaultBounds d.ptype)
  match d.min.resolve env, d.max.resolve env with
  | .val m', .val M' => some (EVal.max mM.1 m', EVal.min mM.2 M')
  | _, _ => none

/-! ## nominal -/

def eabs : EVal → EVal
  | .fin q => .fin (if q < 0 then -q else q)
  | _ => .pinf

/-- value of `variable_nominal(name)`: `|n|`, with unresolved / NaN / 0 / 1 giving the default 1 -/
def nominalOf (env : Env) (d : Decl) : EVal :=
  match d.nominal.resolve env with
  | .val x =>
    let n := eabs x
    if n = .fin 0 ∨ n = .fin 1 then .fin 1 else n
  | _ => .fin 1

/-! ## start values: history and seed -/

/-- `python_type(start)` stored into a float array -/
def cast (t : PType) (x : EVal) : EVal :=
  match t, x with
  | .real, x => x
  | .int, .fin q => .fin ((if q < 0 then -((-q).floor) else q.floor : Int) : Rat)
  | .int, x => x
  | .bool, x => if x = .fin 0 then .fin 0 else .fin 1

inductive Outcome (α : Type) where
  | keep                -- nothing stored: the inherited entry (if any) stays
  | put (v : α)         -- entry stored (replacing an inherited one)
  | raise
deriving DecidableEq, Repr

/-- the value stored for a fixed start `x`: a plain number as it is, an `MX` through `python_type`
    (the same thing for a Real, which every state is) -/
def startCast (d : Decl) (x : EVal) : EVal :=
  match d.start with
  | .lit _ false => x
  | _ => cast d.ptype x

/-- `ModelicaMixin.history` for a *state*: a fixed start is the value at `t0`
    (a plain number is stored as it is, an `MX` goes through `python_type`) -/
def historyOf (env : Env) (d : Decl) : Outcome EVal :=
  if d.fixed then
    match d.start with
    | .lit x false => .put x
    | .lit x true => .put (cast d.ptype x)
    | s =>
      match s.resolve env with
      | .val x => .put (cast d.ptype x)
      | _ => .raise
  else .keep

/-- `ModelicaMixin.seed` for a state or algebraic: the constant value seeded over the variable's
    times -/
def seedOf (env : Env) (d : Decl) : Outcome EVal :=
  if d.fixed then .keep
  else
    match d.start with
    | .lit x mx => if mx || x ≠ .fin 0 then .put (cast d.ptype x) else .keep
    | s =>
      match s.resolve env with
      | .val x => .put (cast d.ptype x)
      | _ => .keep

def isDiscrete (t : PType) : Bool := t ≠ .real

/-! ## which ensemble member's parameters resolve an attribute -/

inductive Use where
  | bounds
  | nominal
  | history
  | seed
deriving DecidableEq, Repr

/-- bounds and nominals are shared by the whole ensemble and use member 0's parameter values
    (`self.parameters(0)`); start values (history, seed) use the member's own -/
def envOf (envs : Nat → Env) (u : Use) (member : Nat) : Env :=
  match u with
  | .bounds => envs 0
  | .nominal => envs 0
  | .history => envs member
  | .seed => envs member

/-- the pymoca variable lists -/
inductive VarList where
  | states
  | algs
  | inputs
deriving DecidableEq, Repr

/-- which variables each method runs over: bounds and nominals for all states, algebraics and
    inputs; initial conditions from fixed starts for states only; seeds for states and algebraics -/
def scopeOf : Use → List VarList
  | .bounds => [.states, .algs, .inputs]
  | .nominal => [.states, .algs, .inputs]
  | .history => [.states]
  | .seed => [.states, .algs]

/-! ## parameters and outputs -/

/-- `dict.update` chain: model values, then the parameter file, then code -/
def chain (model file code : List (String × PVal)) (name : String) : Option PVal :=
  match code.lookup name with
  | some v => some v
  | none =>
    match file.lookup name with
    | some v => some v
    | none => model.lookup name

def outputsOf (declared : List String) (controls : List String) : List String := declared ++ controls

/-- an element of pymoca's `inputs` list as `ModelicaMixin.__init__` looks at it: its name, whether the
    name is one of the model's delay states, whether it is listed in the `lookup_tables` keyword,
    and its `fixed` attribute -/
structure InputRec where
  name : String
  isDelay : Bool
  isLookup : Bool
  fixed : Bool
deriving Repr, Inhabited, DecidableEq

def InputRec.role (i : InputRec) : Role := inputRoleOpt i.isDelay i.isLookup i.fixed

/-- the list `__init__` collects for one role (`self.__mx["control_inputs"]`, `["constant_inputs"]`,
    `["lookup_tables"]`, the tail of `["algebraics"]`): the inputs of that role, in declaration order -/
def roleListOf (r : Role) (inputs : List InputRec) : List String :=
  (inputs.filter (fun i => i.role = r)).map (·.name)

/-- `dae_variables["control_inputs"]` -/
def controlsOf (inputs : List InputRec) : List String := roleListOf .control inputs

/-- `output_variables` (names) from what pymoca delivers: the declared outputs, then the controls.
    The alias relation is NOT an argument: an output that is an alias of a control (or of anything
    else) does not remove anything from the list. -/
def exportedOf (declared : List String) (inputs : List InputRec) : List String :=
  outputsOf declared (controlsOf inputs)

/-! ## simulation: which start value `initialize()` uses -/

inductive Source where
  | seed
  | modelica
  | initialState
  | default
deriving DecidableEq, Repr

structure SimStart where
  source : Source
  value : EVal          -- the value the variable is started / fixed at
  fixed : Bool          -- fixed after the initial_state look-up
deriving DecidableEq, Repr

/-- `SimulationProblem.initialize`, per state/algebraic: `start` resolved with the parameter
    values in the state vector; `initialState` / `seedv` the entries of `initial_state()` /
    `seed()` for this variable. `none` when a symbolic start cannot be resolved. -/
def simStart (env : Env) (d : Decl) (initialState seedv : Option Rat) : Option SimStart :=
  -- value from the Modelica file: recorded when symbolic, or constant and non-zero
  let modelica : Option (Option EVal) :=
    match d.start with
    | .sym _ _ _ =>
      match d.start.resolve env with
      | .val x => some (some x)
      | _ => none
    | .lit x _ => let v := cast d.ptype x; if v ≠ .fin 0 then some (some v) else some none
  match modelica with
  | none => none
  | some mod =>
    let useInit := !d.fixed && initialState.isSome
    let fixed' := d.fixed || useInit
    let useSeed := !fixed' && seedv.isSome
    if useSeed then some ⟨.seed, .fin (seedv.getD 0), fixed'⟩
    else match mod with
      | some v => some ⟨.modelica, v, fixed'⟩
      | none =>
        if useInit then some ⟨.initialState, .fin (initialState.getD 0), fixed'⟩
        else some ⟨.default, (match d.start with | .lit x _ => cast d.ptype x | _ => .fin 0), fixed'⟩

end RtcVerif.C14
