import RtcVerif.Model.Interp
/-!
Model of the trajectory accessors of `CollocatedIntegratedOptimizationProblem`
(`state_at`, `der_at`, `states_in`, `integral`, `map_path_expression`) for one ensemble member,
as functions of the decision vector.

A problem is described by what the accessors read:

* per canonical variable of the decision vector (`SVar`): its nominal, its own time stamps, the
  raw (scaled) entries `X[inds]`, its interpolation mode, its history series (physical units) and,
  for a differentiated state, the dedicated initial-derivative entry;
* the constant inputs (time series + mode) and parameters of the member;
* the alias map (`canonical_signed`).

The code is followed literally: lookup order, the places where the nominal is multiplied in or
divided out, the sign, the fills, the `[:-1]` convention for history, the symbolic interpolant
(`interpSym`, clamping) at and after `t0` versus the numeric one (`interpScalar`, fills) before.
Core Lean only.
-/
namespace RtcVerif.C15
open RtcVerif RtcVerif.Interp

/-- result of an accessor: a number, NaN, or the exception the code raises -/
inductive Res where
  | num (q : Rat)
  | nan
  | raise
deriving DecidableEq, Repr, Inhabited

namespace Res

def map (f : Rat → Rat) : Res → Res
  | num q => num (f q)
  | r => r

def scale (c : Rat) (r : Res) : Res := r.map (c * ·)
def divBy (c : Rat) (r : Res) : Res := r.map (· / c)
def neg (r : Res) : Res := r.map (- ·)

def map2 (f : Rat → Rat → Rat) : Res → Res → Res
  | raise, _ => raise
  | _, raise => raise
  | nan, _ => nan
  | _, nan => nan
  | num a, num b => num (f a b)

def sub := map2 (· - ·)

def toRat? : Res → Option Rat
  | num q => some q
  | _ => none

end Res

/-- an interpolation result as an accessor result (infinite values never occur: all fills used
    by the accessors are NaN or finite; see `Proofs/C15.lean`, `ofOut_interp_finite`) -/
def ofOut : Out → Res
  | .raise => .raise
  | .val (XVal.e (EVal.fin q)) => .num q
  | .val _ => .nan

def finFill (q : Rat) : Fill := some (XVal.fin q)
def nanFill : Fill := some XVal.nan

/-- a variable that lives in the decision vector (canonical name, one member) -/
structure SVar where
  nominal : Rat
  times : List Rat
  xs : List Rat                      -- `X[inds]`
  mode : Nat
  hist : Option Knots                -- `history(m)[canonical]`
  initDer : Option (Rat × Rat)       -- differentiated state: (nominal of `initial_der(v)`, `X[idx]`)
deriving Repr, DecidableEq

structure CIn where
  series : Knots
  mode : Nat
deriving Repr, DecidableEq

structure Prob where
  t0 : Rat
  times : List Rat                                  -- `times()`
  aliases : List (String × (String × Bool))        -- alias ↦ (canonical, negated)
  svars : List (String × SVar)
  cins : List (String × CIn)                        -- keyed by canonical name
  pars : List (String × Rat)
deriving Repr

def Prob.canon (p : Prob) (name : String) : String × Bool :=
  (p.aliases.lookup name).getD (name, false)

def sgn (neg : Bool) : Rat := if neg then -1 else 1
def applySign (neg : Bool) (r : Res) : Res := if neg then r.neg else r

def SVar.knots (v : SVar) : Knots := v.times.zip v.xs

/-- the extracted result of the variable (`extract_results`): `nominal * X[inds]` -/
def SVar.results (v : SVar) : List Rat := v.xs.map (v.nominal * ·)

/-- the extracted result seen through an alias with the given sign (`AliasDict`) -/
def SVar.signedResults (v : SVar) (neg : Bool) : List Rat := v.results.map (sgn neg * ·)

def negKnots (ks : Knots) : Knots := ks.map (fun k => (k.1, -k.2))
def scaleKnots (c : Rat) (ks : Knots) : Knots := ks.map (fun k => (k.1, c * k.2))

/-- `state_at` for a variable of the decision vector -/
def svStateAt (t0 : Rat) (v : SVar) (neg : Bool) (t : Rat) (scaled extrap : Bool) : Res :=
  let r : Res :=
    if t < t0 then
      let r0 : Res :=
        match v.hist with
        | none => if extrap then .num (v.xs.headD 0 * v.nominal) else .nan
        | some h =>
            let fl := if extrap then finFill (firstVal h) else nanFill
            let fr := if extrap then finFill (lastVal h) else nanFill
            ofOut (interpScalar v.mode h fl fr t)
      if scaled then r0.divBy v.nominal else r0
    else if !extrap && (t < v.times.headD 0 || t > (v.times.getLast?).getD 0) then .raise
    else
      let s := ofOut (interpSym v.mode v.knots t)
      if scaled then s else s.scale v.nominal
  applySign neg r

/-- `state_at` for a constant input (the `AliasDict` hands out the negated series for a negated
    alias); `scaled` has no effect here -/
def ciStateAt (c : CIn) (neg : Bool) (t : Rat) (extrap : Bool) : Res :=
  let ks := if neg then negKnots c.series else c.series
  let fl := if extrap then finFill (firstVal ks) else nanFill
  let fr := if extrap then finFill (lastVal ks) else nanFill
  ofOut (interpScalar c.mode ks fl fr t)

/-- `state_at(variable, t, m, scaled, extrapolate)`: decision vector, then constant inputs, then
    parameters, else `KeyError` -/
def stateAt (p : Prob) (name : String) (t : Rat) (scaled extrap : Bool) : Res :=
  let c := p.canon name
  match p.svars.lookup c.1 with
  | some v => svStateAt p.t0 v c.2 t scaled extrap
  | none =>
    match p.cins.lookup c.1 with
    | some ci => ciStateAt ci c.2 t extrap
    | none =>
      match p.pars.lookup c.1 with
      | some q => .num (sgn c.2 * q)
      | none => .raise

/-- `self.times(variable)` -/
def Prob.timesOf (p : Prob) (name : String) : List Rat :=
  match p.svars.lookup (p.canon name).1 with
  | some v => v.times
  | none => p.times

def Prob.histOf (p : Prob) (name : String) : Option Knots :=
  (p.svars.lookup (p.canon name).1).bind (·.hist)

/-- first `i` with `hat[i] < t ≤ hat[i+1]` -/
def findSeg : List Rat → Rat → Option (Rat × Rat)
  | a :: b :: rest, t => if a < t ∧ t ≤ b then some (a, b) else findSeg (b :: rest) t
  | _, _ => none

/-- `history_and_times` of `der_at` -/
def Prob.derKnots (p : Prob) (name : String) (t : Rat) : List Rat :=
  if t ≤ p.t0 then
    match p.histOf name with
    | some h => (h.map (·.1)).dropLast ++ p.timesOf name
    | none => p.timesOf name
  else p.timesOf name

/-- the dedicated initial-derivative entry of a differentiated state: (its nominal, `X[idx]`) -/
def Prob.initDerOf (p : Prob) (name : String) : Option (Rat × Rat) :=
  (p.svars.lookup (p.canon name).1).bind (·.initDer)

/-- `der_at(variable, t, m)` -/
def derAt (p : Prob) (name : String) (t : Rat) : Res :=
  let c := p.canon name
  let special : Option (Rat × Rat) := if t = p.t0 then p.initDerOf name else none
  match special with
  | some (nomD, xd) => .num (nomD * sgn c.2 * xd)
  | none =>
    match p.derKnots name t with
    | [] => .raise
    | h0 :: rest =>
      if t = h0 then .num 0
      else
        match findSeg (h0 :: rest) t with
        | none => .raise
        | some (a, b) =>
            ((stateAt p name b false true).sub (stateAt p name a false true)).divBy (b - a)

/-- the knots inside the window `[a, b]` -/
def inWindow (a b : Rat) (ks : Knots) : Knots := ks.filter (fun k => a ≤ k.1 ∧ k.1 ≤ b)

def hasTime (ks : Knots) (t : Rat) : Bool := ks.any (fun k => k.1 = t)

/-- the end point of a window when it is not a knot: `state_at(variable, t)`; a NaN / raising
    `state_at` cannot occur here (`extrapolate=True`, see `svStateAt_num`) and is reported as a raise -/
def endPoint (p : Prob) (name : String) (t : Rat) : Option Knots :=
  ((stateAt p name t false true).toRat?).map (fun q => [(t, q)])

/-- an end point is added only when it is not among the knots already collected
    (`t0 not in times[indices] and t0 not in history_times[history_indices]`) -/
def endKnot (p : Prob) (name : String) (inner : Knots) (t : Rat) : Option Knots :=
  if hasTime inner t then some [] else endPoint p name t

/-- the history knots `states_in` may draw on: needed (and required: `none` = the code raises)
    only when the window starts before the first time stamp; the last history entry (`t0`) is
    dropped; a negated alias sees the negated values (a copy: finding F13 repaired) -/
def windowHist (v : SVar) (neg : Bool) (a first : Rat) : Option Knots :=
  if a < first then
    match v.hist with
    | none => none
    | some h => some (if neg then negKnots h.dropLast else h.dropLast)
  else some []

/-- `__states_times_in(variable, t0, tf, m)`: the knots `(t, x)`; `none` = the code raises
    (no history although the window starts before the first time stamp; the variable is not in
    the decision vector).  A window without any time stamp of the variable yields just the two
    interpolated end points (repaired behaviour, finding F31). -/
def statesTimesIn (p : Prob) (name : String) (a? b? : Option Rat) : Option Knots := do
  let c := p.canon name
  let times := p.timesOf name
  let a := a?.getD (times.headD 0)
  let b := b?.getD ((times.getLast?).getD 0)
  let v ← p.svars.lookup c.1
  let state : Knots := v.times.zip (v.xs.map (fun x => x * v.nominal * sgn c.2))
  let hist ← windowHist v c.2 a (times.headD 0)
  let inner := inWindow a b hist ++ inWindow a b state
  let x0 ← endKnot p name inner a
  let xf ← endKnot p name inner b
  some (x0 ++ inner ++ xf)

/-- `states_in` -/
def statesIn (p : Prob) (name : String) (a? b? : Option Rat) : Option (List Rat) :=
  (statesTimesIn p name a? b?).map (·.map (·.2))

/-- trapezoid rule over a knot list -/
def trapz : Knots → Rat
  | a :: b :: rest => (a.2 + b.2) / 2 * (b.1 - a.1) + trapz (b :: rest)
  | _ => 0

/-- `integral(variable, t0, tf, m)` -/
def integral (p : Prob) (name : String) (a? b? : Option Rat) : Option Rat :=
  (statesTimesIn p name a? b?).map trapz

/-! ### `map_path_expression` -/

/-- a collocated variable (state, algebraic state or control) as `map_path_expression` sees it -/
structure ColVar where
  sv : SVar
  initDerConst : Rat    -- initial derivative of a non-differentiated variable (from the history, else 0)
deriving Repr

/-- value handed to the mapped function at collocation stamp `i` (0 = initial): physical units;
    a variable on its own coarser grid is interpolated to the collocation times -/
def ColVar.valueAt (cv : ColVar) (times : List Rat) (i : Nat) : Res :=
  if cv.sv.times.length = times.length then .num (cv.sv.nominal * cv.sv.xs.getD i 0)
  else (ofOut (interpSym cv.sv.mode cv.sv.knots (times.getD i 0))).scale cv.sv.nominal

/-- derivative handed to the mapped function at stamp `i`: the dedicated initial derivative (or
    the constant from the history) at `i = 0`, the backward difference quotient afterwards -/
def ColVar.derAt (cv : ColVar) (times : List Rat) (i : Nat) : Res :=
  match i with
  | 0 => match cv.sv.initDer with
         | some (nomD, xd) => .num (xd * nomD)
         | none => .num cv.initDerConst
  | j + 1 => ((cv.valueAt times (j + 1)).sub (cv.valueAt times j)).divBy (times.getD (j + 1) 0 - times.getD j 0)

/-- what `map_path_expression` needs: the collocated variables, the constant inputs (interpolated
    to the collocation times with their own method when the problem is transcribed), extra (path)
    variables stamp by stamp, and the parameters of the member -/
structure MapProb where
  t0 : Rat
  times : List Rat
  cols : List ColVar
  cins : List CIn                  -- raw series; interpolated to the collocation times (fills 0)
  pathv : List (List Rat)          -- decoded path variables per stamp
  pars : List Rat
deriving Repr

/-- a symbol of a path expression -/
inductive Sym where
  | state (j : Nat) | der (j : Nat) | cin (j : Nat) | time | pathv (j : Nat) | par (j : Nat)
deriving Repr, DecidableEq

/-- the value of a symbol at stamp `i`.  `relTime = true` is the documented convention (time
    relative to `t0`, as in path constraints and objectives) -/
def symAt (mp : MapProb) (i : Nat) : Sym → Res
  | .state j => (mp.cols.getD j ⟨⟨0, [], [], 0, none, none⟩, 0⟩).valueAt mp.times i
  | .der j => (mp.cols.getD j ⟨⟨0, [], [], 0, none, none⟩, 0⟩).derAt mp.times i
  | .cin j =>
      let c := mp.cins.getD j ⟨[], 0⟩
      ofOut (interpCore c.mode c.series (finFill 0) (finFill 0) (mp.times.getD i 0))
  | .time => .num (mp.times.getD i 0 - mp.t0)
  | .pathv j => .num ((mp.pathv.getD j []).getD i 0)
  | .par j => .num (mp.pars.getD j 0)

/-- a polynomial path expression: constant + Σ coef · Π symbols -/
structure Expr where
  const : Rat
  terms : List (Rat × List Sym)
deriving Repr

def Res.add := Res.map2 (· + ·)
def Res.mul := Res.map2 (· * ·)

def Expr.eval (e : Expr) (env : Sym → Res) : Res :=
  e.terms.foldl (fun acc tm => acc.add (tm.2.foldl (fun m s => m.mul (env s)) (.num tm.1))) (.num e.const)

/-- `map_path_expression(expr, m)`: the initial evaluation followed by the map over the steps -/
def mapPathExpression (mp : MapProb) (e : Expr) : List Res :=
  let initial := e.eval (symAt mp 0)
  if mp.times.length > 1 then
    initial :: (List.range (mp.times.length - 1)).map (fun k => e.eval (symAt mp (k + 1)))
  else [initial]

end RtcVerif.C15

namespace RtcVerif.C15
open RtcVerif RtcVerif.Interp

/-- the extracted (decoded, signed) result of a variable as knots `(own time stamp, value)` -/
def SVar.resultKnots (v : SVar) (neg : Bool) : Knots := v.times.zip (v.signedResults neg)

/-- the history of a variable seen through an alias with the given sign -/
def signedHist (neg : Bool) (h : Knots) : Knots := if neg then negKnots h else h

end RtcVerif.C15

namespace RtcVerif.C15
open RtcVerif RtcVerif.Interp

/-- how `states_in` decides on an end point: nothing is added when the end is already a knot of
    the window, otherwise the `state_at` value there -/
def EndOK (p : Prob) (name : String) (inner : Knots) (t : Rat) (x : Knots) : Prop :=
  (hasTime inner t = true ∧ x = []) ∨
  (hasTime inner t = false ∧ ∃ q, stateAt p name t false true = .num q ∧ x = [(t, q)])

/-- the value `extract_results` reports for a constant input at a time stamp `t` of the variable:
    `interpolate(times, series.times, series.values, first, last, mode)` (array form), seen
    through the alias sign -/
def ciExtracted (c : CIn) (neg : Bool) (t : Rat) : Out :=
  let ks := if neg then negKnots c.series else c.series
  interpCore c.mode ks (finFill (firstVal ks)) (finFill (lastVal ks)) t

/-- what `extract_results` stores for a constant input: the array form
    `interpolate(times(variable), series.times, series.values, first, last, mode)` at the time stamps `ts`
    of the variable (`none` = the call raises) -/
def ciResults (c : CIn) (ts : List Rat) : Option (List XVal) :=
  interpArray c.mode c.series (finFill (firstVal c.series)) (finFill (lastVal c.series)) ts

end RtcVerif.C15

namespace RtcVerif.C15
open RtcVerif RtcVerif.Interp

/-! ### reference forms used by the source-to-Lean translation (`harness/translate_c15.py`) -/

/-- first consecutive pair `(l[i], l[i+1])` with `P l[i] l[i+1]` (a `for i in range(len(l))` loop
    that returns at the first hit) -/
def scanPairs (P : Rat → Rat → Bool) : List Rat → Option (Rat × Rat)
  | a :: b :: rest => if P a b then some (a, b) else scanPairs P (b :: rest)
  | _ => none

/-- the last part of `__states_times_in` ("Collect time stamps and states"): window knots of the
    history and of the state, the two optional end points, concatenated in this order -/
def assemble (p : Prob) (name : String) (a b : Rat) (hist state : Knots) : Option Knots := do
  let inner := inWindow a b hist ++ inWindow a b state
  let x0 ← endKnot p name inner a
  let xf ← endKnot p name inner b
  some (x0 ++ inner ++ xf)

/-- element-wise vector operations (CasADi / NumPy broadcasting on equally long vectors) -/
def vadd (u v : List Rat) : List Rat := List.zipWith (· + ·) u v
def vsub (u v : List Rat) : List Rat := List.zipWith (· - ·) u v
def vmul (u v : List Rat) : List Rat := List.zipWith (· * ·) u v
def vscale (c : Rat) (u : List Rat) : List Rat := u.map (c * ·)

/-- the trapezoid rule in the vector form `sum1(0.5 * (x[:-1] + x[1:]) * (t[1:] - t[:-1]))` -/
def trapzVec (ks : Knots) : Rat :=
  if ks.length > 1 then
    (vmul (vscale (1 / 2) (vadd (ks.map (·.2)).dropLast (ks.map (·.2)).tail))
      (vsub (ks.map (·.1)).tail (ks.map (·.1)).dropLast)).sum
  else 0

end RtcVerif.C15
