import RtcVerif.Model.C15
/-! JSON (line protocol) readers/writers for the C15 / C16 models. Core Lean only. -/
open Lean RtcVerif RtcVerif.Wire RtcVerif.Interp RtcVerif.C15

namespace RtcVerif.C15.W

def resJ : Res → Json
  | .num q => ratJ q
  | .nan => Json.str "nan"
  | .raise => Json.str "raise"

def getKnots (j : Json) (kt kv : String) : Option Knots := do
  let t ← getRatList j kt
  let v ← getRatList j kv
  if t.length = v.length then pure (t.zip v) else none

def optField (j : Json) (k : String) : Option Json :=
  match getObj j k with
  | some Json.null => none
  | x => x

def svarOfJson (j : Json) : Option SVar := do
  let nominal ← getRat j "nominal"
  let times ← getRatList j "times"
  let xs ← getRatList j "xs"
  let mode ← getNat j "mode"
  let hist : Option Knots ←
    match optField j "hist" with
    | none => pure none
    | some h => (getKnots h "t" "v").map some
  let initDer : Option (Rat × Rat) ←
    match optField j "initDer" with
    | none => pure none
    | some d => match asRatList d with
      | some [a, b] => pure (some (a, b))
      | _ => none
  if times.length = xs.length then pure ⟨nominal, times, xs, mode, hist, initDer⟩ else none

def probOfJson (j : Json) : Option Prob := do
  let t0 ← getRat j "t0"
  let times ← getRatList j "times"
  let al ← getArr j "aliases"
  let aliases ← al.mapM (fun a => do
    let n ← getStr a "name"
    let c ← getStr a "of"
    let neg ← getBool a "neg"
    pure (n, (c, neg)))
  let sv ← getArr j "svars"
  let svars ← sv.mapM (fun a => do
    let n ← getStr a "name"
    let v ← svarOfJson a
    pure (n, v))
  let ci ← getArr j "cins"
  let cins ← ci.mapM (fun a => do
    let n ← getStr a "name"
    let ks ← getKnots a "t" "v"
    let mode ← getNat a "mode"
    pure (n, (⟨ks, mode⟩ : CIn)))
  let pa ← getArr j "pars"
  let pars ← pa.mapM (fun a => do
    let n ← getStr a "name"
    let v ← getRat a "v"
    pure (n, v))
  pure ⟨t0, times, aliases, svars, cins, pars⟩

def optRat (j : Json) (k : String) : Option (Option Rat) :=
  match optField j k with
  | none => some none
  | some v => (asRat v).map some

def knotsJ : Option Knots → Json
  | none => Json.str "raise"
  | some ks => Json.mkObj [("t", ratsJ (ks.map (·.1))), ("x", ratsJ (ks.map (·.2)))]

def query (p : Prob) (q : Json) : Option Json := do
  let k ← getStr q "k"
  let name ← getStr q "name"
  match k with
  | "state_at" =>
      let t ← getRat q "t"
      let scaled ← getBool q "scaled"
      let extrap ← getBool q "extrap"
      pure (resJ (stateAt p name t scaled extrap))
  | "der_at" =>
      let t ← getRat q "t"
      pure (resJ (derAt p name t))
  | "states_in" =>
      let a ← optRat q "a"
      let b ← optRat q "b"
      pure (knotsJ (statesTimesIn p name a b))
  | "integral" =>
      let a ← optRat q "a"
      let b ← optRat q "b"
      pure (match integral p name a b with
            | none => Json.str "raise"
            | some v => ratJ v)
  | _ => none

def symOfJson (j : Json) : Option Sym :=
  match j with
  | Json.str "time" => some Sym.time
  | Json.arr #[Json.str k, n] => do
      let i ← (fromJson? n : Except String Nat).toOption
      match k with
      | "state" => pure (Sym.state i)
      | "der" => pure (Sym.der i)
      | "cin" => pure (Sym.cin i)
      | "pathv" => pure (Sym.pathv i)
      | "par" => pure (Sym.par i)
      | _ => none
  | _ => none

def exprOfJson (j : Json) : Option Expr := do
  let c ← getRat j "const"
  let ts ← getArr j "terms"
  let terms ← ts.mapM (fun t => do
    let coef ← getRat t "c"
    let ss ← getArr t "s"
    let syms ← ss.mapM symOfJson
    pure (coef, syms))
  pure ⟨c, terms⟩

def mapProbOfJson (j : Json) : Option MapProb := do
  let t0 ← getRat j "t0"
  let times ← getRatList j "times"
  let cs ← getArr j "cols"
  let cols ← cs.mapM (fun a => do
    let v ← svarOfJson a
    let d ← getRat a "idc"
    pure (⟨v, d⟩ : ColVar))
  let ci ← getArr j "cins"
  let cins ← ci.mapM (fun a => do
    let ks ← getKnots a "t" "v"
    let mode ← getNat a "mode"
    pure (⟨ks, mode⟩ : CIn))
  let pathv ← getRatMat j "pathv"
  let pars ← getRatList j "pars"
  pure ⟨t0, times, cols, cins, pathv, pars⟩

end RtcVerif.C15.W
