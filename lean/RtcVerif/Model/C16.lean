import RtcVerif.Model.C15
/-!
Model of delayed feedback `y = delay(expr, tau)`.

**Optimisation** (`CollocatedIntegratedOptimizationProblem.transcribe`): the history of the
delayed expression is assembled on the union of all history time stamps (last one, `t0`,
dropped), the expression is evaluated on the history rows (NaN where a needed input is missing),
on the initial inputs and on every collocation step; the delay rows are
`(y(t_k) - interp1d(out_times, out_values, t_k - tau_k)) / nominal` for every collocation time,
where an incomplete history (needed range starts before the first history stamp, or contains NaN)
is dropped, so that the symbolic interpolant extrapolates the `t0` value backwards.

**Simulation** (`SimulationProblem`): a shift buffer of `n = ceil(tau/dt)` previous expression
values and the interpolation weight `w = n - tau/dt`.

Core Lean only; reuses the C15 model (`MapProb`, `Expr`, `symAt`, `ColVar.valueAt`).
-/
namespace RtcVerif.C16
open RtcVerif RtcVerif.Interp RtcVerif.C15

/-! ## optimisation -/

/-- insert into a strictly increasing list, dropping duplicates (`np.unique`) -/
def insertU (x : Rat) : List Rat → List Rat
  | [] => [x]
  | a :: rest => if x < a then x :: a :: rest else if x = a then a :: rest else a :: insertU x rest

/-- `np.unique(np.hstack(all history time stamps))` -/
def uniqueTimes (series : List (List Rat)) : List Rat :=
  series.foldl (fun acc s => s.foldl (fun acc' t => insertU t acc') acc) []

/-- "by convention, the last timestep in history series is the initial time. We drop this index" -/
def historyTimes (series : List (List Rat)) : List Rat := (uniqueTimes series).dropLast

/-- `np.searchsorted(ts, t)` (side = left): number of entries `< t` for a sorted list -/
def searchLeft : List Rat → Rat → Nat
  | [], _ => 0
  | a :: rest, t => if a < t then searchLeft rest t + 1 else 0

/-- a history series may contain NaN entries (missing data) -/
abbrev RKnots := List (Rat × Res)

/-- value strictly inside a segment: the chord (NaN when an end is NaN) in linear mode, the
    previous / next knot value in the piecewise constant modes -/
def segVal (mode : Nat) (a b t : Rat) (fa fb : Res) : Res :=
  match mode with
  | 0 => Res.map2 (fun x y => x + (y - x) / (b - a) * (t - a)) fa fb
  | 1 => fa
  | _ => fb

/-- `interpolate(t, times, values, nan, nan, mode)` for a series with NaN entries: NaN outside
    the series; the knot value on a knot; `segVal` between two knots -/
def interpNaN (mode : Nat) : RKnots → Rat → Res
  | [], _ => .nan
  | [(a, fa)], t => if t = a then fa else .nan
  | (a, fa) :: (b, fb) :: rest, t =>
      if t < a then .nan
      else if t = a then fa
      else if t < b then segVal mode a b t fa fb
      else interpNaN mode ((b, fb) :: rest) t

/-- history of one collocated variable on the common history time stamps: interpolated by its
    mode, NaN outside its own series, NaN everywhere when it has no history -/
def histColumn (mode : Nat) (series : Option RKnots) (hts : List Rat) : List Res :=
  match series with
  | none => hts.map (fun _ => Res.nan)
  | some ks => hts.map (fun t => interpNaN mode ks t)

/-- `np.diff(values) / np.diff(times)` preceded by a NaN row -/
def histDerColumn (vals : List Res) (hts : List Rat) : List Res :=
  match vals, hts with
  | v0 :: v1 :: vs, t0 :: t1 :: tsr =>
      Res.nan :: (List.zipWith (fun (p : Res × Res) (q : Rat × Rat) => (p.2.sub p.1).divBy (q.2 - q.1))
        ((v0 :: v1 :: vs).zip (v1 :: vs)) ((t0 :: t1 :: tsr).zip (t1 :: tsr)))
  | _, _ => hts.map (fun _ => Res.nan)

/-- one delayed feedback of one ensemble member -/
structure DelayProb where
  mp : MapProb                     -- collocation times, collocated variables, inputs, parameters
  hists : List (Option RKnots)     -- history series per collocated variable (same order as `mp.cols`)
  allHistTimes : List (List Rat)   -- time stamps of every history series of the member
  expr : Expr                      -- the delayed expression
  out : Nat                        -- column of the variable that receives the delayed value
  outNeg : Bool                    -- … through a negated alias
  tau : Expr                       -- delay duration (parameters, constant inputs)
deriving Repr

def DelayProb.ts (d : DelayProb) : List Rat := d.mp.times
def DelayProb.hts (d : DelayProb) : List Rat := historyTimes d.allHistTimes

/-- value of a symbol on history row `i` (time enters as the absolute history time) -/
def symHist (d : DelayProb) (i : Nat) : Sym → Res
  | .state j =>
      (histColumn ((d.mp.cols.getD j ⟨⟨0, [], [], 0, none, none⟩, 0⟩).sv.mode)
        ((d.hists.getD j none)) d.hts).getD i .nan
  | .der j =>
      (histDerColumn (histColumn ((d.mp.cols.getD j ⟨⟨0, [], [], 0, none, none⟩, 0⟩).sv.mode)
        ((d.hists.getD j none)) d.hts) d.hts).getD i .nan
  | .cin j =>
      let c := d.mp.cins.getD j ⟨[], 0⟩
      ofOut (interpCore c.mode c.series nanFill nanFill (d.hts.getD i 0))
  | .time => .num (d.hts.getD i 0)
  | .pathv _ => .nan
  | .par j => .num (d.mp.pars.getD j 0)

/-- the delayed expression on the history rows (`delayed_feedback_history[:, i]`) -/
def DelayProb.histD (d : DelayProb) : List Res :=
  (List.range d.hts.length).map (fun i => d.expr.eval (symHist d i))

/-- the delayed expression on the trajectory: initial inputs, then every collocation step -/
def DelayProb.trajD (d : DelayProb) : List Res :=
  (List.range d.ts.length).map (fun k => d.expr.eval (symAt d.mp k))

/-- delay duration at collocation stamp `k` -/
def DelayProb.tauAt (d : DelayProb) (k : Nat) : Res := d.tau.eval (symAt d.mp k)

def resRat (r : Res) : Rat := (r.toRat?).getD 0

def minList : List Rat → Rat
  | [] => 0
  | [a] => a
  | a :: rest => min a (minList rest)

/-- `np.min(collocation_times - delay)` -/
def DelayProb.earliest (d : DelayProb) : Rat :=
  minList ((List.range d.ts.length).map (fun k => d.ts.getD k 0 - resRat (d.tauAt k)))

/-- `hist_start_ind`: index into `out_times = history_times ++ collocation_times` of the first
    knot needed (one earlier when the earliest query is not itself a knot); may be `-1` -/
def DelayProb.histStart (d : DelayProb) : Int :=
  let outT := d.hts ++ d.ts
  let i := searchLeft outT d.earliest
  if outT.getD i 0 ≠ d.earliest then (i : Int) - 1 else i

/-- the history is dropped (a warning is logged) -/
def DelayProb.incomplete (d : DelayProb) : Bool :=
  d.histStart < 0 || ((d.histD.drop d.histStart.toNat).any (fun r => r.toRat?.isNone))

def resKnots (ts : List Rat) (vs : List Res) : Knots :=
  (ts.zip vs).filterMap (fun p => p.2.toRat?.map (fun q => (p.1, q)))

/-- the knots the delayed value is interpolated from: the trajectory only when the history is
    incomplete; otherwise history ++ trajectory from the first needed knot on (earlier knots are
    never read; they may hold NaN) -/
def DelayProb.outKnots (d : DelayProb) : Knots :=
  if d.incomplete then resKnots d.ts d.trajD
  else resKnots ((d.hts ++ d.ts).drop d.histStart.toNat) ((d.histD ++ d.trajD).drop d.histStart.toNat)

/-- `x_in`: the variable receiving the delayed value, at collocation stamp `k` -/
def DelayProb.yAt (d : DelayProb) (k : Nat) : Res :=
  applySign d.outNeg ((d.mp.cols.getD d.out ⟨⟨0, [], [], 0, none, none⟩, 0⟩).valueAt d.ts k)

def DelayProb.outMode (d : DelayProb) : Nat :=
  (d.mp.cols.getD d.out ⟨⟨0, [], [], 0, none, none⟩, 0⟩).sv.mode

/-- the delayed expression at the query time of stamp `k` -/
def DelayProb.delayedAt (d : DelayProb) (k : Nat) : Res :=
  ofOut (interpSym d.outMode d.outKnots (d.ts.getD k 0 - resRat (d.tauAt k)))

/-- the inputs of `nominal_delayed_feedback`: every collocated variable at its nominal, zero
    derivatives, the constant inputs at `t0`, time 0 -/
def symNominal (d : DelayProb) : Sym → Res
  | .state j => .num (d.mp.cols.getD j ⟨⟨0, [], [], 0, none, none⟩, 0⟩).sv.nominal
  | .der _ => .num 0
  | .cin j => symAt d.mp 0 (.cin j)
  | .time => .num 0
  | .pathv _ => .num 1
  | .par j => .num (d.mp.pars.getD j 0)

/-- `nominal_delayed_feedback[i]`: the row scaling (the expression evaluated at the nominals) -/
def DelayProb.nominal (d : DelayProb) : Rat := resRat (d.expr.eval (symNominal d))

/-- the delay rows `(x_in - x_out_delayed) / nominal`, one per collocation time (bounds 0, 0) -/
def DelayProb.rows (d : DelayProb) : List Res :=
  (List.range d.ts.length).map (fun k => ((d.yAt k).sub (d.delayedAt k)).divBy d.nominal)

/-! ### the receiving variable named through the alias relation -/

/-- `self.alias_relation.canonical_signed(name)`: the canonical name and whether the alias is negated -/
def canonicalSigned (aliases : List (String × (String × Bool))) (name : String) : String × Bool :=
  (aliases.lookup name).getD (name, false)

/-- the delay problem whose receiving variable is given by NAME: resolved through the alias relation
    to the column of the canonical variable and the sign -/
def DelayProb.named (d : DelayProb) (aliases : List (String × (String × Bool))) (colNames : List String)
    (name : String) : DelayProb :=
  { d with out := colNames.idxOf (canonicalSigned aliases name).1, outNeg := (canonicalSigned aliases name).2 }

/-! ## simulation -/

/-- `int(np.ceil(q))` for a rational -/
def ceilNat (q : Rat) : Nat := (Int.toNat (-((-q.num) / (q.den : Int))))

/-- number of buffered expression values: `ceil(tau/dt)` for `tau > 0`, else 1 -/
def bufLen (tau dt : Rat) : Nat := if tau > 0 then ceilNat (tau / dt) else 1

/-- `interpolation_weight = n_previous_values - delay_time / dt` -/
def weight (tau dt : Rat) : Rat := (bufLen tau dt : Rat) - tau / dt

/-- simulation state of one delay: the expression buffer `e_0 … e_{n-1}` and the delayed state -/
structure SimState where
  buf : List Rat
  y : Rat
deriving Repr, DecidableEq

/-- `initialize()`: every buffer entry and the delayed state start at the expression value -/
def simInit (tau dt d0 : Rat) : SimState := ⟨List.replicate (bufLen tau dt) d0, d0⟩

/-- one `update(dt)`: `e_0 = D(t)`, `e_k = e_{k-1}(t - dt)`, and
    `y = w * e_{n-1}(t) + (1 - w) * e_{n-1}(t - dt)` -/
def simStep (tau dt : Rat) (s : SimState) (dNew : Rat) : SimState :=
  let buf' := dNew :: s.buf.dropLast
  let w := weight tau dt
  ⟨buf', w * buf'.getLastD 0 + (1 - w) * s.buf.getLastD 0⟩

/-- the run: initial state, then one step per new expression value -/
def simRun (tau dt d0 : Rat) (ds : List Rat) : SimState := ds.foldl (simStep tau dt) (simInit tau dt d0)

/-- the states after 0, 1, …, `ds.length` steps -/
def simTrace (tau dt d0 : Rat) (ds : List Rat) : List SimState :=
  (List.range (ds.length + 1)).map (fun j => simRun tau dt d0 (ds.take j))

/-- the expression extended backwards by its `t0` value: `D̄(i) = D(max i 0)` on the step grid -/
def dbar (d0 : Rat) (ds : List Rat) (i : Int) : Rat :=
  if i ≤ 0 then d0 else ds.getD (i.toNat - 1) d0

/-- the buffer the invariant prescribes after the steps `ds`: entry `k` holds `D̄(j - k)` -/
def bufSpec (n : Nat) (d0 : Rat) (ds : List Rat) : List Rat :=
  (List.range n).map (fun (k : Nat) => dbar d0 ds ((ds.length : Int) - (k : Int)))

/-- a NaN-free series as a series that may contain NaN -/
def numK (ks : Knots) : RKnots := ks.map (fun k => (k.1, Res.num k.2))


end RtcVerif.C16
