import RtcVerif.Model.Num
/-!
# C17 — `CachingQPSol` (single_pass_goal_programming_mixin.py): logic model

`CachingQPSol` is a drop-in for `ca.qpsol`: `CachingQPSol()(name, solver_name, nlp, options)` builds a
`Solver` object (once per priority in a goal-programming run), the object is then called with the bounds
of that priority.  The outer object keeps one dict `_tlcache` for its whole life: the constraint matrix
`A` and the constant part `b` of the constraints of the LAST constructed solver.  A later construction
re-uses them for the first `n_g_cache` rows of `g` and differentiates only the appended rows.

Symbolic CasADi expressions are modelled by their normal forms (library calls are table entries of the
translator, `harness/translate_c17.py`):

* objective  `f(x) = Σ_ij Q_ij x_i x_j + Σ_i c_i x_i + k`   (`Q` NOT assumed symmetric)
* constraint rows `g_i(x) = a_i · x + b_i`

Core Lean only.
-/
namespace RtcVerif.C17

/-- dense matrix as CasADi holds it: the column count is part of the value (a `0 x n` matrix has one) -/
structure Mat where
  ncol : Nat
  rows : List (List Rat)
deriving Repr, DecidableEq

/-- `f(x) = Σ_ij Q_ij x_i x_j + Σ_i c_i x_i + k` -/
structure QuadF where
  Q : List (List Rat)
  c : List Rat
  k : Rat
deriving Repr, DecidableEq

/-- `g_i(x) = a · x + b` -/
structure AffRow where
  a : List Rat
  b : Rat
deriving Repr, DecidableEq

/-- `nlp = {"x": x, "f": f, "g": g}` with `x.size1() = n` -/
structure NLP where
  n : Nat
  f : QuadF
  g : List AffRow
deriving Repr, DecidableEq

def entry (M : List (List Rat)) (i j : Nat) : Rat := (M.getD i []).getD j 0

/-- `Σ_{i<n} f i` -/
def sumTo : Nat → (Nat → Rat) → Rat
  | 0, _ => 0
  | n + 1, f => sumTo n f + f n

def dotTo (n : Nat) (a : List Rat) (x : Nat → Rat) : Rat := sumTo n fun j => a.getD j 0 * x j

def quadTo (n : Nat) (M : List (List Rat)) (x : Nat → Rat) : Rat :=
  sumTo n fun i => sumTo n fun j => entry M i j * x i * x j

def QuadF.eval (n : Nat) (q : QuadF) (x : Nat → Rat) : Rat := quadTo n q.Q x + dotTo n q.c x + q.k

def AffRow.eval (n : Nat) (r : AffRow) (x : Nat → Rat) : Rat := dotTo n r.a x + r.b

/-! ## CasADi calls on normal forms (translator table) -/

/-- `ca.gradient(f, x)`: row `i` is `Σ_j (Q_ij + Q_ji) x_j + c_i` -/
def gradient (n : Nat) (f : QuadF) : List AffRow :=
  (List.range n).map fun i =>
    { a := (List.range n).map fun j => entry f.Q i j + entry f.Q j i, b := f.c.getD i 0 }

/-- `ca.substitute(E, x, ca.DM.zeros(x.sparsity()))` for a vector of affine rows -/
def affAtZero (g : List AffRow) : List Rat := g.map (·.b)

/-- `ca.substitute(f, x, ca.DM.zeros(x.sparsity()))` for the objective -/
def quadAtZero (f : QuadF) : Rat := f.k

/-- `ca.jacobian(E, x)` for a vector of affine rows (`m x n`) -/
def jacobian (n : Nat) (g : List AffRow) : Mat :=
  { ncol := n, rows := g.map fun r => (List.range n).map fun j => r.a.getD j 0 }

/-- `ca.vertcat(u, v)` of column vectors -/
def vcatVec (u v : List Rat) : List Rat := u ++ v

/-- `ca.vertcat(U, V)` of matrices -/
def vcatMat (U V : Mat) : Mat := { ncol := U.ncol, rows := U.rows ++ V.rows }

/-! ## state -/

/-- `_tlcache` once filled (`{}` = `none`) -/
structure Cache where
  A : Mat
  b : List Rat
deriving Repr, DecidableEq

/-- the keyword dict `_solver_in` handed to the conic back-end (`**self._solver_in`) -/
structure SolverIn where
  h : Option Mat := none
  g : Option (List Rat) := none
  a : Option Mat := none
  x0 : Option (List Rat) := none
  lbx : Option (List EVal) := none
  ubx : Option (List EVal) := none
  lba : Option (List EVal) := none
  uba : Option (List EVal) := none
deriving Repr, DecidableEq

/-- the inner `Solver` object after `__init__` -/
structure SolverObj where
  /-- `_solver_in` -/
  sin : SolverIn
  /-- `_b` -/
  b : List Rat
  /-- `_f0` -/
  f0 : Rat
deriving Repr, DecidableEq

/-- arguments of `Solver.__call__` -/
structure CallIn where
  x0 : List Rat
  lbx : List EVal
  ubx : List EVal
  lbg : List EVal
  ubg : List EVal
deriving Repr, DecidableEq

/-- `Solver.__init__` in the shape of the source: `cache` is `_tlcache` before, the result carries the
    solver object and `_tlcache` after; the exception leaves `_tlcache` as it was -/
def construct (cache : Option Cache) (p : NLP) : Except String (SolverObj × Cache) :=
  let x := p.n
  let f := p.f
  let g := p.g
  let gf := gradient x f
  let c := affAtZero gf
  let f0 := quadAtZero f
  let H := jacobian x gf
  let fin := fun (A : Mat) (b : List Rat) =>
    (Except.ok ({ sin := { h := some H, g := some c, a := some A }, b := b, f0 := f0 }, { A := A, b := b }) :
      Except String (SolverObj × Cache))
  match cache with
  | some ch =>
    if !(x == ch.A.ncol) then .error "Number of variables does not match cached constraint matrix dimensions"
    else
      let n_g_cache := ch.A.rows.length
      let n_g := g.length
      if n_g_cache == n_g then
        let b := ch.b
        let A := ch.A
        fin A b
      else
        let g_new := g.drop n_g_cache
        let b := vcatVec ch.b (affAtZero g_new)
        let A := vcatMat ch.A (jacobian x g_new)
        fin A b
  | none =>
    let b := affAtZero g
    let A := jacobian x g
    fin A b

/-- `lbg - self._b`, one entry (`±inf - b = ±inf`) -/
def shift (e : EVal) (q : Rat) : EVal :=
  match e with
  | .fin v => .fin (v - q)
  | y => y

/-- `lbg - self._b` (CasADi raises on a dimension mismatch: see `call`) -/
def subVec (l : List EVal) (b : List Rat) : List EVal := List.zipWith shift l b

/-- `Solver.__call__` up to the back-end call: the dict handed to the conic solver.  `d` is `_solver_in`
    before the call (it persists between calls of one solver object). -/
def call (s : SolverObj) (d : SolverIn) (i : CallIn) : Except String SolverIn :=
  if !(i.lbg.length == s.b.length && i.ubg.length == s.b.length) then .error "Dimension mismatch"
  else
    let d := { d with x0 := some i.x0 }
    let d := { d with lbx := some i.lbx }
    let d := { d with ubx := some i.ubx }
    let d := { d with lba := some (subVec i.lbg s.b) }
    let d := { d with uba := some (subVec i.ubg s.b) }
    .ok d

/-- `solver_out["f"] = solver_out["cost"] + self._f0` -/
def report (s : SolverObj) (cost : Rat) : Rat := cost + s.f0

/-! ## reference: a fresh extraction of the same NLP (no cache, no history) -/

def extractH (p : NLP) : Mat := jacobian p.n (gradient p.n p.f)
def extractC (p : NLP) : List Rat := affAtZero (gradient p.n p.f)
def extractA (p : NLP) : Mat := jacobian p.n p.g
def extractB (p : NLP) : List Rat := affAtZero p.g

def extract (p : NLP) : SolverObj :=
  { sin := { h := some (extractH p), g := some (extractC p), a := some (extractA p) },
    b := extractB p, f0 := p.f.k }

def cacheOf (p : NLP) : Cache := { A := extractA p, b := extractB p }

/-- what a fresh solver for `p` hands to the back-end for the arguments `i` -/
def freshIn (p : NLP) (i : CallIn) : SolverIn :=
  { h := some (extractH p), g := some (extractC p), a := some (extractA p),
    x0 := some i.x0, lbx := some i.lbx, ubx := some i.ubx,
    lba := some (subVec i.lbg (extractB p)), uba := some (subVec i.ubg (extractB p)) }

/-- documented use (goal programming, single pass): the constraint rows of a later NLP START WITH the
    rows of the earlier one (rows are appended or unchanged), the variables are the same -/
def Extends (p q : NLP) : Prop := q.n = p.n ∧ ∃ t, q.g = p.g ++ t

def chainOK : List NLP → Prop
  | [] => True
  | [_] => True
  | p :: q :: rest => Extends p q ∧ chainOK (q :: rest)

/-! ## sessions: the life of one `CachingQPSol` object -/

/-- consecutive calls of one solver object; an exception leaves the five call keys in a state that the
    next successful call overwrites completely (`call_overwrites`), modelled as unchanged -/
def callsOn (s : SolverObj) : SolverIn → List CallIn → List (Except String SolverIn)
  | _, [] => []
  | d, i :: is =>
    match call s d i with
    | .ok d' => .ok d' :: callsOn s d' is
    | .error e => .error e :: callsOn s d is

/-- one construction followed by its calls: what reaches the back-end, and `f0` (for `report`) -/
structure Trace where
  made : Except String SolverObj
  calls : List (Except String SolverIn)
deriving Repr

def session : Option Cache → List (NLP × List CallIn) → List Trace
  | _, [] => []
  | c, (p, is) :: rest =>
    match construct c p with
    | .ok (s, c') => { made := .ok s, calls := callsOn s s.sin is } :: session (some c') rest
    | .error e => { made := .error e, calls := [] } :: session c rest

/-- the same events, every solver built without any cache and every call on a solver object never called before -/
def sessionFresh (evs : List (NLP × List CallIn)) : List Trace :=
  evs.map fun (p, is) =>
    { made := .ok (extract p), calls := is.map fun i => call (extract p) (extract p).sin i }

/-! ## what the back-end and the NLP mean -/

/-- the conic solver's cost: `1/2 x'Hx + g'x` -/
def conicCost (n : Nat) (h : Mat) (g : List Rat) (x : Nat → Rat) : Rat :=
  (1 / 2) * quadTo n h.rows x + dotTo n g x

/-- `lo_i ≤ v_i ≤ hi_i` for all rows -/
def inRows : List Rat → List EVal → List EVal → Bool
  | v :: vs, l :: ls, h :: hs => l.le (.fin v) && (EVal.fin v).le h && inRows vs ls hs
  | _, _, _ => true

/-- `lba ≤ A x ≤ uba` -/
def conicRowsFeasible (n : Nat) (A : Mat) (lba uba : List EVal) (x : Nat → Rat) : Bool :=
  inRows (A.rows.map fun r => dotTo n r x) lba uba

/-- `lbg ≤ g(x) ≤ ubg` -/
def nlpRowsFeasible (n : Nat) (g : List AffRow) (lbg ubg : List EVal) (x : Nat → Rat) : Bool :=
  inRows (g.map fun r => r.eval n x) lbg ubg

end RtcVerif.C17
