import RtcVerif.Model.C17LinOrder
import RtcVerif.Model.C17SinglePass
import RtcVerif.Model.C03Subproblem
/-!
# C17 — the decisive kernels in the shape of the source (reference definitions for `Gen/*.lean`)

Reference definitions against which `harness/translate_c17.py` compares its translation of the code,
with (core-only) bridging lemmas to the model functions of `Props/C17.lean`.
-/
namespace RtcVerif.C17
open RtcVerif.C03

/-! ## NumPy idioms used by `_get_linear_coefficients` -/

/-- `v[1:]` -/
def sliceFrom1 (l : List Rat) : List Rat := l.drop 1
/-- `v[:-1]` -/
def sliceToLast (l : List Rat) : List Rat := l.dropLast
/-- element-wise binary operation on arrays of equal length -/
def ew (f : Rat → Rat → Rat) (a b : List Rat) : List Rat := List.zipWith f a b
/-- `xs[-1] = v` -/
def setLast : List Rat → Rat → List Rat
  | [], _ => []
  | [_], v => [v]
  | x :: rest, v => x :: setLast rest v

/-- `ys = xs**order; a = (ys[1:] - ys[:-1]) / (xs[1:] - xs[:-1]); b = ys[1:] - a * xs[1:]; zip(a, b)` -/
def coeffsCode (r : Nat) (xs : List Rat) : List (Rat × Rat) :=
  let ys := xs.map (· ^ r)
  let a := ew (· / ·) (ew (· - ·) (sliceFrom1 ys) (sliceToLast ys)) (ew (· - ·) (sliceFrom1 xs) (sliceToLast xs))
  let b := ew (· - ·) (sliceFrom1 ys) (ew (· * ·) a (sliceFrom1 xs))
  List.zip a b

theorem coeffsCode_cons2 (r : Nat) (x0 x1 : Rat) (rest : List Rat) :
    coeffsCode r (x0 :: x1 :: rest) = chordCoef r x0 x1 :: coeffsCode r (x1 :: rest) := by
  simp [coeffsCode, ew, sliceFrom1, sliceToLast, chordCoef, List.dropLast]

/-- the array arithmetic of the source computes the chord table of the model -/
theorem coeffsCode_eq (r : Nat) (xs : List Rat) : coeffsCode r xs = coeffs r xs := by
  induction xs with
  | nil => rfl
  | cons x0 rest ih =>
    cases rest with
    | nil => rfl
    | cons x1 rest' => rw [coeffsCode_cons2, ih, coeffs]

/-- key of the class-level table cache of `_get_linear_coefficients`: a table is looked up and stored
    under the tolerance and the order it was computed for (the `kind` is not part of the key in the
    code: candidate finding F50) -/
def linCacheKey : List String := ["eps", "order"]

/-- one constraint of the linearised goal: `lin - a*eps - b` with bounds `[0, inf)` -/
def linRowFeasible (ab : Rat × Rat) (eps lin : Rat) : Bool := decide (0 ≤ lin - ab.1 * eps - ab.2)

/-- objective entry of a linearised goal: `goal.weight * lin / n_active` -/
def linObjective (weight lin nActive : Rat) : Rat := weight * lin / nActive

/-! ## min-abs conversion -/

structure AbsGoal where
  size : Nat
  weight : Rat
  relaxation : Rat
  nominal : Rat
  priority : Int
deriving Repr, DecidableEq

structure ConvGoal where
  size : Nat
  weight : Rat
  relaxation : Rat
  priority : Int
  order : Nat
deriving Repr, DecidableEq

/-- `_ConvertedMinAbsGoal`: minimise the auxiliary variable (order 1, nominal 1), relaxation in scaled units -/
def convertGoal (g : AbsGoal) : ConvGoal :=
  { size := g.size, weight := g.weight, relaxation := convertedRelaxation g.relaxation g.nominal,
    priority := g.priority, order := 1 }

/-! ## bounds of the retained objective row (keep-soft multi-pass and both single-pass methods) -/

def objBnd (fix : Bool) (v cr : Rat) : EVal × EVal :=
  if fix then (.fin v, .fin v) else (.ninf, .fin (v + cr))

/-- WHEN the two options (`fix_minimized_values`, `constraint_relaxation`) of the retained objective row of a
    priority are read from `goal_programming_options()` (a user override may depend on the active priority,
    tracked through `priority_started`) -/
inductive OptRead where
  /-- while that priority is the active one: after its `priority_started`, before the next one's -/
  | ownPriority
  /-- when the NEXT priority is transcribed (after the next `priority_started`) -/
  | nextPriority
deriving Repr, DecidableEq

/-- `GoalProgrammingMixin` (keep-soft): `__add_subproblem_objective_constraint` reads the options itself and is
    called at the end of the loop body of its priority -/
def keepSoftOptRead : OptRead := .ownPriority

/-- `SinglePassGoalProgrammingMixin`: the two options are stored right after the priority's solve and
    `transcribe` of the next priority uses the stored values -/
def singlePassOptRead : OptRead := .ownPriority

/-- options in force for the retained objective row of priority index `j`; `opts i` = what
    `goal_programming_options()` returns while priority index `i` is active -/
def optsForRow (r : OptRead) (opts : Nat → Bool × Rat) (j : Nat) : Bool × Rat :=
  match r with
  | .ownPriority => opts j
  | .nextPriority => opts (j + 1)

/-- bounds of the retained objective row of priority index `j` (`vals j` = its optimum) -/
def rowBnd (r : OptRead) (opts : Nat → Bool × Rat) (vals : Nat → Rat) (j : Nat) : EVal × EVal :=
  objBnd (optsForRow r opts j).1 (vals j) (optsForRow r opts j).2

/-! ## state at the start of `optimize()` -/

/-- fresh values a reset can assign -/
inductive Fresh where
  | emptyList            -- `[]`
  | emptyDict            -- `{}`
  | perMember            -- `[[] for m in range(E)]` / `[OrderedDict() for m in range(E)]`
  | flag (b : Bool)      -- `True` / `False`
  | zero                 -- `0`
  | none                 -- `None`
deriving Repr, DecidableEq

/-- attributes `GoalProgrammingMixin.optimize` must reset before the first priority -/
def gpmReset : List (String × Fresh) :=
  [("__constraint_store", .perMember), ("__original_constant_input_keys", .emptyDict),
   ("__original_parameter_keys", .emptyDict), ("__path_constraint_store", .perMember),
   ("__problem_constraints", .perMember), ("__problem_epsilons", .emptyList),
   ("__problem_parameters", .emptyList), ("__problem_path_constraints", .perMember),
   ("__problem_path_epsilons", .emptyList), ("__problem_path_timeseries", .emptyList),
   ("__results_are_current", .flag false), ("_gp_first_run", .flag true)]

/-- attributes `SinglePassGoalProgrammingMixin.optimize` must reset -/
def singlePassReset : List (String × Fresh) :=
  [("__additional_constraints", .emptyList), ("__constraint_store", .perMember), ("__current_priority", .zero),
   ("__objectives", .emptyList), ("__objectives_per_priority", .emptyList), ("__original_constraints", .none),
   ("__path_constraint_store", .perMember), ("__path_objectives_per_priority", .emptyList),
   ("__problem_constraints", .perMember), ("__problem_epsilons", .emptyList),
   ("__problem_parameters", .emptyList), ("__problem_path_constraints", .perMember),
   ("__problem_path_epsilons", .emptyList), ("__problem_path_timeseries", .emptyList),
   ("__results_are_current", .flag false), ("_gp_first_run", .flag true)]

/-- attributes `MinAbsGoalProgrammingMixin.optimize` must reset -/
def minAbsReset : List (String × Fresh) :=
  [("__converted_goals", .emptyList), ("__converted_path_goals", .emptyList),
   ("__first_run", .flag true), ("__problem_constraints", .perMember), ("__problem_path_constraints", .perMember),
   ("__problem_path_vars", .emptyList), ("__problem_vars", .emptyList),
   ("__subproblem_abs_goals", .emptyDict), ("__subproblem_constraints", .emptyDict),
   ("__subproblem_path_abs_goals", .emptyDict), ("__subproblem_path_constraints", .emptyDict),
   ("__subproblem_path_vars", .emptyDict), ("__subproblem_vars", .emptyDict)]

/-- state after the reset, from any previous state: an association list attribute -> value, the
    reset entries overriding -/
def applyReset (reset : List (String × Fresh)) (prev : List (String × Fresh)) : List (String × Fresh) :=
  reset ++ prev.filter fun kv => !(reset.any fun r => r.1 == kv.1)

def lookup (s : List (String × Fresh)) (k : String) : Option Fresh := (s.find? fun kv => kv.1 == k).map (·.2)

end RtcVerif.C17
