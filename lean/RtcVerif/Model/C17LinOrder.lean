import RtcVerif.Model.Num
/-!
# C17 — piecewise-linear majorant of `eps^order` (LinearizedOrderGoal._get_linear_coefficients),
absolute-value minimisation through an auxiliary variable (MinAbsGoalProgrammingMixin)

Core Lean only.  `coeffs r xs` re-states how the code turns its knot vector `xs` into line
coefficients:  `a = (ys[1:] - ys[:-1]) / (xs[1:] - xs[:-1])`, `b = ys[1:] - a * xs[1:]`,
`ys = xs ** order`.  The optimiser sees one constraint `lin ≥ a_i * eps + b_i` per line and
minimises `weight * lin`, i.e. `lin = linMax coeffs eps` at the optimum.
-/
namespace RtcVerif.C17

/-- chord of `x^r` through the knots `x0 < x1`, as (slope, intercept) -/
def chordCoef (r : Nat) (x0 x1 : Rat) : Rat × Rat :=
  let a := (x1 ^ r - x0 ^ r) / (x1 - x0)
  (a, x1 ^ r - a * x1)

/-- line coefficients for a knot vector -/
def coeffs (r : Nat) : List Rat → List (Rat × Rat)
  | x0 :: x1 :: rest => chordCoef r x0 x1 :: coeffs r (x1 :: rest)
  | _ => []

def lineAt (ab : Rat × Rat) (x : Rat) : Rat := ab.1 * x + ab.2

/-- `max_i (a_i x + b_i)` (0 for an empty table) -/
def linMax : List (Rat × Rat) → Rat → Rat
  | [], _ => 0
  | [l], x => lineAt l x
  | l :: rest, x => max (lineAt l x) (linMax rest x)

/-- strictly increasing -/
def increasing : List Rat → Bool
  | a :: b :: rest => decide (a < b) && increasing (b :: rest)
  | _ => true

def lastD : List Rat → Rat → Rat
  | [], d => d
  | [a], _ => a
  | _ :: rest, d => lastD rest d

/-- side conditions of a knot vector: starts at 0, ends at 1, strictly increasing, at least one segment -/
def knotsOK (xs : List Rat) : Bool :=
  match xs with
  | x0 :: _ :: _ => decide (x0 = 0) && decide (lastD xs 0 = 1) && increasing xs
  | _ => false

/-- tangent of `x^r` at `p`, evaluated at `x` -/
def tangentAt (r : Nat) (p x : Rat) : Rat := p ^ r + (r : Rat) * p ^ (r - 1) * (x - p)

/-- the a-priori overestimate on the segment `[p, q]`: chord vs tangent at the left knot, at `q` -/
def segGap (r : Nat) (p q : Rat) : Rat := q ^ r - tangentAt r p q

def segGaps (r : Nat) : List Rat → List Rat
  | p :: q :: rest => segGap r p q :: segGaps r (q :: rest)
  | _ => []

/-! ## absolute value through an auxiliary variable -/

/-- the two rows `abs + f/n ≥ 0`, `abs - f/n ≥ 0` of `MinAbsGoalProgrammingMixin.__convert_goals`
    and the variable bound `abs ≥ 0` -/
def minAbsFeasible (f n a : Rat) : Bool :=
  decide (0 ≤ a + 1 * f / n) && decide (0 ≤ a + (-1) * f / n) && decide (0 ≤ a)

def qabs (x : Rat) : Rat := if x < 0 then -x else x

/-- `_ConvertedMinAbsGoal.relaxation`: the auxiliary variable stands for `|f| / function_nominal` and the
    converted goal has nominal 1, so the user's relaxation (physical units) is divided by the nominal -/
def convertedRelaxation (relaxation nominal : Rat) : Rat := relaxation / nominal

/-- upper bound retained for a minimisation goal after its priority (`__goal_hard_constraint`, branch
    without target bounds, `fix_minimized_values` off or relaxation > 0):
    `(value + relaxation) / function_nominal + constraint_relaxation` on `function / function_nominal` -/
def retainedUpper (value relaxation nominal cr : Rat) : Rat := (value + relaxation) / nominal + cr

end RtcVerif.C17
