import RtcVerif.Model.C03Cert
/-!
# C17 — constraint sets of the keep-soft multi-pass loop and of the two single-pass methods

Rows are the sparse affine rows of `Model/C03Cert` (`lo ≤ coefs·x + b0 ≤ hi`).  At priority index `k`
(0-based), with `soft j` the soft-constraint rows of priority `j`, `objRow j` the row whose function is
the objective of priority `j`, and `bnd j` the bounds the code gives it once priority `j` is solved
(`(-inf, v_j + relaxation]` or `[v_j, v_j]`):

* multi-pass, `keep_soft_constraints`:   base ++ soft 0..k            ++ objective rows 0..k-1
* single pass, APPEND_CONSTRAINTS_OBJECTIVE:   base ++ soft 0..n-1    ++ objective rows 0..k-1
* single pass, UPDATE_OBJECTIVE_CONSTRAINT_BOUNDS:  base ++ soft 0..n-1 ++ objective rows 0..n-1, the
  rows `j ≥ k` still carrying the bounds `(-inf, +inf)` they were created with.
Core Lean only.
-/
namespace RtcVerif.C17
open RtcVerif.C03

structure Plan where
  base : List Row                      -- model rows, user constraints, hard (critical) goal rows
  soft : List (List Row)               -- soft rows per priority
  objRow : List Row                    -- objective of each priority as a row function (bounds unused)
  bnd : List (EVal × EVal)             -- bounds of the objective row once its priority is solved
deriving Repr

def withBnd (r : Row) (b : EVal × EVal) : Row := { r with lo := b.1, hi := b.2 }

/-- objective rows of the solved priorities `0..k-1` with their bounds -/
def solvedObjRows (P : Plan) (k : Nat) : List Row :=
  ((P.objRow.zip P.bnd).take k).map fun rb => withBnd rb.1 rb.2

def keepRows (P : Plan) (k : Nat) : List Row :=
  P.base ++ (P.soft.take (k + 1)).flatten ++ solvedObjRows P k

def appendRows (P : Plan) (k : Nat) : List Row :=
  P.base ++ P.soft.flatten ++ solvedObjRows P k

/-- method 2: every objective row is present from the start; rows of unsolved priorities are unbounded -/
def updateObjRows (P : Plan) (k : Nat) : List Row :=
  (P.objRow.zip P.bnd).zipIdx.map fun rbi =>
    if rbi.2 < k then withBnd rbi.1.1 rbi.1.2 else withBnd rbi.1.1 (EVal.ninf, EVal.pinf)

def updateRows (P : Plan) (k : Nat) : List Row :=
  P.base ++ P.soft.flatten ++ updateObjRows P k

/-- `x` with coordinate `j` set to `a` -/
def setAt : List Rat → Nat → Rat → List Rat
  | [], _, _ => []
  | _ :: xs, 0, a => a :: xs
  | x :: xs, j + 1, a => x :: setAt xs j a

/-- a soft row of a goal whose violation variable is coordinate `e`:
    `(f(x) - eps * (bound - target) - target) / nominal` on the side given by `(lo, hi)` -/
def softRow (f : SRow) (f0 : Rat) (e : Nat) (bound target nominal : Rat) (lo hi : EVal) : Row :=
  { coefs := (f.map fun jv => (jv.1, jv.2 / nominal)) ++ [(e, -(bound - target) / nominal)],
    b0 := (f0 - target) / nominal, lo := lo, hi := hi }

end RtcVerif.C17

namespace RtcVerif.C17
open RtcVerif.C03

/-- a target goal of a later priority: function `f·x + f0`, violation variable `e`, function range
    `[m, M]`, targets, nominal -/
structure Later where
  f : SRow
  f0 : Rat
  e : Nat
  m : Rat
  M : Rat
  tmin : Rat
  tmax : Rat
  nominal : Rat
deriving Repr

/-- its two soft rows (lower and upper side) -/
def Later.rows (g : Later) : List Row :=
  [softRow g.f g.f0 g.e g.m g.tmin g.nominal (.fin 0) .pinf,
   softRow g.f g.f0 g.e g.M g.tmax g.nominal .ninf (.fin 0)]

/-- put the violation variables of the given goals to 1 -/
def setAll (x : List Rat) : List Later → List Rat
  | [] => x
  | g :: gs => setAll (setAt x g.e 1) gs

def distinctEps : List Later → Prop
  | [] => True
  | g :: gs => (∀ g' ∈ gs, g'.e ≠ g.e) ∧ distinctEps gs

end RtcVerif.C17
