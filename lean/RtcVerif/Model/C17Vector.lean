import RtcVerif.Model.C03Subproblem
/-!
# C17 — a vector goal and its scalar goals (objective model of C03)

`split g` is the list of the `g.size` scalar goals a user would write instead of the vector goal `g`:
component `c` keeps weight, order, criticality, gets nominal `nominal[c]` and column `c` of each target.
Core Lean only.
-/
namespace RtcVerif.C17
open RtcVerif.C03

/-- column `c` of a target, in the shape a scalar goal takes -/
def compTarget : Target → Nat → Target
  | .scalar v, _ => .scalar v
  | .vec vs, c => .scalar ((Target.vec vs).entry c 0)
  | .ts1 vs, _ => .ts1 vs
  | .ts2 rows, c => .ts1 (rows.map fun r => r.getD c XVal.nan)

def compGoal (g : Goal) (c : Nat) : Goal :=
  { size := 1, weight := g.weight, order := g.order, nominal := [g.nominalAt c],
    tmin := compTarget g.tmin c, tmax := compTarget g.tmax c, critical := g.critical }

def split (g : Goal) : List Goal := (List.range g.size).map (compGoal g)

def splitAll (gs : List Goal) : List Goal := gs.flatMap split

/-- hypothesis of the equivalence: every component is a goal of the same kind as the vector goal
    (a component without any finite target would be a *minimisation* goal when written as a scalar
    goal with a float target, or be dropped as an empty goal) -/
def splitOK (g : Goal) : Bool := (List.range g.size).all fun c => (compGoal g c).hasBounds == g.hasBounds

/-- (goal, goal index, component, index of the scalar goal in the split list), enumerated in the
    order of both formulations -/
def quads : Nat → Nat → List Goal → List (Goal × Nat × Nat × Nat)
  | _, _, [] => []
  | k, K, g :: gs => ((List.range g.size).map fun c => (g, k, c, K + c)) ++ quads (k + 1) (K + g.size) gs

/-- valuations of the two formulations agree: the epsilon / function value of scalar goal number
    `flat` is that of component `c` of vector goal `j` -/
def valsAgree (isPath : Bool) (gs : List Goal) (val val' : Val) : Prop :=
  ∀ q ∈ quads 0 0 gs, ∀ m i, val' isPath q.2.2.2 0 m i = val isPath q.2.1 q.2.2.1 m i

end RtcVerif.C17
