/-!
# C18 — model of `HomotopyMixin.optimize` (src/rtctools/optimization/homotopy_mixin.py)

Core Lean only (exact `Rat` arithmetic).  The inner solve `super().optimize(...)` is an arbitrary
outcome oracle: the loop is driven by a list of booleans (one per solve).  Two loop bodies:

* `step`        the repaired loop body (commit e603867), line by line;
* `stepLegacy`  the loop body before the repair (finding F3), kept for the overshoot witness.

Python                                                     model
---------------------------------------------------------  ------------------------------------------
delta_theta = options["delta_theta_0"]                     `init`: delta := delta0
self.__theta = options["theta_start"]                      `init`: theta := thetaStart
while self.__theta <= 1.0:                                 `optimize` (first test) / `guard` (later tests)
    success = super().optimize(...)                        the next oracle value `ok`; `push`: log entry,
                                                           `seed()` inside that solve: `seedOf`
    if success:                                            `accept`:
        self.__results = [extract_results(m) ...]            acc := some theta
        if self.__theta == 0.0:                              `mark`: linear := false; cleared += 1
            linear flags off; clear_transcription_cache()
        if self.__theta >= 1.0: break                      finished true
    else:
        if self.__theta == options["theta_start"]: break   finished false
        self.__theta -= delta_theta                        `stepBack`: theta := theta - delta
        delta_theta /= 2                                               delta := delta / 2
        if delta_theta < options["delta_theta_min"]: break finished false
    if self.__theta + delta_theta >= 1.0:                  `advance`
        delta_theta = 1.0 - self.__theta
        self.__theta = 1.0
    else:
        self.__theta += delta_theta
(post-processing)
return success                                             the flag in `finished`; when the `while`
                                                           test fails before the first solve,
                                                           `success` is unbound: `optimize = none`
-/
namespace RtcVerif.C18

structure Opts where
  thetaStart : Rat
  delta0 : Rat
  deltaMin : Rat
deriving Repr, DecidableEq

/-- where the seed of one solve comes from (`HomotopyMixin.seed`, first goal-programming run) -/
inductive SeedSrc where
  | base                    -- `super().seed()` untouched
  | stored (theta : Rat)    -- overwritten with `self.__results`, extracted after the accepted solve at `theta`
  | unset                   -- `self.__results` read before it was ever assigned (AttributeError)
deriving Repr, DecidableEq

/-- one entry of the solve log -/
structure Solve where
  theta : Rat
  delta : Rat      -- `delta_theta` while this solve runs
  ok : Bool
  seed : SeedSrc
deriving Repr, DecidableEq

structure St where
  theta : Rat
  delta : Rat
  acc : Option Rat       -- `self.__results`: theta of the solve whose results are stored (none: never set)
  linear : Bool          -- `linear_collocation` / `check_collocation_linearity` still untouched
  cleared : Nat          -- calls of `clear_transcription_cache`
  solves : List Solve    -- log, newest first
deriving Repr, DecidableEq

inductive Status where
  | running
  | finished (success : Bool)
deriving Repr, DecidableEq

def init (o : Opts) : St :=
  { theta := o.thetaStart, delta := o.delta0, acc := none, linear := true, cleared := 0, solves := [] }

/-- `HomotopyMixin.seed` when called during the solve at the current `theta` -/
def seedOf (o : Opts) (s : St) : SeedSrc :=
  if s.theta > o.thetaStart then
    match s.acc with
    | some a => .stored a
    | none => .unset
  else .base

/-- `theta += delta`, clamped so that the next solve is never beyond 1 (repaired code) -/
def advance (s : St) : St :=
  if s.theta + s.delta ≥ 1 then { s with delta := 1 - s.theta, theta := 1 }
  else { s with theta := s.theta + s.delta }

/-- legacy: no clamp -/
def advanceLegacy (s : St) : St := { s with theta := s.theta + s.delta }

/-- the `while self.__theta <= 1.0` test at the end of a pass; `ok` is the current value of the
    Python variable `success` -/
def guard (s : St) (ok : Bool) : St × Status :=
  if s.theta ≤ 1 then (s, .running) else (s, .finished ok)

/-- the solve at `s.theta` is logged with its outcome and the seed it was started from -/
def push (o : Opts) (s : St) (ok : Bool) : St :=
  { s with solves := ⟨s.theta, s.delta, ok, seedOf o s⟩ :: s.solves }

/-- `if self.__theta == 0.0:` switch to the nonlinear model family, clear the transcription cache -/
def mark (s : St) : St :=
  if s.theta = 0 then { s with linear := false, cleared := s.cleared + 1 } else s

/-- success branch: `self.__results = [...]`, then the `theta == 0.0` block -/
def accept (s : St) : St := mark { s with acc := some s.theta }

/-- failure branch: `self.__theta -= delta_theta; delta_theta /= 2` -/
def stepBack (s : St) : St := { s with theta := s.theta - s.delta, delta := s.delta / 2 }

/-- one pass through the (repaired) loop body, given the outcome of the solve at `s.theta` -/
def step (o : Opts) (s : St) (ok : Bool) : St × Status :=
  let s := push o s ok
  if ok then
    let s := accept s
    if s.theta ≥ 1 then (s, .finished true) else guard (advance s) true
  else
    if s.theta = o.thetaStart then (s, .finished false)
    else
      let s := stepBack s
      if s.delta < o.deltaMin then (s, .finished false) else guard (advance s) false

/-- legacy loop body (before commit e603867): unclamped increment, the `while theta <= 1` test
    ends the loop with the current value of `success` -/
def stepLegacy (o : Opts) (s : St) (ok : Bool) : St × Status :=
  let s := push o s ok
  if ok then
    guard (advanceLegacy (accept s)) true
  else
    if s.theta = o.thetaStart then (s, .finished false)
    else
      let s := stepBack s
      if s.delta < o.deltaMin then (s, .finished false) else guard (advanceLegacy s) false

/-- run on a finite list of outcomes; `none` = outcomes exhausted while the loop is still running -/
def run (stp : Opts → St → Bool → St × Status) (o : Opts) : St → List Bool → St × Option Bool
  | s, [] => (s, none)
  | s, ok :: rest =>
      match stp o s ok with
      | (s', .finished b) => (s', some b)
      | (s', .running) => run stp o s' rest

/-- `HomotopyMixin.optimize`: `none` = UnboundLocalError (`theta_start > 1`: the loop body never
    runs and `return success` has nothing to return) -/
def optimizeWith (stp : Opts → St → Bool → St × Status) (o : Opts) (l : List Bool) :
    Option (St × Option Bool) :=
  if o.thetaStart ≤ 1 then some (run stp o (init o) l) else none

def optimize (o : Opts) (l : List Bool) : Option (St × Option Bool) := optimizeWith step o l

/-! ### several `optimize()` calls on one object

`self.__results` (model: `acc`) is an attribute and survives from one call to the next; theta and
the increment are re-initialised from the options, the log is per call. -/

/-- the state in which a call starts on an object whose `self.__results` holds `prev` -/
def initFrom (o : Opts) (prev : Option Rat) : St := { init o with acc := prev }

def optimizeFromWith (stp : Opts → St → Bool → St × Status) (o : Opts) (prev : Option Rat) (l : List Bool) :
    Option (St × Option Bool) :=
  if o.thetaStart ≤ 1 then some (run stp o (initFrom o prev) l) else none

def optimizeFrom (o : Opts) (prev : Option Rat) (l : List Bool) : Option (St × Option Bool) :=
  optimizeFromWith step o prev l

/-- consecutive calls (options and outcome list per call); `self.__results` is carried along -/
def seqFrom (stp : Opts → St → Bool → St × Status) :
    Option Rat → List (Opts × List Bool) → List (Option (St × Option Bool))
  | _, [] => []
  | prev, (o, l) :: rest =>
    let r := optimizeFromWith stp o prev l
    r :: seqFrom stp (match r with | some (s, _) => s.acc | none => prev) rest

def optimizeSeq (runs : List (Opts × List Bool)) : List (Option (St × Option Bool)) := seqFrom step none runs

/-- variant of the loop body (seeded change c18h): "the very first solve failed" is detected by
    "no results stored yet" instead of `theta == theta_start` -/
def stepByResults (o : Opts) (s : St) (ok : Bool) : St × Status :=
  let s := push o s ok
  if ok then
    let s := accept s
    if s.theta ≥ 1 then (s, .finished true) else guard (advance s) true
  else
    if s.acc.isNone then (s, .finished false)
    else
      let s := stepBack s
      if s.delta < o.deltaMin then (s, .finished false) else guard (advance s) false

/-- theta of the last accepted solve recorded in a log (newest first) -/
def lastAcc : List Solve → Option Rat
  | [] => none
  | e :: t => if e.ok then some e.theta else lastAcc t

/-- outcomes of an oracle `Nat → Bool` up to `n` solves -/
def outcomes (f : Nat → Bool) (n : Nat) : List Bool := (List.range n).map f

end RtcVerif.C18
