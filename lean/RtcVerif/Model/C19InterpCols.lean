import RtcVerif.Model.InterpCode
/-!
Code-level reference for the 2-D values branch of `OptimizationProblem.interpolate` (harness/translate_c19.py,
`gen_interp_cols`).  A 2-D `fs` is read column-major: the pair `(ts, fs[:, i])` is the `i`-th knot list of
`cols`; results are lists of columns (`np.stack(..., axis=-1)` puts the `i`-th result into column `i`).

* `[self.interpolate(t, ts, fs[:, i], f_left, f_right, mode) for i in range(fs.shape[1])]`
                                     ↦ `cols.map (fun ks => <the 1-D path of the same function> mode ks fl fr t)`
* `np.stack(l, axis=-1)`             ↦ `stackC l` (scalar results) / `stackA l` (array results): raises on an
                                       empty list (an array without columns); an exception in the
                                       comprehension propagates
* `fs.copy()`                        ↦ the values of every column

Core Lean only.
-/
namespace RtcVerif.InterpCode
open RtcVerif.Interp

def stackC (l : List OutC) : Option (List XVal) := if l = [] then none else sequenceC l

def stackA (l : List (Option (List XVal))) : Option (List (List XVal)) :=
  if l = [] then none else l.mapM id

/-- `interpolate` as written: 2-D values, scalar query -/
def colsScalarRef (mode : Nat) (cols : List Knots) (fl fr : Fill) (t : Rat) : Option (List XVal) :=
  stackC (cols.map fun ks => scalarRef mode ks fl fr t)

/-- `interpolate` as written: 2-D values, array query -/
def colsArrayRef (mode : Nat) (ts : List Rat) (cols : List Knots) (fl fr : Fill) (qs : List Rat) :
    Option (List (List XVal)) :=
  if qs.length = ts.length ∧ qs = ts then some (cols.map fun ks => ks.map fun k => XVal.fin k.2)
  else stackA (cols.map fun ks => arrayRef mode ks fl fr qs)

/-- a 2-D array over the time stamps `ts`: at least one column, every column a non-empty knot list on `ts`
    whose first time stamp is not after its last -/
def ColsOK (ts : List Rat) (cols : List Knots) : Prop :=
  cols ≠ [] ∧ ∀ ks ∈ cols, ks ≠ [] ∧ firstTime ks ≤ lastTime ks ∧ ks.map (·.1) = ts

end RtcVerif.InterpCode
