import RtcVerif.Model.Merge
/-!
Code-level vocabulary for the source-to-Lean translation of `OptimizationProblem.merge_bounds`
and `Timeseries.__init__` (harness/translate_c19.py, `gen_merge_code`).

`merge_bounds` is dynamically typed: a bound is a Python `int` / `float`, a 1-D numeric `ndarray` (integer
or float dtype), or a `Timeseries` (values: 1-D or 2-D float64 array).  `PyV` is that universe plus the
values the debug assertions reject.  The translator maps the Python / NumPy constructs of the source to the
primitives below (that mapping is the trusted part; it is listed in the header of translate_c19.py).

Core Lean only.
-/
namespace RtcVerif.MergeCode
open RtcVerif RtcVerif.Merge

/-- a Python value that can reach `merge_bounds` -/
inductive PyV where
  | num (isInt : Bool) (v : EVal)                      -- Python `int` (isInt) / `float`
  | arr (isInt : Bool) (vs : List EVal)                -- 1-D ndarray, integer (isInt) or float dtype
  | arr2 (rows : List (List EVal))                     -- 2-D float ndarray (`.values` of a vector Timeseries)
  | ts1 (times : List Rat) (vals : List EVal)          -- Timeseries with 1-D values
  | ts2 (times : List Rat) (rows : List (List EVal))   -- Timeseries with 2-D values (`rows[i]` at `times[i]`)
  | arrObj                                             -- 1-D ndarray of a non-numeric dtype
  | other                                              -- None, list, str, ...
deriving DecidableEq, Repr

/-- `isinstance(v, np.ndarray)` -/
def isArr : PyV → Bool
  | .arr _ _ | .arr2 _ | .arrObj => true
  | _ => false
/-- `isinstance(v, Timeseries)` -/
def isTs : PyV → Bool
  | .ts1 _ _ | .ts2 _ _ => true
  | _ => false
/-- `isinstance(v, int)` -/
def isInt : PyV → Bool
  | .num i _ => i
  | _ => false
/-- `isinstance(v, float)` -/
def isFloat : PyV → Bool
  | .num i _ => !i
  | _ => false
/-- `isinstance(v, list)`: lists are outside `PyV` (they are `other`) -/
def isList : PyV → Bool := fun _ => false
/-- `isinstance(v1, type(v2))` -/
def sameType : PyV → PyV → Bool
  | .num i _, .num j _ => i == j
  | a, b => (isArr a && isArr b) || (isTs a && isTs b)

/-- `v.ndim` -/
def ndim : PyV → Nat
  | .arr _ _ | .arrObj => 1
  | .arr2 _ => 2
  | _ => 0
/-- `np.issubdtype(v.dtype, np.number)` -/
def numericDtype : PyV → Bool
  | .arr _ _ | .arr2 _ => true
  | _ => false
/-- `v.shape[1]` -/
def shape1 : PyV → Nat
  | .arr2 rows => (rows.head?.map List.length).getD 0
  | _ => 0
/-- `v.shape` -/
def shapeOf : PyV → List Nat
  | .arr _ vs => [vs.length]
  | .arr2 rows => [rows.length, shape1 (.arr2 rows)]
  | _ => []
/-- `np.prod(v.shape)` (0 for values without a numeric shape) -/
def size : PyV → Nat
  | .arr _ vs => vs.length
  | .arr2 rows => (rows.map List.length).sum
  | _ => 0
/-- `len(v)` -/
def len : PyV → Nat
  | .arr _ vs => vs.length
  | .arr2 rows => rows.length
  | _ => 0
/-- `v.item()` of a one-element array -/
def item : PyV → PyV
  | .arr i [x] => .num i x
  | .arr2 [[x]] => .num false x
  | _ => .other
/-- `float(v)` -/
def toFloat : PyV → PyV
  | .num _ x => .num false x
  | _ => .other
/-- `v.times` -/
def timesOf : PyV → List Rat
  | .ts1 t _ | .ts2 t _ => t
  | _ => []
/-- `v.values` (always float64: see `tsInit`) -/
def valuesOf : PyV → PyV
  | .ts1 _ vals => .arr false vals
  | .ts2 _ rows => .arr2 rows
  | _ => .other
/-- `values[0]` -/
def getItem0 : PyV → PyV
  | .arr i (x :: _) => .num i x
  | .arr2 (r :: _) => .arr false r
  | _ => .other
/-- `hasattr(v, "__iter__")` -/
def iterable : PyV → Bool
  | .arr _ _ | .arr2 _ | .arrObj => true
  | _ => false

/-- the number a scalar stands for (0 for non-scalars) -/
def numVal : PyV → EVal
  | .num _ x => x
  | _ => .fin 0

/-- conversion of a float to an integer dtype (NumPy truncates towards zero; an infinity becomes a
    meaningless integer, 0 here) -/
def truncE : EVal → EVal
  | .fin q => .fin (if q < 0 then -((-q).floor : Int) else (q.floor : Int))
  | _ => .fin 0

/-- `np.full_like(x, s)`: shape AND dtype of `x` -/
def fullLike (x s : PyV) : PyV :=
  match x with
  | .arr i vs => .arr i (vs.map fun _ => if i then truncE (numVal s) else numVal s)
  | .arr2 rows => .arr2 (rows.map fun r => r.map fun _ => numVal s)
  | _ => .other
/-- `np.full_like(x, s, dtype=np.float64)`: shape of `x`, float dtype -/
def fullLikeF (x s : PyV) : PyV :=
  match x with
  | .arr _ vs => .arr false (vs.map fun _ => numVal s)
  | .arr2 rows => .arr2 (rows.map fun r => r.map fun _ => numVal s)
  | _ => .other
/-- `np.full_like(times, s, dtype=np.float64)` for a list of time stamps -/
def fullTimes (times : List Rat) (s : PyV) : PyV := .arr false (times.map fun _ => numVal s)
/-- `np.broadcast_to(x, y.shape)` for a 1-D `x` and a 2-D `y` (NumPy raises when the row length differs;
    the source guards the call) -/
def broadcastLike (x y : PyV) : PyV :=
  match x, y with
  | .arr _ vs, .arr2 rows => if shape1 y = vs.length then .arr2 (rows.map fun _ => vs) else .other
  | _, _ => .other
/-- `np.array(v, dtype=np.float64, copy=True)` -/
def asFloatArray : PyV → PyV
  | .arr _ vs => .arr false vs
  | .arr2 rows => .arr2 rows
  | _ => .other

/-- `np.maximum(x, y)` (`mx`) / `np.minimum(x, y)`: element-wise, result dtype by promotion.  (NumPy
    broadcasting of unequal shapes is not modelled: the source checks the shapes first.) -/
def npMM (mx : Bool) (x y : PyV) : PyV :=
  let f := if mx then EVal.max else EVal.min
  match x, y with
  | .arr i xs, .arr j ys => .arr (i && j) (List.zipWith f xs ys)
  | .arr2 xs, .arr2 ys => .arr2 (List.zipWith (List.zipWith f) xs ys)
  | _, _ => .other
def npMaximum := npMM true
def npMinimum := npMM false

/-- Python's `max(a, b)` (`mx`) / `min(a, b)` of two numbers: the first argument unless the second is
    strictly larger (smaller) -/
def pyMM (mx : Bool) (a b : PyV) : PyV :=
  match a, b with
  | .num _ x, .num _ y => if mx then (if EVal.lt x y then b else a) else (if EVal.lt y x then b else a)
  | _, _ => .other
def pyMax := pyMM true
def pyMin := pyMM false

/-- the object `Timeseries.__init__` leaves behind: `times` and the float64 `values` array -/
def mkTs (times : List Rat) (values : PyV) : PyV :=
  match values with
  | .arr _ vs => .ts1 times vs
  | .arr2 rows => .ts2 times rows
  | _ => .other

/-- `Timeseries(times, values)` as written (`ca.DM` values are outside `PyV`): a one-element 1-D
    sequence is a single value broadcast over all times, a one-row 2-D array is not (F35) -/
def tsInit (times : List Rat) (values : PyV) : PyV :=
  let values :=
    if (isArr values || isList values) && len values == 1 && !iterable (getItem0 values) then getItem0 values
    else values
  if iterable values then mkTs times (asFloatArray values) else mkTs times (fullTimes times values)

/-! ### `merge_bounds` as written -/

/-- the debug assertions on one of the four inputs -/
def checkRef (v : PyV) : Bool :=
  if isArr v then ndim v == 1 && numericDtype v else isFloat v || isInt v || isTs v

/-- "treat single element vectors as scalars", "ints and floats are interchangeable" -/
def normRef (v : PyV) : PyV :=
  let v := if isArr v && size v == 1 then item v else v
  if isInt v then toFloat v else v

/-- one step of the upcasting loop: the new `all_bounds[i]` (`none` = raises) -/
def upcastRef (v1 v2 : PyV) : Option PyV :=
  if sameType v1 v2 then some v1
  else if (isInt v1 || isFloat v1) && isTs v2 then some (tsInit (timesOf v2) (fullLike (valuesOf v2) v1))
  else if isArr v1 && isTs v2 then
    (if ndim (valuesOf v2) ≠ 2 ∨ len v1 ≠ shape1 (valuesOf v2) then none
     else some (tsInit (timesOf v2) (broadcastLike v1 (valuesOf v2))))
  else if (isInt v1 || isFloat v1) && isArr v2 then some (fullLikeF v2 v1)
  else some v1

/-- the merge of one side (`mx`: lower bounds, maximum; else upper bounds, minimum) -/
def combineRef (mx : Bool) (a b : PyV) : Option PyV :=
  if isArr a then (if shapeOf a ≠ shapeOf b then none else some (npMM mx a b))
  else if isTs a then
    (if (timesOf a).length ≠ (timesOf b).length then none
     else if timesOf a ≠ timesOf b then none
     else if shapeOf (valuesOf a) ≠ shapeOf (valuesOf b) then none
     else some (tsInit (timesOf a) (npMM mx (valuesOf a) (valuesOf b))))
  else some (pyMM mx a b)

/-- the statement frame of `merge_bounds`: assertions on the four inputs, normalisation loop over
    `all_bounds`, upcasting loop over the index pairs `order` (writing `all_bounds[i]`), unpacking, the
    two type assertions, the two merges. -/
def frame (check : PyV → Bool) (norm : PyV → PyV) (order : List (Nat × Nat))
    (upcast : PyV → PyV → Option PyV) (asserts : PyV → PyV → PyV → PyV → Bool)
    (lo hi : PyV → PyV → Option PyV) (a A b B : PyV) : Option (PyV × PyV) :=
  if !([a, A, b, B].all check) then none else
  (order.foldlM
      (fun (ab : List PyV) (ij : Nat × Nat) =>
        (upcast (ab.getD ij.1 .other) (ab.getD ij.2 .other)).map (fun v => ab.set ij.1 v))
      ([a, A, b, B].map norm)).bind fun ab =>
    match ab with
    | [a, A, b, B] =>
      if !(asserts a A b B) then none
      else (lo a b).bind fun m => (hi A B).bind fun M => some (m, M)
    | _ => none

def orderRef : List (Nat × Nat) := [(0, 2), (2, 0), (1, 3), (3, 1)]
def assertsRef (a A b B : PyV) : Bool := sameType a b && sameType A B

def mergeBoundsRef : PyV → PyV → PyV → PyV → Option (PyV × PyV) :=
  frame checkRef normRef orderRef upcastRef assertsRef (combineRef true) (combineRef false)

/-! ### denotation in the model's `Bnd` -/

/-- what the debug assertions accept -/
def Valid : PyV → Prop
  | .num _ _ | .arr _ _ | .ts1 _ _ | .ts2 _ _ => True
  | _ => False

/-- invariants of the objects themselves: a `Timeseries` built by `__init__` with a one-element 1-D
    values array has one time stamp; a 2-D values array is rectangular with at least one row -/
def WF : PyV → Prop
  | .ts1 t vals => vals.length = 1 → t.length = 1
  | .ts2 _ rows => rows ≠ [] ∧ ∀ r ∈ rows, r.length = shape1 (.arr2 rows)
  | _ => True

/-- the bound a valid value denotes (the int/float distinction disappears) -/
def den : PyV → Bnd
  | .num _ x => .sc x
  | .arr _ vs => .vec vs
  | .ts1 t vals => .ts1 t vals
  | .ts2 t rows => .ts2 t rows
  | _ => .sc (.fin 0)

/-- results are float-typed: no Python `int`, no integer-dtype array unless both inputs were -/
def floatTyped : PyV → Bool
  | .num i _ => !i
  | _ => true

end RtcVerif.MergeCode
