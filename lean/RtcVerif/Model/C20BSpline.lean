/-!
# C20 — model of the B-spline lookup tables

* `basis`     — the Cox-de Boor recursion exactly as `BSpline.basis` writes it
                (`rtctools/data/interpolation/bspline.py`): half-open order-0 intervals, the last
                non-empty one closed on the right (repair 05a1cee; `basisLegacy` is the code before
                it, finding F28), a term is dropped (zero) when its knot span is empty.
* `spline1d`  — `BSpline1D.__call__` (`bspline1d.py:27-44`): the sum over `range(len(t) - k - 1)`
                with the outer *closed* window `t[i] <= x <= t[i+k+1]` the code applies.
* `spline2d`  — `BSpline2D.__call__` (`bspline2d.py:29-54`): tensor form, row-major weights
                `w[i * (len(ty) - ky - 1) + j]`, the same windows per direction.
* `dbasis` / `dspline1d` — the classical derivative formula of a B-spline (used by the harness to
                re-check monotonicity / curvature of fitted curves in exact arithmetic).
* `reverseCall` — `LookupTable.reverse_call` (`csv_lookup_table_mixin.py:132-194`) with an abstract
                bracket-root oracle in place of `scipy.optimize.brentq`; `reverseCallLegacy` is the
                range check before commit 0fbac02 (finding F8a).
* `validCache`, `step`, `run` — the fit-cache decision of `CSVLookupTableMixin.pre`
                (`csv_lookup_table_mixin.py:321-346, 450-452`) over file modification times, and
                the state machine of edit / reload histories of one table.

Knot and weight vectors are index functions `Nat → Rat` (the driver passes `knotFn l`
together with the list lengths; the code's `IndexError` cases are rejected by `spline1dL` /
`spline2dL`).  Core Lean only.
-/
namespace RtcVerif.C20

/-- `Σ_{i < n} f i` (the code's `for i in range(n): y += ...`) -/
def sumN : Nat → (Nat → Rat) → Rat
  | 0, _ => 0
  | n + 1, f => sumN n f + f n

/-- knots never decrease -/
def Mono (t : Nat → Rat) : Prop := ∀ i j, i ≤ j → t i ≤ t j

/-- the order-0 indicator of `BSpline.basis` (repaired, commit 05a1cee): the half-open interval
    `t[i] <= x < t[i+1]`, and the last non-empty knot interval is closed on the right
    (`t[i] < t[i+1] and t[i+1] == t[-1]` adds `x == t[-1]`); `tl` is `t[-1]` -/
def inside0 (t : Nat → Rat) (tl x : Rat) (i : Nat) : Prop :=
  (t i ≤ x ∧ x < t (i + 1)) ∨ (t i < t (i + 1) ∧ t (i + 1) = tl ∧ x = tl)

instance (t : Nat → Rat) (tl x : Rat) (i : Nat) : Decidable (inside0 t tl x i) := by
  unfold inside0; exact inferInstance

/-- `BSpline.basis(t, x, k, i)`; `tl` is `t[-1]` -/
def basis (t : Nat → Rat) (tl x : Rat) : Nat → Nat → Rat
  | 0, i => if inside0 t tl x i then 1 else 0
  | k + 1, i =>
    (if t i < t (i + k + 1) then (x - t i) / (t (i + k + 1) - t i) * basis t tl x k i else 0)
    + (if t (i + 1) < t (i + k + 2) then
        (t (i + k + 2) - x) / (t (i + k + 2) - t (i + 1)) * basis t tl x k (i + 1) else 0)

/-- where `B_{i,k}` can be non-zero: `[t_i, t_{i+k+1})`, plus the point `t[-1]` when the span ends
    there and is not empty -/
def InSupport (t : Nat → Rat) (tl x : Rat) (k i : Nat) : Prop :=
  t i ≤ x ∧ (x < t (i + k + 1) ∨ (x = tl ∧ t (i + k + 1) = tl ∧ t i < tl))

/-- the part of the knot range on which the basis functions `B_{a,k} … B_{b-1,k}` sum to one:
    `[t_{a+k}, t_b)`, plus the point `t[-1]` when `t_b = t[-1]` and the range is not empty -/
def InDomain (t : Nat → Rat) (tl x : Rat) (k a b : Nat) : Prop :=
  t (a + k) ≤ x ∧ (x < t b ∨ (x = tl ∧ t b = tl ∧ t (a + k) < tl))

instance (t : Nat → Rat) (tl x : Rat) (k i : Nat) : Decidable (InSupport t tl x k i) := by
  unfold InSupport; exact inferInstance

instance (t : Nat → Rat) (tl x : Rat) (k a b : Nat) : Decidable (InDomain t tl x k a b) := by
  unfold InDomain; exact inferInstance

/-- the recursion before commit 05a1cee: every order-0 interval half-open (finding F28) -/
def basisLegacy (t : Nat → Rat) (x : Rat) : Nat → Nat → Rat
  | 0, i => if t i ≤ x ∧ x < t (i + 1) then 1 else 0
  | k + 1, i =>
    (if t i < t (i + k + 1) then (x - t i) / (t (i + k + 1) - t i) * basisLegacy t x k i else 0)
    + (if t (i + 1) < t (i + k + 2) then
        (t (i + k + 2) - x) / (t (i + k + 2) - t (i + 1)) * basisLegacy t x k (i + 1) else 0)

/-- one summand of `BSpline1D.__call__`: the windowed, weighted basis function -/
def term1d (t : Nat → Rat) (tl : Rat) (w : Nat → Rat) (k : Nat) (x : Rat) (i : Nat) : Rat :=
  if t i ≤ x ∧ x ≤ t (i + k + 1) then w i * basis t tl x k i else 0

/-- `BSpline1D(t, w, k)(x)` for a knot vector of length `n` (`t[-1]` is `t (n - 1)`) -/
def spline1d (t : Nat → Rat) (n : Nat) (w : Nat → Rat) (k : Nat) (x : Rat) : Rat :=
  sumN (n - k - 1) (term1d t (t (n - 1)) w k x)

def spline1dLegacy (t : Nat → Rat) (n : Nat) (w : Nat → Rat) (k : Nat) (x : Rat) : Rat :=
  sumN (n - k - 1) (fun i =>
    if t i ≤ x ∧ x ≤ t (i + k + 1) then w i * basisLegacy t x k i else 0)

/-- the reference spline `Σ_i w_i B_{i,k}(x)` (no window) -/
def splineRef (t : Nat → Rat) (n : Nat) (w : Nat → Rat) (k : Nat) (x : Rat) : Rat :=
  sumN (n - k - 1) (fun i => w i * basis t (t (n - 1)) x k i)

/-- the windowed basis value `bx` / `by` of `BSpline2D.__call__` -/
def wbasis (t : Nat → Rat) (tl : Rat) (k : Nat) (x : Rat) (i : Nat) : Rat :=
  if t i ≤ x ∧ x ≤ t (i + k + 1) then basis t tl x k i else 0

/-- `BSpline2D(tx, ty, w, kx, ky)(x, y)` -/
def spline2d (tx : Nat → Rat) (nx : Nat) (ty : Nat → Rat) (ny : Nat) (w : Nat → Rat)
    (kx ky : Nat) (x y : Rat) : Rat :=
  sumN (nx - kx - 1) (fun i =>
    sumN (ny - ky - 1) (fun j =>
      w (i * (ny - ky - 1) + j) * wbasis tx (tx (nx - 1)) kx x i * wbasis ty (ty (ny - 1)) ky y j))

/-- the reference tensor spline `Σ_i Σ_j w_{ij} B_i(x) B_j(y)` -/
def spline2dRef (tx : Nat → Rat) (nx : Nat) (ty : Nat → Rat) (ny : Nat) (w : Nat → Rat)
    (kx ky : Nat) (x y : Rat) : Rat :=
  sumN (nx - kx - 1) (fun i =>
    sumN (ny - ky - 1) (fun j =>
      w (i * (ny - ky - 1) + j) * basis tx (tx (nx - 1)) x kx i * basis ty (ty (ny - 1)) y ky j))

/-- a Python list as an index function; beyond the end it repeats the last entry (the code never
    indexes there; the extension keeps a sorted list monotone) -/
def knotFn (l : List Rat) : Nat → Rat := fun i => l.getD i (l.getLast?.getD 0)

/-- list front end: the code indexes `t[i + k + 1]` for `i < len(t) - k - 1` (always in range) and
    `w[i]` for the same `i` (an `IndexError` when the weight vector is shorter) -/
def spline1dL (t w : List Rat) (k : Nat) (x : Rat) : Option Rat :=
  if t.length - k - 1 ≤ w.length then
    some (spline1d (knotFn t) t.length (knotFn w) k x)
  else none

def spline2dL (tx ty w : List Rat) (kx ky : Nat) (x y : Rat) : Option Rat :=
  if (tx.length - kx - 1) * (ty.length - ky - 1) ≤ w.length then
    some (spline2d (knotFn tx) tx.length (knotFn ty) ty.length (knotFn w) kx ky x y)
  else none

/-! ### derivative formula -/

/-- `d`-th derivative of `B_{i,k}` by the classical recursion
    `B'_{i,k} = k (B_{i,k-1}/(t_{i+k}-t_i) - B_{i+1,k-1}/(t_{i+k+1}-t_{i+1}))`,
    a term with an empty knot span dropped -/
def dbasis (t : Nat → Rat) (tl x : Rat) : Nat → Nat → Nat → Rat
  | 0, k, i => basis t tl x k i
  | _ + 1, 0, _ => 0
  | d + 1, k + 1, i =>
    ((k : Rat) + 1) *
      ((if t i < t (i + k + 1) then dbasis t tl x d k i / (t (i + k + 1) - t i) else 0)
       - (if t (i + 1) < t (i + k + 2) then
            dbasis t tl x d k (i + 1) / (t (i + k + 2) - t (i + 1)) else 0))

/-- `d`-th derivative of the spline, `Σ_i w_i B^{(d)}_{i,k}(x)` -/
def dspline1d (t : Nat → Rat) (n : Nat) (w : Nat → Rat) (k d : Nat) (x : Rat) : Rat :=
  sumN (n - k - 1) (fun i => w i * dbasis t (t (n - 1)) x d k i)

/-- first derivative of a spline of order `k + 1` with `m + 1` coefficients, written with the
    coefficient differences (Abel summation of `dspline1d … 1`, boundary terms dropped):
    `Σ_{i<m} (k+1) (w_{i+1} - w_i)/(t_{i+k+2} - t_{i+1}) B_{i+1,k}(x)` -/
def dsplineDiff (t : Nat → Rat) (tl : Rat) (m : Nat) (w : Nat → Rat) (k : Nat) (x : Rat) : Rat :=
  sumN m (fun i =>
    if t (i + 1) < t (i + k + 2) then
      ((k : Rat) + 1) * (w (i + 1) - w i) / (t (i + k + 2) - t (i + 1)) * basis t tl x k (i + 1)
    else 0)

/-! ### inverse lookup -/

/-- a value as the numeric evaluator sees it: `none` is NaN -/
abbrev Y := Option Rat

inductive RevErr where
  | range    -- "Values … are not in lookup table range"
  | bracket  -- brentq: "f(a) and f(b) must have different signs"
deriving DecidableEq, Repr

/-- bracket-root oracle (`scipy.optimize.brentq`): `root g a b` -/
abbrev Root := (Rat → Rat) → Rat → Rat → Option Rat

structure RevCfg where
  f : Rat → Rat          -- the table's numeric function
  dl : Rat               -- `self.domain[0]`
  du : Rat               -- `self.domain[1]`
  ld : Option Rat        -- the caller's `domain[0]` (`None` → `self.domain[0]`)
  ud : Option Rat        -- the caller's `domain[1]`
  detect : Bool          -- `detect_range_error`

def RevCfg.lo (c : RevCfg) : Rat := c.ld.getD c.dl
def RevCfg.hi (c : RevCfg) : Rat := c.ud.getD c.du
/-- `sorted(self.range)`: the range is always evaluated on the table's own domain -/
def RevCfg.rangeLo (c : RevCfg) : Rat := min (c.f c.dl) (c.f c.du)
def RevCfg.rangeHi (c : RevCfg) : Rat := max (c.f c.dl) (c.f c.du)

def finiteOf (ys : List Y) : List Rat := ys.filterMap id

/-- one entry: NaN stays NaN, otherwise the oracle is asked for a root of `f x - y` -/
def invertOne (c : RevCfg) (root : Root) : Y → Except RevErr Y
  | none => .ok none
  | some q =>
    match root (fun x => c.f x - q) c.lo c.hi with
    | some r => .ok (some r)
    | none => .error .bracket

def invertAll (c : RevCfg) (root : Root) : List Y → Except RevErr (List Y)
  | [] => .ok []
  | y :: ys =>
    match invertOne c root y with
    | .error e => .error e
    | .ok x =>
      match invertAll c root ys with
      | .error e => .error e
      | .ok xs => .ok (x :: xs)

/-- `LookupTable.reverse_call` (array form; the scalar form is the one-element list) -/
def reverseCall (c : RevCfg) (root : Root) (ys : List Y) : Except RevErr (List Y) :=
  if c.detect && (finiteOf ys).any (fun q => decide (q < c.rangeLo) || decide (c.rangeHi < q)) then
    .error .range
  else invertAll c root ys

/-- the range check before commit 0fbac02: `l_r, u_r = self.range` taken in domain order -/
def reverseCallLegacy (c : RevCfg) (root : Root) (ys : List Y) : Except RevErr (List Y) :=
  if c.detect && (finiteOf ys).any (fun q => decide (q < c.f c.dl) || decide (c.f c.du < q)) then
    .error .range
  else invertAll c root ys

/-- contract of the root finder: what it returns lies inside the bracket and is a root up to the
    residual tolerance `ε` (`ε = 0`: an exact root) -/
def RootSound (ε : Rat) (root : Root) : Prop :=
  ∀ g a b r, root g a b = some r → a ≤ r ∧ r ≤ b ∧ -ε ≤ g r ∧ g r ≤ ε

/-- contract of the root finder on the sign-changing brackets of the table `f` (brentq on a
    continuous function): it returns something -/
def RootCompleteFor (f : Rat → Rat) (root : Root) : Prop :=
  ∀ q a b, a ≤ b → (f a - q) * (f b - q) ≤ 0 → (root (fun x => f x - q) a b).isSome = true

/-- brentq refuses a bracket without a sign change -/
def RootRefuses (root : Root) : Prop :=
  ∀ g a b, 0 < g a * g b → root g a b = none

/-! ### fit cache -/

/-- what `pre()` sees of one table: modification times of the csv, of `curvefit_options.ini`
    (`none`: the file could not be read), of the `.npz` cache (`none`: absent) and whether
    `np.load` / `Function.load` succeed -/
structure Files where
  csvM : Nat
  ini : Option Nat
  npz : Option Nat
  loadable : Bool
deriving DecidableEq, Repr

/-- `valid_cache` after lines 326-346 -/
def validCache (F : Files) : Bool :=
  match F.npz with
  | none => false
  | some m =>
    decide (F.csvM < m) && (match F.ini with | none => true | some i => decide (i < m)) && F.loadable

/-- the check before commit 7cfb877 reached `getmtime(ini)` whenever the cache existed and the
    first `pre()` had not found an ini: `none` = `FileNotFoundError` (finding F8b) -/
def validCacheLegacy (F : Files) : Option Bool :=
  match F.npz with
  | none => some false
  | some m =>
    match F.ini with
    | none => none
    | some i => some (decide (F.csvM < m) && decide (i < m) && F.loadable)

/-- edit / reload events of one table; every event carries the time stamp it happens at -/
inductive Ev where
  | editCsv (d : Nat)        -- new table data (identified by `d`)
  | editIni (o : Nat)        -- new options file content (identified by `o`)
  | delIni                   -- the options file is removed
  | corrupt                  -- a cache file is damaged / removed (`.ca` or `.npz` unreadable)
  | pre                      -- `pre()` runs
deriving DecidableEq, Repr

/-- a fit is identified by what it was computed from: data id and options id (`none`: defaults) -/
abbrev FitId := Nat × Option Nat

structure St where
  data : Nat
  csvM : Nat
  ini : Option (Nat × Nat)            -- (content id, mtime)
  cache : Option (FitId × Nat × Bool) -- (computed from, mtime of the npz, loadable)
  served : List (FitId × Bool)        -- per `pre()`: the fit handed out, and whether it was reused
deriving DecidableEq, Repr

def St.files (s : St) : Files :=
  { csvM := s.csvM, ini := s.ini.map (·.2), npz := s.cache.map (·.2.1),
    loadable := (s.cache.map (·.2.2)).getD false }

def St.current (s : St) : FitId := (s.data, s.ini.map (·.1))

def step (s : St) (e : Nat × Ev) : St :=
  let τ := e.1
  match e.2 with
  | .editCsv d => { s with data := d, csvM := τ }
  | .editIni o => { s with ini := some (o, τ) }
  | .delIni => { s with ini := none }
  | .corrupt => { s with cache := s.cache.map (fun c => (c.1, c.2.1, false)) }
  | .pre =>
    if validCache s.files then
      match s.cache with
      | some c => { s with served := s.served ++ [(c.1, true)] }
      | none => s   -- unreachable: `validCache` is false without a cache
    else
      { s with cache := some (s.current, τ, true), served := s.served ++ [(s.current, false)] }

def run (s : St) (evs : List (Nat × Ev)) : St := evs.foldl step s

/-- what `pre()` should hand out along a history: the fit of the data and options current at
    that moment (specification side of `served_is_current`) -/
def specServed (cur : FitId) : List (Nat × Ev) → List FitId
  | [] => []
  | (_, .editCsv d) :: r => specServed (d, cur.2) r
  | (_, .editIni o) :: r => specServed (cur.1, some o) r
  | (_, .delIni) :: r => specServed (cur.1, none) r
  | (_, .corrupt) :: r => specServed cur r
  | (_, .pre) :: r => cur :: specServed cur r

/-- time stamps never go backwards and start at or after `t0` -/
def Chrono (t0 : Nat) : List (Nat × Ev) → Prop
  | [] => True
  | e :: rest => t0 ≤ e.1 ∧ Chrono e.1 rest

instance : (t0 : Nat) → (l : List (Nat × Ev)) → Decidable (Chrono t0 l)
  | _, [] => isTrue trivial
  | t0, e :: rest =>
    match (inferInstance : Decidable (t0 ≤ e.1)), instDecidableChrono e.1 rest with
    | isTrue h1, isTrue h2 => isTrue ⟨h1, h2⟩
    | isFalse h1, _ => isFalse (fun h => h1 h.1)
    | _, isFalse h2 => isFalse (fun h => h2 h.2)

/-- sortedness of a knot list as the driver checks it -/
def sortedB : List Rat → Bool
  | [] => true
  | [_] => true
  | a :: b :: rest => decide (a ≤ b) && sortedB (b :: rest)

end RtcVerif.C20
