import RtcVerif.Model.Num
/-!
Set-up of `BSpline1D.fit` (src/rtctools/data/interpolation/bspline1d.py): the automatic knot vector
(Fitpack rule) and the bounds of the monotonicity / curvature constraint rows.  Core Lean only.
The least-squares solve itself (IPOPT) is outside the model; what it is *given* is modelled here.
-/
namespace RtcVerif.C20

/-- Python `x[a : -b]` for `b > 0` on a sequence of length `len x` -/
def pySlice (x : List Rat) (a b : Nat) : List Rat := (x.take (x.length - b)).drop a

/-- the interior knots generated when `interior_pts is None`; in Python `-k // 2` is `-((k + 1) / 2)` -/
def interiorKnots (x : List Rat) (k : Nat) : List Rat :=
  if k % 2 = 1 then pySlice x (k / 2 + 1) ((k + 1) / 2)
  else List.zipWith (fun p q => (p + q) / 2) (pySlice x (k / 2 + 1) ((k + 1) / 2))
    (pySlice x (k / 2) ((k + 1) / 2 + 1))

/-- `t = concatenate((full(k + 1, x[0] - delta), interior_pts, full(k + 1, x[-1] + delta)))` -/
def fitKnots (x : List Rat) (k : Nat) (δ : Rat) (interior : Option (List Rat)) : List Rat :=
  List.replicate (k + 1) (x.headD 0 - δ) ++ interior.getD (interiorKnots x k)
    ++ List.replicate (k + 1) (x.getLastD 0 + δ)

/-- bounds of the rows `c[i+1] - c[i]` (`dc`) and of the second derivative at the test points (`ss`) -/
structure FitBounds where
  dcMin : EVal
  dcMax : EVal
  ssMin : EVal
  ssMax : EVal
deriving DecidableEq, Repr

def fitBounds (mono curv : Int) (ε : Rat) : FitBounds :=
  { dcMin := if 0 < mono then .fin ε else .ninf
    dcMax := if mono < 0 then .fin (-ε) else .pinf
    ssMin := if 0 < curv then .fin ε else .ninf
    ssMax := if curv < 0 then .fin (-ε) else .pinf }

/-- `lo ≤ v ≤ hi` for a finite `v` and extended bounds -/
def EVal.leFin : EVal → Rat → Bool
  | .ninf, _ => true
  | .fin q, v => decide (q ≤ v)
  | .pinf, _ => false

def EVal.finLe : Rat → EVal → Bool
  | _, .pinf => true
  | v, .fin q => decide (v ≤ q)
  | _, .ninf => false

/-- the monotonicity rows hold for the coefficient function `c` on `m` consecutive differences -/
def dcFeasible (b : FitBounds) (c : Nat → Rat) (m : Nat) : Prop :=
  ∀ i, i < m → EVal.leFin b.dcMin (c (i + 1) - c i) = true ∧ EVal.finLe (c (i + 1) - c i) b.dcMax = true

end RtcVerif.C20
