import RtcVerif.Model.Num
/-!
Model of `OptimizationProblem.interpolate` / `__interpolate` (numeric, three modes, fills, early
exits, column-wise 2-D form) and of the symbolic wrapper `casadi_helpers.interpolate`
(`ca.interp1d`, non-equidistant form: clamps to the end values outside the knot range).

Knots are a list of `(time, value)` pairs with strictly increasing times (`Sorted`).
Core Lean only.
-/
namespace RtcVerif.Interp

abbrev Knots := List (Rat × Rat)

/-- strictly increasing time stamps -/
def Sorted : Knots → Prop
  | [] => True
  | [_] => True
  | a :: b :: rest => a.1 < b.1 ∧ Sorted (b :: rest)

instance : (ks : Knots) → Decidable (Sorted ks)
  | [] => isTrue trivial
  | [_] => isTrue trivial
  | a :: b :: rest =>
    match (inferInstance : Decidable (a.1 < b.1)), instDecidableSorted (b :: rest) with
    | isTrue h1, isTrue h2 => isTrue ⟨h1, h2⟩
    | isFalse h1, _ => isFalse (fun h => h1 h.1)
    | _, isFalse h2 => isFalse (fun h => h2 h.2)

/-- result of an interpolation call: a value, or the exception the code raises -/
inductive Out where
  | val (v : XVal)
  | raise
deriving DecidableEq, Repr

/-- a fill value: `none` is Python's `None` (raise when the query is outside the range) -/
abbrev Fill := Option XVal

def fillOut : Fill → Out
  | some v => .val v
  | none => .raise

/-- `np.interp(t, ts, fs)` restricted to `ts[0] ≤ t`: value on the segment containing `t`,
    `right` beyond the last knot. -/
def linFrom : Knots → Out → Rat → Out
  | [], right, _ => right
  | [(t0, f0)], right, t => if t0 < t then right else .val (XVal.fin f0)
  | (t0, f0) :: (t1, f1) :: rest, right, t =>
      if t < t1 then .val (XVal.fin (f0 + (f1 - f0) / (t1 - t0) * (t - t0)))
      else linFrom ((t1, f1) :: rest) right t

/-- `fs[max(searchsorted(ts, t, 'right') - 1, 0)]` for `ts[0] ≤ t`: value of the last knot at or
    before `t`. -/
def prevFrom : Knots → Rat → Rat → Rat
  | [], cur, _ => cur
  | (t0, f0) :: rest, cur, t => if t0 ≤ t then prevFrom rest f0 t else cur

/-- `fs[min(searchsorted(ts, t, 'left'), n - 1)]`: value of the first knot at or after `t`, the
    last value when there is none. -/
def nextFrom : Knots → Rat → Rat → Rat
  | [], last, _ => last
  | (t0, f0) :: rest, _, t => if t ≤ t0 then f0 else nextFrom rest f0 t

def firstTime (ks : Knots) : Rat := (ks.head?.map (·.1)).getD 0
def lastTime (ks : Knots) : Rat := (ks.getLast?.map (·.1)).getD 0
def firstVal (ks : Knots) : Rat := (ks.head?.map (·.2)).getD 0
def lastVal (ks : Knots) : Rat := (ks.getLast?.map (·.2)).getD 0

/-- `__interpolate` for a scalar query.  `mode`: 0 linear, 1 piecewise constant forward (previous
    value), 2 piecewise constant backward (next value); anything else is `NotImplementedError`.
    An empty knot list is rejected (the code indexes `ts[0]`). -/
def interpCore (mode : Nat) (ks : Knots) (fl fr : Fill) (t : Rat) : Out :=
  match ks with
  | [] => .raise
  | (t0, f0) :: rest =>
    if t < t0 then
      (if mode ≤ 2 then fillOut fl else .raise)
    else if lastTime ks < t then
      (if mode ≤ 2 then fillOut fr else .raise)
    else
      match mode with
      | 0 => linFrom ks (fillOut fr) t
      | 1 => .val (XVal.fin (prevFrom rest f0 t))
      | 2 => .val (XVal.fin (nextFrom ks (lastVal ks) t))
      | _ => .raise

/-- `interpolate` for a scalar query: early exit `ts[0] == t` then the core. -/
def interpScalar (mode : Nat) (ks : Knots) (fl fr : Fill) (t : Rat) : Out :=
  match ks with
  | [] => .raise
  | (t0, f0) :: _ => if t0 = t then .val (XVal.fin f0) else interpCore mode ks fl fr t

/-- array result: all values, or the exception -/
def sequence : List Out → Option (List XVal)
  | [] => some []
  | .raise :: _ => none
  | .val v :: rest => (sequence rest).map (v :: ·)

/-- `interpolate` for an array query: early exit when the query equals the knot times. -/
def interpArray (mode : Nat) (ks : Knots) (fl fr : Fill) (ts : List Rat) : Option (List XVal) :=
  if ks = [] then none
  else if ts = ks.map (·.1) then some (ks.map (fun k => XVal.fin k.2))
  else sequence (ts.map (interpCore mode ks fl fr))

/-- 2-D values: one knot list per column, result per column -/
def interpColumns (mode : Nat) (cols : List Knots) (fl fr : Fill) (ts : List Rat) :
    Option (List (List XVal)) :=
  cols.mapM (fun ks => interpArray mode ks fl fr ts)

/-- a result as an optional value (`none` = the exception) -/
def Out.toOption : Out → Option XVal
  | .val v => some v
  | .raise => none

/-- 2-D values, scalar query (F20): one value per column, the scalar path applied to every column -/
def interpColumnsScalar (mode : Nat) (cols : List Knots) (fl fr : Fill) (t : Rat) : Option (List XVal) :=
  cols.mapM (fun ks => (interpScalar mode ks fl fr t).toOption)

/-- symbolic interpolant (`ca.interp1d`, non-equidistant): clamps to the end values -/
def interpSym (mode : Nat) (ks : Knots) (t : Rat) : Out :=
  interpCore mode ks (some (XVal.fin (firstVal ks))) (some (XVal.fin (lastVal ks))) t

end RtcVerif.Interp
