import RtcVerif.Model.Interp
/-!
Code-level vocabulary for the source-to-Lean translation of `OptimizationProblem.interpolate`,
`OptimizationProblem.__interpolate` and `casadi_helpers.interpolate` (harness/translate_c19.py).

The translator maps NumPy / CasADi calls to the primitives below (that mapping is the trusted part;
it is listed in the header of translate_c19.py):

* `np.searchsorted(ts, t, side="right")`  ↦ `ssRight ks t`   (length of the longest prefix with time ≤ t;
                                                              NumPy's value for sorted `ts`)
* `np.searchsorted(ts, t, side="left")`   ↦ `ssLeft ks t`    (longest prefix with time < t)
* `fs[i]`                                 ↦ `atIdx ks i`
* `np.interp(t, ts, fs, left, right)`     ↦ `npInterp ks fl fr t`  (`left`/`right` = `None`: end values)
* `ca.interp1d(ts, xs, t, mode_str, _)`   ↦ `interp1d mode_str ks t`
* a Python value that may be `None`       ↦ `OutC.pyNone` (never reaches a result: part of the theorems)

Core Lean only.
-/
namespace RtcVerif.InterpCode
open RtcVerif.Interp

/-- result of the translated code: a value, an exception, or Python's `None` -/
inductive OutC where
  | val (v : XVal)
  | raise
  | pyNone
deriving DecidableEq, Repr

def embed : Out → OutC
  | .val v => .val v
  | .raise => .raise

/-- a fill value used as a result -/
def fillC : Fill → OutC
  | some v => .val v
  | none => .pyNone

def ssRight (ks : Knots) (t : Rat) : Nat := (ks.takeWhile (fun k => decide (k.1 ≤ t))).length
def ssLeft (ks : Knots) (t : Rat) : Nat := (ks.takeWhile (fun k => decide (k.1 < t))).length

/-- `fs[i]` (the index expressions of the code are never negative or past the end; a wild index
    reads 0 here and breaks the equality theorems) -/
def atIdx (ks : Knots) (i : Int) : Rat :=
  if i < 0 then 0 else ((ks[i.toNat]?).map (·.2)).getD 0

/-- `np.interp` for one query point -/
def npInterp (ks : Knots) (fl fr : Fill) (t : Rat) : OutC :=
  if t < firstTime ks then
    (match fl with
     | some v => .val v
     | none => .val (XVal.fin (firstVal ks)))
  else if lastTime ks < t then
    (match fr with
     | some v => .val v
     | none => .val (XVal.fin (lastVal ks)))
  else embed (linFrom ks .raise t)

/-- `ca.interp1d` (non-equidistant form): clamps to the end values; unknown mode strings raise -/
def interp1d (modeStr : String) (ks : Knots) (t : Rat) : Out :=
  let fl : Fill := some (XVal.fin (firstVal ks))
  let fr : Fill := some (XVal.fin (lastVal ks))
  if modeStr = "linear" then interpCore 0 ks fl fr t
  else if modeStr = "floor" then interpCore 1 ks fl fr t
  else if modeStr = "ceil" then interpCore 2 ks fl fr t
  else .raise

/-- array result of the translated code -/
def sequenceC : List OutC → Option (List XVal)
  | [] => some []
  | .val v :: rest => (sequenceC rest).map (v :: ·)
  | _ :: _ => none

end RtcVerif.InterpCode

namespace RtcVerif.InterpCode
open RtcVerif.Interp

/-- how the fills overwrite a value: `if/elif` for a scalar query, two mask assignments
    (`v[t < ts[0]] = f_left; v[t > ts[-1]] = f_right`) for an array query -/
def fillsRef (arr : Bool) (ks : Knots) (fl fr : Fill) (t : Rat) (v : OutC) : OutC :=
  if arr then (if lastTime ks < t then fillC fr else if t < firstTime ks then fillC fl else v)
  else (if t < firstTime ks then fillC fl else if lastTime ks < t then fillC fr else v)

/-- `__interpolate` as written, for one query point -/
def coreRef (arr : Bool) (mode : Nat) (ks : Knots) (fl fr : Fill) (t : Rat) : OutC :=
  if fl = none ∧ t < firstTime ks then .raise
  else if fr = none ∧ lastTime ks < t then .raise
  else if mode = 0 then npInterp ks fl fr t
  else if mode = 1 then
    fillsRef arr ks fl fr t (.val (XVal.fin (atIdx ks (max ((ssRight ks t : Int) - 1) 0))))
  else if mode = 2 then
    fillsRef arr ks fl fr t (.val (XVal.fin (atIdx ks (min (ssLeft ks t : Int) ((ks.length : Int) - 1)))))
  else .raise

/-- `interpolate` as written: scalar query, 1-D values -/
def scalarRef (mode : Nat) (ks : Knots) (fl fr : Fill) (t : Rat) : OutC :=
  if firstTime ks = t then .val (XVal.fin (firstVal ks)) else coreRef false mode ks fl fr t

/-- `interpolate` as written: array query, 1-D values -/
def arrayRef (mode : Nat) (ks : Knots) (fl fr : Fill) (qs : List Rat) : Option (List XVal) :=
  if qs.length = ks.length ∧ qs = ks.map (·.1) then some (ks.map (fun k => XVal.fin k.2))
  else sequenceC (qs.map (coreRef true mode ks fl fr))

/-- `casadi_helpers.interpolate` as written -/
def symRef (mode : Nat) (ks : Knots) (t : Rat) : Out :=
  interp1d (if mode = 0 then "linear" else if mode = 1 then "floor" else "ceil") ks t

end RtcVerif.InterpCode
