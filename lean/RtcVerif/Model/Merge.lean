import RtcVerif.Model.Num
/-!
Model of `OptimizationProblem.merge_bounds`: intersection of two bound pairs with upcasting
scalar → vector → Timeseries.  NaN-free values (`EVal`); the int/float distinction of Python
scalars is outside the model.  Core Lean only.
-/
namespace RtcVerif.Merge

/-- one side (lower or upper) of a bound pair -/
inductive Bnd where
  | sc (v : EVal)
  | vec (vs : List EVal)
  | ts1 (times : List Rat) (vals : List EVal)
  | ts2 (times : List Rat) (rows : List (List EVal))   -- `rows[i]` = component values at `times[i]`
deriving DecidableEq, Repr

/-- "treat single element vectors as scalars" -/
def normalize : Bnd → Bnd
  | .vec [v] => .sc v
  | b => b

/-- upcast `v1` to the kind of `v2` (`none` = the code raises) -/
def upcast (v1 v2 : Bnd) : Option Bnd :=
  match v1, v2 with
  | .sc a, .ts1 t vals => some (.ts1 t (vals.map fun _ => a))
  | .sc a, .ts2 t rows => some (.ts2 t (rows.map fun r => r.map fun _ => a))
  | .vec vs, .ts2 t rows =>
      if rows.all (fun r => r.length == vs.length) then some (.ts2 t (rows.map fun _ => vs))
      else none
  | .vec _, .ts1 _ _ => none
  | .sc a, .vec vs => some (.vec (vs.map fun _ => a))
  | b, _ => some b

def zipSame (f : EVal → EVal → EVal) (a b : List EVal) : Option (List EVal) :=
  if a.length = b.length then some (List.zipWith f a b) else none

def zipRows (f : EVal → EVal → EVal) : List (List EVal) → List (List EVal) → Option (List (List EVal))
  | [], [] => some []
  | r :: rs, s :: ss => do
      let x ← zipSame f r s
      let xs ← zipRows f rs ss
      pure (x :: xs)
  | _, _ => none

/-- element-wise combination of two sides of equal kind and shape (`none` = the code raises) -/
def combine (f : EVal → EVal → EVal) (a b : Bnd) : Option Bnd :=
  match a, b with
  | .sc x, .sc y => some (.sc (f x y))
  | .vec xs, .vec ys => (zipSame f xs ys).map .vec
  | .ts1 t xs, .ts1 u ys =>
      if t = u then (zipSame f xs ys).map (.ts1 t) else none
  | .ts2 t xs, .ts2 u ys =>
      if t = u then (zipRows f xs ys).map (.ts2 t) else none
  | _, _ => none

/-- one side of `merge_bounds`: normalise, upcast both ways, combine -/
def mergeSide (f : EVal → EVal → EVal) (a b : Bnd) : Option Bnd := do
  let a := normalize a
  let b := normalize b
  let a' ← upcast a b
  let b' ← upcast b a'
  combine f a' b'

/-- `merge_bounds((a, A), (b, B))`; `none` = an exception is raised -/
def mergeBounds (lo1 hi1 lo2 hi2 : Bnd) : Option (Bnd × Bnd) := do
  let m ← mergeSide EVal.max lo1 lo2
  let M ← mergeSide EVal.min hi1 hi2
  pure (m, M)

/-- the value a side denotes at time index `i`, component `j` (scalars and vectors broadcast) -/
def Bnd.at (b : Bnd) (i j : Nat) : Option EVal :=
  match b with
  | .sc v => some v
  | .vec vs => vs[j]?
  | .ts1 _ vals => vals[i]?
  | .ts2 _ rows => (rows[i]?).bind (·[j]?)

end RtcVerif.Merge
