import RtcVerif.Model.Wire
/-!
Extended values as the implementation stores them in bound arrays, fills and targets.

* `EVal`  = `-inf | fin q | +inf`  (NaN-free; totally ordered; used for bounds)
* `XVal`  = `EVal` plus `nan`      (used where the code itself stores NaN: fills, targets, gaps)

Core Lean only.  The `LinearOrder EVal` instance (built from exactly the `le/max/min` below) lives
in `RtcVerif/Proofs/NumOrder.lean`.
-/
open Lean

namespace RtcVerif

inductive EVal where
  | ninf
  | fin (q : Rat)
  | pinf
deriving DecidableEq, Repr, Inhabited

namespace EVal

def le : EVal → EVal → Bool
  | ninf, _ => true
  | _, pinf => true
  | fin a, fin b => decide (a ≤ b)
  | _, _ => false

def lt (a b : EVal) : Bool := le a b && !(le b a)

def max (a b : EVal) : EVal := if le a b then b else a
def min (a b : EVal) : EVal := if le a b then a else b

def neg : EVal → EVal
  | ninf => pinf
  | fin q => fin (-q)
  | pinf => ninf

/-- division by a positive rational (nominal scaling) -/
def divPos (a : EVal) (c : Rat) : EVal :=
  match a with
  | fin q => fin (q / c)
  | x => x

def mulPos (a : EVal) (c : Rat) : EVal :=
  match a with
  | fin q => fin (q * c)
  | x => x

def toJson : EVal → Json
  | ninf => Json.str "-inf"
  | pinf => Json.str "inf"
  | fin q => Wire.ratJ q

def ofJson? (j : Json) : Option EVal :=
  match j with
  | Json.str "inf" => some pinf
  | Json.str "-inf" => some ninf
  | _ => (Wire.asRat j).map fin

end EVal

inductive XVal where
  | nan
  | e (v : EVal)
deriving DecidableEq, Repr, Inhabited

namespace XVal

def fin (q : Rat) : XVal := e (EVal.fin q)
def pinf : XVal := e EVal.pinf
def ninf : XVal := e EVal.ninf

def isFinite : XVal → Bool
  | e (EVal.fin _) => true
  | _ => false

def toJson : XVal → Json
  | nan => Json.str "nan"
  | e v => v.toJson

def ofJson? (j : Json) : Option XVal :=
  match j with
  | Json.str "nan" => some nan
  | _ => (EVal.ofJson? j).map e

end XVal

namespace Wire

def asEValList : Json → Option (List EVal)
  | Json.arr a => a.toList.mapM EVal.ofJson?
  | _ => none
def getEValList (j : Json) (k : String) : Option (List EVal) := (getObj j k).bind asEValList
def getEVal (j : Json) (k : String) : Option EVal := (getObj j k).bind EVal.ofJson?

def asXValList : Json → Option (List XVal)
  | Json.arr a => a.toList.mapM XVal.ofJson?
  | _ => none
def getXValList (j : Json) (k : String) : Option (List XVal) := (getObj j k).bind asXValList
def getXVal (j : Json) (k : String) : Option XVal := (getObj j k).bind XVal.ofJson?

def evalsJ (l : List EVal) : Json := Json.arr (l.map EVal.toJson).toArray
def xvalsJ (l : List XVal) : Json := Json.arr (l.map XVal.toJson).toArray

end Wire

end RtcVerif
