import Lean.Data.Json
/-!
Wire format shared by all model drivers (core Lean only, no Mathlib).

Numbers cross the Python/Lean boundary as exact rationals `"n/d"` (or `"n"`); the tokens
`"nan"`, `"inf"`, `"-inf"` denote the extended values.  One JSON object per line in, one JSON
value per line out.
-/
open Lean

namespace RtcVerif.Wire

def parseRat (s : String) : Option Rat :=
  match s.splitOn "/" with
  | [n] => n.toInt?.map (fun i => (i : Rat))
  | [n, d] => do
      let ni ← n.toInt?
      let di ← d.toNat?
      if di == 0 then none else some ((ni : Rat) / (di : Rat))
  | _ => none

def showRat (q : Rat) : String :=
  if q.den == 1 then s!"{q.num}" else s!"{q.num}/{q.den}"

def ratJ (q : Rat) : Json := Json.str (showRat q)

def getStr (j : Json) (k : String) : Option String := (j.getObjValAs? String k).toOption
def getNat (j : Json) (k : String) : Option Nat := (j.getObjValAs? Nat k).toOption
def getInt (j : Json) (k : String) : Option Int := (j.getObjValAs? Int k).toOption
def getBool (j : Json) (k : String) : Option Bool := (j.getObjValAs? Bool k).toOption
def getObj (j : Json) (k : String) : Option Json := (j.getObjVal? k).toOption

def getArr (j : Json) (k : String) : Option (List Json) :=
  match j.getObjVal? k with
  | .ok (Json.arr a) => some a.toList
  | _ => none

def asRat : Json → Option Rat
  | Json.str s => parseRat s
  | Json.num n => if n.exponent == 0 then some (n.mantissa : Rat) else none
  | _ => none

def getRat (j : Json) (k : String) : Option Rat := (getObj j k).bind asRat

def asRatList : Json → Option (List Rat)
  | Json.arr a => a.toList.mapM asRat
  | _ => none

def getRatList (j : Json) (k : String) : Option (List Rat) := (getObj j k).bind asRatList

def asRatMat : Json → Option (List (List Rat))
  | Json.arr a => a.toList.mapM asRatList
  | _ => none

def getRatMat (j : Json) (k : String) : Option (List (List Rat)) := (getObj j k).bind asRatMat

def asNatList : Json → Option (List Nat)
  | Json.arr a => a.toList.mapM (fun x => (fromJson? x : Except String Nat).toOption)
  | _ => none

def getNatList (j : Json) (k : String) : Option (List Nat) := (getObj j k).bind asNatList

def asBoolList : Json → Option (List Bool)
  | Json.arr a => a.toList.mapM (fun x => (fromJson? x : Except String Bool).toOption)
  | _ => none

def getBoolList (j : Json) (k : String) : Option (List Bool) := (getObj j k).bind asBoolList

def asStrList : Json → Option (List String)
  | Json.arr a => a.toList.mapM (fun x => (fromJson? x : Except String String).toOption)
  | _ => none

def getStrList (j : Json) (k : String) : Option (List String) := (getObj j k).bind asStrList

def ratsJ (l : List Rat) : Json := Json.arr (l.map ratJ).toArray
def matJ (l : List (List Rat)) : Json := Json.arr (l.map ratsJ).toArray
def natsJ (l : List Nat) : Json := Json.arr (l.map (fun n => Json.num (Int.ofNat n))).toArray
def strsJ (l : List String) : Json := Json.arr (l.map Json.str).toArray

/-- Run a line-oriented driver: every input line is parsed as JSON and handed to `handle`;
    unparsable input yields the string `"bad-json"`, an unhandled operation `"bad-op"`. -/
partial def loop (h : IO.FS.Stream) (out : IO.FS.Stream) (handle : Json → Option Json) : IO Unit := do
  let line ← h.getLine
  if line.isEmpty then return ()
  let l := line.trimAscii.toString
  if l.isEmpty then loop h out handle else
  let r : Json := match Json.parse l with
    | .error _ => Json.str "bad-json"
    | .ok j => (handle j).getD (Json.str "bad-op")
  out.putStrLn (Json.compress r)
  loop h out handle

def runDriver (handle : Json → Option Json) : IO Unit := do
  let out ← IO.getStdout
  loop (← IO.getStdin) out handle
  out.flush

end RtcVerif.Wire
