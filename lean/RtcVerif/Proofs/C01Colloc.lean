import RtcVerif.Model.C01Colloc
import RtcVerif.Proofs.C01Lists
/-!
Refinement lemmas for the collocation rows: index lists, tiled nominals, reshape, overwritten
columns of variables with their own time stamps, slices of the mapped input row, theta branch.
-/
namespace RtcVerif.C01
open RtcVerif RtcVerif.Interp

/-! ### index lists -/

theorem explicitInds_eq (idx : Nat → Nat → Nat) (k n : Nat) :
    explicitInds idx k n = (List.range k).flatMap (fun v => (List.range (n - 1)).map (fun i => idx v i)) := by
  unfold explicitInds varInds
  congr 1
  funext v
  exact dropLast_map_range (idx v) n

theorem implicitInds_eq (idx : Nat → Nat → Nat) (k n : Nat) :
    implicitInds idx k n = (List.range k).flatMap (fun v => (List.range (n - 1)).map (fun i => idx v (i + 1))) := by
  unfold implicitInds varInds
  congr 1
  funext v
  exact tail_map_range (idx v) n

theorem explicit_len (idx : Nat → Nat → Nat) (k n : Nat) : (explicitInds idx k n).length = k * (n - 1) := by
  rw [explicitInds_eq]
  exact flatMap_range_length _ (n - 1) (by intro v; simp) k

theorem implicit_len (idx : Nat → Nat → Nat) (k n : Nat) : (implicitInds idx k n).length = k * (n - 1) := by
  rw [implicitInds_eq]
  exact flatMap_range_length _ (n - 1) (by intro v; simp) k

theorem repl_len (nom : Nat → Rat) (k n : Nat) :
    ((List.range k).flatMap (fun v => List.replicate (n - 1) (nom v))).length = k * (n - 1) :=
  flatMap_range_length _ (n - 1) (by intro v; simp) k

theorem block_pos (k n i j : Nat) (hj : j < k) (hi : i < n - 1) : j * (n - 1) + i < k * (n - 1) := by
  calc j * (n - 1) + i < j * (n - 1) + (n - 1) := by omega
    _ = (j + 1) * (n - 1) := by ring
    _ ≤ k * (n - 1) := Nat.mul_le_mul_right _ hj

theorem explicit_getElem? (idx : Nat → Nat → Nat) (k n i j : Nat) (hj : j < k) (hi : i < n - 1) :
    (explicitInds idx k n)[j * (n - 1) + i]? = some (idx j i) := by
  have hlt : j * (n - 1) + i < (explicitInds idx k n).length := by
    rw [explicit_len]; exact block_pos k n i j hj hi
  have h1 := flatMap_range_getD (fun v => (List.range (n - 1)).map (fun i => idx v i)) (n - 1) 0
    (by intro v; simp) k j i hj hi
  rw [← explicitInds_eq] at h1
  rw [List.getD_eq_getElem?_getD, List.getElem?_eq_getElem hlt] at h1
  rw [List.getElem?_eq_getElem hlt]
  simp only [Option.getD_some] at h1
  rw [h1]
  simp [List.getD_eq_getElem?_getD, hi]

theorem implicit_getElem? (idx : Nat → Nat → Nat) (k n i j : Nat) (hj : j < k) (hi : i < n - 1) :
    (implicitInds idx k n)[j * (n - 1) + i]? = some (idx j (i + 1)) := by
  have hlt : j * (n - 1) + i < (implicitInds idx k n).length := by
    rw [implicit_len]; exact block_pos k n i j hj hi
  have h1 := flatMap_range_getD (fun v => (List.range (n - 1)).map (fun i => idx v (i + 1))) (n - 1) 0
    (by intro v; simp) k j i hj hi
  rw [← implicitInds_eq] at h1
  rw [List.getD_eq_getElem?_getD, List.getElem?_eq_getElem hlt] at h1
  rw [List.getElem?_eq_getElem hlt]
  simp only [Option.getD_some] at h1
  rw [h1]
  simp [List.getD_eq_getElem?_getD, hi]

theorem repl_getElem? (nom : Nat → Rat) (k n i j : Nat) (hj : j < k) (hi : i < n - 1) :
    ((List.range k).flatMap (fun v => List.replicate (n - 1) (nom v)))[j * (n - 1) + i]? = some (nom j) := by
  have hlt : j * (n - 1) + i < ((List.range k).flatMap fun v => List.replicate (n - 1) (nom v)).length := by
    rw [repl_len]; exact block_pos k n i j hj hi
  have h2 := flatMap_range_getD (fun v => List.replicate (n - 1) (nom v)) (n - 1) 0
    (by intro v; simp) k j i hj hi
  rw [List.getD_eq_getElem?_getD, List.getElem?_eq_getElem hlt] at h2
  rw [List.getElem?_eq_getElem hlt]
  simp only [Option.getD_some] at h2
  rw [h2]
  simp [List.getD_eq_getElem?_getD, hi]

/-! ### reshape -/

/-- entry `(i, j)` of the reshaped matrix: explicit half -/
theorem reshape_explicit (X : Vec) (idx : Nat → Nat → Nat) (nom : Nat → Rat) (k n i j : Nat)
    (hj : j < k) (hi : i < n - 1) :
    reshapeAt (interpolatedFlat X idx nom k n) (n - 1) i j = nom j * X (idx j i) := by
  unfold reshapeAt interpolatedFlat repeatedNominals
  have hpos := block_pos k n i j hj hi
  rw [List.getD_eq_getElem?_getD, List.getElem?_zipWith]
  simp only [List.map_append]
  rw [List.getElem?_append_left (by rw [List.length_map, explicit_len]; exact hpos)]
  rw [List.getElem?_append_left (by rw [repl_len]; exact hpos)]
  simp only [List.getElem?_map, explicit_getElem? idx k n i j hj hi, repl_getElem? nom k n i j hj hi]
  simp [mul_comm]

/-- entry `(i, k + j)` of the reshaped matrix: implicit half -/
theorem reshape_implicit (X : Vec) (idx : Nat → Nat → Nat) (nom : Nat → Rat) (k n i j : Nat)
    (hj : j < k) (hi : i < n - 1) :
    reshapeAt (interpolatedFlat X idx nom k n) (n - 1) i (k + j) = nom j * X (idx j (i + 1)) := by
  unfold reshapeAt interpolatedFlat repeatedNominals
  have hpos := block_pos k n i j hj hi
  have hsplit : (k + j) * (n - 1) + i = k * (n - 1) + (j * (n - 1) + i) := by ring
  rw [List.getD_eq_getElem?_getD, List.getElem?_zipWith]
  simp only [List.map_append]
  rw [hsplit]
  rw [List.getElem?_append_right (by rw [List.length_map, explicit_len]; omega)]
  rw [List.getElem?_append_right (by rw [repl_len]; omega)]
  simp only [List.length_map, explicit_len, repl_len, Nat.add_sub_cancel_left]
  simp only [List.getElem?_map, implicit_getElem? idx k n i j hj hi, repl_getElem? nom k n i j hj hi]
  simp [mul_comm]

/-! ### the state columns -/

theorem interpOwnAll_dropLast (X : Vec) (idxv : Nat → Nat) (nomv : Rat) (o : Own) (tsL : List Rat)
    (i : Nat) (hi : i < tsL.length - 1) :
    (interpOwnAll X idxv nomv o tsL).dropLast.getD i 0 = interpOwn X idxv nomv o (tsL.getD i 0) := by
  unfold interpOwnAll
  rw [getD_dropLast_of_lt _ _ _ (by simpa using hi)]
  exact getD_map_of_lt _ _ _ _ 0 (by omega)

theorem interpOwnAll_tail (X : Vec) (idxv : Nat → Nat) (nomv : Rat) (o : Own) (tsL : List Rat)
    (i : Nat) (hi : i < tsL.length - 1) :
    (interpOwnAll X idxv nomv o tsL).tail.getD i 0 = interpOwn X idxv nomv o (tsL.getD (i + 1) 0) := by
  unfold interpOwnAll
  rw [getD_tail]
  exact getD_map_of_lt _ _ _ _ 0 (by omega)

/-- explicit half of row `i`: the decoded variable at collocation time `i` -/
theorem stateEntry_explicit (s : Sys) (X : Vec) (idx : Nat → Nat → Nat) (i j : Nat)
    (hj : j < s.k) (hi : i < s.n - 1) :
    stateEntry s X idx (interpolatedFlat X idx s.nom s.k s.n) i j = decodeVar s X idx j i := by
  unfold stateEntry decodeVar
  simp only [hj, if_true]
  cases h : s.own j with
  | none => exact reshape_explicit X idx s.nom s.k s.n i j hj hi
  | some o => exact interpOwnAll_dropLast X (idx j) (s.nom j) o s.tsL i hi

/-- implicit half of row `i`: the decoded variable at collocation time `i + 1` -/
theorem stateEntry_implicit (s : Sys) (X : Vec) (idx : Nat → Nat → Nat) (i j : Nat)
    (hj : j < s.k) (hi : i < s.n - 1) :
    stateEntry s X idx (interpolatedFlat X idx s.nom s.k s.n) i (s.k + j) = decodeVar s X idx j (i + 1) := by
  unfold stateEntry decodeVar
  have h1 : ¬ (s.k + j < s.k) := by omega
  have h2 : s.k + j - s.k = j := by omega
  simp only [h1, if_false, h2]
  cases h : s.own j with
  | none => exact reshape_implicit X idx s.nom s.k s.n i j hj hi
  | some o => exact interpOwnAll_tail X (idx j) (s.nom j) o s.tsL i hi

theorem stateCols_length (s : Sys) (X : Vec) (idx : Nat → Nat → Nat) (i : Nat) :
    (stateCols s X idx i).length = 2 * s.k := by
  simp [stateCols]

/-- the two halves of the row are the decoded physical variables at `i` and `i + 1` -/
theorem stateCols_take (s : Sys) (X : Vec) (idx : Nat → Nat → Nat) (i : Nat) (hi : i < s.n - 1) :
    (stateCols s X idx i).take s.k = decode s X idx i := by
  unfold stateCols decode
  simp only
  rw [← List.map_take]
  have : (List.range (2 * s.k)).take s.k = List.range s.k := by
    rw [List.take_range]; congr 1; omega
  rw [this]
  apply List.map_congr_left
  intro j hj
  exact stateEntry_explicit s X idx i j (List.mem_range.mp hj) hi

theorem stateCols_drop (s : Sys) (X : Vec) (idx : Nat → Nat → Nat) (i : Nat) (hi : i < s.n - 1) :
    (stateCols s X idx i).drop s.k = decode s X idx (i + 1) := by
  unfold stateCols decode
  simp only
  rw [← List.map_drop]
  have : (List.range (2 * s.k)).drop s.k = (List.range s.k).map (fun j => s.k + j) := by
    apply List.ext_getElem
    · simp; omega
    · intro a h1 h2; simp
  rw [this, List.map_map]
  apply List.map_congr_left
  intro j hj
  exact stateEntry_implicit s X idx i j (List.mem_range.mp hj) hi

/-! ### slices of the mapped input row -/

theorem slice_zero (l : List Rat) (b : Nat) : slice l 0 b = l.take b := by
  simp [slice]

/-- slicing an append at the boundary of the first part -/
theorem slice_append_right (a b : List Rat) (lo hi : Nat) (h : a.length ≤ lo) :
    slice (a ++ b) lo hi = slice b (lo - a.length) (hi - a.length) := by
  unfold slice
  rw [List.drop_append, List.drop_eq_nil_of_le h, List.nil_append]
  congr 1
  omega

theorem slice_append_left (a b : List Rat) (lo hi : Nat) (h : hi ≤ a.length) :
    slice (a ++ b) lo hi = slice a lo hi := by
  unfold slice
  rw [List.drop_append, List.take_append]
  have : hi - lo - (List.drop lo a).length = 0 := by
    rw [List.length_drop]; omega
  rw [this]
  simp

theorem slice_all (l : List Rat) : slice l 0 l.length = l := by
  simp [slice]

/-- the six pieces the mapped function cuts out of its input row -/
theorem uRow_pieces (s : Sys) (c : Mem) (X : Vec) (i : Nat) (hi : i < s.n - 1) :
    let u := uRow s c X i
    slice u 0 s.k = decode s X c.idx i
    ∧ slice u s.k (2 * s.k) = decode s X c.idx (i + 1)
    ∧ slice u (2 * s.k) (2 * s.k + s.nc) = inputsAt s c i
    ∧ slice u (2 * s.k + s.nc) (2 * s.k + 2 * s.nc) = inputsAt s c (i + 1)
    ∧ u.getD (2 * (s.k + s.nc)) 0 = s.ts i
    ∧ u.getD (2 * (s.k + s.nc) + 1) 0 = s.ts (i + 1) := by
  intro u
  have hA : (stateCols s X c.idx i).length = 2 * s.k := stateCols_length s X c.idx i
  set A := stateCols s X c.idx i with hAdef
  set B := (List.range s.nc).map (fun j => ((c.civ j).take (s.n - 1)).getD i 0) with hBdef
  set C := (List.range s.nc).map (fun j => (((c.civ j).take s.n).drop 1).getD i 0) with hCdef
  set T := [(s.tsL.take (s.n - 1)).getD i 0, ((s.tsL.take s.n).drop 1).getD i 0] with hTdef
  have hB : B.length = s.nc := by simp [hBdef]
  have hC : C.length = s.nc := by simp [hCdef]
  have hu : u = A ++ (B ++ (C ++ (T ++ c.extraU i))) := by
    simp [u, uRow, hAdef, hBdef, hCdef, hTdef, List.append_assoc]
  have hBv : B = inputsAt s c i := by
    simp only [hBdef, inputsAt]
    apply List.map_congr_left
    intro j _
    exact getD_take_of_lt _ _ _ _ hi
  have hCv : C = inputsAt s c (i + 1) := by
    simp only [hCdef, inputsAt]
    apply List.map_congr_left
    intro j _
    rw [getD_drop_one]
    exact getD_take_of_lt _ _ _ _ (by omega)
  refine ⟨?_, ?_, ?_, ?_, ?_, ?_⟩
  · rw [hu, slice_append_left _ _ _ _ (by omega), slice_zero]
    exact stateCols_take s X c.idx i hi
  · rw [hu, slice_append_left _ _ _ _ (by omega)]
    unfold slice
    have : 2 * s.k - s.k = s.k := by omega
    rw [this, List.take_of_length_le (by rw [List.length_drop]; omega)]
    exact stateCols_drop s X c.idx i hi
  · rw [hu, slice_append_right _ _ _ _ (by omega), hA]
    have e1 : 2 * s.k - 2 * s.k = 0 := by omega
    have e2 : 2 * s.k + s.nc - 2 * s.k = B.length := by omega
    rw [e1, e2, slice_append_left _ _ _ _ (le_refl _), slice_all, hBv]
  · rw [hu, slice_append_right _ _ _ _ (by omega), hA]
    have e1 : 2 * s.k + s.nc - 2 * s.k = B.length := by omega
    have e2 : 2 * s.k + 2 * s.nc - 2 * s.k = B.length + s.nc := by omega
    rw [e1, e2, slice_append_right _ _ _ _ (le_refl _)]
    have e3 : B.length - B.length = 0 := by omega
    have e4 : B.length + s.nc - B.length = C.length := by omega
    rw [e3, e4, slice_append_left _ _ _ _ (le_refl _), slice_all, hCv]
  · rw [hu]
    rw [List.getD_append_right _ _ _ _ (by omega), hA]
    have e1 : 2 * (s.k + s.nc) - 2 * s.k = B.length + s.nc := by omega
    rw [e1, List.getD_append_right _ _ _ _ (by omega)]
    have e2 : B.length + s.nc - B.length = C.length := by omega
    rw [e2, List.getD_append_right _ _ _ _ (le_refl _)]
    simp only [Nat.sub_self, hTdef]
    simp only [List.cons_append, List.getD_cons_zero]
    unfold Sys.ts
    exact getD_take_of_lt _ _ _ _ hi
  · rw [hu]
    rw [List.getD_append_right _ _ _ _ (by omega), hA]
    have e1 : 2 * (s.k + s.nc) + 1 - 2 * s.k = B.length + s.nc + 1 := by omega
    rw [e1, List.getD_append_right _ _ _ _ (by omega)]
    have e2 : B.length + s.nc + 1 - B.length = C.length + 1 := by omega
    rw [e2, List.getD_append_right _ _ _ _ (by omega)]
    have e3 : C.length + 1 - C.length = 1 := by omega
    simp only [e3, hTdef]
    simp only [List.cons_append, List.getD_cons_succ, List.getD_cons_zero]
    unfold Sys.ts
    rw [getD_drop_one]
    exact getD_take_of_lt _ _ _ _ (by unfold Sys.n at hi ⊢; omega)

/-! ### the theta branch -/

theorem vadd_scale_zero_right (a b : List Rat) (h : a.length = b.length) :
    vadd (vscale 1 a) (vscale 0 b) = a := by
  unfold vadd vscale
  induction a generalizing b with
  | nil => simp
  | cons x xs ih =>
    cases b with
    | nil => simp at h
    | cons y ys =>
      simp at h
      have := ih ys h
      simp at this
      simp [this]

theorem vadd_scale_zero_left (a b : List Rat) (h : a.length = b.length) :
    vadd (vscale 0 a) (vscale 1 b) = b := by
  unfold vadd vscale
  induction a generalizing b with
  | nil => cases b with | nil => simp | cons y ys => simp at h
  | cons x xs ih =>
    cases b with
    | nil => simp at h
    | cons y ys =>
      simp at h
      have := ih ys h
      simp at this
      simp [this]

/-- the blend formula, without special cases -/
def blend (theta : Rat) (a b : List Rat) : List Rat := vadd (vscale (1 - theta) a) (vscale theta b)

theorem blend_length (theta : Rat) (a b : List Rat) (h : a.length = b.length) :
    (blend theta a b).length = a.length := by
  simp [blend, vadd, vscale, h]

/-- the code's three-way branch is the blend formula for every theta -/
theorem collocBlock_eq_blend (F : Residual) (ne : Nat) (hF : ∀ a b c d e, (F a b c d e).length = ne)
    (theta tinit : Rat) (p s0 s1 c0 c1 : List Rat) (ta tb : Rat) :
    collocBlock F theta tinit p s0 s1 c0 c1 ta tb
      = blend theta (F s0 ((vsub s1 s0).map (· / (tb - ta))) c0 (ta - tinit) p)
                    (F s1 ((vsub s1 s0).map (· / (tb - ta))) c1 (tb - tinit) p) := by
  unfold collocBlock blend
  by_cases h0 : theta = 0
  · subst h0
    simp only [if_true, sub_zero]
    rw [vadd_scale_zero_right _ _ (by rw [hF, hF])]
  · by_cases h1 : theta = 1
    · subst h1
      simp only [h0, if_false, if_true, sub_self]
      rw [vadd_scale_zero_left _ _ (by rw [hF, hF])]
    · simp only [h0, h1, if_false]

/-- entry `e` of a blend -/
theorem blend_getD (theta : Rat) (a b : List Rat) (e : Nat) (ha : e < a.length) (hb : e < b.length) :
    (blend theta a b).getD e 0 = (1 - theta) * a.getD e 0 + theta * b.getD e 0 := by
  unfold blend vadd vscale
  simp [List.getD_eq_getElem?_getD, List.getElem?_zipWith,
    List.getElem?_eq_getElem ha, List.getElem?_eq_getElem hb]

end RtcVerif.C01
