import RtcVerif.Model.C01Colloc
import RtcVerif.Proofs.C01Lists
/-!
Bridging lemmas for the definitions generated from the source by harness/translate_c01.py
(`lean/RtcVerif/Gen/CollocKernels.lean`).
-/
namespace RtcVerif.C01

theorem vadd_comm (a b : List Rat) : vadd a b = vadd b a := by
  unfold vadd
  exact List.zipWith_comm_of_comm (fun x y => add_comm x y)

/-- the DAE block in terms of the index table (what the generated index table is compared with) -/
theorem blockOfRow_idx (F : Residual) (theta tinit : Rat) (par : List Rat) (k nc : Nat) (u : List Rat) :
    blockOfRow F theta tinit par k nc u
      = collocBlock F theta tinit par
          (slice u ((sliceIdx k nc).getD 0 (0, 0)).1 ((sliceIdx k nc).getD 0 (0, 0)).2)
          (slice u ((sliceIdx k nc).getD 1 (0, 0)).1 ((sliceIdx k nc).getD 1 (0, 0)).2)
          (slice u ((sliceIdx k nc).getD 2 (0, 0)).1 ((sliceIdx k nc).getD 2 (0, 0)).2)
          (slice u ((sliceIdx k nc).getD 3 (0, 0)).1 ((sliceIdx k nc).getD 3 (0, 0)).2)
          (u.getD (timeIdx k nc).1 0) (u.getD (timeIdx k nc).2 0) := rfl

/-- `stateEntry` puts the interpolant of a variable with its own time stamps into the columns
    listed by `ownCols`: `[:-1]` into the first, `[1:]` into the second -/
theorem stateEntry_ownCols (s : Sys) (X : Vec) (idx : Nat → Nat → Nat) (flat : List Rat) (i v : Nat)
    (o : Own) (hv : v < s.k) (h : s.own v = some o) :
    stateEntry s X idx flat i ((ownCols s.k v).getD 0 (0, 0)).1
        = (interpOwnAll X (idx v) (s.nom v) o s.tsL).dropLast.getD i 0
    ∧ stateEntry s X idx flat i ((ownCols s.k v).getD 1 (0, 0)).1
        = (interpOwnAll X (idx v) (s.nom v) o s.tsL).tail.getD i 0 := by
  have h1 : ¬ (s.k + v < s.k) := by omega
  have h2 : s.k + v - s.k = v := by omega
  constructor
  · simp [stateEntry, ownCols, hv, h]
  · simp [stateEntry, ownCols, h1, h2, h]

end RtcVerif.C01
