import RtcVerif.Model.C01Colloc
import RtcVerif.Proofs.C01Lists
import RtcVerif.Proofs.InterpLemmas
import RtcVerif.Props.C19
/-!
Per-member data: the parameter classification is semantically invisible (each member's residual
sees that member's own values); constant inputs interpolated at the collocation times are the
member's own series evaluated at each collocation time (fill `0` outside).
-/
namespace RtcVerif.C01
open RtcVerif RtcVerif.Interp

theorem map_range_getD (l : List Rat) : (List.range l.length).map (fun j => l.getD j 0) = l := by
  apply ext_getD _ _ 0 (by simp)
  intro i hi
  have hi' : i < l.length := by simpa using hi
  rw [getD_map_of_lt _ _ _ _ 0 (by simpa using hi')]
  simp [List.getD_eq_getElem?_getD, List.getElem?_range hi']

/-- a parameter classified "constant over the ensemble" has, for every member, the value of member 0 -/
theorem isConstPar_sound (E : Nat) (pvals : Nat → List Rat) (j m : Nat) (hm : m < E)
    (h : isConstPar E pvals j = true) : (pvals 0).getD j 0 = (pvals m).getD j 0 := by
  unfold isConstPar at h
  rcases Bool.or_eq_true_iff.1 h with h1 | h2
  · have : E = 1 := by simpa using h1
    have : m = 0 := by omega
    subst this; rfl
  · cases m with
    | zero => rfl
    | succ m =>
      rw [List.all_eq_true] at h2
      have := h2 m (List.mem_range.2 (by omega))
      have h3 : (pvals (m + 1)).getD j 0 = (pvals 0).getD j 0 := by simpa using this
      exact h3.symm

/-- **the classification is invisible**: the parameter vector the residual of member `m` sees is
    that member's own vector -/
theorem effPar_eq (E npar : Nat) (dyn : Nat → Bool) (pvals : Nat → List Rat) (m : Nat) (hm : m < E)
    (hlen : (pvals m).length = npar) : effPar E npar dyn pvals m = pvals m := by
  unfold effPar
  have : (List.range npar).map (fun j =>
      if isConstPar E pvals j && !dyn j then (pvals 0).getD j 0 else (pvals m).getD j 0)
      = (List.range npar).map (fun j => (pvals m).getD j 0) := by
    apply List.map_congr_left
    intro j _
    by_cases h : (isConstPar E pvals j && !dyn j) = true
    · simp only [h, if_true]
      exact isConstPar_sound E pvals j m hm (Bool.and_eq_true_iff.1 h).1
    · simp only [h]
      rfl
  rw [this, ← hlen]
  exact map_range_getD _

/-! ### constant inputs -/

theorem linFrom_val (ks : Knots) (hne : ks ≠ []) (b t : Rat) :
    ∃ q, linFrom ks (.val (XVal.fin b)) t = .val (XVal.fin q) := by
  induction ks with
  | nil => exact absurd rfl hne
  | cons a l ih =>
    obtain ⟨t0, f0⟩ := a
    cases l with
    | nil =>
      by_cases h : t0 < t
      · exact ⟨b, by simp [linFrom, h]⟩
      · exact ⟨f0, by simp [linFrom, h]⟩
    | cons c l =>
      obtain ⟨t1, f1⟩ := c
      by_cases h : t < t1
      · exact ⟨f0 + (f1 - f0) / (t1 - t0) * (t - t0), by simp only [linFrom, h, if_true]⟩
      · obtain ⟨q, hq⟩ := ih (by simp)
        exact ⟨q, by rw [linFrom_step _ _ _ _ _ _ _ h]; exact hq⟩

/-- with numeric fill values the interpolation never raises and never yields NaN -/
theorem interpCore_val (mode : Nat) (hm : mode ≤ 2) (ks : Knots) (hne : ks ≠ []) (a b t : Rat) :
    ∃ q, interpCore mode ks (some (XVal.fin a)) (some (XVal.fin b)) t = .val (XVal.fin q) := by
  obtain ⟨⟨t0, f0⟩, rest, rfl⟩ := List.exists_cons_of_ne_nil hne
  unfold interpCore
  by_cases h1 : t < t0
  · exact ⟨a, by simp [h1, hm, fillOut]⟩
  · by_cases h2 : lastTime ((t0, f0) :: rest) < t
    · exact ⟨b, by simp [h1, h2, hm, fillOut]⟩
    · simp only [h1, h2, if_false]
      obtain rfl | rfl | rfl : mode = 0 ∨ mode = 1 ∨ mode = 2 := by omega
      · exact linFrom_val _ (by simp) b t
      · exact ⟨_, rfl⟩
      · exact ⟨_, rfl⟩

theorem interpCore_val_eq (mode : Nat) (hm : mode ≤ 2) (ks : Knots) (hne : ks ≠ []) (a b t : Rat) :
    interpCore mode ks (some (XVal.fin a)) (some (XVal.fin b)) t
      = .val (XVal.fin (outRat (interpCore mode ks (some (XVal.fin a)) (some (XVal.fin b)) t))) := by
  obtain ⟨q, hq⟩ := interpCore_val mode hm ks hne a b t
  rw [hq]
  rfl

/-- the interpolated series handed to the rows is, entry by entry, the member's own series
    evaluated at the collocation time (fill `0.0` outside its range) -/
theorem ciVals_getD (mode : Nat) (hm : mode ≤ 2) (ks : Knots) (hs : Sorted ks) (hne : ks ≠ [])
    (tsL : List Rat) (i : Nat) (hi : i < tsL.length) :
    (ciVals mode ks tsL).getD i 0
      = outRat (interpCore mode ks (some (XVal.fin 0)) (some (XVal.fin 0)) (tsL.getD i 0)) := by
  unfold ciVals
  rw [C19.interp_array_early_exit_agrees mode hm ks hs hne]
  have : tsL.map (interpCore mode ks (some (XVal.fin 0)) (some (XVal.fin 0)))
      = (tsL.map (fun t => XVal.fin (outRat (interpCore mode ks (some (XVal.fin 0)) (some (XVal.fin 0)) t)))).map Out.val := by
    rw [List.map_map]
    apply List.map_congr_left
    intro t _
    exact interpCore_val_eq mode hm ks hne 0 0 t
  rw [this, sequence_map_val]
  simp only [List.map_map]
  rw [getD_map_of_lt _ _ _ _ 0 hi]
  rfl

theorem ciVals_length (mode : Nat) (hm : mode ≤ 2) (ks : Knots) (hs : Sorted ks) (hne : ks ≠ [])
    (tsL : List Rat) : (ciVals mode ks tsL).length = tsL.length := by
  unfold ciVals
  rw [C19.interp_array_early_exit_agrees mode hm ks hs hne]
  have : tsL.map (interpCore mode ks (some (XVal.fin 0)) (some (XVal.fin 0)))
      = (tsL.map (fun t => XVal.fin (outRat (interpCore mode ks (some (XVal.fin 0)) (some (XVal.fin 0)) t)))).map Out.val := by
    rw [List.map_map]
    apply List.map_congr_left
    intro t _
    exact interpCore_val_eq mode hm ks hne 0 0 t
  rw [this, sequence_map_val]
  simp

/-- the executable well-formedness check is sound -/
theorem wfb_sound (I : Inst) (h : I.wfb = true) : I.WF := by
  unfold Inst.wfb at h
  simp only [Bool.and_eq_true, List.all_eq_true, List.mem_range, beq_iff_eq, decide_eq_true_eq,
    Bool.not_eq_true', List.isEmpty_eq_false_iff] at h
  obtain ⟨⟨h1, h2⟩, h3⟩ := h
  exact {
    par_len := fun m hm => (h1 m hm).1
    cin_sorted := fun m j hm hj => ((h1 m hm).2 j hj).1
    cin_ne := fun m j hm hj => ((h1 m hm).2 j hj).2
    cmode_ok := fun j hj => h2 j hj
    nd_le := h3 }

end RtcVerif.C01
