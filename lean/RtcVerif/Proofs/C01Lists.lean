import Mathlib.Tactic.Linarith
import Mathlib.Tactic.Ring
import Mathlib.Algebra.Order.Field.Rat
import Mathlib.Data.List.GetD
/-! List lemmas used by the C01 refinement proofs (blocks of equal length, slices, scatter). -/
namespace RtcVerif.C01

/-- length of a concatenation of `k` blocks of length `r` -/
theorem flatMap_range_length {α} (f : Nat → List α) (r : Nat) (hlen : ∀ v, (f v).length = r) (k : Nat) :
    ((List.range k).flatMap f).length = k * r := by
  induction k with
  | zero => simp
  | succ k ih =>
    rw [List.range_succ, List.flatMap_append, List.length_append, ih]
    simp [hlen]; ring

/-- element of a concatenation of equal-length blocks -/
theorem flatMap_range_getD {α} (f : Nat → List α) (r : Nat) (d : α) (hlen : ∀ v, (f v).length = r) :
    ∀ (k j i : Nat), j < k → i < r →
      ((List.range k).flatMap f).getD (j * r + i) d = (f j).getD i d := by
  intro k
  induction k with
  | zero => intro j i hj; omega
  | succ k ih =>
    intro j i hj hi
    rw [List.range_succ, List.flatMap_append]
    have hl : ((List.range k).flatMap f).length = k * r := flatMap_range_length f r hlen k
    by_cases hjk : j < k
    · have hlt : j * r + i < ((List.range k).flatMap f).length := by
        rw [hl]
        calc j * r + i < j * r + r := by omega
          _ = (j + 1) * r := by ring
          _ ≤ k * r := Nat.mul_le_mul_right r hjk
      rw [List.getD_append _ _ _ _ hlt]
      exact ih j i hjk hi
    · have hjeq : j = k := by omega
      subst hjeq
      have hge : ((List.range j).flatMap f).length ≤ j * r + i := by rw [hl]; omega
      rw [List.getD_append_right _ _ _ _ hge, hl]
      simp

/-- `l[:-1]` of a list given by a function on `range n` -/
theorem dropLast_map_range {α} (f : Nat → α) (n : Nat) :
    ((List.range n).map f).dropLast = (List.range (n - 1)).map f := by
  rw [List.dropLast_eq_take, List.length_map, List.length_range, ← List.map_take, List.take_range]
  congr 2
  omega

/-- `l[1:]` of a list given by a function on `range n` -/
theorem tail_map_range {α} (f : Nat → α) (n : Nat) :
    ((List.range n).map f).tail = (List.range (n - 1)).map (fun i => f (i + 1)) := by
  cases n with
  | zero => simp
  | succ n =>
    rw [List.range_succ_eq_map]
    simp [List.map_map, Function.comp_def]

theorem getD_take_of_lt {α} (l : List α) (a i : Nat) (d : α) (h : i < a) :
    (l.take a).getD i d = l.getD i d := by
  simp [List.getD_eq_getElem?_getD, h]

theorem getD_drop_one {α} (l : List α) (i : Nat) (d : α) :
    (l.drop 1).getD i d = l.getD (i + 1) d := by
  simp [List.getD_eq_getElem?_getD]

theorem getD_dropLast_of_lt {α} (l : List α) (i : Nat) (d : α) (h : i < l.length - 1) :
    l.dropLast.getD i d = l.getD i d := by
  rw [List.dropLast_eq_take]
  exact getD_take_of_lt l _ i d h

theorem getD_tail {α} (l : List α) (i : Nat) (d : α) :
    l.tail.getD i d = l.getD (i + 1) d := by
  rw [← List.drop_one]
  exact getD_drop_one l i d

theorem getD_map_of_lt {α β} (f : α → β) (l : List α) (i : Nat) (d : β) (d' : α) (h : i < l.length) :
    (l.map f).getD i d = f (l.getD i d') := by
  simp [List.getD_eq_getElem?_getD, List.getElem?_map, List.getElem?_eq_getElem h]

/-- two lists of the same length with the same entries are equal -/
theorem ext_getD {α} (a b : List α) (d : α) (hl : a.length = b.length)
    (h : ∀ i, i < a.length → a.getD i d = b.getD i d) : a = b := by
  apply List.ext_getElem hl
  intro i h1 h2
  have := h i h1
  simpa [List.getD_eq_getElem?_getD, List.getElem?_eq_getElem h1, List.getElem?_eq_getElem h2] using this

theorem flatMap_congr' {α β} (l : List α) (f g : α → List β) (h : ∀ x ∈ l, f x = g x) :
    l.flatMap f = l.flatMap g := by
  induction l with
  | nil => rfl
  | cons a l ih =>
    simp only [List.flatMap_cons]
    rw [h a (by simp), ih (fun x hx => h x (by simp [hx]))]

end RtcVerif.C01
