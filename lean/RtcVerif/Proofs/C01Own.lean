import RtcVerif.Model.C01Colloc
import RtcVerif.Proofs.InterpLemmas
/-!
Variables with their own time stamps: the code interpolates the *scaled* decision variables and
multiplies by the nominal afterwards; this equals the interpolant of the physical values, because
every interpolation mode commutes with multiplication by a constant.
-/
namespace RtcVerif.C01
open RtcVerif RtcVerif.Interp

/-- multiply all knot values by `c` -/
def scaleKnots (c : Rat) (ks : Knots) : Knots := ks.map (fun p => (p.1, c * p.2))

theorem scaleKnots_cons (c : Rat) (t f : Rat) (ks : Knots) :
    scaleKnots c ((t, f) :: ks) = (t, c * f) :: scaleKnots c ks := rfl

theorem lastTime_scale (c : Rat) (ks : Knots) : lastTime (scaleKnots c ks) = lastTime ks := by
  unfold lastTime scaleKnots
  rw [List.getLast?_map]
  cases ks.getLast? <;> rfl

theorem lastVal_scale (c : Rat) (ks : Knots) : lastVal (scaleKnots c ks) = c * lastVal ks := by
  unfold lastVal scaleKnots
  rw [List.getLast?_map]
  cases ks.getLast? <;> simp

theorem firstVal_scale (c : Rat) (ks : Knots) : firstVal (scaleKnots c ks) = c * firstVal ks := by
  cases ks with
  | nil => simp [firstVal, scaleKnots]
  | cons a l => simp [firstVal, scaleKnots]

theorem linFrom_scale (c b t : Rat) (ks : Knots) :
    outRat (linFrom (scaleKnots c ks) (.val (XVal.fin (c * b))) t)
      = c * outRat (linFrom ks (.val (XVal.fin b)) t) := by
  induction ks with
  | nil => simp [scaleKnots, linFrom, outRat, xvalRat, XVal.fin]
  | cons a l ih =>
    obtain ⟨t0, f0⟩ := a
    cases l with
    | nil =>
      by_cases h : t0 < t <;> simp [scaleKnots, linFrom, h, outRat, xvalRat, XVal.fin]
    | cons d l =>
      obtain ⟨t1, f1⟩ := d
      by_cases h : t < t1
      · simp only [scaleKnots, List.map_cons, linFrom, h, if_true, outRat, xvalRat, XVal.fin]
        ring
      · have e1 : scaleKnots c ((t0, f0) :: (t1, f1) :: l) = (t0, c * f0) :: (t1, c * f1) :: scaleKnots c l := rfl
        rw [e1, linFrom_step _ _ _ _ _ _ _ h, linFrom_step _ _ _ _ _ _ _ h]
        exact ih

theorem prevFrom_scale (c t : Rat) (ks : Knots) (cur : Rat) :
    prevFrom (scaleKnots c ks) (c * cur) t = c * prevFrom ks cur t := by
  induction ks generalizing cur with
  | nil => rfl
  | cons a l ih =>
    obtain ⟨t0, f0⟩ := a
    by_cases h : t0 ≤ t
    · simp only [scaleKnots_cons, prevFrom, h, if_true]
      exact ih f0
    · simp only [scaleKnots_cons, prevFrom, h, if_false]

theorem nextFrom_scale (c t : Rat) (ks : Knots) (last : Rat) :
    nextFrom (scaleKnots c ks) (c * last) t = c * nextFrom ks last t := by
  induction ks generalizing last with
  | nil => rfl
  | cons a l ih =>
    obtain ⟨t0, f0⟩ := a
    by_cases h : t ≤ t0
    · simp only [scaleKnots_cons, nextFrom, h, if_true]
    · simp only [scaleKnots_cons, nextFrom, h, if_false]
      exact ih f0

theorem interpCore_cons (mode : Nat) (t0 f0 : Rat) (rest : Knots) (fl fr : Fill) (t : Rat) :
    interpCore mode ((t0, f0) :: rest) fl fr t =
      if t < t0 then (if mode ≤ 2 then fillOut fl else .raise)
      else if lastTime ((t0, f0) :: rest) < t then (if mode ≤ 2 then fillOut fr else .raise)
      else
        match mode with
        | 0 => linFrom ((t0, f0) :: rest) (fillOut fr) t
        | 1 => .val (XVal.fin (prevFrom rest f0 t))
        | 2 => .val (XVal.fin (nextFrom ((t0, f0) :: rest) (lastVal ((t0, f0) :: rest)) t))
        | _ => .raise := rfl

theorem interpCore_scale (mode : Nat) (c a b t : Rat) (ks : Knots) :
    outRat (interpCore mode (scaleKnots c ks) (some (XVal.fin (c * a))) (some (XVal.fin (c * b))) t)
      = c * outRat (interpCore mode ks (some (XVal.fin a)) (some (XVal.fin b)) t) := by
  cases ks with
  | nil => simp [scaleKnots, interpCore, outRat]
  | cons p rest =>
    obtain ⟨t0, f0⟩ := p
    have hl : lastTime ((t0, c * f0) :: scaleKnots c rest) = lastTime ((t0, f0) :: rest) := by
      rw [← scaleKnots_cons, lastTime_scale]
    have hv : lastVal ((t0, c * f0) :: scaleKnots c rest) = c * lastVal ((t0, f0) :: rest) := by
      rw [← scaleKnots_cons, lastVal_scale]
    rw [scaleKnots_cons, interpCore_cons, interpCore_cons, hl]
    by_cases h1 : t < t0
    · by_cases hm : mode ≤ 2 <;> simp [h1, hm, fillOut, outRat, xvalRat, XVal.fin]
    · by_cases h2 : lastTime ((t0, f0) :: rest) < t
      · by_cases hm : mode ≤ 2 <;> simp [h1, h2, hm, fillOut, outRat, xvalRat, XVal.fin]
      · simp only [h1, h2, if_false]
        match mode with
        | 0 => exact linFrom_scale c b t ((t0, f0) :: rest)
        | 1 =>
          simp only [outRat, xvalRat, XVal.fin]
          exact prevFrom_scale c t rest f0
        | 2 =>
          simp only [outRat, xvalRat, XVal.fin]
          rw [hv]
          exact nextFrom_scale c t ((t0, f0) :: rest) _
        | _ + 3 => simp [outRat]

/-- the symbolic interpolant commutes with scaling of the values -/
theorem interpSym_scale (mode : Nat) (c t : Rat) (ks : Knots) :
    outRat (interpSym mode (scaleKnots c ks) t) = c * outRat (interpSym mode ks t) := by
  unfold interpSym
  rw [firstVal_scale, lastVal_scale]
  exact interpCore_scale mode c _ _ t ks

/-- `nominal * interpolate(times, X[inds], t)` is the interpolant of the physical values -/
theorem interpOwn_physical (X : Vec) (idxv : Nat → Nat) (nomv : Rat) (o : Own) (t : Rat)
    (_hne : o.times ≠ []) :
    interpOwn X idxv nomv o t
      = outRat (interpSym o.mode
          (o.times.zip ((List.range o.times.length).map (fun q => nomv * X (idxv q)))) t) := by
  unfold interpOwn
  rw [← interpSym_scale]
  congr 2
  unfold scaleKnots
  have : (List.range o.times.length).map (fun q => nomv * X (idxv q))
      = ((List.range o.times.length).map (fun q => X (idxv q))).map (nomv * ·) := by
    simp [List.map_map, Function.comp_def]
  rw [this]
  simp only [List.zip_map_right, List.map_map]
  apply List.map_congr_left
  intro p _
  simp [Prod.map]

end RtcVerif.C01
