import RtcVerif.Model.C01Plumb
import RtcVerif.Proofs.C01Lists
import RtcVerif.Proofs.C01Colloc
import RtcVerif.Proofs.C01Rows
/-!
Bridging lemmas between the NumPy / Python-list level of `Model/C01Plumb.lean` (what the translator
generates from the source) and the model functions of the C01 property theorems.
-/
namespace RtcVerif.C01
open RtcVerif RtcVerif.Interp

/-! ### index lists -/

/-- the padded / cut list is the table `idxOf` read at `0 … n-1`, whatever the length of the raw
    list -/
theorem padCut_eq (l : List Nat) (n ph : Nat) :
    padCut l n ph = (List.range n).map (fun i => l.getD i ph) := by
  unfold padCut
  by_cases h : l.length = n
  · simp only [h, ne_eq, not_true_eq_false, if_false]
    apply List.ext_getElem
    · simp [h]
    · intro i h1 h2
      simp [List.getD_eq_getElem?_getD, List.getElem?_eq_getElem h1]
  · simp only [ne_eq, h, not_false_eq_true, if_true]
    apply List.ext_getElem
    · simp
    · intro i h1 h2
      have hi : i < n := by simpa using h2
      simp only [List.getElem_take, List.getElem_map, List.getElem_range]
      rw [List.getElem_append]
      by_cases hl : i < l.length
      · simp [hl, List.getD_eq_getElem?_getD]
      · simp [hl, List.getD_eq_getElem?_getD]

theorem explicitIndsCode_eq (raw : Nat → List Nat) (k n ph : Nat) :
    explicitIndsCode raw k n ph = explicitInds (idxOf raw ph) k n := by
  unfold explicitIndsCode explicitInds varInds
  congr 1
  funext v
  rw [padCut_eq]
  rfl

theorem implicitIndsCode_eq (raw : Nat → List Nat) (k n ph : Nat) :
    implicitIndsCode raw k n ph = implicitInds (idxOf raw ph) k n := by
  unfold implicitIndsCode implicitInds varInds
  congr 1
  funext v
  rw [padCut_eq]
  rfl

/-- a variable on the collocation grid (raw list of length `n`) is read at its own entries -/
theorem idxOf_lt (raw : Nat → List Nat) (ph v i : Nat) (h : i < (raw v).length) :
    idxOf raw ph v i = (raw v)[i] := by
  simp [idxOf, List.getD_eq_getElem?_getD, List.getElem?_eq_getElem h]

/-! ### tiled nominals, product -/

theorem repeatedNominalsCode_eq (nom : Nat → Rat) (k n : Nat) :
    repeatedNominalsCode nom k n = repeatedNominals nom k n := by
  unfold repeatedNominalsCode repeatedNominals npTile npRepeat
  simp [List.flatMap_map, List.replicate_succ]

theorem interpolatedFlatCode_eq (X : Vec) (raw : Nat → List Nat) (nom : Nat → Rat) (k n ph : Nat) :
    interpolatedFlatCode X raw nom k n ph = interpolatedFlat X (idxOf raw ph) nom k n := by
  unfold interpolatedFlatCode interpolatedFlat
  rw [explicitIndsCode_eq, implicitIndsCode_eq, repeatedNominalsCode_eq, List.map_append]

/-- entries of the column-major reshape of the code-level product to `(n-1) × 2k` -/
theorem stateMatrixCode_entries (X : Vec) (raw : Nat → List Nat) (nom : Nat → Rat) (k n ph i j : Nat)
    (hj : j < k) (hi : i < n - 1) :
    reshapeAt (interpolatedFlatCode X raw nom k n ph) (n - 1) i j = nom j * X (idxOf raw ph j i)
    ∧ reshapeAt (interpolatedFlatCode X raw nom k n ph) (n - 1) i (k + j)
        = nom j * X (idxOf raw ph j (i + 1)) := by
  rw [interpolatedFlatCode_eq]
  exact ⟨reshape_explicit X _ nom k n i j hj hi, reshape_implicit X _ nom k n i j hj hi⟩

/-! ### history block -/

theorem pyAt_zero (l : List Rat) : pyAt l 0 = l.getD 0 0 := by
  simp [pyAt]

theorem pyAt_last_two (p : List Rat) (a b : Rat) :
    pyAt (p ++ [a, b]) (-1) = b ∧ pyAt (p ++ [a, b]) (-2) = a := by
  have h1 : ¬ ((0 : Int) ≤ -1) := by decide
  have h2 : ¬ ((0 : Int) ≤ -2) := by decide
  have e1 : (-(-1 : Int)).toNat = 1 := by decide
  have e2 : (-(-2 : Int)).toNat = 2 := by decide
  constructor
  · unfold pyAt
    rw [if_neg h1, e1, if_pos (by simp)]
    have : (p ++ [a, b]).length - 1 = p.length + 1 := by simp
    rw [this, List.getD_append_right _ _ _ _ (by omega)]
    simp
  · unfold pyAt
    rw [if_neg h2, e2, if_pos (by simp)]
    have : (p ++ [a, b]).length - 2 = p.length := by simp
    rw [this, List.getD_append_right _ _ _ _ (by omega)]
    simp

theorem histDerCode_eq (h : Option Knots) (t0 : Rat) : histDerCode h t0 = histDer h t0 := by
  cases h with
  | none => rfl
  | some ks =>
    have hft : pyAt (ks.map (·.1)) 0 = firstTime ks := by
      rw [pyAt_zero]
      cases ks <;> simp [firstTime]
    simp only [histDerCode, histDer, Option.elim, hft]
    by_cases hc : firstTime ks = t0 ∨ ks.length = 1
    · simp only [hc, if_true]
    · simp only [hc, if_false]
      -- the last two points
      rcases hr : ks.reverse with _ | ⟨⟨t1, f1⟩, _ | ⟨⟨t2, f2⟩, r⟩⟩
      · have : ks = [] := by simpa using hr
        subst this
        simp [pyAt]
      · have : ks = [(t1, f1)] := by
          have := congrArg List.reverse hr
          simpa using this
        subst this
        exact absurd (Or.inr rfl) hc
      · have hk : ks = r.reverse ++ [(t2, f2), (t1, f1)] := by
          have := congrArg List.reverse hr
          simpa using this
        have e1 : ks.map (·.1) = (r.reverse.map (·.1)) ++ [t2, t1] := by rw [hk]; simp
        have e2 : ks.map (·.2) = (r.reverse.map (·.2)) ++ [f2, f1] := by rw [hk]; simp
        rw [e1, e2, (pyAt_last_two _ t2 t1).1, (pyAt_last_two _ t2 t1).2,
          (pyAt_last_two _ f2 f1).1, (pyAt_last_two _ f2 f1).2]

/-! ### `reduce_matvec` on the initial derivatives -/

/-- the initial derivatives are affine in the decision vector: decision variable × nominal for the
    differentiated states, a history constant otherwise; `reduce_matvec` (repaired) keeps both -/
theorem initDers_affine (s : Sys) (c : Mem) (X : Vec) :
    List.zipWith affVal (initDersLin s c X) (initDersConst s c) = initDers s c X := by
  unfold initDersLin initDersConst initDers
  rw [List.zipWith_map_left, List.zipWith_map_right, List.zipWith_self]
  apply List.map_congr_left
  intro v _
  by_cases h : v < s.nd <;> simp [h, affVal]

/-- … and without the constant part (finding F36) every history constant is replaced by `0` -/
theorem initDers_affine_legacy (s : Sys) (c : Mem) (X : Vec) :
    List.zipWith affValLegacy (initDersLin s c X) (initDersConst s c)
      = (List.range s.k).map (fun v => if v < s.nd then s.dnom v * X (c.didx v) else 0) := by
  unfold initDersLin initDersConst
  rw [List.zipWith_map_left, List.zipWith_map_right, List.zipWith_self]
  apply List.map_congr_left
  intro v _
  rfl

/-! ### cache clearing -/

/-- if `clear_transcription_cache()` resets every slot that `transcribe()` reads when cached, the
    transcription after a clear is the transcription of a fresh object with the current data — whatever
    the cache held (history-free) -/
theorem clear_then_fresh {α β : Type} (slots cl : List String) (h : ∀ s ∈ slots, s ∈ cl)
    (build : α → String → β) (d : α) (cache : Cache β) :
    transcribeWith slots build d (clearSlots cl cache) = transcribeWith slots build d (fun _ => none) := by
  unfold transcribeWith
  apply List.map_congr_left
  intro s hs
  simp [useSlot, clearSlots, h s hs]

/-- … and a slot that is read but not cleared keeps what was built from the OLD data -/
theorem stale_slot_witness :
    transcribeWith ["a", "b"] (fun (d : Nat) _ => d) 2 (clearSlots ["a"] (fun _ => some 1)) = [2, 1]
    ∧ transcribeWith ["a", "b"] (fun (d : Nat) _ => d) 2 (fun _ => none) = [2, 2] := by
  decide

end RtcVerif.C01
